(* Text = list of Unicode code points.  Shared helpers, stdlib only. *)
From Coq Require Export List NArith Bool Arith Lia.
Export ListNotations.
Open Scope N_scope.

Definition text := list N.

Definition ch_us : N := 95.      (* _ *)
Definition ch_hyphen : N := 45.  (* - *)
Definition ch_dot : N := 46.     (* . *)
Definition ch_space : N := 32.
Definition ch_X : N := 88.
Definition ch_H : N := 72.
Definition ch_U : N := 85.

Definition mem (c : N) (l : text) : bool := existsb (N.eqb c) l.

Lemma mem_In c l : mem c l = true <-> In c l.
Proof.
  unfold mem. rewrite existsb_exists. split.
  - intros [x [Hin Heq]]. apply N.eqb_eq in Heq. subst. exact Hin.
  - intros Hin. exists c. split; [exact Hin | apply N.eqb_refl].
Qed.

Fixpoint text_eqb (a b : text) : bool :=
  match a, b with
  | [], [] => true
  | x :: a', y :: b' => N.eqb x y && text_eqb a' b'
  | _, _ => false
  end.

Lemma text_eqb_eq a b : text_eqb a b = true <-> a = b.
Proof.
  revert b; induction a as [|x a IH]; intros [|y b]; simpl; split; intros H; try congruence; try discriminate.
  - apply andb_true_iff in H. destruct H as [H1 H2]. apply N.eqb_eq in H1. apply IH in H2. congruence.
  - inversion H; subst. rewrite N.eqb_refl. simpl. apply IH. reflexivity.
Qed.

Fixpoint starts_with (p s : text) : bool :=
  match p, s with
  | [], _ => true
  | x :: p', y :: s' => N.eqb x y && starts_with p' s'
  | _ :: _, [] => false
  end.

Lemma starts_with_app p s : starts_with p (p ++ s) = true.
Proof. induction p as [|x p IH]; simpl; [reflexivity|]. rewrite N.eqb_refl. exact IH. Qed.

Lemma starts_with_spec p s : starts_with p s = true <-> exists r, s = p ++ r.
Proof.
  revert s; induction p as [|x p IH]; intros s; simpl.
  - split; [intros _; exists s; reflexivity | reflexivity].
  - destruct s as [|y s]; [split; [discriminate | intros [r Hr]; discriminate]|].
    rewrite andb_true_iff, N.eqb_eq, IH. split.
    + intros [-> [r ->]]. exists r. reflexivity.
    + intros [r Hr]. inversion Hr; subst. split; [reflexivity | exists r; reflexivity].
Qed.

(* drop the longest prefix whose characters satisfy p (Python's lstrip with a character set) *)
Fixpoint dropwhile (p : N -> bool) (s : text) : text :=
  match s with
  | [] => []
  | c :: r => if p c then dropwhile p r else s
  end.

Fixpoint takewhile (p : N -> bool) (s : text) : text :=
  match s with
  | [] => []
  | c :: r => if p c then c :: takewhile p r else []
  end.

Lemma take_drop_while p s : takewhile p s ++ dropwhile p s = s.
Proof. induction s as [|c r IH]; simpl; [reflexivity|]. destruct (p c); simpl; congruence. Qed.

Lemma takewhile_all p s : forallb p (takewhile p s) = true.
Proof. induction s as [|c r IH]; simpl; [reflexivity|]. destruct (p c) eqn:E; simpl; [rewrite E; exact IH | reflexivity]. Qed.

Lemma dropwhile_head p s : match dropwhile p s with [] => True | c :: _ => p c = false end.
Proof. induction s as [|c r IH]; simpl; [exact I|]. destruct (p c) eqn:E; [exact IH | exact E]. Qed.

Definition replace_ch (a b : N) (s : text) : text := map (fun c => if N.eqb c a then b else c) s.

Definition is_ascii (c : N) : bool := c <? 128.

(* ASCII lower / upper casing, identity elsewhere *)
Definition lower_ch (c : N) : N := if (65 <=? c) && (c <=? 90) then c + 32 else c.
Definition upper_ch (c : N) : N := if (97 <=? c) && (c <=? 122) then c - 32 else c.

Definition str (s : list nat) : text := map N.of_nat s.
