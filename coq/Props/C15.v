(* C15 -- Loading a Hy module from cached bytecode behaves like compiling it.
   Statements only; proofs are in Cmd/ImporterProofs.v and Cmd/ImporterGen.v. *)
From Coq Require Import String Ascii.
From HyV Require Import Base.Text Gen.CmdSuffixes Gen.CmdRequire Cmd.CmdlineModel Cmd.CmdlineProofs
  Cmd.ImporterModel Cmd.ImporterProofs Cmd.ImporterGen.

(* A file is compiled as Hy exactly when its extension (posixpath.splitext) is not one
   of the interpreter's own source suffixes -- for every file name. *)
Theorem C15_could_be_hy_iff : forall filename,
  could_be_hy filename = true <-> ~ In (ext_of filename) py_source_suffixes.
Proof. exact could_be_hy_iff. Qed.
Print Assumptions C15_could_be_hy_iff.

Theorem C15_py_extension_is_python : forall dir c stem,
  (dir = [] \/ exists d, dir = d ++ [os_sep]) -> N.eqb c os_extsep = false -> mem os_sep (c :: stem) = false ->
  could_be_hy (dir ++ c :: stem ++ txt ".py") = false.
Proof. exact py_extension_is_python. Qed.
Print Assumptions C15_py_extension_is_python.

Theorem C15_hy_extension_is_hy : forall dir c stem,
  (dir = [] \/ exists d, dir = d ++ [os_sep]) -> N.eqb c os_extsep = false -> mem os_sep (c :: stem) = false ->
  could_be_hy (dir ++ c :: stem ++ txt ".hy") = true.
Proof. exact hy_extension_is_hy. Qed.
Print Assumptions C15_hy_extension_is_hy.

Theorem C15_no_extension_is_hy : forall dir b,
  (dir = [] \/ exists d, dir = d ++ [os_sep]) -> mem os_sep b = false -> mem os_extsep b = false ->
  could_be_hy (dir ++ b) = true.
Proof. exact no_extension_is_hy. Qed.
Print Assumptions C15_no_extension_is_hy.

(* For every mangling function and every require entry shape (plain, dotted and
   relative module names; no importlike, *, :as, name lists with aliases):
   evaluating the arguments of the call that compile_require emits gives exactly
   the arguments of the call it makes at compile time. *)
Theorem C15_emitted_require_mirrors : forall mangle m rest this_module,
  run_time_args (emitted_call mangle m rest this_module) = Some (compile_time_args mangle m rest, this_module).
Proof. exact emitted_require_mirrors. Qed.
Print Assumptions C15_emitted_require_mirrors.

(* Every prefixed require -- (require m), (require m :as A) -- asks hy.macros.require for ALL macros of
   the module at compile time and, by the theorem above, at bytecode-load time too; the unprefixed
   forms keep what assignment_shape says ("EXPORTS" for the star form, the name list otherwise). *)
Theorem C15_prefixed_require_asks_for_all : forall mangle m rest prefix a,
  require_shape mangle m rest = (prefix, a) -> prefix <> [] -> a = AAll.
Proof. exact prefixed_require_asks_for_all. Qed.
Print Assumptions C15_prefixed_require_asks_for_all.
Theorem C15_unprefixed_require_keeps_shape : forall mangle m rest a,
  require_shape mangle m rest = ([], a) -> assignment_shape mangle m rest = ([], a).
Proof. exact unprefixed_require_keeps_shape. Qed.
Print Assumptions C15_unprefixed_require_keeps_shape.

(* hy.macros.require: the target after a successful call; the names "EXPORTS" covers. *)
Theorem C15_require_spec : forall mangle env src t a p t' out,
  require mangle env src t a p = inr (t', out) ->
  forall k, tget k t' = match last_transfer k out with Some f => Some f | None => tget k t end.
Proof. exact require_spec. Qed.
Print Assumptions C15_require_spec.

Theorem C15_transfer_spec : forall mangle src p pairs out, transfer_loop mangle src p pairs = inr out ->
  map new_name out = map (fun na => mangle (p ++ snd na)) pairs
  /\ map (fun x : transfer => snd (fst x)) out = map (fun na => mangle (fst na)) pairs
  /\ Forall (fun x : transfer => tget (snd (fst x)) src = Some (macro_of x)) out.
Proof. exact transfer_loop_spec. Qed.
Print Assumptions C15_transfer_spec.

Theorem C15_exports_spec : forall m k,
  In k (map fst (effective_pairs m AExports)) <->
  In k (keys (hm_macros m)) /\
  match hm_exports m with Some l => In k l | None => starts_with [95] k = false end.
Proof. exact (exports_spec (fun x => x)). Qed.
Print Assumptions C15_exports_spec.

(* For every module (any sequence of module-level require entries and defmacros)
   that compiles against given source modules: importing it from source (compile,
   then run) and importing it from bytecode (run only) leave _hy_macros with the
   same keys bound to the same macros. *)
Theorem C15_require_cached_eq_fresh : forall mangle env ops t1,
  compile_pass mangle env ops [] = inr t1 ->
  exists tf tc,
    table_after mangle env ops ImportFresh = inr tf /\ table_after mangle env ops ImportCached = inr tc
    /\ (forall k, tget k tf = tget k tc) /\ (forall k, In k (keys tf) <-> In k (keys tc)).
Proof. exact require_cached_eq_fresh. Qed.
Print Assumptions C15_require_cached_eq_fresh.

(* Not modelled (C15 is partial in this sense): writing and validating .pyc files,
   runpy, zipimport, and that executing the compiled code yields the same module
   values -- CPython's bytecode cache; decided by the subprocess oracle. *)
Definition C15_full_statement_beyond_macros : Prop :=
  forall (module_values : load -> list (text * N)), module_values ImportFresh = module_values ImportCached.

(* the hypothesis of C15_require_cached_eq_fresh is inhabited by a module with every entry shape *)
Theorem C15_example_module_compiles : exists t1, compile_pass mangle_simple ex_env ex_ops [] = inr t1.
Proof. exact (ex_intro _ _ ex_compiles). Qed.
Print Assumptions C15_example_module_compiles.
