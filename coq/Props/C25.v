(* C25 -- hy.repr of any readable model reads back to the same model.
   Statements only; proofs are in Print/RoundTrip.v, Print/ModelTheorems.v, Print/Witness25.v. *)
From HyV Require Import Print.Syntax Print.Names Print.Reader Print.ModelRepr Print.TableOracle Print.ReaderFacts
     Print.StringFacts Print.AtomFacts Print.SugarFacts Print.RoundTrip Print.ModelTheorems Print.Witness25
     Print.GenChecks Print.Toy.

(* The property as stated, for the models of printer and reader: every model the reader can produce
   is printed as a text whose reading evaluates back to the model (then printing again gives the same text). *)
Definition C25_full : Prop :=
  forall W : oracle, num_facts W -> forall m, readable W m -> repr_roundtrips W m.

(* Proved for the fragment [ok]: symbols, keywords, numbers, strings and bytes of any content, bracket strings,
   lists, tuples, sets, dicts, parenthesised forms, the six sugared forms, dotted identifiers, and f-strings /
   t-strings written with quotes (String components of any content, fields over any fragment model -- also one
   printed with a leading brace --, with a conversion and with a format spec of any number of plain-text and
   nested-field components), all nested to any depth.  Bracket strings may start with a newline.
   Missing from the proof (_partial): bracket f-strings (#[f[ ... ]f]), whose printer and reader models exist and
   are compared with the implementation on every run.  Outside the fragment by defect of the printer: the
   six classes refuted below. *)
Theorem C25_repr_read_roundtrip_partial :
  forall W : oracle, num_facts W -> forall m, ok W m -> repr_roundtrips W m.
Proof. exact repr_read_roundtrip. Qed.
Print Assumptions C25_repr_read_roundtrip_partial.

(* Inside a quoted structure (no prefix) the printed text of a fragment model reads back as the model itself,
   whatever delimiter follows: the statement the induction is about. *)
Theorem C25_inner_roundtrip :
  forall W : oracle, num_facts W -> forall m, ok W m ->
  forall rest, delim_start rest -> reads W RdForm (mrepr W m ++ rest) (RForm (Some m) rest).
Proof. exact inner_roundtrip. Qed.
Print Assumptions C25_inner_roundtrip.

(* Refutations of C25_full: models the reader produces (from the text in the comment) whose printed form does
   not read back to them; computed in Print/Witness25.v, replayed on the implementation by props/c25.py. *)
Theorem C25_refuted_spec_adjacent_strings :      (* f"{x :a{y = }}" *)
  exists m, readable W_plain m /\ ~ repr_roundtrips W_plain m.
Proof. exact spec_adjacent_strings. Qed.
Theorem C25_refuted_dotted_form_parts :          (* (. a ... b) *)
  exists m, readable W_plain m /\ ~ repr_roundtrips W_plain m.
Proof. exact dotted_form_parts. Qed.
Theorem C25_refuted_spec_text_unescaped :        (* f"{a :{{}" *)
  exists m, readable W_plain m /\ ~ repr_roundtrips W_plain m.
Proof. exact spec_text_unescaped. Qed.
Theorem C25_refuted_named_escape_text :          (* rf"\N{{x}}" *)
  exists m, readable W_plain m /\ ~ repr_roundtrips W_plain m.
Proof. exact named_escape_text. Qed.
Theorem C25_refuted_unquote_dotted_at :          (* (unquote @a.b) *)
  exists m, readable W_plain m /\ ~ repr_roundtrips W_plain m.
Proof. exact unquote_dotted_at. Qed.
Theorem C25_refuted_bracket_fstring_cr :         (* #[f[{a CR = }]f] *)
  exists m, readable W_plain m /\ ~ repr_roundtrips W_plain m.
Proof. exact bracket_fstring_cr. Qed.
Print Assumptions C25_refuted_spec_adjacent_strings.
Print Assumptions C25_refuted_unquote_dotted_at.

(* the oracle hypotheses are satisfiable *)
Theorem C25_oracle_hypotheses_satisfiable : exists W, num_facts W.
Proof. exact (ex_intro _ W_toy toy_facts). Qed.

(* the hypotheses of the partial theorem are met by a non-trivial model: '(a 'b #[x[hi]x] x.y) *)
Example C25_hypotheses_met : forall W,
  num W [97] = NotNum -> num W [98] = NotNum -> num W [120] = NotNum -> num W [121] = NotNum ->
  num W [120; 46; 121] = NotNum -> ok W m_example.
Proof. exact example_ok. Qed.

(* ... and by the f-string  f"a{x !r :{w}}" *)
Example C25_hypotheses_met_fstring : forall W, num W [120] = NotNum -> num W [119] = NotNum -> ok W m_fexample.
Proof. exact example_fstr_ok. Qed.

(* The inputs of the three repaired defects (74a77a1, 097ab1b, 1b21d76) are inside the fragment now. *)
Example C25_fixed_bracket_leading_newline : forall W, ok W m_bracket_nl.
Proof. exact bracket_nl_ok. Qed.
Example C25_fixed_spec_components_and_brace_form : forall W,
  num W [97] = NotNum -> num W [98] = NotNum -> num W [119] = NotNum -> ok W m_dict_spec.
Proof. exact dict_spec_ok. Qed.
