(* C17 -- Runtime tracebacks point at the line of the failing form.
   Statements only; proofs are in Pos/Proofs.v.

   Proved: the compiler-side half -- every node emitted for a form gets a lineno
   inside the form's source line span, also for sub-forms, statement-lifted
   nodes and macro expansions.  The CPython half (the line a traceback reports
   is the lineno of the raising node) is an oracle hypothesis that the traceback
   oracle of props/c17.py validates on every generated program. *)
From HyV Require Import Base.Text Pos.Syntax Pos.Model Gen.PosTables Pos.Proofs.
Local Open Scope nat_scope.

Definition C17_full : Prop :=
  forall (tb_line_of_raise : form -> nat -> Prop) (* CPython: which line a raise inside a form's code is reported at *),
  (forall g l, tb_line_of_raise g l -> emits pos_attrs g l) ->
  forall f g q, nested f -> subform g f -> fpos g = Some q -> forall l, tb_line_of_raise g l -> within l q.

(* With the regenerated tables (lineno is read from a line attribute of the
   source; every asty call positions its node by the form, a sub-form or an
   emitted node -- Proofs.pos_attrs_checked / asty_sites_checked), for a form
   tree with the reader's nesting: the lines emitted for any sub-form g lie in
   g's own span. *)
Theorem C17_emitted_lines_within_span_partial : forall f g q, nested f -> subform g f -> fpos g = Some q ->
  forall l, emits pos_attrs g l -> within l q.
Proof. exact emitted_lines_within_span. Qed.
Print Assumptions C17_emitted_lines_within_span_partial.

(* hence the full statement, for every CPython behaviour that reports a line of an emitted node *)
Theorem C17_full_given_line_table : C17_full.
Proof.
  intros tb Htb f g q N Sub E l T. exact (emitted_lines_within_span f g q N Sub E l (Htb g l T)).
Qed.
Print Assumptions C17_full_given_line_table.

(* the same for any tree all of whose nodes are positioned inside S (e.g. after macro expansion) *)
Theorem C17_emits_within : forall S f, all_inside S f -> forall l, emits pos_attrs f l -> within l S.
Proof. exact emits_within. Qed.
Print Assumptions C17_emits_within.

(* macro output: after Sequence.replace with the call form, every node is positioned inside the call's span
   (nodes the macro took from its arguments keep their own position, new ones get the call's),
   so every line emitted for the expansion lies in the call's span *)
Theorem C17_macro_expansion_positions : forall S exp l, start_line S <= end_line S -> positioned_inside S exp ->
  emits pos_attrs (replace (Some S) exp) l -> within l S.
Proof. exact macro_expansion_positions. Qed.
Print Assumptions C17_macro_expansion_positions.

(* the call-site table admits only the three kinds of position source *)
Theorem C17_position_sources : forallb (fun s => allowed_source (snd s)) asty_sites = true.
Proof. exact asty_sites_checked. Qed.
Print Assumptions C17_position_sources.

(* models the handlers build themselves: all positioned (or never compiled), or else one is compiled
   unpositioned and reports line 1.  On the current tree the second alternative still computes, but only
   for compile_cut_expression's Symbol("None") (a Constant, which cannot raise); the keyword-pattern lookup
   dotted("hy.models.Keyword") is .replace()d since 9623a4f (former finding C17-match-keyword-pattern-line-1). *)
Theorem C17_synthesized_forms_status :
  forallb (fun s => negb (is_unreplaced (snd s))) synthesized = true
  \/ (exists s, In s synthesized /\ snd s = Unreplaced /\ emits pos_attrs (Form None []) 1).
Proof. exact synthesized_forms_status. Qed.
Print Assumptions C17_synthesized_forms_status.

(* FComponent.replace: either it keeps the positioned copy, or a replacement field that a macro built without a
   position stays unpositioned and reports line 1 (finding C17-macro-fstring-field-line-1; on the current tree the
   second alternative computes) *)
Theorem C17_fcomponent_replace_status :
  fcomponent_replace_discards = false
  \/ (forall o, emits pos_attrs (fcomponent_replace o (Form None [])) 1).
Proof. exact fcomponent_replace_status. Qed.
Print Assumptions C17_fcomponent_replace_status.

(* the premise `positioned` matters: an unpositioned model reports line 1 *)
Example C17_unpositioned_reports_line_1 : emits pos_attrs (Form None []) 1.
Proof. exact unpositioned_model_reports_line_1. Qed.

Example C17_nontrivial : nested ex_call /\ subform ex_arg ex_call /\ emits pos_attrs ex_arg 6.
Proof. exact ex_nested. Qed.
