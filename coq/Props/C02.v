(* C02 -- and/or short-circuit and return Python's operand value.
   Statements only; proofs are in Compiler/Correct1.v and Compiler/BoolRef.v. *)
From HyV Require Import Compiler.Syntax Compiler.PySem Compiler.HySem Compiler.Compile
  Compiler.PyFacts Compiler.HyFacts Compiler.Sim Compiler.Named Compiler.Correct1 Compiler.BoolRef Compiler.Shape.

(* The reference semantics says what the property says: the value is that of the first falsy (and) /
   truthy (or) operand or else of the last; (and) is True, (or) is None; exactly the operands up to
   that one are evaluated, left to right -- for every arity and every truth assignment. *)
Theorem C02_reference_semantics : forall issub fuel isand (l : list (nat * val)) s t,
  heval nofault issub fuel (HBool isand (map operand l)) s t =
  (HV (and_or_value isand l), s, t ++ map fst (evaluated isand l)).
Proof. exact and_or_reference. Qed.
Print Assumptions C02_reference_semantics.

(* The compiled code simulates that reference: for every operator, every operand list of ANY length whose
   operands are arbitrary layer-1 forms (constants, variables, effectful calls, do/setv/setx blocks that
   need statements, if, not, raise, nested and/or to any depth), every fault oracle (any effect point may
   raise), every store: same outcome (value or escaping exception), same effect trace, same user variables.
   The premise [snd c' = false] says Result.rename was not applied inside the form (see C01). *)
Theorem C02_compiled_and_or_correct : forall fault issub isand es,
  forallb frag1 es = true ->
  forall c r c', compile (HBool isand es) c = (r, c') -> snd c' = false ->
  forall fuel s s' t, eqU s s' ->
    rel (heval1 fault issub (hrec_of fault issub fuel) (HBool isand es) s t)
        (run fault issub (rec_of fault issub fuel) r s' t).
Proof.
  intros fault issub isand es Hf. assert (H : frag1 (HBool isand es) = true) by (cbn [frag1]; rewrite frag1_all; exact Hf).
  exact (proj2 (layer1_correct fault issub _ H)).
Qed.
Print Assumptions C02_compiled_and_or_correct.

(* the hypotheses are met by a non-trivial form: (and u0 (do (setv u1 (log 1 7)) u1) (or (log 2 u2) u3) (log 3 0)) *)
Example C02_premises_met :
  let es := [HVar 0; HDo [HSetv 1 (HLog 1 (HConst (VInt 7))); HVar 1]; HBool false [HLog 2 (HVar 2); HVar 3]; HLog 3 (HConst (VInt 0))] in
  forallb frag1 es = true /\ snd (snd (compile (HBool true es) (0, false))) = false
  /\ length (rs (fst (compile (HBool true es) (0, false)))) = 2%nat.
Proof. repeat split; vm_compute; reflexivity. Qed.
