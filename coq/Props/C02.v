(* C02 -- and/or short-circuit and return Python's operand value.
   Statements only; proofs are in Compiler/Correct1.v, Compiler/BoolRef.v, Compiler/BoolSpec.v, Compiler/NoTimeout.v. *)
From HyV Require Import Compiler.Syntax Compiler.PySem Compiler.HySem Compiler.Compile
  Compiler.PyFacts Compiler.HyFacts Compiler.Sim Compiler.Named Compiler.Correct1 Compiler.Correct3
  Compiler.NoTimeout Compiler.BoolRef Compiler.BoolSpec Compiler.Shape.

(* The reference semantics says what the property says: the value is that of the first falsy (and) /
   truthy (or) operand or else of the last; (and) is True, (or) is None; exactly the operands up to
   that one are evaluated, left to right -- for every arity and every truth assignment. *)
Theorem C02_reference_semantics : forall issub fuel isand (l : list (nat * val)) s t,
  heval nofault issub fuel (HBool isand (map operand l)) s t =
  (HV (and_or_value isand l), s, t ++ map fst (evaluated isand l)).
Proof. exact and_or_reference. Qed.
Print Assumptions C02_reference_semantics.

(* ... and that reading of the reference is itself a theorem, not a comment: for every operator and every
   operand list, either every operand "continues" the scan (truthy for and, falsy for or) and then all
   run and the value is the last one's (True / None for no operands), or the list splits at the FIRST
   operand that stops the scan, exactly the operands up to and including it run, and the value is its. *)
Theorem C02_reference_is_first_stop_or_last : forall isand (l : list (nat * val)),
  (Forall (continues isand) l /\ evaluated isand l = l /\
   and_or_value isand l = match rev l with kv :: _ => snd kv | [] => if isand then VBool true else VNone end)
  \/
  (exists p kv q, l = p ++ kv :: q /\ Forall (continues isand) p /\ truthy (snd kv) <> isand /\
     evaluated isand l = p ++ [kv] /\ and_or_value isand l = snd kv).
Proof. exact and_or_spec. Qed.
Print Assumptions C02_reference_is_first_stop_or_last.

(* The compiled code simulates that reference: for every operator, every operand list of ANY length whose
   operands are arbitrary forms of the modelled language (plain, effectful, statement-producing do/setv/
   if/try/while blocks, nested and/or to any depth), every fault oracle (any effect point may raise),
   every store: same outcome, same effect trace, same user variables (unless the reference run exhausts
   its fuel inside a loop).  The premise [snd c' = false] says Result.rename was not applied inside the
   form (C01's finding, not and/or's). *)
Theorem C02_compiled_and_or_correct : forall fault issub isand es c r c',
  compile (HBool isand es) c = (r, c') -> snd c' = false ->
  forall l s s' t, eqU s s' ->
    rel (heval1 fault issub (hrec_at fault issub l) (HBool isand es) s t)
        (run fault issub (rec_at fault issub l) r s' t).
Proof. intros fault issub isand es. exact (proj2 (compile_correct_all fault issub (HBool isand es))). Qed.
Print Assumptions C02_compiled_and_or_correct.

(* Without loops in the operands there is no fuel to exhaust: strict agreement. *)
Theorem C02_compiled_and_or_correct_loop_free : forall fault issub isand es,
  forallb frag1 es = true ->
  forall c r c', compile (HBool isand es) c = (r, c') -> snd c' = false ->
  forall l s s' t, eqU s s' ->
    rel0 (heval1 fault issub (hrec_at fault issub l) (HBool isand es) s t)
         (run fault issub (rec_at fault issub l) r s' t).
Proof.
  intros fault issub isand es Hf c r c' Hc Hfl l s s' t Hs.
  assert (H : frag1 (HBool isand es) = true) by (cbn [frag1]; rewrite frag1_all; exact Hf).
  destruct (proj2 (compile_correct_all fault issub (HBool isand es)) c r c' Hc Hfl l s s' t Hs) as [HT | R]; [|exact R].
  exfalso. exact (frag1_no_timeout fault issub _ H _ s t HT).
Qed.
Print Assumptions C02_compiled_and_or_correct_loop_free.

(* the hypotheses are met by a non-trivial form: (and u0 (do (setv u1 (log 1 7)) u1) (or (log 2 u2) u3) (log 3 0)) *)
Example C02_premises_met :
  let es := [HVar 0; HDo [HSetv 1 (HLog 1 (HConst (VInt 7))); HVar 1]; HBool false [HLog 2 (HVar 2); HVar 3]; HLog 3 (HConst (VInt 0))] in
  forallb frag1 es = true /\ snd (snd (compile (HBool true es) (0%nat, false))) = false
  /\ length (rs (fst (compile (HBool true es) (0%nat, false)))) = 2%nat.
Proof. repeat split; vm_compute; reflexivity. Qed.
