(* C14 -- hy2py output is valid Python that behaves like the compiled AST.
   Statements only; proofs are in Valid/Mince.v.

   hy2py prints ast.unparse of the compiled module (hy/cmdline.py), after
   hy/compat.py's rewriting_unparse has replaced identifier fields that are
   Python keywords.  What is Hy's own logic here -- the rewriting -- is proved;
   that CPython's unparser and parser are inverse on the ASTs hy emits, and that
   the re-parsed program behaves alike, is decided by the run-time oracle of
   props/c14.py on every generated program (DESIGN section 6: partial). *)
From HyV Require Import Base.Text Gen.Keywords Valid.Mince.

(* the statement the oracle decides: for a round-tripping unparser/parser pair,
   unparsed source parses and means the same *)
Definition C14_full : Prop :=
  forall (A S : Type) (unparse : A -> S) (parse : S -> option A) (meaning : A -> nat)
         (compiled : A -> Prop),
  (forall a, compiled a -> exists a', parse (unparse a) = Some a' /\ meaning a' = meaning a).

(* For every NFKC with the stated fact about the bold letters: each keyword of the
   running interpreter, except the excluded constants' names, is rewritten without
   raising to a string that is not a keyword, differs from it, and that NFKC
   (applied by Python's tokenizer to identifiers) maps back to the keyword. *)
Theorem C14_mince_correct_partial : forall (nfkc : text -> text),
  (forall c r, is_lower c = true -> forallb is_ascii r = true -> nfkc (bold_of c :: r) = c :: r) ->
  forall k, minced k = true ->
  exists m, mince k = Some m /\ nfkc m = k /\ is_keyword m = false /\ m <> k.
Proof. exact mince_correct. Qed.
Print Assumptions C14_mince_correct_partial.

(* After rewriting, no identifier field is a Python keyword, apart from the names
   True/False/None which the rewriting leaves alone (the compiler turns symbols
   that mangle to those into constants, C34/C10). *)
Theorem C14_rewrite_leaves_no_keyword : forall (nfkc : text -> text),
  (forall c r, is_lower c = true -> forallb is_ascii r = true -> nfkc (bold_of c :: r) = c :: r) ->
  forall v w, rewrite_ident v = Some w -> is_keyword w = true -> in_list v mince_exclusions = true.
Proof. exact rewrite_leaves_no_keyword. Qed.
Print Assumptions C14_rewrite_leaves_no_keyword.

(* the rewriting never raises, for any identifier *)
Theorem C14_rewrite_total : forall (nfkc : text -> text),
  (forall c r, is_lower c = true -> forallb is_ascii r = true -> nfkc (bold_of c :: r) = c :: r) ->
  forall v, exists w, rewrite_ident v = Some w.
Proof. exact rewrite_total. Qed.
Print Assumptions C14_rewrite_total.

(* the re-parsed identifier is the original one (identifiers are NFKC-normal: C32) *)
Theorem C14_rewrite_normalises_back : forall (nfkc : text -> text),
  (forall c r, is_lower c = true -> forallb is_ascii r = true -> nfkc (bold_of c :: r) = c :: r) ->
  forall v w, nfkc v = v -> rewrite_ident v = Some w -> nfkc w = v.
Proof. exact rewrite_normalises_back. Qed.
Print Assumptions C14_rewrite_normalises_back.

(* every string-valued identifier field is free of keywords after the rewriting ... *)
Theorem C14_str_fields_clean : forall (nfkc : text -> text),
  (forall c r, is_lower c = true -> forallb is_ascii r = true -> nfkc (bold_of c :: r) = c :: r) ->
  forall v f, rewrite_field (FStr v) = Some f -> field_has_keyword f = false.
Proof. exact str_fields_clean. Qed.
Print Assumptions C14_str_fields_clean.

(* ... but the rewriting tests `type(v) is str`, so a field that holds a list of names (Global.names,
   Nonlocal.names, MatchClass.kwd_attrs) keeps its keywords: (global if) unparses to `global if`, which
   does not parse.  Witness replayed on the real code: finding C14-global-keyword-not-minced. *)
Theorem C14_list_field_keyword_refuted :
  exists f, rewrite_field f = Some f /\ field_has_keyword f = true.
Proof. exact (ex_intro _ (FStrList [kw_if]) list_field_keyword_survives). Qed.
Print Assumptions C14_list_field_keyword_refuted.

(* the hypothesis about NFKC is satisfiable *)
Theorem C14_nfkc_fact_satisfiable : exists nfkc : text -> text,
  forall c r, is_lower c = true -> forallb is_ascii r = true -> nfkc (bold_of c :: r) = c :: r.
Proof. exact (ex_intro _ toy_nfkc toy_nfkc_bold). Qed.
Print Assumptions C14_nfkc_fact_satisfiable.

(* a non-trivial instance: the keyword "if" is minced to (bold i) f *)
Example C14_if_is_minced : minced [105; 102]%N = true /\ mince [105; 102]%N = Some [119842; 102]%N.
Proof. vm_compute. split; reflexivity. Qed.
