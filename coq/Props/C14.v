(* C14 -- hy2py output is valid Python that behaves like the compiled AST.
   Statements only; proofs are in Valid/Mince.v.

   hy2py prints ast.unparse of the compiled module (hy/cmdline.py), after
   hy/compat.py's rewriting_unparse has replaced identifier fields that are
   Python keywords.  What is Hy's own logic here -- the rewriting -- is proved;
   that CPython's unparser and parser are inverse on the ASTs hy emits, and that
   the re-parsed program behaves alike, is decided by the run-time oracle of
   props/c14.py on every generated program (DESIGN section 6: partial). *)
From HyV Require Import Base.Text Gen.Keywords Valid.Mince.

(* the statement the oracle decides: for a round-tripping unparser/parser pair,
   unparsed source parses and means the same *)
Definition C14_full : Prop :=
  forall (A S : Type) (unparse : A -> S) (parse : S -> option A) (meaning : A -> nat)
         (compiled : A -> Prop),
  (forall a, compiled a -> exists a', parse (unparse a) = Some a' /\ meaning a' = meaning a).

(* For every NFKC with the stated fact about the bold letters: each keyword of the
   running interpreter, except the excluded constants' names, is rewritten without
   raising to a string that is not a keyword, differs from it, and that NFKC
   (applied by Python's tokenizer to identifiers) maps back to the keyword. *)
Theorem C14_mince_correct_partial : forall (nfkc : text -> text),
  (forall c r, is_lower c = true -> forallb is_ascii r = true -> nfkc (bold_of c :: r) = c :: r) ->
  forall k, minced k = true ->
  exists m, mince k = Some m /\ nfkc m = k /\ is_keyword m = false /\ m <> k.
Proof. exact mince_correct. Qed.
Print Assumptions C14_mince_correct_partial.

(* After rewriting, no identifier field is a Python keyword, apart from the names
   True/False/None which the rewriting leaves alone (the compiler turns symbols
   that mangle to those into constants, C34/C10). *)
Theorem C14_rewrite_leaves_no_keyword : forall (nfkc : text -> text),
  (forall c r, is_lower c = true -> forallb is_ascii r = true -> nfkc (bold_of c :: r) = c :: r) ->
  forall v w, rewrite_ident v = Some w -> is_keyword w = true -> in_list v mince_exclusions = true.
Proof. exact rewrite_leaves_no_keyword. Qed.
Print Assumptions C14_rewrite_leaves_no_keyword.

(* the rewriting never raises, for any identifier *)
Theorem C14_rewrite_total : forall (nfkc : text -> text),
  (forall c r, is_lower c = true -> forallb is_ascii r = true -> nfkc (bold_of c :: r) = c :: r) ->
  forall v, exists w, rewrite_ident v = Some w.
Proof. exact rewrite_total. Qed.
Print Assumptions C14_rewrite_total.

(* the re-parsed identifier is the original one (identifiers are NFKC-normal: C32) *)
Theorem C14_rewrite_normalises_back : forall (nfkc : text -> text),
  (forall c r, is_lower c = true -> forallb is_ascii r = true -> nfkc (bold_of c :: r) = c :: r) ->
  forall v w, nfkc v = v -> rewrite_ident v = Some w -> nfkc w = v.
Proof. exact rewrite_normalises_back. Qed.
Print Assumptions C14_rewrite_normalises_back.

(* every identifier field -- a string, or a list of strings such as Global.names, Nonlocal.names,
   MatchClass.kwd_attrs (fix 55f8aa9) -- is free of keywords after the rewriting, and the rewriting never fails *)
Theorem C14_fields_clean : forall (nfkc : text -> text),
  (forall c r, is_lower c = true -> forallb is_ascii r = true -> nfkc (bold_of c :: r) = c :: r) ->
  forall f f', rewrite_field f = Some f' -> field_has_keyword f' = false.
Proof. exact fields_clean. Qed.
Print Assumptions C14_fields_clean.

Theorem C14_rewrite_field_total : forall (nfkc : text -> text),
  (forall c r, is_lower c = true -> forallb is_ascii r = true -> nfkc (bold_of c :: r) = c :: r) ->
  forall f, exists f', rewrite_field f = Some f'.
Proof. exact rewrite_field_total. Qed.
Print Assumptions C14_rewrite_field_total.

(* (global if) is printed as `global (bold i)f` (the former refutation C14_list_field_keyword_refuted, fixed by 55f8aa9) *)
Example C14_global_if_is_minced : rewrite_field (FStrList [kw_if]) = Some (FStrList [[119842; 102]%N]).
Proof. exact global_if_is_minced. Qed.

(* NegativeConstants (fix 4c5d6f5): no negative int/float Constant is left in what is printed ... *)
Theorem C14_negconst_no_negative : forall e, no_negative (negconst e) = true.
Proof. exact negconst_no_negative. Qed.
Print Assumptions C14_negconst_no_negative.

(* ... and the printed tree evaluates like the compiled one, for every evaluation in which -(+c) is the constant -c *)
Theorem C14_negconst_preserves_value : forall (V : Type) (num : nkind -> bool -> N -> V) (leaf : V) (usub : V -> V)
  (node : list V -> V), (forall k m, handled k = true -> usub (num k false m) = num k true m) ->
  forall e, peval V num leaf usub node (negconst e) = peval V num leaf usub node e.
Proof. exact negconst_preserves_value. Qed.
Print Assumptions C14_negconst_preserves_value.

(* complex constants are not among the handled kinds: a negative imaginary literal is printed as before *)
Theorem C14_complex_constants_status :
  neg_complex = true \/ negconst (PNum KComplex true 1) = PNum KComplex true 1.
Proof. exact complex_constants_status. Qed.

(* the hypothesis about NFKC is satisfiable *)
Theorem C14_nfkc_fact_satisfiable : exists nfkc : text -> text,
  forall c r, is_lower c = true -> forallb is_ascii r = true -> nfkc (bold_of c :: r) = c :: r.
Proof. exact (ex_intro _ toy_nfkc toy_nfkc_bold). Qed.
Print Assumptions C14_nfkc_fact_satisfiable.

(* a non-trivial instance: the keyword "if" is minced to (bold i) f *)
Example C14_if_is_minced : minced [105; 102]%N = true /\ mince [105; 102]%N = Some [119842; 102]%N.
Proof. vm_compute. split; reflexivity. Qed.
