(* C34 -- A Hy name means the same Python identifier in every construct.
   Statements only; proofs are in Names/Proofs.v and Names/Scope.v.  Everything is
   stated for an arbitrary function [mangle] (C32/C33 are about hy.mangle itself)
   and over the table Gen/NameSites.v, regenerated from the source on every run. *)
From HyV Require Import Base.Text Names.Syntax Names.Model Gen.NameSites Names.Proofs Names.Scope.

(* The full statement over the model: at every site, the identifier is (mangle name). *)
Definition C34_full : Prop := forall (mangle : text -> text) nm pfx s v,
  neval mangle nm pfx (site_expr s) = Some v ->
  v = match s with
      | S_local_macro => lm_prefix ++ lm_encode (mangle nm)
      | S_require_alias => mangle (pfx ++ nm)
      | _ => mangle nm
      end.

(* Proved for every site with a plain specification (all but local_macro_name and the
   prefixed require alias, which follow), including the class-pattern keyword
   attribute of `match` since the fix 7ce654c: whenever the site yields an
   identifier it is (mangle name), and it does yield one unless the name or its
   mangling is None/True/False, for which _nonconst raises a syntax error. *)
Theorem C34_sites_emit_mangle_partial : forall (mangle : text -> text) nm pfx s, plain_site s = true ->
  (forall v, neval mangle nm pfx (site_expr s) = Some v -> v = mangle nm)
  /\ (is_const nm = false -> is_const (mangle nm) = false ->
      neval mangle nm pfx (site_expr s) = Some (mangle nm)).
Proof. exact plain_site_emits_mangle. Qed.
Print Assumptions C34_sites_emit_mangle_partial.

(* prefixed require: the macro is stored under mangle (prefix ++ alias) *)
Theorem C34_require_alias : forall (mangle : text -> text) nm pfx, is_const nm = false ->
  neval mangle nm pfx (site_expr S_require_alias) = Some (mangle (pfx ++ nm)).
Proof. exact require_alias_emits. Qed.
Print Assumptions C34_require_alias.

(* a local macro lives in the variable "_hy_local_macro__" ++ escape (mangle name) ... *)
Theorem C34_local_macro_name : forall (mangle : text -> text) nm pfx,
  neval mangle nm pfx (site_expr S_local_macro) = Some (lm_prefix ++ lm_encode (mangle nm)).
Proof. exact local_macro_emits. Qed.
Print Assumptions C34_local_macro_name.

(* ... and the escape is injective, so two local macros share a variable iff their manglings agree *)
Theorem C34_local_macro_same_iff : forall (mangle : text -> text) a b pfx,
  neval mangle a pfx (site_expr S_local_macro) = neval mangle b pfx (site_expr S_local_macro)
  <-> mangle a = mangle b.
Proof. exact local_macro_same_iff. Qed.
Print Assumptions C34_local_macro_same_iff.

(* two names used in any two of the constructs denote the same identifier exactly when their manglings agree *)
Theorem C34_same_binding_iff_mangle_eq : forall (mangle : text -> text) s1 s2 a b pfx va vb,
  plain_site s1 = true -> plain_site s2 = true ->
  neval mangle a pfx (site_expr s1) = Some va -> neval mangle b pfx (site_expr s2) = Some vb ->
  (va = vb <-> mangle a = mangle b).
Proof. exact same_binding_iff. Qed.
Print Assumptions C34_same_binding_iff_mangle_eq.

(* the renaming layer used by let and except: a reference reaches a let-bound
   variable exactly when the manglings agree *)
Theorem C34_let_reaches_iff : forall (mangle : text -> text) bs a t b, access mangle bs b <> t ->
  (access mangle (let_add mangle bs a t) b = t <-> mangle a = mangle b).
Proof. exact let_reaches_iff. Qed.
Print Assumptions C34_let_reaches_iff.

(* The class-pattern keyword attribute: either the regenerated site mangles, or
   it emits the raw keyword text, which differs from the mangling for a name
   such as a-b.  (Before the fix 7ce654c the second alternative computed -- the
   former finding C34-match-class-kwd-unmangled; now the first does, and the site
   is also covered by C34_sites_emit_mangle_partial.) *)
Theorem C34_class_kwd_status :
  is_mangled_name (site_expr S_match_class_kwd) = true
  \/ (exists (mangle : text -> text) nm,
        neval mangle nm [] (site_expr S_match_class_kwd) = Some nm /\ nm <> mangle nm).
Proof. exact class_kwd_status. Qed.
Print Assumptions C34_class_kwd_status.

(* the hypotheses are met by a non-trivial object: a name whose mangling differs from it *)
Example C34_nontrivial : neval toy_mangle a_hyphen_b [] (site_expr S_param) = Some [97; 95; 98]
  /\ plain_site S_param = true /\ is_const a_hyphen_b = false /\ toy_mangle a_hyphen_b <> a_hyphen_b.
Proof. vm_compute. repeat split; discriminate. Qed.
