(* C36 -- macroexpand-1 expands one step and macroexpand reaches a fixpoint.
   Statements only; proofs are in MacroNS/ExpandProofs.v.  Model:
   MacroNS/ExpandModel.v (the loop of hy.macros.macroexpand, with the flags
   hy/core/util.hy passes regenerated into Gen/MacroExpand.v).  Every theorem
   is for an arbitrary macro environment: any assignment of functions
   (time, arguments) -> model | compiler result | exception to names. *)
From HyV Require Import Base.Text MacroNS.ExpandSyntax Gen.MacroExpand MacroNS.ExpandModel MacroNS.ExpandProofs.

(* hy.macroexpand-1: exactly one application when the head names a macro ... *)
Theorem C36_expand1_one_step : forall macro_of n t h,
  hy_macroexpand_1 macro_of (S n) t h =
  match step macro_of n t h with
  | SNext t' h' => ODone t' h'
  | SStop => ODone t h
  | SKeep => ODone t h
  | SRaise => ORaise
  end.
Proof. exact expand1_one_step. Qed.
Print Assumptions C36_expand1_one_step.

(* ... where a step is: the head names a macro f, f is applied once to the
   argument forms, and the result takes over missing positions from the call *)
Theorem C36_step_is_one_application : forall macro_of time t h t' h',
  step macro_of time t h = SNext t' h' <->
  exists p hd args n f obj,
    t = FSeq KExpr p (hd :: args) /\ head_name hd = Some n /\ macro_of n = Some f
    /\ f time args = MForm obj /\ replace_form p obj h = (t', h').
Proof. exact step_is_one_application. Qed.
Print Assumptions C36_step_is_one_application.

(* ... and otherwise the model comes back unchanged *)
Theorem C36_not_a_macro_call_unchanged : forall macro_of n t h,
  (forall p hd args, t <> FSeq KExpr p (hd :: args))
  \/ (exists p hd args, t = FSeq KExpr p (hd :: args) /\
        (head_name hd = None \/ exists nm, head_name hd = Some nm /\ macro_of nm = None)) ->
  hy_macroexpand_1 macro_of (S n) t h = ODone t h /\ hy_macroexpand macro_of (S n) t h = ODone t h.
Proof. exact not_a_macro_call_unchanged. Qed.
Print Assumptions C36_not_a_macro_call_unchanged.

(* hy.macroexpand returns t' exactly when t' is reached from t by successive
   single expansions and t' is no longer expandable: its head names no macro,
   or names a macro that returns a compiler result (for every fuel, i.e. for
   every terminating run; no bound on the chain) *)
Theorem C36_expand_fixpoint : forall macro_of fuel t h t' h',
  hy_macroexpand macro_of fuel t h = ODone t' h' <->
  exists m, steps macro_of fuel t h (S m) t' h' /\ stops macro_of m t' h'.
Proof. exact expand_fixpoint. Qed.
Print Assumptions C36_expand_fixpoint.

(* each link of that chain is what hy.macroexpand-1 returns *)
Theorem C36_chain_links_are_expand1 : forall macro_of n t h t1 h1,
  step macro_of n t h = SNext t1 h1 -> hy_macroexpand_1 macro_of (S n) t h = ODone t1 h1.
Proof. exact steps_are_expand1. Qed.
Print Assumptions C36_chain_links_are_expand1.

(* a core macro that returns compiler results leaves the form as it was, and
   the compiler result itself is never handed out *)
Theorem C36_result_ok_false_keeps : forall macro_of n t h,
  step macro_of n t h = SKeep ->
  hy_macroexpand_1 macro_of (S n) t h = ODone t h /\ hy_macroexpand macro_of (S n) t h = ODone t h.
Proof. exact result_ok_false_keeps. Qed.
Print Assumptions C36_result_ok_false_keeps.

Theorem C36_never_a_compiler_result : forall macro_of fuel t h,
  hy_macroexpand_1 macro_of fuel t h <> OResult /\ hy_macroexpand macro_of fuel t h <> OResult.
Proof. exact never_a_compiler_result. Qed.
Print Assumptions C36_never_a_compiler_result.

(* Expansion never mutates the input model.  Full statement (sequences are
   rebuilt, never written to; atoms are objects whose position attributes live
   in the heap): *)
Definition C36_input_unchanged_full : Prop := forall macro_of fuel t h t' h',
  (hy_macroexpand_1 macro_of fuel t h = ODone t' h' \/ hy_macroexpand macro_of fuel t h = ODone t' h') ->
  forall l, In l (labels t) -> heap_get l h' = heap_get l h.
(* Proved: attributes an object has are never changed, so an input whose atoms
   all carry positions (anything the reader produced) is untouched; and a call
   form without positions (quoted / constructed models) writes nothing.
   Missing: a positioned call form containing an atom object without position
   attributes, returned by the macro -- replace_hy_obj then writes the call's
   position into that input atom. *)
Theorem C36_input_unchanged_partial : forall macro_of fuel t h t' h',
  (hy_macroexpand_1 macro_of fuel t h = ODone t' h' \/ hy_macroexpand macro_of fuel t h = ODone t' h') ->
  (forall l, In l (labels t) -> heap_get l h <> None) ->
  forall l, In l (labels t) -> heap_get l h' = heap_get l h.
Proof. exact input_unchanged_partial. Qed.
Print Assumptions C36_input_unchanged_partial.

Theorem C36_existing_positions_kept : forall macro_of fuel t h t' h' l p,
  (hy_macroexpand_1 macro_of fuel t h = ODone t' h' \/ hy_macroexpand macro_of fuel t h = ODone t' h') ->
  heap_get l h = Some p -> heap_get l h' = Some p.
Proof. exact input_positions_kept. Qed.
Print Assumptions C36_existing_positions_kept.

Theorem C36_unpositioned_call_writes_nothing : forall macro_of time k items h t' h',
  step macro_of time (FSeq k None items) h = SNext t' h' -> h' = h.
Proof. exact unpositioned_call_writes_nothing. Qed.
Print Assumptions C36_unpositioned_call_writes_nothing.

Theorem C36_input_unchanged_refuted :
  exists macro_of t h t' h' l,
    hy_macroexpand_1 macro_of 1 t h = ODone t' h' /\ In l (labels t) /\ heap_get l h' <> heap_get l h.
Proof. exact input_unchanged_refuted. Qed.
Print Assumptions C36_input_unchanged_refuted.

(* a non-trivial chain: m -> n -> (if 1 2 3), `if` returning a compiler result *)
Example C36_example_chain :
  let sym l c := FAtom l (ASym [c]) in
  let mo : name -> option mfun := fun nm =>
    if text_eqb nm [109] then Some (fun _ args => MForm (FSeq KExpr None (sym 10 110 :: args)))
    else if text_eqb nm [110] then Some (fun _ args => MForm (FSeq KExpr None (sym 11 105 :: args)))
    else if text_eqb nm [105] then Some (fun _ _ => MResult) else None in
  let input := FSeq KExpr None [sym 1 109; sym 2 97] in
  hy_macroexpand_1 mo 5 input [] = ODone (FSeq KExpr None [sym 10 110; sym 2 97]) []
  /\ hy_macroexpand mo 5 input [] = ODone (FSeq KExpr None [sym 11 105; sym 2 97]) [].
Proof. vm_compute. split; reflexivity. Qed.
