(* C09 -- try/except/else/finally behave correctly at every raise point.
   Statements only; proofs are in Compiler/Correct2.v and Compiler/Correct3.v.
   (`with` is not in the modelled source language: see C09_full / the harness.) *)
From Coq Require Import String.
From HyV Require Import Compiler.Syntax Compiler.PySem Compiler.HySem Compiler.Compile
  Compiler.PyFacts Compiler.HyFacts Compiler.Sim Compiler.Named Compiler.Correct1 Compiler.Correct2 Compiler.Correct3
  Compiler.Run Compiler.Shape.

(* The reference semantics of try, in the property's words: the handler chosen is the first whose types
   match the escaping class; else runs only after a normal body; finally runs exactly once on every path
   and its own abrupt outcome wins; the value is that of the last form evaluated among body, handler
   and else. *)
Theorem C09_reference_semantics : forall fault issub rec body hs o f s t,
  heval1 fault issub rec (HTry body hs o f) s t =
  hfinish fault issub rec f (hstage1 fault issub rec body hs o s t).
Proof. intros. apply heval1_try. Qed.
Print Assumptions C09_reference_semantics.

(* For every try form -- any body, any number of handlers of any types, optional else and finally, each a
   list of arbitrary forms of the modelled language (nested try, loops, and/or, ...) -- every fault
   oracle (so every effect point in body, handlers, else and finally may raise, singly or in any
   combination), every subclass relation and every store: the compiled try statement runs exactly the
   clauses the reference prescribes, with the same escaping exception, effect trace, user variables and
   result value.  Premise: Result.rename did not fire inside (C01's finding). *)
Theorem C09_try_correct_partial : forall fault issub body hs o f c r c',
  compile (HTry body hs o f) c = (r, c') -> snd c' = false ->
  forall l s s' t, eqU s s' ->
    rel (heval1 fault issub (hrec_at fault issub l) (HTry body hs o f) s t)
        (run fault issub (rec_at fault issub l) r s' t).
Proof. intros fault issub body hs o f. exact (proj2 (compile_correct_all fault issub (HTry body hs o f))). Qed.
Print Assumptions C09_try_correct_partial.

(* non-vacuity: body raises E2 at effect point 2, handled by the E1 handler (E2 <: E1), finally runs once *)
Example C09_premises_met :
  let e := HTry [HLog 1 (HConst (VInt 1)); HLog 2 (HConst (VInt 2))]
                [(HOne 4, [HLog 3 (HConst (VInt 3))]); (HMany [3; 1]%nat, [HLog 4 (HConst (VInt 4))])]
                (Some [HLog 5 (HConst (VInt 5))]) (Some [HLog 6 (HConst (VInt 6))]) in
  snd (snd (compile e (0%nat, false))) = false /\
  String.eqb (ref_run [(2, 2)]%nat [(2, 1)]%nat 4 [] e) "V I4 | 1 2 4 6 | " = true /\
  String.eqb (model_run [(2, 2)]%nat [(2, 1)]%nat 4 [] e) "V I4 | 1 2 4 6 | " = true.
Proof. repeat split; vm_compute; reflexivity. Qed.
