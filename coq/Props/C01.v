(* C01 -- compiled code means what the Hy program means.
   Statements only; proofs are in Compiler/Correct1.v, Correct2.v, Correct3.v. *)
From Coq Require Import String.
From HyV Require Import Compiler.Syntax Compiler.PySem Compiler.HySem Compiler.Compile
  Compiler.PyFacts Compiler.HyFacts Compiler.Sim Compiler.Named Compiler.Correct1 Compiler.Correct2 Compiler.Correct3
  Compiler.Run Compiler.Shape.

(* [rel a b]: unless the reference run [a] exhausts its fuel, [a] and [b] have the same outcome (value,
   escaping exception class, break, continue), the same effect trace in the same order, and the same
   user variables.  Fuel bounds loop re-entries; the compiled code is given strictly more ([tfuel l]),
   because a loop whose condition needs statements re-enters once more to leave. *)

(* The property over the modelled source language, for every program. *)
Definition C01_full : Prop := forall fault issub e r c',
  compile e (0%nat, false) = (r, c') ->
  forall l s s' t, eqU s s' ->
    rel (heval1 fault issub (hrec_at fault issub l) e s t) (run fault issub (rec_at fault issub l) r s' t).

(* Proved for EVERY program of the modelled source language -- constants, variables, effectful calls
   (log k e), do, setv, setx, and, or, not, if, while with else, break, continue, raise,
   try/except/else/finally -- nested arbitrarily and to any depth, every fault oracle (any subset of
   effect points raises any exception class), every subclass relation, every store and every fuel:
   the compiled result simulates the reference semantics, provided Result.rename did not fire during
   the compilation (ghost flag [snd c' = false]).  What is missing for C01_full is exactly that
   premise, and it cannot be dropped: see the refutation below.  Forms of the real language outside
   the modelled source (calls with several arguments, operators, get/cut, let, for, comprehensions,
   with, fn, return, match) are not covered by this theorem. *)
Theorem C01_compile_correct_partial : forall fault issub e c r c',
  compile e c = (r, c') -> snd c' = false ->
  forall l s s' t, eqU s s' ->
    rel (heval1 fault issub (hrec_at fault issub l) e s t) (run fault issub (rec_at fault issub l) r s' t).
Proof. intros fault issub e. exact (proj2 (compile_correct_all fault issub e)). Qed.
Print Assumptions C01_compile_correct_partial.

(* non-vacuity: a program mixing every form, with a statement-needing loop condition and a try, compiles
   without renaming; and its run is not excused by fuel exhaustion *)
Definition C01_example : hexpr :=
  HDo [HSetv 0 (HLog 1 (HConst (VInt 2)));
       HSetv 4 (HConst (VBool true));
       HWhile (HDo [HSetv 1 (HLog 2 (HVar 4)); HVar 1])
              [HSetv 4 (HConst (VBool false));
               HTry [HIf (HBool true [HVar 0; HDo [HSetv 2 (HLog 3 (HVar 0)); HVar 2]])
                         (HRaise (HConst (VExn 2)))
                         (HLog 4 (HNot (HVar 3)))]
                    [(HOne 1, [HLog 5 (HConst (VInt 7)); HContinue])]
                    None (Some [HLog 6 (HConst VNone)])]
              (Some [HLog 7 (HConst (VInt 9))])].
Example C01_premises_met :
  snd (snd (compile C01_example (0%nat, false))) = false /\
  String.eqb (ref_run [] [(2, 1)]%nat 8 [VNone; VNone; VNone; VNone; VNone] C01_example)
             "V N | 1 2 3 5 6 2 7 | I2 B0 I2 N B0" = true.
Proof. split; vm_compute; reflexivity. Qed.

(* Refuted on the faithful model (and reproduced on the real compiler by the harness, known finding
   C01-result-rename): (setv u0 (and u1 (do (setv u2 u0) u2))) with u0 = 5, u1 = 1 -- the temporary of
   `and` is renamed to u0, so u0 is overwritten before the value's statements read it. *)
Theorem C01_rename_refuted : exists e vals, frag1 e = true /\
  String.eqb (ref_run [] [] 8 vals e) (model_run [] [] 8 vals e) = false.
Proof.
  exists (HSetv 0 (HBool true [HVar 1; HDo [HSetv 2 (HVar 0); HVar 2]])), [VInt 5; VInt 1; VNone].
  split; vm_compute; reflexivity.
Qed.
Print Assumptions C01_rename_refuted.
