(* C01 -- compiled code means what the Hy program means.
   Statements only; proofs are in Compiler/Correct*.v. *)
From Coq Require Import String.
From HyV Require Import Compiler.Syntax Compiler.PySem Compiler.HySem Compiler.Compile
  Compiler.PyFacts Compiler.HyFacts Compiler.Sim Compiler.Named Compiler.Correct1 Compiler.Run Compiler.Shape.

(* The property over the modelled fragment: for every program, every fault oracle (which effect points
   raise), every store and every fuel, running the compiled result and running the program under the
   reference semantics give the same outcome (value, escaping exception class, break/continue, or both
   out of fuel), the same effect trace in the same order, and the same user variables. *)
Definition C01_full : Prop := forall fault issub e r c',
  compile e (0%nat, false) = (r, c') ->
  forall fuel s s' t, eqU s s' ->
    rel (heval1 fault issub (hrec_of fault issub fuel) e s t) (run fault issub (rec_of fault issub fuel) r s' t).

(* Proved: the statement for every program built, in any nesting and to any depth, from constants,
   variables, effectful calls, do, setv, setx, and, or, not, if and raise, provided Result.rename does not
   fire while compiling it (ghost flag [snd c' = false]).  Missing for the full statement: the lemmas
   for while/break/continue and try (their compiler and both semantics are modelled and compared with the
   implementation, but not yet in the induction), and assignments whose value carries temporaries
   (refuted below: the rename is unsound). *)
Theorem C01_compile_correct_partial : forall fault issub e, frag1 e = true ->
  forall c r c', compile e c = (r, c') -> snd c' = false ->
  forall fuel s s' t, eqU s s' ->
    rel (heval1 fault issub (hrec_of fault issub fuel) e s t) (run fault issub (rec_of fault issub fuel) r s' t).
Proof. intros fault issub e H. exact (proj2 (layer1_correct fault issub e H)). Qed.
Print Assumptions C01_compile_correct_partial.

(* non-vacuity: a depth-5 program mixing the layer-1 forms meets the premises *)
Example C01_premises_met :
  let e := HDo [HSetv 0 (HLog 1 (HConst (VInt 2)));
                HIf (HBool true [HVar 0; HDo [HSetv 1 (HLog 2 (HVar 0)); HVar 1]])
                    (HLog 3 (HNot (HBool false [HVar 2; HSetx 3 (HLog 4 (HConst VNone))])))
                    (HRaise (HConst (VExn 2)))] in
  frag1 e = true /\ snd (snd (compile e (0%nat, false))) = false.
Proof. split; vm_compute; reflexivity. Qed.

(* Refuted on the faithful model (and reproduced on the real compiler by the harness):
   (setv u0 (and u1 (do (setv u2 u0) u2))) with u0 = 5, u1 = 1 -- the temporary of `and` is renamed to u0,
   so u0 is overwritten before the value's statements read it. *)
Theorem C01_rename_refuted : exists e vals, frag1 e = true /\
  String.eqb (ref_run [] [] 8 vals e) (model_run [] [] 8 vals e) = false.
Proof.
  exists (HSetv 0 (HBool true [HVar 1; HDo [HSetv 2 (HVar 0); HVar 2]])), [VInt 5; VInt 1; VNone].
  split; vm_compute; reflexivity.
Qed.
Print Assumptions C01_rename_refuted.

