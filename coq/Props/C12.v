(* C12 -- compiler-introduced names are reserved and never clobber user names.
   Statements only; proofs are in Compiler/Range.v, Compiler/Unames.v, Compiler/Correct3.v. *)
From HyV Require Import Compiler.Syntax Compiler.PySem Compiler.HySem Compiler.Compile Compiler.Named
  Compiler.Frame Compiler.Range Compiler.Unames Compiler.Sim Compiler.Correct1 Compiler.Correct3 Compiler.Shape.
From Coq Require Import String.

(* Every name in the compiled code of a program is either one of the program's own variables (q) or a
   temporary T n -- rendered _hy_anon_<n> by the regenerated get_anon_var format -- issued during this very
   compilation: fst c < n <= fst c'.  For every program of the modelled source language, any nesting. *)
Theorem C12_introduced_names_reserved : forall (q : nat -> bool) e, uses q e = true ->
  forall c r c', compile e c = (r, c') ->
    uR q r = true /\ fst c <= fst c' /\ tR (inr (fst c) (fst c')) r = true.
Proof.
  intros q e Hu c r c' Hc. split; [exact (compile_unames q e Hu c r c' Hc)|]. exact (compile_range e c r c' Hc).
Qed.
Print Assumptions C12_introduced_names_reserved.

(* Constructs compiled one after the other get disjoint temporaries: no temporary of the first can be
   one of the second (the counter only grows), so temporaries share a name only inside one construct,
   where the compiler reuses its result variable on purpose. *)
Theorem C12_temporaries_disjoint : forall e1 e2 c r1 c1 r2 c2,
  compile e1 c = (r1, c1) -> compile e2 c1 = (r2, c2) ->
  tR (inr (fst c) (fst c1)) r1 = true /\ tR (inr (fst c1) (fst c2)) r2 = true /\
  forall n, inr (fst c) (fst c1) n = true -> inr (fst c1) (fst c2) n = false.
Proof.
  intros e1 e2 c r1 c1 r2 c2 H1 H2. destruct (compile_range e1 _ _ _ H1) as [_ R1]. destruct (compile_range e2 _ _ _ H2) as [_ R2].
  repeat split; auto. intros n Hn. unfold inr in *. apply andb_true_iff in Hn. destruct Hn as [_ Hn]. apply Nat.leb_le in Hn.
  apply andb_false_iff. left. apply Nat.ltb_ge. exact Hn.
Qed.
Print Assumptions C12_temporaries_disjoint.

(* The rendering of temporaries carries the reserved prefix (regenerated format string). *)
Theorem C12_temporary_prefix_reserved :
  hd ""%string Gen.CompilerTables.anon_var_format = "_hy_"%string /\ Gen.CompilerTables.anon_var_default_base = "anon"%string.
Proof. split; reflexivity. Qed.

(* User variables keep their values across compiled constructs: the eqU component of the simulation (C01). *)
Theorem C12_user_variables_kept : forall fault issub e c r c',
  compile e c = (r, c') -> snd c' = false ->
  forall l s s' t, eqU s s' ->
    rel (heval1 fault issub (hrec_at fault issub l) e s t) (run fault issub (rec_at fault issub l) r s' t).
Proof. intros fault issub e. exact (proj2 (compile_correct_all fault issub e)). Qed.
Print Assumptions C12_user_variables_kept.

Example C12_premises_met :
  let e := HDo [HSetv 0 (HBool true [HVar 1; HDo [HSetv 2 (HLog 1 (HVar 1)); HVar 2]]);
                HTry [HIf (HVar 0) (HDo [HLog 2 (HVar 2); HVar 0]) (HVar 1)] [(HAll, [HVar 2])] None (Some [HLog 3 (HVar 0)])] in
  uses (fun n => Nat.ltb n 3) e = true /\ fst (snd (compile e (0%nat, false))) = 3%nat.
Proof. split; vm_compute; reflexivity. Qed.
