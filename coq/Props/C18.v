(* C18 -- Reading any text either yields models or raises a Hy syntax error; it never
   raises another exception type and always terminates.
   Statements only; proofs are in Reader/Progress.v, Reader/Shape.v, Reader/Mono.v.
   [orc] ranges over ALL oracle records: the number classifier of as_identifier, the
   escape decoder, str.strip()'s whitespace and the position annotation. *)
From HyV Require Import Base.Text Reader.Syntax Gen.ReaderTables Reader.Model Reader.Progress Reader.Shape Reader.Mono.
From Coq Require Import Lia.

(* Termination: read_many runs the fuelled reader with 3*|s|+3 units of fuel; that is
   always enough.  No bound on the input. *)
Theorem C18_read_terminates : forall orc s, read_many orc s <> OutOfFuel.
Proof. exact read_terminates. Qed.
Print Assumptions C18_read_terminates.

(* The progress lemma behind it: in every mode, a successful call leaves a strictly
   shorter input (sequence mode: not longer), and 3*|s| + rank(mode) < fuel suffices. *)
Theorem C18_progress : forall orc f md s, good_s s (need md s < f)%nat (rd orc f md s).
Proof. exact rd_good. Qed.
Print Assumptions C18_progress.

(* More fuel never changes the outcome. *)
Theorem C18_fuel_irrelevant : forall orc s k,
  outcome_of (rd orc (read_fuel s + k) (MSeq None []) s) = read_many orc s.
Proof. exact read_fuel_irrelevant. Qed.
Print Assumptions C18_fuel_irrelevant.

(* Outcome class: no Python exception other than LexException / PrematureEndOfInput
   leaves read_many, whatever the oracles answer (the model raises SyntaxError and
   ValueError inside the string code; the regenerated except clauses convert them). *)
Theorem C18_read_outcome_class : forall orc s e, read_many orc s <> PyErr e.
Proof. exact read_outcome_class. Qed.
Print Assumptions C18_read_outcome_class.

(* Files (the importer, hy2py and the hy command read with skip_shebang=True): the shebang line is skipped by
   HyReader.parse itself, outside try_parse_one_form; a shebang line without its end is a premature end. *)
Theorem C18_file_read_terminates : forall orc s, read_many_file orc s <> OutOfFuel.
Proof. exact read_file_terminates. Qed.
Print Assumptions C18_file_read_terminates.
Theorem C18_file_read_outcome_class : forall orc s e, read_many_file orc s <> PyErr e.
Proof. exact read_file_outcome_class. Qed.
Print Assumptions C18_file_read_outcome_class.

Theorem C18_trichotomy : forall orc s,
  (exists ms, read_many orc s = Ok ms) \/ read_many orc s = Lex \/ read_many orc s = Premature.
Proof. exact read_trichotomy. Qed.
Print Assumptions C18_trichotomy.

(* The except clauses the theorems are about are the regenerated ones. *)
Example C18_handlers_convert : forall e, convert (RPy e) = RLex /\ convert RPrem = RPrem /\ convert RLex = RLex.
Proof. exact convert_table. Qed.

(* the model is not vacuous: a Python exception does arise under try_parse_one_form and is converted
   (b"\233" is a bytes literal with a non-ASCII character), and all three outcome classes occur *)
Definition toy : oracles :=
  {| numeric := fun s => match s with c :: _ => (48 <=? c) && (c <=? 57) | [] => false end;
     decode := fun _ s => Some s; pyspace := fun c => c =? 32; mk := At |}.
Example C18_ex_pyerr_inside : string_lit toy (fun _ _ => ROut) [98] [233; 34] = RPy ESyntaxError.
Proof. vm_compute. reflexivity. Qed.
Example C18_ex_lex : read_many toy [98; 34; 233; 34] = Lex.
Proof. vm_compute. reflexivity. Qed.
Example C18_ex_premature : read_many toy [40; 97] = Premature.
Proof. vm_compute. reflexivity. Qed.
Example C18_ex_shebang : read_many_file toy [35; 33; 120] = Premature
  /\ read_many_file toy [35; 33; 120; 10; 97] = Ok [At 0 0 (Sym [97])] /\ read_many toy [35; 33; 120; 10; 97] = Lex.
Proof. vm_compute. repeat split; reflexivity. Qed.
Example C18_ex_ok : read_many toy [40; 97; 32; 39; 98; 41] =
  Ok [At 5 0 (Seq KExpr [At 4 4 (Sym [97]); At 2 1 (Seq KExpr [Sym [113; 117; 111; 116; 101]; At 1 1 (Sym [98])])])].
Proof. vm_compute. reflexivity. Qed.
