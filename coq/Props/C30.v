(* C30 -- quote reproduces its argument model exactly.
   Statements only; proofs are in Quote/Proofs.v. *)
From HyV Require Import Base.Text Quote.Model Quote.Proofs.

(* The property as stated: for every model tree the constructors of hy.models can
   return (wf_ctor), under every meaning of user code and every head-symbol
   normaliser, evaluating (quote m) gives exactly m (same classes, same
   brackets / conversion / expression / is_tstring, float payloads by bits)
   and leaves the state alone. *)
Definition C30_full : Prop :=
  forall (St : Type) (user : model -> St -> res value * St) (norm : text -> text) m st,
    wf_ctor m = true -> run_quote St user norm true m st = (Ok (inj m), st).

(* Proved for every such tree in which no Complex has an imaginary part changed by
   0 + x (that is: -0.0, or a signalling NaN): wf = wf_ctor + that condition. *)
Theorem C30_quote_identity_partial :
  forall (St : Type) (user : model -> St -> res value * St) (norm : text -> text) m st,
    wf m = true -> run_quote St user norm true m st = (Ok (inj m), st).
Proof. exact quote_identity. Qed.
Print Assumptions C30_quote_identity_partial.

(* What is missing from C30_full is false: the literal -0j comes back as 0j. *)
Theorem C30_complex_negzero_refuted :
  wf_ctor cpx_negzero = true /\
  forall (St : Type) (user : model -> St -> res value * St) (norm : text -> text) st,
    run_quote St user norm true cpx_negzero st = (Ok (VCpx 0 0), st) /\ VCpx 0 0 <> inj cpx_negzero.
Proof. exact quote_complex_negzero. Qed.
Print Assumptions C30_complex_negzero_refuted.

(* the hypothesis is met by a tree that uses every class and attribute *)
Theorem C30_hypothesis_nontrivial : wf example_model = true.
Proof. exact example_model_wf. Qed.
Print Assumptions C30_hypothesis_nontrivial.
