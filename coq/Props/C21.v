(* C21 -- Reader source positions delimit each form's text.
   Statements only; proofs are in Reader/PosInv.v and Reader/Positions.v.

   The positioned reader is the model run with fill_pos = At: [At a b t] records, for the model t, the
   length of the input that remained after its first character was consumed (a) and after its last
   character was consumed (b); [linecol s n] turns such a length into the (line, column) pair that
   Reader.getc had recorded at that moment (constants regenerated from getc and _set_source).
   Children without an annotation (made up by the reader: sugar heads, the parts of a dotted
   identifier, joined f-string text) take their parent's position -- that is what fill_pos/replace do. *)
From HyV Require Import Base.Text Reader.Syntax Gen.ReaderTables Reader.Model Reader.Extend Reader.Cst Reader.PosInv Reader.Positions Reader.Strip.

(* Child within parent, for every text: every annotation lies inside the source, every nested
   annotation lies inside the enclosing one ([wn], Reader/PosInv.v). *)
(* Children in source order, for every text: in every sequence model the next item starts after the
   previous item ended ([ordered], strict) -- except the model of the annotate sugar, which lists
   the target before the type (design-inherent; C21_refuted_annotate_order).  The parts of every
   f-string and the children of every replacement field are in source order in the weak sense
   ([ordw], part of [ord]: starts and ends do not go backwards; neighbouring parts share a brace). *)
Theorem C21_child_within_parent_and_order : forall orc, positioned orc -> forall s ms,
  read_many orc s = Ok ms -> wnl (length s) 0 ms /\ ordl ms /\ ordered ms.
Proof. exact read_positions. Qed.
Print Assumptions C21_child_within_parent_and_order.

(* the same invariant in every mode of the reader (what the induction is about) *)
Theorem C21_positions_invariant : forall orc, positioned orc -> forall f H md s,
  (length s <= H)%nat -> modeinv H s md -> resinv H s md (rd orc f md s).
Proof. exact rd_positions. Qed.
Print Assumptions C21_positions_invariant.

(* getc's rule: the recorded pair is (1 + newlines consumed, characters since the last newline), and the
   order of remaining-input lengths is the order of the recorded (line, column) pairs *)
Theorem C21_getc_invariant : forall t, pos_after t = ((1 + count_nl t)%nat, since_nl 0 t).
Proof. exact pos_after_spec. Qed.
Print Assumptions C21_getc_invariant.
Theorem C21_linecol_monotone : forall s a b, (b <= a)%nat -> (a <= length s)%nat -> lex_le (linecol s a) (linecol s b).
Proof. exact linecol_mono. Qed.
Print Assumptions C21_linecol_monotone.

(* Locality: the positioned model of a form that is followed by rest is the positioned model of the
   form's own text (annotations shifted by |rest|): a form's reading, positions included, depends only on
   its own characters and one delimiting look-ahead. *)
Theorem C21_region_locality_partial : forall orc rest u f m,
  match rest with [] => True | d :: _ => stop d = true end ->
  rd (shifted orc (length rest)) f MTry u = RTry (Some m) [] ->
  rd orc f MTry (u ++ rest) = RTry (Some m) rest.
Proof. exact region_locality. Qed.
Print Assumptions C21_region_locality_partial.

(* Recording positions does not change what is read: the position-free reader of C19/C20 is the
   positioned reader with the annotations erased. *)
Theorem C21_positions_do_not_change_values : forall oA oP,
  (forall t, numeric oA t = numeric oP t) -> (forall b t, decode oA b t = decode oP b t) -> (forall c, pyspace oA c = pyspace oP c) ->
  (forall a b t, mk oA a b t = At a b t) -> (forall a b t, mk oP a b t = t) ->
  forall s, read_many oP s = strip_outcome (read_many oA s).
Proof. exact read_many_strip. Qed.
Print Assumptions C21_positions_do_not_change_values.

(* What is not proved: that the region a model records reads back, on its own, to an equal model
   (the converse direction of the locality lemma: restriction of a read in context to the region).
   The harness checks it on every node of every generated program. *)
Definition C21_full : Prop := forall orc, positioned orc -> forall s ms, read_many orc s = Ok ms ->
  forall a b t, In (At a b t) ms ->
  exists t', read_many orc (region s a b) = Ok [t'] /\ un_at t' = un_at t.

(* #^ int x (8 characters): the target x is listed before the type int although written after it *)
Theorem C21_refuted_annotate_order : exists s ms, read_many toyp s = Ok ms /\
  ms = [At 7 0 (Seq KExpr [Sym t_annotate; At 0 0 (Sym [120]); At 4 2 (Sym [105; 110; 116])])]
  /\ ~ ordered [At 0 0 (Sym [120]); At 4 2 (Sym [105; 110; 116])].
Proof. exact refuted_annotate_order. Qed.
(* f DQ a { x } b DQ : the parts of an f-string are in (weak) source order; neighbouring parts share a brace *)
Example C21_fstring_parts_in_order : exists s, read_many toyp s =
  Ok [At 7 0 (FStr false None [At 6 4 (Str [97] None); At 4 2 (FComp false None [120] [At 3 3 (Sym [120])]); At 2 0 (Str [98] None)])].
Proof. exact fstring_parts_example. Qed.
(* 'x : the head symbol quote is not annotated: it takes the position of the whole form *)
Theorem C21_refuted_synthesized_child : exists s, read_many toyp s = Ok [At 1 0 (Seq KExpr [Sym [113; 117; 111; 116; 101]; At 0 0 (Sym [120])])].
Proof. exact refuted_synthesized_child. Qed.
Print Assumptions C21_refuted_annotate_order.
