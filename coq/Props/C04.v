(* C04 -- comprehension forms produce the reference nested-loop result.
   Statements only; proofs are in Scope/ComprehensionProofs.v.  The semantics is parametric in the
   expression language (ev), the state, iterables (elems), truth (truthy): the theorems hold for all
   of them, for clause lists of any length and every final form. *)
From Coq Require Import List Bool.
Import ListNotations.
From HyV Require Import Scope.Comprehension Scope.ComprehensionProofs.
From HyV Require Import Base.Text Scope.SetDecl Scope.Machine Scope.GenLeak.
Local Open Scope nat_scope.

Section C04.
Variables var val expr st : Type.
Variable ev : expr -> st -> val * st.
Variable assign : var -> val -> st -> st.
Variable truthy : val -> bool.
Variable elems : val -> list val.
Variable pairv : val -> val -> val.
Variable items : val -> list val.

Notation ref := (ref var val expr st ev assign truthy elems pairv items).
Notation exec := (exec var val expr st ev assign truthy elems pairv items).
Notation native := (native var val expr st ev assign truthy elems pairv items).
Notation loop := (loop var val st assign).

(* genfn_eq_ref: the generator function's for/if/assign/expr/yield nest yields the reference's elements in
   order with the same effects and the same break/continue outcome -- every clause list (incl. :do with
   break/continue), every final form (VALUE, #* VALUE, KEY VALUE, #** VALUE) *)
Theorem C04_genfn_eq_ref : forall (fin : final expr) (cs : list (clause var expr)) s,
  exec (gen_body var expr cs fin) s = ref cs fin s.
Proof. exact (genfn_eq_ref var val expr st ev assign truthy elems pairv items). Qed.

(* native_eq_ref: whenever the code's generator-building loop succeeds, the comprehension means the reference *)
Theorem C04_native_eq_ref : forall (fin : final expr) (cs : list (clause var expr)) gs,
  to_gens var expr cs [] = Some gs ->
  forall s, native gs fin s = drop3 val st (ref cs fin s).
Proof. exact (native_eq_ref var val expr st ev assign truthy elems pairv items). Qed.

Theorem C04_strategies_agree : forall (fin : final expr) (cs : list (clause var expr)) gs,
  to_gens var expr cs [] = Some gs ->
  forall s, native gs fin s = drop3 val st (exec (gen_body var expr cs fin) s).
Proof. exact (strategies_agree var val expr st ev assign truthy elems pairv items). Qed.

(* for_else_iff_no_break: the else block is attached to the outermost iteration clause only (inner loops get
   none) and runs exactly when that loop was not left by break *)
Theorem C04_for_else_iff_no_break : forall x it (r : list (clause var expr)) (body orelse : list (stmt var expr)) s,
  exec (gen_for var expr (CFor x it :: r) body orelse) s =
    let '(v, s1) := ev it s in
    let '(o, s2, broke) := loop (exec (gen_for var expr r body [])) x (elems v) s1 in
    if broke then (o, s2, ONormal)
    else let '(o2, s3, c2) := exec orelse s2 in (o ++ o2, s3, c2).
Proof. exact (for_else_iff_no_break var val expr st ev assign truthy elems pairv items). Qed.

(* native_total_full would say: for every clause list without :do the generators can be built.  It fails
   exactly for lists that start with :if (generators[-1] on an empty list -> IndexError). *)
Definition C04_native_total_full : Prop :=
  forall cs : list (clause var expr), forallb (plain var expr) cs = true -> to_gens var expr cs [] <> None.

Theorem C04_native_undefined_iff_leading_if : forall cs : list (clause var expr),
  forallb (plain var expr) cs = true ->
  (to_gens var expr cs [] = None <-> exists c r, cs = CIf c :: r).
Proof. exact (native_undefined_iff_leading_if var expr). Qed.

End C04.

Print Assumptions C04_genfn_eq_ref.
Print Assumptions C04_native_eq_ref.
Print Assumptions C04_strategies_agree.
Print Assumptions C04_for_else_iff_no_break.
Print Assumptions C04_native_undefined_iff_leading_if.

Theorem C04_native_total_refuted : ~ C04_native_total_full nat nat.
Proof.
  intros H. apply (H [CIf 0]); reflexivity.
Qed.
Print Assumptions C04_native_total_refuted.

(* leak_spec, the ScopeGen part (partial: that the names of the generator function's nonlocal/global statement
   are exactly what becomes visible outside is Python's semantics, checked by the oracle).
   (a) iterator(target): recorded assignments and seen nodes named like an iteration or :setv variable are
       dropped, and later accesses to such names are not recorded;
   (b) finalize(): in a function, class or module scope the names put into the nonlocal/global statement are
       the (sorted) set of names of the remaining recorded assignments -- the setx targets. *)
Theorem C04_leak_iterator_partial : forall st s rest xs,
  st_err st = None -> st_stack st = s :: rest -> s_kind s = KGen ->
  match st_stack (iterator st xs) with
  | s' :: _ =>
      (forall r, In r (s_assignments s') -> smem (name_of (st_cells st) r) (supdate (s_iterators s) xs) = false)
      /\ (forall r, In r (s_seen s') -> smem (name_of (st_cells st) r) (supdate (s_iterators s) xs) = false)
      /\ s_iterators s' = supdate (s_iterators s) xs
  | [] => False
  end.
Proof. exact iterator_drops_iteration_variables. Qed.
Print Assumptions C04_leak_iterator_partial.

Theorem C04_leak_finalize_partial : forall perm ord st s rest,
  st_err st = None -> st_stack st = s :: rest -> s_kind s = KGen -> plain_parent rest ->
  exists out, st_fin (finalize perm ord st) = st_fin st ++ [out]
    /\ fo_names out = names_of_set perm ord
         (supdate [] (filter (fun n => negb (smem n (s_nonlocal s))) (map (name_of (st_cells st)) (s_assignments s))))
    /\ st_cells (finalize perm ord st) = st_cells st.
Proof. exact finalize_returns_assignment_names. Qed.
Print Assumptions C04_leak_finalize_partial.

(* a non-trivial clause list on which the hypotheses hold *)
Example C04_to_gens_example :
  to_gens nat nat [CFor 1 10; CIf 11; CSetv 2 12; CIf 13; CIf 14; CFor 3 15] []
  = Some [Gen 1 (ItExpr 10) [11]; Gen 2 (ItOne 12) [13; 14]; Gen 3 (ItExpr 15) []].
Proof. reflexivity. Qed.
