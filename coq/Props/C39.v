(* C39 -- hy.eval returns the last value and restores the caller's `hy` binding.
   Statements only; proofs are in State/EvalRestore*.v.  The subject of every
   theorem is the body of hy_eval_user / hy_eval as regenerated from
   hy/compiler.py into Gen/StateEvalTerm.v (tie T2), run by the fragment
   semantics State/EvalRestoreSem.v with every callee opaque. *)
From HyV Require Import State.EvalRestore State.EvalRestoreTactics State.EvalRestoreParam State.EvalRestoreProofs
  State.EvalRestoreTwoStep.

(* One call of hy.eval: for EVERY non-reentrant oracle O (a function returning the callee's heap and
   outcome) within the frame condition (dictionaries stay dictionaries; no hy entry is touched except
   that of the dictionary hy_eval receives as `locals`), every heap, every log, every model / module /
   macros value, and globals / locals each absent or any dictionary:
   - the call ends, normally or by an exception (no timeout, nothing outside the fragment);
   - a normal result is exactly hy_eval's answer, hy_eval being called last, once, with the given
     globals and with locals = the given locals, else the given globals; an exception is exactly the
     one raised by the most recent callee;
   - if a dictionary was given, every dictionary of the heap (the given ones included) has a hy
     entry afterwards exactly when it had one before, holding the same object. *)
Theorem C39_one_call : forall O, frame_ok O -> forall m vg vl vm vmac h log,
  ns_arg h vg -> ns_arg h vl ->
  let r := call_user (nr O) user_fuel m vg vl vm vmac (h, log) in
  post_value O m vg vl vmac r /\ (given vg \/ given vl -> post_restore h r).
Proof. exact hy_eval_user_call. Qed.
Print Assumptions C39_one_call.

(* Any sequence of calls (any mix of dictionaries of the initial heap, succeeding or raising at any
   point): every dictionary's hy entry after the last call is what it was before the first. *)
Theorem C39_hy_binding_restored : forall O, frame_ok O -> forall cs h log,
  Forall (call_ok h) cs ->
  exists h' log', run_calls (nr O) cs (h, log) = Some (h', log') /\ hy_preserved h h'.
Proof. exact hy_binding_restored_seq. Qed.
Print Assumptions C39_hy_binding_restored.

(* hy_eval's last two statements: exec-compile, eval, eval-compile, eval in the same namespaces, in
   this order; the function returns the second eval's answer; exceptions are passed on unchanged.
   Partial: that `expr` denotes the last form's value (and `_ast` everything before it) is the
   get_expr contract of hy_compile -- the compiler family's force_expr lemma, not proved here; what
   is checked here on the generated prefix is that it is straight-line code binding (_ast, expr)
   from one hy_compile(..., get_expr=True) call. *)
Definition C39_full (value_of_last_form : val -> val -> val -> heap -> val -> Prop) : Prop :=
  forall O, frame_ok O -> forall m vg vl vm vmac h log, ns_arg h vg -> ns_arg h vl ->
  match call_user (nr O) user_fuel m vg vl vm vmac (h, log) with
  | EOk v _ => value_of_last_form m vg vl h v
  | _ => True
  end.
Theorem C39_returns_last_partial : forall O hytree vL module compiler fn source istd vG xm a e h log,
  post_two_step O a e fn vG vL log
    (run_block eval2_prog (nr O) two_step_fuel
       (env_after hytree vL module compiler fn source istd vG xm a e) hy_eval_suffix (h, log))
  /\ fbody hy_eval_def = (hy_eval_prefix ++ hy_eval_suffix)%list
  /\ no_return hy_eval_prefix = true /\ existsb binds_ast_expr hy_eval_prefix = true.
Proof.
  intros. split; [apply hy_eval_last_two_steps|].
  split; [exact hy_eval_body_splits | exact prefix_shape].
Qed.
Print Assumptions C39_returns_last_partial.

(* the frame condition is met by a callee that rebinds hy, adds keys, returns and raises;
   on it the restoration is observable ([demo_run], State/EvalRestoreProofs.v: three calls on two
   dictionaries, one holding hy = object 7; afterwards it still holds object 7, the other has none) *)
Theorem C39_hypotheses_satisfiable : frame_ok demo_oracle /\ demo_run.
Proof. exact (conj demo_frame_ok demo_restores). Qed.
Print Assumptions C39_hypotheses_satisfiable.
