(* C26 -- Model constructors accept exactly what Hy syntax can express.
   Statements only; proofs are in Lit/CtorProofs.v.  U: Unicode digit / space classes (numeric
   cascade); L: the \N{...} table (quoted strings).  read_top is the token-level reader of
   Lit/Ctor.v: forms other than identifiers, numbers, dotted forms, keywords, strings, bracket
   strings, comments and whitespace are the single outcome ROther. *)
From HyV Require Import Base.Text Gen.LitTables Lit.Strings Lit.StringsSpec Lit.StringsBracket Lit.Numeric Lit.NumericExt
  Lit.Ctor Lit.CtorProofs.

(* hy.models.Symbol(s) succeeds exactly when reading s yields that one symbol -- every string s. *)
Theorem C26_symbol_ctor_iff : forall U L s, sym_ok U s = true <-> read_top U L s = ROk [FSym s].
Proof. exact symbol_ctor_iff. Qed.
Print Assumptions C26_symbol_ctor_iff.

(* hy.models.Keyword(s) succeeds exactly when reading ":" + s yields that one keyword -- every string s. *)
Theorem C26_keyword_ctor_iff : forall U L s, kw_ok s = true <-> read_top U L (ch_colon :: s) = ROk [FKw s].
Proof. exact keyword_ctor_iff. Qed.
Print Assumptions C26_keyword_ctor_iff.

(* The full statement for bracket strings ... *)
Definition C26_bracket_ctor_iff_full : Prop := forall U L d s, ~ In ch_lbr d -> ~ In ch_rbr d ->
  (str_ok d s = true <-> read_top U L (render_bracket d s) = ROk [FStr (VStr s) (Some d)]).

(* ... holds in one direction: if the bracket string reads back, String(s, brackets=d) succeeds ... *)
Theorem C26_bracket_ctor_if_partial : forall U L d s,
  read_top U L (render_bracket d s) = ROk [FStr (VStr s) (Some d)] -> str_ok d s = true.
Proof. exact bracket_ctor_if_partial. Qed.
Print Assumptions C26_bracket_ctor_if_partial.

(* ... and the bracket string does read back for every delimiter without brackets that is not an
   f-string delimiter and every content without a carriage return in which ]d] first occurs at the
   end of content + ]d] (what is missing for the converse is exactly the three classes below). *)
Theorem C26_bracket_reads_back : forall U L d s,
  ~ In ch_lbr d -> ~ In ch_rbr d -> fmode d = false -> ~ In ch_cr s ->
  find_end (closer d) (s ++ closer d) = Some (length s + length (closer d))%nat ->
  read_top U L (render_bracket d s) = ROk [FStr (VStr s) (Some d)].
Proof. exact bracket_reads_back. Qed.
Print Assumptions C26_bracket_reads_back.

(* The other direction is refuted: the constructor accepts, the bracket string does not read back.
   Witnesses (replayed on the real code by props/c26.py, recorded as known findings):
     String("a]x", brackets="x")  -- the closing delimiter completes ]x] : reads as "a" followed by more text
     String("a" CR "b", brackets="x")  -- the carriage return reads as a line feed
     String("a", brackets="f")   -- #[f[ ... ]f] is an f-string *)
Theorem C26_bracket_ctor_iff_refuted :
  (str_ok [120] [97; 93; 120] = true /\
   read_top uni0 (fun _ => None) (render_bracket [120] [97; 93; 120]) <> ROk [FStr (VStr [97; 93; 120]) (Some [120])]) /\
  (str_ok [120] [97; 13; 98] = true /\
   read_top uni0 (fun _ => None) (render_bracket [120] [97; 13; 98]) = ROk [FStr (VStr [97; 10; 98]) (Some [120])]) /\
  (str_ok [102] [97] = true /\
   read_top uni0 (fun _ => None) (render_bracket [102] [97]) = ROther).
Proof. exact bracket_ctor_iff_witnesses. Qed.
Print Assumptions C26_bracket_ctor_iff_refuted.

(* ---- not vacuous ---- *)
Example C26_example_symbol : sym_ok uni0 [102; 111; 111; 45; 98; 97; 114; 63] = true /\ sym_ok uni0 [49; 101; 53] = false /\
  sym_ok uni0 [97; 32; 98] = false /\ sym_ok uni0 [46; 46; 46] = true.
Proof. repeat split; vm_compute; reflexivity. Qed.
Example C26_example_keyword : kw_ok [] = true /\ kw_ok [97; 58; 98] = true /\ kw_ok [97; 46; 98] = false.
Proof. repeat split; vm_compute; reflexivity. Qed.
Example C26_example_bracket : read_top uni0 (fun _ => None) (render_bracket [61; 61] [10; 97; 93; 61; 93]) =
  ROk [FStr (VStr [10; 97; 93; 61; 93]) (Some [61; 61])].
Proof. vm_compute. reflexivity. Qed.
