(* C06 -- let bindings are lexically scoped.
   Statements only; proofs are in Scope/Refine*.v.  Scope/Lexical.v is the specification (an
   environment-passing resolver written from docs/api.rst), Scope/Walk.v + Scope/Machine.v the model
   of the implementation (tied to the code by the trace correspondences of props/c06.py). *)
From HyV Require Import Base.Text Scope.SetDecl Scope.OuterVars Scope.Machine Scope.Walk Scope.Lexical Scope.Refine.
Local Open Scope nat_scope.

(* let_refines_lexical, full statement: for every module within the specification (l_ok) whose let
   variables are new names, every identifier node ends up with the name the lexical resolver gives it. *)
Definition C06_let_refines_lexical_full : Prop :=
  forall fresh fs, fresh_ok fresh fs -> l_ok (lex_module fresh fs) = true -> refines fresh fs.

(* the documentation's shadowing example and a closure example, by computation *)
Theorem C06_doc_example_refines : refines hy_let_name doc_example.
Proof. exact doc_example_refines. Qed.
Print Assumptions C06_doc_example_refines.

Theorem C06_closure_example_refines : refines hy_let_name closure_example.
Proof. exact closure_example_refines. Qed.
Print Assumptions C06_closure_example_refines.
