(* C06 -- let bindings are lexically scoped.
   Statements only; proofs are in Scope/RefineP01..P19.v.

   Scope/Lexical.v is the specification: an environment-passing resolver written from docs/api.rst
   (let: sequential bindings, shadowing, nothing visible outside; setv/setx to a let-bound name means
   that variable; a function's own names -- parameters and names assigned directly in its body --
   hide outer let bindings inside it; everything else keeps the meaning of the definition point).
   Scope/Walk.v + Scope/Machine.v are the model of the implementation: the scope calls the compiler
   makes (compile_symbol, compile_assign, compile_let, compile_function_lambda, compile_function_def) and the scope classes with
   their renaming of mutable nodes and the deferred propagation in ScopeFn.__exit__.  Both are tied
   to the code on every run (props/c06.py: recorded traces vs machine, recorded traces vs walk). *)
From HyV Require Import Base.Text Scope.SetDecl Scope.OuterVars Scope.Machine Scope.Walk Scope.Lexical Scope.Refine
  Scope.RefineP19.
Local Open Scope nat_scope.

(* Full statement: for every module, every identifier node ends up with the name lexical scoping
   prescribes.  Not provable as it stands: class bodies, nonlocal/global declarations, comprehension
   forms and defn of a let-bound name have no clause in the specification (l_ok = false), and for
   class bodies the implementation is known to deviate (finding C06-class-attribute-hides-let-binding). *)
Definition C06_let_refines_lexical_full : Prop :=
  forall (fresh : name -> nat -> name) (user : name -> bool),
    (forall x k, user (fresh x k) = false) ->
    forall fs, (forall x, In x (flat_map names_of fs) -> user x = true) -> refines fresh fs.

(* Proved: the same for every module inside the specification -- literals, symbols, setv/setx, do,
   calls, let (any number of sequential bindings), fn, defn, nested to any depth, any length.
   [user] separates the program's names from the new let variables (that they are new is C12's
   subject); nothing else is assumed about [fresh].
   What the proof establishes on the way: an inner let shadows and leaving it restores (the bindings
   of enclosing scopes are untouched), setv/setx targets get the same variable as reads, no let
   variable is used outside the let's extent, same-named plain names outside are not renamed, and
   the nodes a function scope hands to its parent on __exit__ are resolved with the bindings of the
   function's definition point (RefineP10.exit_fold_inv, RefineP11.step_exit_fn). *)
Theorem C06_let_refines_lexical_partial :
  forall (fresh : name -> nat -> name) (user : name -> bool),
    (forall x k, user (fresh x k) = false) ->
    forall fs, (forall x, In x (flat_map names_of fs) -> user x = true) ->
    l_ok (lex_module fresh fs) = true -> refines fresh fs.
Proof. exact let_refines_lexical. Qed.
Print Assumptions C06_let_refines_lexical_partial.

(* the hypotheses are satisfiable for Hy's naming scheme: names that do not start with "_hy_" *)
Definition not_reserved (n : name) : bool := negb (starts_with [95; 104; 121; 95]%N n).
Theorem C06_hy_let_names_are_reserved : forall x k, not_reserved (hy_let_name x k) = false.
Proof. intros x k. reflexivity. Qed.
Print Assumptions C06_hy_let_names_are_reserved.

(* instances: the documentation's shadowing example and a closure example (by computation, and as
   instances of the theorem) *)
Theorem C06_doc_example_refines : refines hy_let_name doc_example.
Proof. exact doc_example_refines. Qed.
Print Assumptions C06_doc_example_refines.

Theorem C06_closure_example_refines : refines hy_let_name closure_example.
Proof. exact closure_example_refines. Qed.
Print Assumptions C06_closure_example_refines.

Example C06_doc_example_names :
  l_cells (lex_module hy_let_name doc_example)
  = [[hy_let_name nx 1]; [hy_let_name nx 1]; [hy_let_name ny 2]; [hy_let_name ny 2];
     [nprint]; [hy_let_name nx 1]; [hy_let_name ny 2];
     [hy_let_name nx 3]; [hy_let_name nx 3]; [nprint]; [hy_let_name nx 3]; [hy_let_name ny 2];
     [nprint]; [hy_let_name nx 1]; [hy_let_name ny 2]].
Proof. exact doc_example_names. Qed.
