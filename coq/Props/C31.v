(* C31 -- quasiquote substitutes unquotes at the right nesting level.
   Statements only; proofs are in Quote/Proofs.v.

   qq_ref / qq_ref_p (Quote/Model.v) are the reference, written from docs/api.rst:
   an unquote at depth 0 is replaced by the (promoted) value of its form, an
   unquote-splice at depth 0 by the elements of (or value []), a nested
   quasiquote raises the depth, an unquote inside it lowers it, deeper forms
   stay literal.  qq_valid = the templates the documentation gives a meaning
   to (every active unquote has one argument, and that argument is an
   expression); qq_rejected = those refused while the form is compiled. *)
From HyV Require Import Base.Text Quote.Model Quote.Proofs.
From Coq Require Import ZArith String.

(* Every valid template, any nesting, any sequence kind, every environment (a
   state-passing function, so "same user code, same order, same states" is part
   of the equation), every normaliser: compile_quote's form evaluates to the
   reference.  wf excludes what C30 excludes (a Complex literal with imaginary part -0.0). *)
Definition C31_full : Prop :=
  forall (St : Type) (user : model -> St -> res value * St) (norm : text -> text) t st,
    wf_ctor t = true -> qq_valid norm 0 t = true ->
    run_quote St user norm false t st = qq_ref St user norm 0 t st.

(* Proved with wf in place of wf_ctor; the difference is refuted below (C31_complex_negzero_refuted). *)
Theorem C31_quasiquote_correct_partial :
  forall (St : Type) (user : model -> St -> res value * St) (norm : text -> text) t st,
    wf t = true -> qq_valid norm 0 t = true ->
    run_quote St user norm false t st = qq_ref St user norm 0 t st.
Proof. exact quasiquote_run. Qed.
Print Assumptions C31_quasiquote_correct_partial.

(* The same at every depth d (what render_quoted_form returns inside d nested quasiquotes). *)
Theorem C31_quasiquote_correct_any_depth_partial :
  forall (St : Type) (user : model -> St -> res value * St) (norm : text -> text) t d,
    wf t = true -> qq_valid norm d t = true ->
    exists f sp, render norm (LNat d) t = Ok (f, sp) /\ forall st, eval St user f st = qq_ref St user norm d t st.
Proof. exact quasiquote_correct. Qed.
Print Assumptions C31_quasiquote_correct_any_depth_partial.

(* With promotion, as the property words it: if the quasiquote evaluates to v and hy.as_model
   accepts v, the promoted result is the reference in which each inserted value is promoted. *)
Theorem C31_quasiquote_promoted_partial :
  forall (St : Type) (user : model -> St -> res value * St) (norm : text -> text) t st st' v v',
    wf t = true -> qq_valid norm 0 t = true ->
    run_quote St user norm false t st = (Ok v, st') -> as_model v = Ok v' ->
    qq_ref_p St user norm 0 t st = (Ok v', st').
Proof. exact quasiquote_promoted. Qed.
Print Assumptions C31_quasiquote_promoted_partial.

(* unquote_arity_error_class: a template with a wrong-arity unquote (or a splice of an
   unpack-iterable form) is refused with a compile-time error and no user code runs. *)
Theorem C31_rejected_is_static_error :
  forall (St : Type) (user : model -> St -> res value * St) (norm : text -> text) t d st,
    qq_rejected norm d t = true ->
    exists e, render norm (LNat d) t = Err e /\ static_error e = true
              /\ (d = O -> run_quote St user norm false t st = (Err e, st)).
Proof. exact quasiquote_rejected. Qed.
Print Assumptions C31_rejected_is_static_error.

(* The literal parts of a template are quoted, so the C30 defect shows here too. *)
Theorem C31_complex_negzero_refuted :
  wf_ctor cpx_negzero = true /\ qq_valid norm_id 0 cpx_negzero = true /\
  forall (St : Type) (user : model -> St -> res value * St) (norm : text -> text) st,
    run_quote St user norm false cpx_negzero st = (Ok (VCpx 0 0), st) /\ VCpx 0 0 <> inj cpx_negzero.
Proof. exact quasiquote_complex_negzero. Qed.
Print Assumptions C31_complex_negzero_refuted.

(* hypotheses are met by a template with two levels of nesting; the reference gives the documented results *)
Theorem C31_hypotheses_nontrivial : wf nested_template = true /\ qq_valid norm_id 0 nested_template = true.
Proof. exact nested_template_ok. Qed.
Print Assumptions C31_hypotheses_nontrivial.

Theorem C31_reference_matches_docs_unquote :
  qq_ref_p _ ex_user norm_id 0 doc_template1 [] = (Ok (inj (ex [sy "+"; MInt 1; MInt 2])), [sy "x"]).
Proof. exact doc_example1. Qed.
Print Assumptions C31_reference_matches_docs_unquote.

Theorem C31_reference_matches_docs_splice :
  qq_ref_p _ ex_user norm_id 0 doc_template2 [] =
  (Ok (inj (MSeq KList [sy "a"; sy "b"; MSeq KList [MInt 1; MInt 2; MInt 3]; sy "c"; sy "d";
                        MInt 1; MInt 2; MInt 3; sy "e"; sy "f"])),
   [sy "X"; sy "X"; sy "n"]).
Proof. exact doc_example2. Qed.
Print Assumptions C31_reference_matches_docs_splice.

Theorem C31_rejected_nontrivial : qq_rejected norm_id 0 bad_arity_template = true.
Proof. exact bad_arity_rejected. Qed.
Print Assumptions C31_rejected_nontrivial.
