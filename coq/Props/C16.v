(* C16 -- Compile-time staging: eval-and-compile, eval-when-compile, do-mac.
   Statements only; proofs are in Cmd/StagingProofs.v.  `compile` follows
   compile_eval_foo_compile; `spec_rt` / `spec_ct` are what the property
   prescribes (each staging body compiled once and run once at compile time, in
   source order; at run time eval-and-compile = do, eval-when-compile = nothing
   and None, do-mac = the code it returned, once per execution of the position). *)
From HyV Require Import Base.Text Cmd.StagingModel Cmd.StagingProofs Cmd.StagingGen.

(* Run time, for EVERY program (staging forms at top level, in do, in function
   bodies, nested in each other to any depth): the compiled code has exactly the
   prescribed effects and value. *)
Theorem C16_run_time : forall prog, run (snd (compile_module prog)) = spec_rt_body prog VNone.
Proof. exact run_module_spec. Qed.
Print Assumptions C16_run_time.

(* Loading from bytecode runs only the run-time part; loading from source adds
   the compile-time trace in front. *)
Theorem C16_cached_run_is_runtime_only : forall prog,
  effects_of_load prog ImportCached = fst (spec_rt_body prog VNone)
  /\ effects_of_load prog ImportFresh = fst (compile_module prog) ++ effects_of_load prog ImportCached.
Proof. exact cached_run_is_runtime_only. Qed.
Print Assumptions C16_cached_run_is_runtime_only.

(* The full compile-time claim: every staging body runs once at compile time. *)
Definition C16_compile_time_full : Prop := forall prog, fst (compile_module prog) = spec_ct_body prog.

(* It holds for every program in which no staging form sits inside the body of an
   eval-and-compile (all other nesting allowed) ... *)
Theorem C16_compile_time_partial : forall prog, eac_clean_body prog = true ->
  fst (compile_module prog) = spec_ct_body prog.
Proof. exact compile_module_spec. Qed.
Print Assumptions C16_compile_time_partial.

(* ... and fails otherwise: (eval-and-compile (eval-when-compile (log 1)) (log 2))
   logs 1 twice while compiling, because the handler compiles the body once to
   evaluate it and once more to leave it in the program. *)
Theorem C16_compile_time_refuted : exists prog, fst (compile_module prog) <> spec_ct_body prog.
Proof. exact compile_time_full_refuted. Qed.
Print Assumptions C16_compile_time_refuted.

Theorem C16_refutation_witness :
  fst (compile_module nested_witness) = [1; 2; 1] /\ spec_ct_body nested_witness = [1; 2].
Proof. exact compile_time_once_refuted. Qed.
Print Assumptions C16_refutation_witness.

(* the hypothesis of the partial theorem is met by a program using every allowed nesting *)
Theorem C16_example : eac_clean_body clean_example = true
  /\ fst (compile_module clean_example) = [1; 2; 3; 4; 5; 4; 6; 7; 8]
  /\ run (snd (compile_module clean_example)) = ([1; 2; 1; 2; 8; 9], VNum 9).
Proof. exact clean_example_ok. Qed.
Print Assumptions C16_example.
