(* C29 -- hy.as-model promotes values to models that evaluate back to them.
   Statements only; proofs are in Quote/AsModelProofs.v.  gen_* are regenerated from
   hy/models.py on every run (translator/asmodel_shape.py). *)
From HyV Require Import Base.Text Quote.Model Quote.AsModel Quote.AsModelProofs Gen.AsModelShape Gen.AsModelObl.
From Coq Require Import ZArith.

(* The registry, the checks of as_model and the try/finally brackets of the source are the ones
   the model was written against, and the model's as_model is exactly "look type(x) up in that
   registry and apply the wrapper". *)
Theorem C29_registry_as_in_source :
  gen_wrappers = model_wrappers /\ gen_as_model_steps = model_as_model_steps
  /\ (gen_recwrap_bracket, gen_dict_bracket, gen_fstring_bracket)
     = (model_recwrap_bracket, model_dict_bracket, model_fstring_bracket).
Proof. exact (conj gen_wrappers_ok (conj gen_as_model_steps_ok gen_brackets_ok)). Qed.
Print Assumptions C29_registry_as_in_source.

Theorem C29_as_model_is_registry_dispatch : forall v, as_model v = as_model_via gen_wrappers v.
Proof. rewrite gen_wrappers_ok. exact as_model_by_table. Qed.
Print Assumptions C29_as_model_is_registry_dispatch.

(* (1) Every value built from str, bytes, int, float, complex, bool, None, keywords, lists, tuples,
   sets and dicts, of any size and nesting (plain: also, a set has pairwise different members and a
   dict pairwise different keys), is promoted to a model tree, and evaluating that tree -- with the
   model of hy.eval that C30/C31 use, under every environment, running no user code -- gives the
   value back: same type at every node, integers by value, floats by their bits (so NaN and -0.0
   come back as they were), sets and dicts with the same members / items.  The one deviation is
   cnorm: the imaginary part of a complex comes back as 0 + im (so -0.0 becomes +0.0: equal under
   Python's ==, different bits; the same Complex.__new__ mechanism as the C30 finding). *)
Theorem C29_promotes_to_model_tree : forall v, plain v = true -> as_model v = Ok (inj (model_of v)).
Proof. exact as_model_plain. Qed.
Print Assumptions C29_promotes_to_model_tree.

Theorem C29_evaluates_back :
  forall (St : Type) (user : model -> St -> res value * St) v, plain v = true ->
  forall st, eval St user (model_of v) st = (Ok (cnorm v), st).
Proof. exact eval_model_of. Qed.
Print Assumptions C29_evaluates_back.

Theorem C29_evaluates_back_exactly : forall v, cpx_plain v = true -> cnorm v = v.
Proof. exact cnorm_id. Qed.
Print Assumptions C29_evaluates_back_exactly.

(* (2) as_model applied to its own output returns it unchanged -- for every value whatsoever
   (existing models with unpromoted children included). *)
Theorem C29_idempotent : forall v w, as_model v = Ok w -> as_model w = Ok w.
Proof. exact as_model_idempotent. Qed.
Print Assumptions C29_idempotent.

(* (4) On the heap (object graph) version with _seen as state: after ANY outcome -- a model, an error
   raised at any depth (self-reference, unwrappable object, illegal bracket string), or the model
   running out of fuel -- _seen is what it was before the call; for every heap, guard state and fuel. *)
Theorem C29_seen_restored : forall fuel h seen a, snd (as_model_h fuel h seen a) = seen.
Proof. exact seen_restored. Qed.
Print Assumptions C29_seen_restored.

(* ... hence, in every history of calls (each on its own heap), every call gives what it gives as the
   first call of a fresh interpreter: failing promotions leave no trace. *)
Theorem C29_history_independent : forall fuel calls seen,
  run_history fuel calls seen = (map (fun c => fst (as_model_h fuel (fst c) seen (snd c))) calls, seen).
Proof. exact history_independent. Qed.
Print Assumptions C29_history_independent.

(* (3) A structure that reaches itself is never promoted; once the outcome is defined it is an error,
   and more fuel does not change a defined outcome.  For a guarded container the error arises at
   the guard: an element that leads back to it is visited while it is in _seen. *)
Theorem C29_self_reference_is_error_partial : forall fuel h seen a o s, self_referential h a ->
  as_model_h fuel h seen a = (o, s) -> o <> HFuel -> exists e, o = HErr e.
Proof. exact cycle_is_error. Qed.
Print Assumptions C29_self_reference_is_error_partial.

Theorem C29_fuel_monotone : forall n h seen a o s, as_model_h n h seen a = (o, s) -> o <> HFuel ->
  as_model_h (S n) h seen a = (o, s).
Proof. exact fuel_mono. Qed.
Print Assumptions C29_fuel_monotone.

Theorem C29_guard_fires : forall fuel h seen a c items b,
  nth_error h a = Some (HCont c items) -> tracked c = true -> In b items -> reach h b a ->
  forall w, fst (as_model_h fuel h (a :: seen) b) <> HOk w.
Proof. exact guard_fires. Qed.
Print Assumptions C29_guard_fires.

(* Missing for the full clause (3): a bound on the fuel after which the outcome of a self-referential
   structure is defined, and that the error is ECycle rather than another HyWrapperError met first
   (both are checked on every generated heap by the harness with fuel 2 * |heap| + 4). *)
Definition C29_self_reference_full : Prop :=
  forall h seen a, self_referential h a -> exists fuel e, fst (as_model_h fuel h seen a) = HErr e.

(* examples: direct and indirect cycles, a tuple holding a list holding the tuple, a shared
   (not cyclic) sublist, an unwrappable object two levels down -- outcome and _seen *)
Theorem C29_examples :
  as_model_h 10 heap_self_list [] 0 = (HErr ECycle, [])
  /\ as_model_h 10 heap_indirect [] 0 = (HErr ECycle, [])
  /\ as_model_h 10 heap_tuple_list [] 0 = (HErr ECycle, [])
  /\ as_model_h 10 heap_shared [] 0 = (HOk (VSeq KList [VSeq KList [VInt 1]; VSeq KList [VInt 1]]), [])
  /\ as_model_h 10 heap_unwrappable [] 0 = (HErr EWrapper, []).
Proof. exact example_cycles. Qed.
Print Assumptions C29_examples.

Theorem C29_hypotheses_nontrivial : plain example_plain = true /\ self_referential heap_indirect 0.
Proof. exact (conj example_plain_ok example_self_referential). Qed.
Print Assumptions C29_hypotheses_nontrivial.
