(* C23 -- String and bracket-string literals read with Python's escape semantics.
   Statements only; proofs are in Lit/StringsProofs.v, Lit/StringsSim.v, Lit/StringsMain.v, Lit/StringsBracket.v.
   U is the interpreter's table for \N{...}; lookup_bad U says a name holding a backslash or a
   character >= U+0100 is unknown (validated by props/c23.py). *)
From HyV Require Import Base.Text Gen.LitTables Lit.Strings Lit.StringsSpec Lit.StringsProofs Lit.StringsSim
  Lit.StringsMain Lit.StringsBracket.

(* For each of the prefixes '', r, b, br, rb, every body of valid code points that the next quote closes,
   and every following text: the reader yields Python's value of the literal (body newline-translated)
   and leaves exactly the following text unread; when Python gives the literal no value the reader
   raises a syntax error of the stated class. *)
Theorem C23_string_matches_python : forall U, lookup_bad U -> forall p body rest,
  In p judged_prefixes -> Forall valid_cp body -> closed_body false body = true ->
  prefixed_string U p (body ++ ch_dq :: rest) =
    match py_string_value U (mem ch_r p) (mem ch_b p) (nl_spec body) with
    | Some v => Ok (v, rest)
    | None => Lex (err_kind (mem ch_r p) (mem ch_b p) (nl_spec body))
    end.
Proof. exact string_matches_python. Qed.
Print Assumptions C23_string_matches_python.

(* Escape sequences Python does not recognise are Hy syntax errors (and have no Python value). *)
Theorem C23_unrecognised_escape_is_lex : forall U, lookup_bad U -> forall p body rest,
  In p judged_prefixes -> Forall valid_cp body -> closed_body false body = true ->
  mem ch_r p = false -> rec_chk (mem ch_b p) false (nl_spec body) = false ->
  py_string_value U false (mem ch_b p) (nl_spec body) = None /\
  prefixed_string U p (body ++ ch_dq :: rest) = Lex EEscape.
Proof. exact unrecognised_escape_is_lex. Qed.
Print Assumptions C23_unrecognised_escape_is_lex.

(* A literal that is never closed has no value. *)
Theorem C23_unterminated_no_value : forall U p s, In p judged_prefixes ->
  (forall body rest, s <> body ++ ch_dq :: rest) ->
  prefixed_string U p s = Premature \/ prefixed_string U p s = Lex EEscape.
Proof. exact unterminated_no_value. Qed.
Print Assumptions C23_unterminated_no_value.

(* CR and CRLF read as LF. *)
Theorem C23_newline_normalised : forall s,
  nl_norm s = nl_spec s /\ ~ In ch_cr (nl_norm s) /\ (~ In ch_cr s -> nl_norm s = s).
Proof. exact newline_normalised. Qed.
Print Assumptions C23_newline_normalised.

(* encode('ISO-8859-1', 'backslashreplace') then decode('unicode_escape') is the identity on
   backslash-free text of any code points. *)
Theorem C23_latin1_pipeline_identity : forall U, lookup_bad U -> forall t, Forall valid_cp t -> ~ In ch_bs t ->
  unicode_escape_decode U (latin1_bsr t) = Some t.
Proof. exact latin1_pipeline_identity. Qed.
Print Assumptions C23_latin1_pipeline_identity.

(* delim_closing stops exactly at the end of the first occurrence of ]delim], for every delimiter. *)
Theorem C23_delim_automaton_correct : forall d, ~ In ch_rbr d -> forall s,
  match dscan d None s with
  | Some n => exists pre post, s = pre ++ closer d ++ post /\ n = (length pre + length (closer d))%nat
               /\ forall pre' post', s = pre' ++ closer d ++ post' -> (length pre <= length pre')%nat
  | None => forall pre post, s <> pre ++ closer d ++ post
  end.
Proof. exact delim_automaton_correct. Qed.
Print Assumptions C23_delim_automaton_correct.

(* #[d[c]d] reads c verbatim minus one leading newline (CR, LF or CRLF), newline-translated, for every
   delimiter without brackets that is not an f-string delimiter and every content in which ]d] first
   occurs at the very end; the only other outcome is the String constructor's own refusal. *)
Theorem C23_bracket_verbatim : forall d c rest,
  ~ In ch_lbr d -> ~ In ch_rbr d -> fmode d = false ->
  find_end (closer d) (drop_nl c ++ closer d) = Some (length (drop_nl c) + length (closer d))%nat ->
  bracketed_string (d ++ ch_lbr :: c ++ closer d ++ rest) =
    if contains (closer d) (nl_spec (drop_nl c)) then Lex ECtor
    else Ok ((nl_spec (drop_nl c), d), rest).
Proof. exact bracket_verbatim. Qed.
Print Assumptions C23_bracket_verbatim.

(* find_end, used above, is "end of the first occurrence" *)
Theorem C23_find_end_meaning : forall pat s,
  match find_end pat s with
  | Some n => exists pre post, s = pre ++ pat ++ post /\ n = (length pre + length pat)%nat
               /\ forall pre' post', s = pre' ++ pat ++ post' -> (length pre <= length pre')%nat
  | None => forall pre post, s <> pre ++ pat ++ post
  end.
Proof. exact find_end_spec. Qed.
Print Assumptions C23_find_end_meaning.

(* the regenerated whitelist is Python's set of escape starters plus the raw carriage return *)
Theorem C23_whitelist_is_pythons : forall isb c,
  mem c (whitelist isb) = (c =? ch_cr) || known_start isb c.
Proof. exact whitelist_is_pythons. Qed.
Print Assumptions C23_whitelist_is_pythons.

(* ---- the hypotheses are satisfiable and the statements are not vacuous ---- *)

Example C23_lookup_bad_satisfiable : lookup_bad (fun _ => None).
Proof. exact lookup_bad_none. Qed.

(* the body  a \x41 \u0142 \n CR LF U+0142 backslash-quote  under the empty prefix *)
Example C23_example_string :
  let body := [97; 92; 120; 52; 49; 92; 117; 48; 49; 52; 50; 92; 110; 13; 10; 322; 92; 34] in
  closed_body false body = true /\
  prefixed_string (fun _ => None) [] (body ++ ch_dq :: [32; 120]) = Ok (VStr [97; 65; 322; 10; 10; 322; 34], [32; 120]).
Proof. split; vm_compute; reflexivity. Qed.

(* #[==[ LF LF a]=] ]==] x  : one newline dropped, the partial closer kept *)
Example C23_example_bracket :
  let d := [61; 61] in let c := [10; 10; 97; 93; 61; 93; 32] in
  find_end (closer d) (drop_nl c ++ closer d) = Some (length (drop_nl c) + length (closer d))%nat /\
  bracketed_string (d ++ ch_lbr :: c ++ closer d ++ [120]) = Ok (([10; 97; 93; 61; 93; 32], d), [120]).
Proof. split; vm_compute; reflexivity. Qed.

(* the delimiter LF with content a] CR ]b : newline translation manufactures ]LF] inside the content and
   the String constructor refuses it -- the content is not read verbatim (known finding) *)
Example C23_bracket_ctor_refusal_witness :
  bracketed_string ([10] ++ ch_lbr :: [97; 93; 13; 93; 98] ++ closer [10] ++ []) = Lex ECtor.
Proof. vm_compute. reflexivity. Qed.
