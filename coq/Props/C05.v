(* C05 -- fn/defn bind arguments exactly like the equivalent Python def.
   Statements only; proofs are in Ops/LambdaListProofs.v.  V = call-time values, D = default
   expressions, both arbitrary; no bound on the number of parameters or arguments. *)
From HyV Require Import Ops.PyBinding Gen.LambdaTables Ops.LambdaList Ops.LambdaListProofs.
Close Scope string_scope.

(* 1. For every lambda list compile_lambda_list accepts, CPython's binding algorithm run on the
      emitted ast.arguments (right-aligned defaults, positional kw_defaults with None padding,
      posonly, vararg, kwarg) binds EVERY call exactly as the reference that reads each
      parameter's kind and own default directly from the Hy structure -- or both raise TypeError. *)
Theorem C05_ll_encoding_correct : forall (V D : Type) (r : rawll D) (a : arguments D),
  compile_ll D r = inr a -> forall c : call V, py_bind V D a c = hy_bind_ref D V r c.
Proof. exact ll_encoding_correct. Qed.
Print Assumptions C05_ll_encoding_correct.

(* ... and the node is one compile() accepts *)
Theorem C05_compiled_arguments_wellformed : forall (V D : Type) (r : rawll D) (a : arguments D),
  compile_ll D r = inr a -> forall c : call V, py_bind V D a c <> BadAST.
Proof. exact compiled_arguments_wellformed. Qed.
Print Assumptions C05_compiled_arguments_wellformed.

(* the heart of it: defaults[i - (n - len(defaults))] is the i-th positional parameter's own default *)
Theorem C05_defaults_alignment : forall (D : Type) (ps : list (param D)), invalid_non_default D ps = None ->
  forall i p, nth_error ps i = Some p ->
  (if i <? List.length ps - List.length (pos_defaults D ps) then None
   else nth_error (pos_defaults D ps) (i - (List.length ps - List.length (pos_defaults D ps)))) = p_default D p.
Proof. exact defaults_alignment. Qed.
Print Assumptions C05_defaults_alignment.

(* 2. The three syntax errors are raised exactly when Python rejects the equivalent def
      (nothing before /, a parameter without default after one with, bare * without named parameters). *)
Theorem C05_ll_rejects : forall (D : Type) (r : rawll D),
  (exists e, compile_ll D r = inl e) <-> py_def_rejects D r = true.
Proof. exact ll_rejects. Qed.
Print Assumptions C05_ll_rejects.

Theorem C05_ll_rejects_which : forall (D : Type) (r : rawll D) (e : llerr),
  compile_ll D r = inl e ->
  match e with
  | ENothingBeforeSlash => r_posonly D r = Some []
  | ENonDefaultAfterDefault =>
      some_default_before_plain D (match r_posonly D r with Some l => l | None => [] end ++ r_args D r) = true
  | EBareStarNeedsNamed => r_rest D r = RBare /\ r_kwonly D r = []
  end.
Proof. exact ll_rejects_which. Qed.
Print Assumptions C05_ll_rejects_which.

(* the grammar reads every parse tree back from its own text ; keyword-only parameters need a star or an unpack-iterable marker before them *)
Theorem C05_parse_unparse : forall (D : Type) (r : rawll D),
  (r_rest D r = RNone -> r_kwonly D r = []) -> parse_ll D (unparse D r) = Some r.
Proof. exact parse_unparse. Qed.
Print Assumptions C05_parse_unparse.

(* 3. _compile_collect on a call: the positional expressions and the keywords are the two
      order-preserving sub-lists of the argument forms (a keyword marker goes with the form after
      it); it fails exactly for a dangling or empty keyword. *)
Theorem C05_collect_stable_partition : forall (E : Type) (kw_obj : string -> E) (mangle : string -> string) l,
  match collect E kw_obj mangle l with
  | inr (ps, ks) => well_formed E l = true /\ ps = positionals E (roles E kw_obj mangle l)
                    /\ ks = keywords E (roles E kw_obj mangle l)
  | inl _ => well_formed E l = false
  end.
Proof. exact collect_stable_partition. Qed.
Print Assumptions C05_collect_stable_partition.

(* 4. Implicit return: after the statements of all forms in order the body ends in
      Return(<expression of the last form>), Expr(...) instead in an async generator. *)
Theorem C05_implicit_return : forall async_gen body f,
  function_body async_gen (body ++ [f]) =
  match branch_prefix body ++ r_stmts (compile_bform f)
        ++ match r_expr (compile_bform f) with
           | Some e => [if async_gen then SExpr e else SReturn e]
           | None => []
           end with
  | [] => [SPass]
  | s => s
  end.
Proof. exact implicit_return. Qed.
Print Assumptions C05_implicit_return.

(* 5. Docstring.  Full statement: __doc__ is set iff the first body form is a string LITERAL
      followed by more forms. *)
Definition C05_docstring_rule_full : Prop :=
  forall body, py_docstring (function_body false body) = doc_rule body.

(* proved when the first form is a string literal, or the first statement it gives rise to is
   not a bare string constant *)
Theorem C05_docstring_rule_partial : forall ag f rest,
  clean_first f = true -> (ag = false \/ rest <> []) ->
  py_docstring (function_body ag (f :: rest)) = doc_rule (f :: rest).
Proof. exact docstring_rule_partial. Qed.
Print Assumptions C05_docstring_rule_partial.

(* refuted in general: (defn f [] (do "x") 1) has __doc__ = "x" *)
Theorem C05_docstring_rule_refuted : ~ C05_docstring_rule_full.
Proof. exact docstring_rule_refuted. Qed.
Print Assumptions C05_docstring_rule_refuted.

(* non-trivial objects meeting the hypotheses *)
Example C05_example_accepts :
  compile_ll nat {| r_posonly := Some [{| p_name := "a"; p_default := None |}; {| p_name := "b"; p_default := Some 1 |}];
                    r_args := [{| p_name := "c"; p_default := Some 2 |}]; r_rest := RVar "r";
                    r_kwonly := [{| p_name := "k"; p_default := None |}; {| p_name := "j"; p_default := Some 3 |}];
                    r_kwargs := Some "kw" |}%string
  = inr {| posonlyargs := ["a"; "b"]; args := ["c"]; defaults := [1; 2]; vararg := Some "r";
           kwonlyargs := ["k"; "j"]; kw_defaults := [None; Some 3]; kwarg := Some "kw" |}%string.
Proof. reflexivity. Qed.
Example C05_example_call :
  py_bind nat nat {| posonlyargs := ["a"; "b"]; args := ["c"]; defaults := [1; 2]; vararg := Some "r";
                     kwonlyargs := ["k"; "j"]; kw_defaults := [None; Some 3]; kwarg := Some "kw" |}%string
          {| c_pos := [10]; c_kw := [("k", 11); ("a", 12)]%string |}
  = Bound [("a", BGiven 10); ("b", BDefault 1); ("c", BDefault 2); ("k", BGiven 11); ("j", BDefault 3);
           ("r", BTuple []); ("kw", BDict [("a", 12)])]%string.
Proof. vm_compute. reflexivity. Qed.
Example C05_example_clean_first : clean_first (BStrLit "doc") = true /\
  clean_first (BForm {| r_stmts := [SOther 0]; r_expr := Some (EStr "x") |}) = true.
Proof. split; reflexivity. Qed.
