(* C33 -- hy.unmangle inverts hy.mangle up to mangling.
   Statements only; proofs are in Mangle/UnmangleProofs.v. *)
From HyV Require Import Base.Text Gen.MangleTables Mangle.Model Mangle.Facts Mangle.MangleProofs Mangle.UnmangleProofs Mangle.Toy Mangle.Shape.

(* The property as stated: for every non-empty name whose part after its leading underscores
   does not start with hyx_, unmangle (mangle s) does not raise and re-mangles to mangle s. *)
Definition C33_full : Prop := forall U, unicode_facts U -> forall s, s <> [] -> forallb valid_cp s = true ->
  starts_with hyx_prefix (dropwhile is_us_class s) = false ->
  exists u, unmangle U (mangle U s) = Ok u /\ mangle U u = mangle U s.

(* What holds of the faithful model, for every Unicode oracle and every name of any length:
   the statement above under three side conditions -- the name has no dot; the prefix test is
   made after the hyphen-to-underscore step (so "hyx-" counts as the reserved prefix too); and
   NFKC normalisation leaves the escaped name unchanged.  Each excluded class is refuted below
   or by the harness on the real code (see the known findings of C33). *)
Theorem C33_unmangle_inverts_mangle_partial : forall U, unicode_facts U -> forall s,
  s <> [] -> mem ch_dot s = false -> forallb valid_cp s = true ->
  starts_with hyx_prefix (hyphens (dropwhile is_us_class s)) = false ->
  nfkc U (mangle_pre U s) = mangle_pre U s ->
  exists u, unmangle U (mangle U s) = Ok u /\ mangle U u = mangle U s.
Proof. exact unmangle_inverts_mangle. Qed.
Print Assumptions C33_unmangle_inverts_mangle_partial.

(* The normalisation side condition is met whenever the escaped name is ASCII. *)
Theorem C33_ascii_inert : forall U, unicode_facts U -> forall s,
  forallb is_ascii (mangle_pre U s) = true -> nfkc U (mangle_pre U s) = mangle_pre U s.
Proof. intros U F s H. apply (nfkc_ascii_id U F). exact H. Qed.
Print Assumptions C33_ascii_inert.

(* the hypotheses are met by a non-trivial name: "_a-b!_" under the toy oracle *)
Example C33_premises_met :
  let s := [95; 97; 45; 98; 33; 95] in
  s <> [] /\ mem ch_dot s = false /\ forallb valid_cp s = true /\
  starts_with hyx_prefix (hyphens (dropwhile is_us_class s)) = false /\
  nfkc U_toy (mangle_pre U_toy s) = mangle_pre U_toy s /\
  mangle U_toy s = [95; 104; 121; 120; 95; 97; 95; 98; 88; 85; 50; 49; 88; 95].
Proof. repeat split; try discriminate; vm_compute; reflexivity. Qed.

(* Refutations of the full statement on the faithful model. *)
(* "hyx-a": not prefixed by hyx_, but mangles to hyx_a, which unmangles to "a". *)
Theorem C33_hyx_hyphen_refuted : exists U s, unicode_facts U /\ s <> [] /\ forallb valid_cp s = true /\
  starts_with hyx_prefix (dropwhile is_us_class s) = false /\
  exists u, unmangle U (mangle U s) = Ok u /\ mangle U u <> mangle U s.
Proof.
  exists U_toy, [104; 121; 120; 45; 97]. split; [exact U_toy_facts|]. split; [discriminate|].
  split; [reflexivity|]. split; [reflexivity|]. exists [97]. split; [vm_compute; reflexivity | vm_compute; discriminate].
Qed.
Print Assumptions C33_hyx_hyphen_refuted.

(* "!.XaX": a dotted name; the unescaper runs across the dot and meets the identifier part XaX. *)
Theorem C33_dotted_refuted : exists U s, unicode_facts U /\ s <> [] /\ forallb valid_cp s = true /\
  starts_with hyx_prefix (dropwhile is_us_class s) = false /\
  unmangle U (mangle U s) = PyErr KeyError.
Proof.
  exists U_toy, [33; 46; 88; 97; 88]. split; [exact U_toy_facts|]. split; [discriminate|].
  split; [reflexivity|]. split; [reflexivity|]. vm_compute. reflexivity.
Qed.
Print Assumptions C33_dotted_refuted.
