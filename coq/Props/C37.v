(* C37 -- Reader macros are defined and used in stream order and per module.
   Statements only; proofs are in MacroNS/ReaderMacrosProofs.v.  Model:
   MacroNS/ReaderMacrosModel.v, a machine whose actions are "read the next form
   of stream s" / "evaluate the oldest unevaluated form of stream s" / "hy.eval
   a reader-less model in the module of s", interleaved arbitrarily; every
   action runs under the as_current_reader context manager regenerated from
   the source (Gen/MacroReaders.v). *)
From HyV Require Import Base.Text MacroNS.ReaderMacrosSyntax Gen.MacroReaders
  MacroNS.ReaderMacrosModel MacroNS.ReaderMacrosProofs MacroNS.ReaderMacrosIsolation.

(* A form is read with the reader's table as it is at that moment, i.e. after
   every earlier evaluation: evaluating (defreader n ...) of stream i puts n
   into i's reader (and module) ... *)
Theorem C37_defreader_defines : forall bodies cfg i g w ss rid md st n m rest,
  nth_error cfg i = Some (rid, md) -> nth_error ss i = Some st -> s_pending st = FDef n m :: rest ->
  exists w' ss', step bodies cfg (AEval i) (g, (w, ss)) = ((g, (w', ss')), [EvOut i []])
    /\ rt_get n (tb_get rid (w_readers w')) = Some m /\ rt_get n (tb_get md (w_modules w')) = Some m.
Proof. exact defreader_defines. Qed.
Print Assumptions C37_defreader_defines.

(* ... it stays usable after any further actions of any streams ... *)
Theorem C37_defined_stays_usable : forall bodies cfg sched m r n',
  rt_get n' (tb_get r (w_readers (fst (snd m)))) <> None ->
  rt_get n' (tb_get r (w_readers (fst (snd (fst (run bodies cfg sched m)))))) <> None.
Proof. exact defined_stays_usable. Qed.
Print Assumptions C37_defined_stays_usable.

(* ... and a later top-level use then reads without a syntax error *)
Theorem C37_later_use_reads : forall bodies cfg i g w ss rid md st u rest,
  nth_error cfg i = Some (rid, md) -> nth_error ss i = Some st -> s_dead st = false ->
  s_todo st = CBare u :: rest -> rt_get u (tb_get rid (w_readers w)) <> None ->
  forall ev, In ev (snd (step bodies cfg (ARead i) (g, (w, ss)))) -> ev <> EvLex i \/ exists c r', rest = c :: r'.
Proof. exact later_use_reads. Qed.
Print Assumptions C37_later_use_reads.

(* A use before its definition is a syntax error, and the stream yields nothing more *)
Theorem C37_use_before_def_is_error : forall bodies cfg i g w ss rid md st u rest,
  nth_error cfg i = Some (rid, md) -> nth_error ss i = Some st -> s_dead st = false ->
  s_todo st = CBare u :: rest -> rt_get u (tb_get rid (w_readers w)) = None ->
  exists ss', step bodies cfg (ARead i) (g, (w, ss)) = ((g, (w, ss')), [EvLex i])
              /\ nth_error ss' i = Some (mkS [] (s_pending st) true).
Proof. exact use_before_def_is_error. Qed.
Print Assumptions C37_use_before_def_is_error.

Theorem C37_use_in_form_before_def_is_error : forall bodies cfg i g w ss rid md st us1 u us2 rest,
  nth_error cfg i = Some (rid, md) -> nth_error ss i = Some st -> s_dead st = false ->
  s_todo st = CList (us1 ++ u :: us2) :: rest ->
  Forall (fun x => rt_get x (tb_get rid (w_readers w)) <> None) us1 ->
  rt_get u (tb_get rid (w_readers w)) = None ->
  exists ss', step bodies cfg (ARead i) (g, (w, ss)) = ((g, (w, ss')), [EvLex i]).
Proof. exact use_in_list_before_def_is_error. Qed.
Print Assumptions C37_use_in_form_before_def_is_error.

Theorem C37_dead_stream_stays_dead : forall bodies cfg i g w ss rid md st,
  nth_error cfg i = Some (rid, md) -> nth_error ss i = Some st -> s_dead st = true ->
  step bodies cfg (ARead i) (g, (w, ss)) = ((g, (w, ss)), [EvEnd i]).
Proof. exact dead_stream_stays_dead. Qed.
Print Assumptions C37_dead_stream_stays_dead.

(* A reader macro returning None produces no form *)
Theorem C37_none_yields_no_form : forall bodies t u m rest,
  rt_get u t = Some m -> bodies m = RNone ->
  read_chunk bodies t (CBare u) = RNoForm /\ next_form bodies t (CBare u :: rest) = next_form bodies t rest.
Proof. exact none_yields_no_form. Qed.
Print Assumptions C37_none_yields_no_form.

Theorem C37_none_in_sequence_contributes_nothing : forall bodies t u m rest acc,
  rt_get u t = Some m -> bodies m = RNone ->
  read_uses bodies t (u :: rest) acc = read_uses bodies t rest acc.
Proof. exact none_in_list_contributes_nothing. Qed.
Print Assumptions C37_none_in_sequence_contributes_nothing.

(* HyReader._current_reader is what it was after every schedule, whatever
   was read or evaluated and whatever raised (as_current_reader's finally) *)
Theorem C37_current_reader_restored : forall bodies cfg sched m,
  fst (fst (run bodies cfg sched m)) = fst m.
Proof. exact current_reader_restored. Qed.
Print Assumptions C37_current_reader_restored.

(* Reader macros defined in one module or reader never become visible to an
   unrelated one: with pairwise distinct reader objects and modules, for EVERY
   interleaving, the actions of the other streams (reads, evaluations,
   reader-less hy.evals; definitions, requires, failures) leave stream i's
   reader table, module table and stream state exactly as they were. *)
Theorem C37_readers_isolated : forall bodies cfg,
  NoDup (map fst cfg) -> NoDup (map snd cfg) ->
  forall sched i w ss,
  Forall (fun a => stream_of a <> i) sched ->
  view cfg i (fst (run bodies cfg sched (None, (w, ss)))) = view cfg i (None, (w, ss)).
Proof. exact readers_isolated. Qed.
Print Assumptions C37_readers_isolated.

(* ... and as a projection: for EVERY interleaving of any number of streams,
   the events stream i observes (forms read, end of input, syntax errors,
   evaluation results, require errors) are exactly those of running its own
   actions alone, provided stream i requires only from modules no stream
   writes to ([agree m m'] : the two start states show stream i the same reader
   table, module table, stream state and static modules; no reader is current) *)
Theorem C37_interleaving_projection : forall bodies cfg,
  NoDup (map fst cfg) -> NoDup (map snd cfg) ->
  forall i rid md, nth_error cfg i = Some (rid, md) ->
  forall sched m m', agree cfg i rid md m m' -> Forall (own_static cfg i) sched ->
  filter (my_event i) (snd (run bodies cfg sched m)) = snd (run bodies cfg (filter (mine i) sched) m').
Proof. exact interleaving_projection. Qed.
Print Assumptions C37_interleaving_projection.

(* the hypothesis is met by any start state with no current reader in which
   stream i's chunks require only from static modules *)
Example C37_agree_satisfiable : agree [(1, 1); (2, 2)] 0 1 1 example_state example_state.
Proof. exact agree_example. Qed.

(* the same form stream, read lazily (read, evaluate, read, evaluate) and
   eagerly (read, read, evaluate, evaluate): only the lazy order lets the
   second form use the reader macro the first one defines *)
Example C37_example_lazy_vs_eager :
  let bodies := fun m : rmid => RVal m in
  let cfg := [(1, 1)] in
  let m0 : mstate := (None, (mkW [] [], [mkS [CDef [97] 5; CBare [97]] [] false])) in
  snd (run bodies cfg [ARead 0; AEval 0; ARead 0; AEval 0]%nat m0)
    = [EvForm 0%nat; EvOut 0%nat []; EvForm 0%nat; EvOut 0%nat [5]]
  /\ snd (run bodies cfg [ARead 0; ARead 0; AEval 0; AEval 0]%nat m0)
    = [EvForm 0%nat; EvLex 0%nat; EvOut 0%nat []; EvIdle 0%nat].
Proof. vm_compute. split; reflexivity. Qed.
