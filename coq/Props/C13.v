(* C13 -- compiling the same source is deterministic across processes.
   Statements only; proofs are in Scope/Sorting.v, SetDecl.v, OuterVars.v, Finalize.v.
   The only process-dependent input of the compiler is the iteration order of
   Python sets of str (PYTHONHASHSEED); every such iteration in the compiler's
   source is listed in Gen/SetUses.v (regenerated) and has to be declared
   (Gen/SetUsesOk.v).  The model takes each iteration order from an oracle
   [perm] about which only [perm_ok] (it returns a permutation) is known. *)
From HyV Require Import Base.Text Scope.Sorting Scope.SetDecl Scope.OuterVars Scope.Finalize Scope.Machine Scope.MachineFacts Gen.SetUses Gen.SetUsesOk.
From Coq Require Import Permutation.

(* sorting a permutation is canonical: what every sorted(<set>) in the compiler rests on *)
Theorem C13_sorting_is_canonical : forall perm1 perm2, perm_ok perm1 -> perm_ok perm2 ->
  forall s, sort_names (perm1 s) = sort_names (perm2 s).
Proof. exact sorted_of_any_two_orders_agree. Qed.
Print Assumptions C13_sorting_is_canonical.

(* every use of a set in compiler.py / scoping.py / result_macros.py / macros.py is order-irrelevant by
   kind, sorted, or a declared iteration (regenerated list, per-run obligation) *)
Theorem C13_set_uses_declared : forallb declared set_uses = true.
Proof. exact set_uses_declared. Qed.
Print Assumptions C13_set_uses_declared.

(* ScopeGen.finalize: the names it returns do not depend on the iteration order, for the conversion the
   current source uses (this statement stops checking if the source stops sorting) *)
Theorem C13_finalize_perm_independent : forall perm1 perm2, perm_ok perm1 -> perm_ok perm2 ->
  forall assignments nonlocal_vars,
    finalize_names perm1 finalize_order assignments nonlocal_vars
    = finalize_names perm2 finalize_order assignments nonlocal_vars.
Proof. exact finalize_sorted_perm_independent. Qed.
Print Assumptions C13_finalize_perm_independent.

(* compile_perm_independent for the scope machine (all four scope classes, every event sequence of any
   length): the state after any run, hence every renamed node, every finalize result and every error,
   is the same for any two iteration orders; with the Nonlocal names sorted, so is ResolveOuterVars. *)
Theorem C13_scope_machine_perm_independent : forall perm1 perm2, perm_ok perm1 -> perm_ok perm2 ->
  forall evs st, run perm1 finalize_order evs st = run perm2 finalize_order evs st.
Proof. exact run_perm_independent. Qed.
Print Assumptions C13_scope_machine_perm_independent.

Theorem C13_scope_output_perm_independent_when_sorted : forall perm1 perm2, perm_ok perm1 -> perm_ok perm2 ->
  forall evs, scope_output perm1 finalize_order OSorted evs = scope_output perm2 finalize_order OSorted evs.
Proof. exact scope_output_perm_independent. Qed.
Print Assumptions C13_scope_output_perm_independent_when_sorted.

(* visit_OuterVar: perm-independent iff the set `defined` is sorted before it becomes Nonlocal.names;
   stated for both shapes so that it holds before and after a repair of the source.  Which case the
   current source is in: Gen.SetUses.outervar_nonlocal_order. *)
Theorem C13_outervar_perm_independent_iff_sorted :
  (outervar_nonlocal_order = OSorted -> forall perm1 perm2, perm_ok perm1 -> perm_ok perm2 ->
     forall chain names,
       visit_outervar perm1 outervar_nonlocal_order chain names
       = visit_outervar perm2 outervar_nonlocal_order chain names)
  /\ (outervar_nonlocal_order = OList -> exists perm1 perm2 chain names, perm_ok perm1 /\ perm_ok perm2 /\
       visit_outervar perm1 outervar_nonlocal_order chain names
       <> visit_outervar perm2 outervar_nonlocal_order chain names).
Proof. exact (visit_outervar_perm_independent_iff_sorted outervar_nonlocal_order). Qed.
Print Assumptions C13_outervar_perm_independent_iff_sorted.

Definition C13_compile_perm_independent_full : Prop :=
  forall perm1 perm2, perm_ok perm1 -> perm_ok perm2 -> forall chain names,
    visit_outervar perm1 outervar_nonlocal_order chain names = visit_outervar perm2 outervar_nonlocal_order chain names.

(* the faithful model of list(defined): two function-level names and one module-level name in one
   (nonlocal ...) -- the witness replayed on the implementation is the finding *)
Theorem C13_outervar_list_refuted :
  exists perm1 perm2 chain names, perm_ok perm1 /\ perm_ok perm2 /\
    visit_outervar perm1 OList chain names <> visit_outervar perm2 OList chain names.
Proof. exact visit_outervar_list_perm_dependent. Qed.
Print Assumptions C13_outervar_list_refuted.

(* the hypotheses are satisfiable and the witness is non-trivial *)
Example C13_perm_ok_inhabited : perm_ok perm_id /\ perm_ok perm_rev /\ perm_id witness_names <> perm_rev witness_names.
Proof. split; [exact perm_id_ok|]. split; [exact perm_rev_ok|]. vm_compute. discriminate. Qed.
