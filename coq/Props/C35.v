(* C35 -- Macro lookup and require follow the documented namespaces.
   Statements only; proofs are in MacroNS/LookupProofs.v and MacroNS/RequireProofs.v.
   Model: MacroNS/LookupModel.v (namespaces, lookup = interpretation of the
   chain generated from macroexpand), MacroNS/RequireModel.v (hy.macros.require,
   shapes from the generated assignment_shape table), MacroNS/LookupMachine.v
   (histories; a scope = the generated local_state context manager). *)
From HyV Require Import Base.Text MacroNS.LookupSyntax Gen.MacroLookup MacroNS.LookupModel
  MacroNS.RequireModel MacroNS.LookupMachine MacroNS.LookupProofs MacroNS.RequireProofs.

(* A call resolves to the first definition found in this order: hy.eval's
   macros argument, local macros from the innermost to the outermost scope,
   module macros, core macros -- for every compiler state. *)
Theorem C35_lookup_order : forall core c n m,
  lookup core c n = Some m <->
  exists pre d post,
    c_extra c :: map f_macros (c_stack c) ++ [c_module c; core] = pre ++ d :: post
    /\ Forall (fun d' => ns_get n d' = None) pre /\ ns_get n d = Some m.
Proof. exact lookup_order. Qed.
Print Assumptions C35_lookup_order.

Theorem C35_not_a_macro : forall core c n,
  lookup core c n = None <->
  Forall (fun d => ns_get n d = None) (c_extra c :: map f_macros (c_stack c) ++ [c_module c; core]).
Proof. exact lookup_none. Qed.
Print Assumptions C35_not_a_macro.

(* Local macros stop applying when their scope ends: for every body (any
   nesting, any definitions, requires, pragmas, failures) the stack of local
   states and hy.eval's macros after the scope are what they were before it,
   whether the body raised or not. *)
Theorem C35_local_scope_popped : forall core env body a,
  c_stack (fst a) <> [] ->
  c_stack (fst (fst (run_item core env (IScope body) a))) = c_stack (fst a)
  /\ c_extra (fst (fst (run_item core env (IScope body) a))) = c_extra (fst a).
Proof. exact local_scope_popped. Qed.
Print Assumptions C35_local_scope_popped.

(* For every history of top-level forms compiled by one compiler (failing
   forms included), the compiler's mutable stack computes exactly the lexical
   semantics: same resolutions, same warnings, same final state. *)
Theorem C35_histories_are_lexical : forall core env forms c out,
  c_stack c <> [] -> run_top core env forms (c, out) = lex_top core env forms c out.
Proof. exact run_top_lexical. Qed.
Print Assumptions C35_histories_are_lexical.

(* Module-level definitions go to the module: the bottom local state never
   holds macros, after any history. *)
Theorem C35_module_level_defs_go_to_module : forall core env forms c out,
  bottom_clean c -> bottom_clean (fst (run_top core env forms (c, out))).
Proof. exact bottom_frame_stays_clean. Qed.
Print Assumptions C35_module_level_defs_go_to_module.

Theorem C35_defmacro_then_lookup : forall core c n m,
  c_stack c <> [] ->
  lookup core (do_defmacro c n m) n =
  match ns_get n (c_extra c) with
  | Some e => Some e
  | None => if in_local c then Some m
            else match first_with n (map f_macros (c_stack c)) with Some l => Some l | None => Some m end
  end.
Proof. exact defmacro_then_lookup. Qed.
Print Assumptions C35_defmacro_then_lookup.

Theorem C35_defmacro_other_names : forall core c n m n',
  n' <> n -> lookup core (do_defmacro c n m) n' = lookup core c n'.
Proof. exact defmacro_other_names. Qed.
Print Assumptions C35_defmacro_other_names.

(* require m STAR brings exactly the exported macros under their own names *)
Theorem C35_require_star_exact : forall core env modname s,
  find_src modname env = Some s -> s_macros s <> [] -> forall warn tgt,
  exists prefix asg tgt' w,
    shape_params modname RStar = Some (prefix, asg)
    /\ require_model core env warn modname asg prefix tgt = (tgt', w, false)
    /\ (forall k, ns_get k tgt' =
          if name_in k (exports_of s) && ns_has k (s_macros s) then ns_get k (s_macros s) else ns_get k tgt)
    /\ (forall n, In n w <-> warn = true /\ In n (exported_macros s) /\ ns_has n core = true).
Proof. exact require_star_exact. Qed.
Print Assumptions C35_require_star_exact.

(* require m [a b :as c] brings exactly the listed names under their aliases *)
Theorem C35_require_list_exact : forall core env modname s,
  find_src modname env = Some s -> s_macros s <> [] -> forall warn tgt l,
  Forall (fun kv => ns_has (fst kv) (s_macros s) = true) l ->
  exists prefix asg tgt' w,
    shape_params modname (RList l) = Some (prefix, asg)
    /\ require_model core env warn modname asg prefix tgt = (tgt', w, false)
    /\ (forall k, ns_get k tgt' =
          match assigned (s_macros s) [] (map alias_of l) k with Some m => Some m | None => ns_get k tgt end)
    /\ (forall k, ~ In k (map (fun kv => snd (alias_of kv)) l) -> ns_get k tgt' = ns_get k tgt)
    /\ (forall n, In n w <-> warn = true /\ In n (map (fun kv => snd (alias_of kv)) l) /\ ns_has n core = true).
Proof. exact require_list_exact. Qed.
Print Assumptions C35_require_list_exact.

(* (require m) and (require m :as A): every macro k of m becomes <prefix>.k,
   exported or not, underscore or not (repo commit 2d979da; before it the code
   passed "EXPORTS" here and this statement was refuted), and nothing else changes *)
Theorem C35_require_prefixed_full : forall core env modname s,
  find_src modname env = Some s -> s_macros s <> [] -> forall warn tgt sh p,
  (sh = RBare /\ p = modname) \/ (sh = RAs p) -> p <> [] ->
  exists asg tgt' w,
    shape_params modname sh = Some (p, asg)
    /\ require_model core env warn modname asg p tgt = (tgt', w, false)
    /\ (forall k0 m, ns_get k0 (s_macros s) = Some m -> ns_get (p ++ [ch_dot] ++ k0) tgt' = Some m)
    /\ (forall k0, ns_get k0 (s_macros s) = None -> ns_get (p ++ [ch_dot] ++ k0) tgt' = ns_get (p ++ [ch_dot] ++ k0) tgt)
    /\ (forall k, strip_prefix (p ++ [ch_dot]) k = None -> ns_get k tgt' = ns_get k tgt).
Proof. exact require_prefixed_all. Qed.
Print Assumptions C35_require_prefixed_full.

(* instance: module s with macros ma and _p and _hy_export_macros = []:
   (require s) gives s._p and s.ma, and not ma; (require s STAR) gives nothing *)
Example C35_require_prefixed_example :
  let c := fst (fst (do_require [] w_env (init_cstate [] []) w_mod RBare)) in
  lookup [] c (w_mod ++ [ch_dot] ++ w_priv) = Some 2 /\ lookup [] c (w_mod ++ [ch_dot] ++ w_ma) = Some 1
  /\ lookup [] c w_ma = None
  /\ lookup [] (fst (fst (do_require [] w_env (init_cstate [] []) w_mod RStar))) w_ma = None.
Proof. exact require_prefixed_example. Qed.

(* defmacro warns iff the new name is a core macro's and no enclosing pragma
   disabled the warning (the innermost scope with the pragma decides) *)
Theorem C35_shadow_warning_iff : forall core env c out n m,
  let out' := snd (fst (run_item core env (IDef n m) (c, out))) in
  (out' = out ++ [EWarn n] /\ ns_has n core = true /\ get_warn (c_stack c) = true)
  \/ (out' = out /\ (ns_has n core = false \/ get_warn (c_stack c) = false)).
Proof. exact defmacro_warns_iff. Qed.
Print Assumptions C35_shadow_warning_iff.

Theorem C35_pragma_scoping : forall st,
  get_warn st = false <->
  exists inner fr outer, st = inner ++ fr :: outer
                         /\ Forall (fun f => f_warn f = None) inner /\ f_warn fr = Some false.
Proof. exact get_warn_false. Qed.
Print Assumptions C35_pragma_scoping.

(* non-trivial instances of the hypotheses *)
Example C35_example_scope :
  let core := [([119; 104; 101; 110], 1)] in      (* "when" *)
  let prog := [IDef [109] 10; IScope [IDef [109] 11; ICall 1 [109]; IScope [IPragma false; IDef [119; 104; 101; 110] 12; IFail]];
               ICall 2 [109]; IDef [119; 104; 101; 110] 13] in
  snd (run_top core [] prog (init_cstate [] [], [])) =
  [ECall 1 (Some 11); EAbort; ECall 2 (Some 10); EWarn [119; 104; 101; 110]].
Proof. vm_compute. reflexivity. Qed.
