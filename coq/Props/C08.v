(* C08 -- match selects, binds and returns like Python's match statement.
   Statements only; proofs are in Ops/PatternProofs.v.  The value domain and the observations
   PEP 634 makes of a subject (==, is, sequence / mapping view, isinstance, __match_args__,
   getattr) are arbitrary; mangle is arbitrary; no bound on pattern depth or size. *)
From HyV Require Import Ops.PyMatch Gen.MatchTables Ops.Pattern Ops.PatternProofs.

(* 1. For every pattern of the sublanguage (induction on the pattern, any depth) the emitted ast.pattern
      matches exactly the subjects the reference semantics of the Hy pattern says, with the same bindings
      (names as Python sees them: captures, :as, #*, #**, dotted names and class keywords mangled). *)
Theorem C08_pattern_correct :
  forall (mangle : string -> string) (value : Type) veval veq is_sing as_seq as_map of_list of_dict isinst margs getattr,
  forall h v,
    pmatch value veval veq is_sing as_seq as_map of_list of_dict isinst margs getattr (compile mangle h) v
    = hmatch mangle value veval veq is_sing as_seq as_map of_list of_dict isinst margs getattr h v.
Proof. exact pattern_correct. Qed.
Print Assumptions C08_pattern_correct.

(* ... and a pattern compile_pattern accepts ([accepted]: no `p :as n` with n mangling to "_", no or-pattern with fewer than two
   alternatives, no value pattern without an attribute -- its three syntax errors) compiles to a node that
   compile() accepts, given what compile_pattern leaves unchecked ([hwf]: at most one star per sequence, names
   of captures, #* and #** that do not mangle to "_") *)
Theorem C08_compile_valid : forall (mangle : string -> string) h b,
  accepted mangle h = true -> hwf mangle b h = true -> valid b (compile mangle h) = true.
Proof. exact compile_valid_all. Qed.
Print Assumptions C08_compile_valid.

(* conversely the three syntax errors lose nothing: a pattern compile_pattern rejects would have compiled to
   a node compile() rejects (commits 61b21a1, d2a83e6, 8cfcf87, d26852d turned those ValueError/SyntaxError of compile()
   into HySyntaxError) *)
Theorem C08_rejected_would_be_invalid : forall (mangle : string -> string) h b,
  accepted mangle h = false -> valid b (compile mangle h) = false.
Proof. exact rejected_would_be_invalid_all. Qed.
Print Assumptions C08_rejected_would_be_invalid.

(* the three constructs that were miscompiled before commits 7ce654c, 05b9a7b, 24b6ab7 *)
Example C08_example_string_literal :
  t_pm (compile t_mangle (HLit (LStr "None"))) (TStr "None") = MYes []
  /\ valid false (compile t_mangle (HLit (LStr "None"))) = true.
Proof. exact example_string_literal. Qed.
Example C08_example_star_wildcard :
  t_pm (compile t_mangle (HSeq [HSym "x"; HStar "_"])) (TList [TStr "a"; TStr "b"]) = MYes [("x", TStr "a")]
  /\ valid false (compile t_mangle (HSeq [HSym "x"; HStar "_"])) = true.
Proof. exact example_star_wildcard. Qed.
Example C08_example_class_keyword :
  t_pm (compile t_mangle (HClass ["C"] [] ["a-b"] [HLit (LStr "v")])) (TObj [("a_b", TStr "v")]) = MYes [].
Proof. exact example_class_keyword. Qed.

(* 2. The match form: the value of the result form of the first case whose pattern matches and whose
      guard is truthy, None when no case matches; guards that compile to statements are lifted into
      functions defined before the match statement and each such case calls its own function.
      geval / beval: truthiness of a guard and value of a result form, as functions of the bindings. *)
Theorem C08_match_correct :
  forall (mangle : string -> string) (value : Type) veval veq is_sing as_seq as_map of_list of_dict isinst margs getattr
         (geval : nat -> bindings value -> bool) (beval : nat -> bindings value -> value) cs ctr v,
  exec_match value veval veq is_sing as_seq as_map of_list of_dict isinst margs getattr geval beval
    (compile_match mangle cs ctr) v
  = hy_match mangle value veval veq is_sing as_seq as_map of_list of_dict isinst margs getattr geval beval cs v.
Proof. exact match_correct_all. Qed.
Print Assumptions C08_match_correct.

Theorem C08_match_none :
  forall (mangle : string -> string) (value : Type) veval veq is_sing as_seq as_map of_list of_dict isinst margs getattr
         (geval : nat -> bindings value -> bool) (beval : nat -> bindings value -> value) v ctr,
  exec_match value veval veq is_sing as_seq as_map of_list of_dict isinst margs getattr geval beval
    (compile_match mangle [] ctr) v = ONone.
Proof. exact match_none. Qed.
Print Assumptions C08_match_none.

(* non-trivial objects meeting the hypotheses *)
Example C08_example_wellformed :
  let h := (HAs (HSeq [HSym "x"; HStar "r"; HMap [LStr "k"] [HOr [HLit (LInt 1); HSym "None"]] (Some "m");
                                    HClass ["C"] [HSym "y"] ["q"] [HKeyword "a-b"]; HValue ["m"; "K"]]) "w") in
  accepted t_mangle h = true /\ hwf t_mangle false h = true.
Proof. vm_compute. split; reflexivity. Qed.
Example C08_example_rejected :
  compile_checked t_mangle (HSeq [HOr [HLit (LInt 1)]]) = None
  /\ compile_checked t_mangle (HValue ["y"]) = None
  /\ compile_checked t_mangle (HAs (HLit (LInt 1)) "_") = None
  /\ compile_checked t_mangle (HOr [HLit (LInt 1); HValue ["m"; "K"]])
     = Some (PMatchOr [PMatchValue (VEConst (LInt 1)); PMatchValue (VEDotted ["m"; "K"])]).
Proof. vm_compute. repeat split; reflexivity. Qed.
Example C08_example_lifted_guards :
  compile_match t_mangle [ {| hc_pat := HSym "x"; hc_guard := Some {| g_id := 7; g_stmts := true |}; hc_body := 0 |};
                           {| hc_pat := HSym "_"; hc_guard := None; hc_body := 1 |} ] 0
  = {| cm_result_var := 1; cm_defs := [(2, 7)];
       cm_cases := [ {| pc_pat := PMatchAs None (Some "x"); pc_guard := PGCall 2; pc_body := 0 |};
                     {| pc_pat := PMatchAs None None; pc_guard := PGNone; pc_body := 1 |} ] |}.
Proof. vm_compute. reflexivity. Qed.
