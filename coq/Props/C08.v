(* C08 -- match selects, binds and returns like Python's match statement.
   Statements only; proofs are in Ops/PatternProofs.v.  The value domain and the observations
   PEP 634 makes of a subject (==, is, sequence / mapping view, isinstance, __match_args__,
   getattr) are arbitrary; mangle is arbitrary; no bound on pattern depth or size. *)
From HyV Require Import Ops.PyMatch Gen.MatchTables Ops.Pattern Ops.PatternProofs.

(* Full statement: for every pattern of the sublanguage the emitted ast.pattern matches exactly the
   subjects the reference semantics of the Hy pattern says, with the same bindings. *)
Definition C08_pattern_correct_full : Prop :=
  forall (mangle : string -> string) (value : Type) veval veq is_sing as_seq as_map of_list of_dict isinst margs getattr,
  forall h v,
    pmatch value veval veq is_sing as_seq as_map of_list of_dict isinst margs getattr (compile mangle h) v
    = hmatch mangle value veval veq is_sing as_seq as_map of_list of_dict isinst margs getattr h v.

(* 1. Proved for every pattern (induction on the pattern, any depth) that contains none of: a string
      literal "None"/"True"/"False"; #* _ ; a class-pattern keyword that mangling changes (unless the
      regenerated compile_pattern mangles it). *)
Theorem C08_pattern_correct_partial :
  forall (mangle : string -> string) (value : Type) veval veq is_sing as_seq as_map of_list of_dict isinst margs getattr,
  forall h, supported mangle h = true -> forall v,
    pmatch value veval veq is_sing as_seq as_map of_list of_dict isinst margs getattr (compile mangle h) v
    = hmatch mangle value veval veq is_sing as_seq as_map of_list of_dict isinst margs getattr h v.
Proof. exact pattern_correct_partial. Qed.
Print Assumptions C08_pattern_correct_partial.

(* ... and the emitted node is one compile() accepts whenever the Hy pattern is well formed *)
Theorem C08_compile_valid : forall (mangle : string -> string) h b,
  supported mangle h = true -> hwf mangle b h = true -> valid b (compile mangle h) = true.
Proof. exact compile_valid. Qed.
Print Assumptions C08_compile_valid.

(* The full statement is false of the model; three witnesses, each replayed on the implementation by props/c08.py *)
Theorem C08_pattern_correct_refuted : ~ C08_pattern_correct_full.
Proof. exact pattern_correct_refuted. Qed.
Print Assumptions C08_pattern_correct_refuted.

Theorem C08_refuted_string_literal :
  t_hm t_mangle (HLit (LStr "None")) (TStr "None") = MYes []
  /\ t_pm (compile t_mangle (HLit (LStr "None"))) (TStr "None") = MErr
  /\ valid false (compile t_mangle (HLit (LStr "None"))) = false.
Proof. exact refuted_string_literal. Qed.
Print Assumptions C08_refuted_string_literal.

Theorem C08_refuted_star_wildcard :
  t_hm t_mangle (HSeq [HSym "x"; HStar "_"]) (TList [TStr "a"; TStr "b"]) = MYes [("x", TStr "a")]
  /\ t_pm (compile t_mangle (HSeq [HSym "x"; HStar "_"])) (TList [TStr "a"; TStr "b"])
     = MYes [("x", TStr "a"); ("_", TList [TStr "b"])]
  /\ valid false (compile t_mangle (HSeq [HSym "x"; HStar "_"])) = false.
Proof. exact refuted_star_wildcard. Qed.
Print Assumptions C08_refuted_star_wildcard.

Theorem C08_refuted_class_keyword : kwd_attrs_mangled = false ->
  t_hm t_mangle (HClass ["C"] [] ["a-b"] [HLit (LStr "v")]) (TObj [("a_b", TStr "v")]) = MYes []
  /\ t_pm (compile t_mangle (HClass ["C"] [] ["a-b"] [HLit (LStr "v")])) (TObj [("a_b", TStr "v")]) = MNo.
Proof. exact refuted_class_keyword. Qed.
Print Assumptions C08_refuted_class_keyword.

(* 2. The match form: the value of the result form of the first case whose pattern matches and whose
      guard is truthy, None when no case matches; guards that compile to statements are lifted into
      functions defined before the match statement and each such case calls its own function.
      geval / beval: truthiness of a guard and value of a result form, as functions of the bindings. *)
Theorem C08_match_correct :
  forall (mangle : string -> string) (value : Type) veval veq is_sing as_seq as_map of_list of_dict isinst margs getattr
         (geval : nat -> bindings value -> bool) (beval : nat -> bindings value -> value) cs ctr v,
  Forall (fun c => supported mangle (hc_pat c) = true) cs ->
  exec_match value veval veq is_sing as_seq as_map of_list of_dict isinst margs getattr geval beval
    (compile_match mangle cs ctr) v
  = hy_match mangle value veval veq is_sing as_seq as_map of_list of_dict isinst margs getattr geval beval cs v.
Proof. exact match_correct. Qed.
Print Assumptions C08_match_correct.

Theorem C08_match_none :
  forall (mangle : string -> string) (value : Type) veval veq is_sing as_seq as_map of_list of_dict isinst margs getattr
         (geval : nat -> bindings value -> bool) (beval : nat -> bindings value -> value) v ctr,
  exec_match value veval veq is_sing as_seq as_map of_list of_dict isinst margs getattr geval beval
    (compile_match mangle [] ctr) v = ONone.
Proof. exact match_none. Qed.
Print Assumptions C08_match_none.

(* non-trivial objects meeting the hypotheses *)
Example C08_example_supported :
  supported t_mangle (HAs (HSeq [HSym "x"; HStar "r"; HMap [LStr "k"] [HOr [HLit (LInt 1); HSym "None"]] (Some "m");
                                 HClass ["C"] [HSym "y"] ["q"] [HKeyword "a-b"]]) "w") = true
  /\ hwf t_mangle false (HAs (HSeq [HSym "x"; HStar "r"; HMap [LStr "k"] [HOr [HLit (LInt 1); HSym "None"]] (Some "m");
                                    HClass ["C"] [HSym "y"] ["q"] [HKeyword "a-b"]]) "w") = true.
Proof. split; vm_compute; reflexivity. Qed.
Example C08_example_lifted_guards :
  compile_match t_mangle [ {| hc_pat := HSym "x"; hc_guard := Some {| g_id := 7; g_stmts := true |}; hc_body := 0 |};
                           {| hc_pat := HSym "_"; hc_guard := None; hc_body := 1 |} ] 0
  = {| cm_result_var := 1; cm_defs := [(2, 7)];
       cm_cases := [ {| pc_pat := PMatchAs None (Some "x"); pc_guard := PGCall 2; pc_body := 0 |};
                     {| pc_pat := PMatchAs None None; pc_guard := PGNone; pc_body := 1 |} ] |}.
Proof. vm_compute. reflexivity. Qed.
