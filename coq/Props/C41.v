(* C41 -- The hy command runs programs the same way from -c, a file, stdin and -m.
   Statements only; proofs are in Cmd/CmdlineProofs.v and Cmd/CmdlineGen.v.
   `handler isatty program argv` is the model of hy.cmdline.cmdline_handler
   (program :: argv) over the option table regenerated from hy/cmdline.py. *)
From Coq Require Import String Ascii.
From HyV Require Import Base.Text Gen.CmdTables Cmd.CmdlineModel Cmd.CmdlineProofs Cmd.CmdlineGen.

(* In front: any sequence [pre] of recognised non-terminating options in any of
   their spellings (bundles of flag letters, --flag, --flag=junk, --opt=ARG,
   --opt ARG) leaving options [o], then a bundle [fl] of flag letters glued to
   the mode letter; no -h/-v among them.  Behind: ANY list of strings [args]. *)

Theorem C41_mode_c : forall isatty program pre o fl,
  consumes gdefs [] pre o -> flag_letters gdefs fl -> clean (apply_flags gdefs fl o) ->
  forall code args,
  handler isatty program (pre ++ (45 :: fl ++ [99]) :: code :: args)
  = ORun (flags_of (apply_flags gdefs fl o)) (AEval code) (minus_c :: args)
         (repl_of (apply_flags gdefs fl o) (AEval code)).
Proof. exact mode_c_separate. Qed.
Print Assumptions C41_mode_c.

Theorem C41_mode_c_attached : forall isatty program pre o fl,
  consumes gdefs [] pre o -> flag_letters gdefs fl -> clean (apply_flags gdefs fl o) ->
  forall c cs args,
  handler isatty program (pre ++ (45 :: fl ++ 99 :: c :: cs) :: args)
  = ORun (flags_of (apply_flags gdefs fl o)) (AEval (strip_eq (c :: cs))) (minus_c :: args)
         (repl_of (apply_flags gdefs fl o) (AEval (strip_eq (c :: cs)))).
Proof. exact mode_c_attached. Qed.
Print Assumptions C41_mode_c_attached.

Theorem C41_mode_m : forall isatty program pre o fl,
  consumes gdefs [] pre o -> flag_letters gdefs fl -> clean (apply_flags gdefs fl o) ->
  forall m args,
  handler isatty program (pre ++ (45 :: fl ++ [109]) :: m :: args)
  = if ohas k_i (apply_flags gdefs fl o) then OModuleRepl (flags_of (apply_flags gdefs fl o))
    else ORun (flags_of (apply_flags gdefs fl o)) (AModule m) (program :: args) None.
Proof. exact mode_m_separate. Qed.
Print Assumptions C41_mode_m.

Theorem C41_mode_m_attached : forall isatty program pre o fl,
  consumes gdefs [] pre o -> flag_letters gdefs fl -> clean (apply_flags gdefs fl o) ->
  forall c cs args,
  handler isatty program (pre ++ (45 :: fl ++ 109 :: c :: cs) :: args)
  = if ohas k_i (apply_flags gdefs fl o) then OModuleRepl (flags_of (apply_flags gdefs fl o))
    else ORun (flags_of (apply_flags gdefs fl o)) (AModule (strip_eq (c :: cs))) (program :: args) None.
Proof. exact mode_m_attached. Qed.
Print Assumptions C41_mode_m_attached.

Theorem C41_mode_file : forall isatty program pre o,
  consumes gdefs [] pre o -> clean o ->
  forall file args, not_option file -> file <> dash ->
  handler isatty program (pre ++ file :: args)
  = ORun (flags_of o) (AFile file) (file :: args) (repl_of o (AFile file)).
Proof. exact mode_file. Qed.
Print Assumptions C41_mode_file.

Theorem C41_mode_file_after_ddash : forall isatty program pre o,
  consumes gdefs [] pre o -> clean o ->
  forall file args, file <> dash ->
  handler isatty program (pre ++ ddash :: file :: args)
  = ORun (flags_of o) (AFile file) (file :: args) (repl_of o (AFile file)).
Proof. exact mode_file_after_ddash. Qed.
Print Assumptions C41_mode_file_after_ddash.

Theorem C41_mode_stdin : forall isatty program pre o,
  consumes gdefs [] pre o -> clean o ->
  forall args,
  handler isatty program (pre ++ dash :: args) = ORun (flags_of o) AStdin (dash :: args) (repl_of o AStdin).
Proof. exact mode_stdin. Qed.
Print Assumptions C41_mode_stdin.

(* For every command line whatsoever: what the program gets as sys.argv is a
   suffix of the command line (behind "-c" or the program name in those two
   modes); options before the point where processing stopped are consumed,
   nothing after it is. *)
Theorem C41_options_after_terminator_pass : forall isatty program argv f a sa r,
  handler isatty program argv = ORun f a sa r -> a <> ARepl ->
  exists front rest, argv = front ++ rest /\ (sa = rest \/ sa = minus_c :: rest \/ sa = program :: rest).
Proof. exact sysargv_is_suffix. Qed.
Print Assumptions C41_options_after_terminator_pass.

(* The handler never fails inside its own table lookup. *)
Theorem C41_no_internal_lookup_error : forall isatty program argv opt, handler isatty program argv <> OUnpack opt.
Proof. exact handler_never_unpack_error. Qed.
Print Assumptions C41_no_internal_lookup_error.

(* The full property also says that output and exit status agree across the
   modes.  That part is about runpy, run_path, hy_eval and the import system;
   it is stated here over an abstract executor and reduced to the statement
   that each runner, given the same program text and the same sys.argv tail,
   behaves the same -- which the oracle of props/c41.py decides by running
   the real command.  [exec] gives the observable behaviour of the callee
   reached with a given sys.argv; [stored] says how a program text is made
   available to each mode. *)
Section Full.
Variable behaviour : Type.
Variable exec : action -> list text -> behaviour.
Variable beh : text -> list text -> behaviour.   (* program text, argument list *)
Variables (in_file : text -> text -> Prop) (in_module : text -> text -> Prop) (on_stdin : text -> Prop).
Definition runners_agree : Prop :=
  forall code args,
    exec (AEval code) (minus_c :: args) = beh code args
    /\ (forall file, in_file file code -> exec (AFile file) (file :: args) = beh code args)
    /\ (on_stdin code -> exec AStdin (dash :: args) = beh code args)
    /\ (forall m program, in_module m code -> exec (AModule m) (program :: args) = beh code args).

Definition ran (x : outcome) : option behaviour :=
  match x with ORun _ a sa None => Some (exec a sa) | _ => None end.

Definition C41_full : Prop :=
  forall isatty program code args file m,
    not_option file -> file <> dash -> in_file file code -> in_module m code -> on_stdin code ->
    ran (handler isatty program (minus_c :: code :: args)) = Some (beh code args)
    /\ ran (handler isatty program (file :: args)) = Some (beh code args)
    /\ ran (handler isatty program (dash :: args)) = Some (beh code args)
    /\ ran (handler isatty program (minus_m :: m :: args)) = Some (beh code args).

Theorem C41_modes_agree_partial : runners_agree -> C41_full.
Proof. exact (modes_agree behaviour exec beh in_file in_module on_stdin). Qed.
End Full.
Print Assumptions C41_modes_agree_partial.

(* the hypotheses of the mode theorems are inhabited *)
Theorem C41_hypotheses_inhabited :
  consumes gdefs [] ex_pre ex_opts /\ flag_letters gdefs (txt "BEiu") /\ clean (apply_flags gdefs (txt "u") ex_opts).
Proof. exact (conj ex_consumes (conj ex_flag_letters ex_clean)). Qed.
Print Assumptions C41_hypotheses_inhabited.
