(* C10 -- Compilation yields a valid Python AST or a user-facing Hy error.
   Statements only; proofs are in Valid/CombProofs.v and Valid/GrammarFacts.v.

   What is proved here is the part of the property that is logic of hy itself:
   the argument-grammar check that every core macro performs first
   (pattern_macro: parse, or NoParseError turned into a syntax error that indexes
   the form).  The handlers' output and CPython's validator are decided by the
   run-time oracle of props/c10.py (see DESIGN section 6: partial). *)
From Coq Require Import ZArith.
From HyV Require Import Base.Text Valid.Comb Valid.CombProofs Gen.Patterns Valid.GrammarFacts Valid.Compile Valid.Validate Valid.CompileProofs.
Local Open Scope nat_scope.

(* For every regenerated grammar and every argument list, well-formed or not:
   the wrapper ends with a parse tree for the handler, or with a syntax error
   located at an index inside the form (head arg1 ... argn).  It neither
   diverges nor indexes outside the form. *)
Theorem C10_pattern_macro_outcome_partial : forall g, In g grammars -> forall args,
  (exists tree, pattern_macro (g_pats g) args = Parsed tree)
  \/ (exists i, pattern_macro (g_pats g) args = SyntaxErrorAt i /\ i < S (length args)).
Proof. exact grammars_outcome. Qed.
Print Assumptions C10_pattern_macro_outcome_partial.

(* The same for any pattern list in which only consuming parsers are repeated. *)
Theorem C10_wellformed_patterns_terminate : forall ps args, wf_all ps = true ->
  (exists tree, pattern_macro ps args = Parsed tree)
  \/ (exists i, pattern_macro ps args = SyntaxErrorAt i /\ i < S (length args)).
Proof. exact pattern_macro_outcome. Qed.
Print Assumptions C10_wellformed_patterns_terminate.

(* The operator macros (shadow=True: + - * / ... = < ... not and or ...) have flat
   grammars and accept exactly the argument lists whose length lies in the
   arity range read off the decorator. *)
Theorem C10_operator_arity : forall g, In g grammars -> g_shadow g = true ->
  exists k t, classify_flat (g_pats g) = Some (k, t)
              /\ forall args, accepts (g_pats g) args <-> in_arity k t (length args).
Proof. exact operator_arity. Qed.
Print Assumptions C10_operator_arity.

(* k FORMs followed by many / oneplus / times lo hi of FORM: accepted iff the arity is in range (greedy semantics) *)
Theorem C10_flat_arity : forall k t args, accepts (flat k t) args <-> in_arity k t (length args).
Proof. exact flat_accepts_iff. Qed.
Print Assumptions C10_flat_arity.

(* a parser that succeeds never lengthens the remaining input; a consuming one shortens it *)
Theorem C10_progress : forall p, shrinks (run p) /\ (consumes p = true -> shrinks_strictly (run p)).
Proof. exact run_shrinks. Qed.
Print Assumptions C10_progress.

(* ---------------------------------------------------------------- handlers, expression fragment *)

(* the full statement over the model: every tree compiles to a valid AST or a user-facing error *)
Definition C10_full : Prop := forall (mangle : text -> text) t,
  match compile mangle t with COk e => validate e = true | CInternal => False | _ => True end.

(* Proved for every mangle function and every tree over the modelled heads (literals, symbols,
   keywords, list/tuple/set/dict displays, calls with keyword and unpacking arguments, the
   operator macros, and/or, if, get, unpack-iterable, chainc; other heads give CUnmodelled)
   that avoids the shapes of [good]: dict displays in which a #** form sits in a value position (and, as a sufficient condition kept from before the fix aeaad9f, chainc
   without a comparison pair, which the grammar now rejects).
   The outcome is a validator-accepted AST or a user-facing error -- never an internal one. *)
Theorem C10_compile_outcome_classes_partial : forall (mangle : text -> text) t, good t = true ->
  match compile mangle t with COk e => validate e = true | CInternal => False | _ => True end.
Proof. exact compile_outcome. Qed.
Print Assumptions C10_compile_outcome_classes_partial.

(* Each excluded shape refutes the full statement (witnesses replayed on the real compiler:
   finding C10-dict-unpack-in-value-position; the argument-less (unpack-mapping) form is a syntax error since b5377ba). *)
Theorem C10_refuted_dict_unpack_misaligned :
  exists e, compile toy_mangle (HDict [x_; HExpr [HSym s_unpack_mapping; x_]; x_]) = COk e /\ validate e = false.
Proof. exact refuted_dict_unpack_misaligned. Qed.
(* after the fixes bac53a5 / c0e258f / aeaad9f / b5377ba an odd dict, a #** operand of a comparison and a chainc without
   a comparison pair are user-facing errors *)
Example C10_chainc_single_is_user_error : compile toy_mangle (HExpr [sym [99;104;97;105;110;99]; x_]) = CUser.
Proof. exact chainc_single_is_user_error. Qed.
Example C10_odd_dict_is_user_error : compile toy_mangle (HDict [HInt 1]) = CUser.
Proof. exact odd_dict_is_user_error. Qed.
Example C10_compare_unpack_mapping_is_user_error :
  compile toy_mangle (HExpr [sym [61]; x_; x_; HExpr [HSym s_unpack_mapping; x_]]) = CUser.
Proof. exact compare_unpack_mapping_is_user_error. Qed.
Example C10_bare_unpack_mapping_is_user_error : compile toy_mangle (HList [HExpr [HSym s_unpack_mapping]]) = CUser.
Proof. exact bare_unpack_mapping_is_user_error. Qed.
Print Assumptions C10_refuted_dict_unpack_misaligned.

Example C10_good_nontrivial :
  good (HExpr [sym [102]; HExpr [sym [43]; HInt 1; HExpr [sym [60]; x_; HInt 2; HInt 3]]; HKw (t_of [107]); HDict [HStr []; x_]]) = true.
Proof. exact good_example. Qed.

(* non-vacuity: the table holds an operator grammar times(2, Inf, FORM) and a structured (non-flat) grammar *)
Example C10_table_nontrivial :
  existsb (fun g => match classify_flat (g_pats g) with Some (_, TTimes 2 None) => g_shadow g | _ => false end) grammars = true
  /\ existsb (fun g => negb (is_some (classify_flat (g_pats g)))) grammars = true.
Proof. exact grammars_nontrivial. Qed.
