(* C20 -- Whitespace, comments, discards and reader sugar are transparent.
   Statements only; proofs are in Reader/Extend.v, Reader/Concat.v, Reader/Roundtrip.v, Reader/Sugar.v.

   Trees ([cst], Reader/Cst.v) carry an arbitrary separator -- any sequence of whitespace
   characters, ";" comments and "#_" discards (which contain trees again) -- in front of every item,
   after the last item of every sequence, between a sugar prefix and its operand, and at top level.
   [wf] asks only that separators are separators, that leaves read on their own as one form, and
   that adjacent tokens cannot fuse.  [orc_ok]: the reader is run without position annotations
   ("compared by type and value") and str.strip() does not call the characters * ^ _ { ( [ blank.

   Not covered by the printed-tree theorems (the model reads them; see C18's correspondence):
   f-strings as tree nodes; a leaf followed directly by a token that is not separated from it
   although no fusion would happen (e.g. "a"b).  read_concat has neither restriction. *)
From HyV Require Import Base.Text Reader.Syntax Gen.ReaderTables Reader.Model Reader.Extend Reader.Concat Reader.Cst
  Reader.Steps Reader.Roundtrip Reader.Sugar.

(* Round trip: a program printed with ANY separators reads as the models of its forms. *)
Theorem C20_read_print_seps : forall orc, orc_ok orc -> forall its trail,
  wf_prog orc its trail = true -> read_many orc (render_prog its trail) = Ok (erase_items orc its).
Proof. exact read_print_seps. Qed.
Print Assumptions C20_read_print_seps.

(* hence: two printings of the same forms that differ only in separators read alike *)
Theorem C20_seps_transparent : forall orc, orc_ok orc -> forall its trail its' trail',
  wf_prog orc its trail = true -> wf_prog orc its' trail' = true -> erase_items orc its = erase_items orc its' ->
  read_many orc (render_prog its trail) = read_many orc (render_prog its' trail').
Proof. exact seps_transparent. Qed.
Print Assumptions C20_seps_transparent.

(* Concatenation, for ARBITRARY texts: t1 closes its line comments and t2 starts with a character that
   ends an identifier and is not a double quote (whitespace, a delimiter, a sugar prefix, ";"). *)
Theorem C20_read_concat : forall orc, plain orc -> forall t1 t2 a b,
  read_many orc t1 = Ok a -> read_many orc t2 = Ok b -> boundary_safe t1 t2 = true ->
  read_many orc (t1 ++ t2) = Ok (a ++ b).
Proof. exact read_concat. Qed.
Print Assumptions C20_read_concat.

(* The locality lemma behind both: what the reader does on u it does on u ++ rest. *)
Theorem C20_extension : forall orc orc' rest cs,
  match rest with [] => True | d :: _ => stop d = true end ->
  (forall t, numeric orc t = numeric orc' t) -> (forall b t, decode orc b t = decode orc' b t) ->
  (forall c, pyspace orc c = pyspace orc' c) ->
  (forall a b t, mk orc (a + length rest) (b + length rest) t = mk orc' a b t) ->
  forall f md u, nested md -> sem cs u ->
  ext_res rest cs (rd orc' f md u) (rd orc f (shift rest md) (u ++ rest)).
Proof. exact rd_ext. Qed.
Print Assumptions C20_extension.

(* Sugar: ' ` ~ ~@ #* #** followed by any separator and a form read as (quote f) ... (unpack-mapping f);
   both the sugared text and the long form are read, and give the same model. *)
Theorem C20_sugar_eq_long : forall orc, orc_ok orc -> forall w s c,
  numeric orc (wrap_root w) = false ->
  wf orc (CWrap w s c) None = true -> wf orc c (Some c_rp) = true ->
  read_many orc (render (CWrap w s c)) = Ok [sym_expr (wrap_root w) [erase orc c]]
  /\ read_many orc (render (long_wrap w c)) = Ok [sym_expr (wrap_root w) [erase orc c]].
Proof. exact sugar_eq_long. Qed.
Print Assumptions C20_sugar_eq_long.

(* #^ t x reads as (annotate x t) *)
Theorem C20_annotate_eq_long : forall orc, orc_ok orc -> forall s1 c1 s2 c2,
  numeric orc t_annotate = false ->
  wf orc (CAnn s1 c1 s2 c2) None = true -> wf orc c1 (Some c_rp) = true -> wf orc c2 (Some ch_space) = true ->
  read_many orc (render (CAnn s1 c1 s2 c2)) = Ok [sym_expr t_annotate [erase orc c2; erase orc c1]]
  /\ read_many orc (render (long_ann c1 c2)) = Ok [sym_expr t_annotate [erase orc c2; erase orc c1]].
Proof. exact annotate_eq_long. Qed.
Print Assumptions C20_annotate_eq_long.

(* the long-form names are the documented ones, and the keys are the sugar characters *)
Example C20_names : map wrap_root [WQuote; WQuasi; WUnquote; WSplice; WStar; WStarStar] =
  [ [113;117;111;116;101]; [113;117;97;115;105;113;117;111;116;101]; [117;110;113;117;111;116;101];
    [117;110;113;117;111;116;101;45;115;112;108;105;99;101]; [117;110;112;97;99;107;45;105;116;101;114;97;98;108;101];
    [117;110;112;97;99;107;45;109;97;112;112;105;110;103] ]
  /\ map wrap_key [WQuote; WQuasi; WUnquote; WSplice; WStar; WStarStar] = [[39]; [96]; [126]; [126; 64]; [35; 42]; [35; 42; 42]].
Proof. split; reflexivity. Qed.

(* the hypotheses are satisfiable and the theorems are not vacuous:
     (a ;c<newline> #_ (b) 'x "s;" #{1}) ~@ y   with a toy oracle *)
Definition toy : oracles :=
  {| numeric := fun s => match s with c :: _ => (48 <=? c) && (c <=? 57) | [] => false end;
     decode := fun _ s => Some s; pyspace := fun c => c =? 32; mk := fun _ _ t => t |}.
Example C20_toy_ok : orc_ok toy.
Proof. split; [intros a b t; reflexivity|]. intros c H. simpl in H. repeat (destruct H as [<-|H]; [reflexivity|]). contradiction. Qed.
Definition ex_items : items :=
  ICons SNil
    (CSeq KExpr
       (ICons SNil (CLeaf [97])
       (ICons (SWs 32 (SCom [99] (SWs 32 (SDis (SWs 32 SNil) (CSeq KExpr (ICons SNil (CLeaf [98]) INil) SNil) (SWs 32 SNil)))))
              (CWrap WQuote SNil (CLeaf [120]))
       (ICons (SWs 32 SNil) (CLeaf [34; 115; 59; 34])
       (ICons (SWs 32 SNil) (CSeq KSet (ICons SNil (CLeaf [49]) INil) SNil) INil)))) SNil)
  (ICons (SWs 32 SNil) (CWrap WSplice (SWs 32 SNil) (CLeaf [121])) INil).
Example C20_ex_wf : wf_prog toy ex_items (SWs 10 SNil) = true.
Proof. vm_compute. reflexivity. Qed.
Example C20_ex_reads : read_many toy (render_prog ex_items (SWs 10 SNil)) = Ok (erase_items toy ex_items).
Proof. vm_compute. reflexivity. Qed.
Example C20_ex_boundary : boundary_safe [40; 97; 41; 59; 99; 10] [40; 98; 41] = true
  /\ read_many toy ([40; 97; 41; 59; 99; 10] ++ [40; 98; 41]) = Ok [Seq KExpr [Sym [97]]; Seq KExpr [Sym [98]]].
Proof. split; vm_compute; reflexivity. Qed.
(* without the boundary condition the claim is false by design: "a" ++ "b" is one symbol *)
Example C20_boundary_needed : read_many toy [97] = Ok [Sym [97]] /\ read_many toy [98] = Ok [Sym [98]]
  /\ read_many toy ([97] ++ [98]) = Ok [Sym [97; 98]].
Proof. repeat split; vm_compute; reflexivity. Qed.
