(* C07 -- nonlocal and global reach the binding scoping prescribes.
   Statements only; proofs are in Scope/OuterVars.v and Scope/MachineFacts.v.
   The models (OuterVars.walk = ResolveOuterVars.visit_OuterVar, Machine = the scope classes) are
   tied to hy/scoping.py by the trace correspondence run of props/c07.py. *)
From HyV Require Import Base.Text Scope.Sorting Scope.SetDecl Scope.OuterVars Scope.Machine Scope.MachineFacts.
Local Open Scope nat_scope.

(* outer_resolution: for every nesting inner ++ [module] of function/class/let scopes and every
   declared name list: names no inner scope binds become one Global statement, in declaration
   order, if the module defines them all (else a plain Nonlocal, and Python reports the missing
   binding); exactly the names some inner scope binds become the Nonlocal statement.  No bound on
   the nesting depth or the number of names. *)
Theorem C07_outer_resolution : forall perm ord inner g names,
  forallb (fun sc => negb (is_pglobal sc)) inner = true ->
  let gl := filter (fun x => negb (inner_has inner x)) names in
  let nl := defined_after inner [] names in
  visit_outervar perm ord (inner ++ [PGlobal g]) names =
    match gl with
    | [] => fallthrough names
    | _ :: _ => if ssubset gl g
                then OGlobal gl :: match nl with [] => [] | _ :: _ => [ONonlocal (names_of_set perm ord nl)] end
                else fallthrough names
    end
  /\ (forall x, smem x nl = smem x names && inner_has inner x).
Proof. exact outer_resolution. Qed.
Print Assumptions C07_outer_resolution.

Theorem C07_module_names_become_global : forall perm ord inner g names x,
  forallb (fun sc => negb (is_pglobal sc)) inner = true ->
  ssubset (filter (fun y => negb (inner_has inner y)) names) g = true ->
  In x names -> inner_has inner x = false ->
  exists gl rest, visit_outervar perm ord (inner ++ [PGlobal g]) names = OGlobal gl :: rest /\ In x gl.
Proof. exact module_names_become_global. Qed.
Print Assumptions C07_module_names_become_global.

(* global_always_module: after (global .. x ..) -- whatever lets of the same function enclose the
   declaration -- a node named x that is accessed or assigned keeps the name x, and the function
   scope holds x in `defined`, so the node is not passed to an enclosing let on exit either.
   (The Global statement itself is emitted as written: compile_global_or_nonlocal.) *)
Theorem C07_global_always_module : forall stk c l stk' c' x,
  define_nonlocal stk c l RGlobal = inl (stk', c') -> In x (cell_names c l) ->
  forall c2 r, valid_ref c2 r -> name_of c2 r = x ->
    name_of (snd (access stk' c2 r)) r = x /\ name_of (snd (assign stk' c2 r)) r = x.
Proof. exact global_decl_unrenames. Qed.
Print Assumptions C07_global_always_module.

Theorem C07_global_not_propagated : forall s rest c l stk' c' x,
  match s_kind s with KFn | KClass | KGen => True | _ => False end ->
  define_nonlocal (s :: rest) c l RGlobal = inl (stk', c') -> In x (cell_names c l) ->
  exists s', stk' = s' :: rest /\ smem x (s_defined s') = true /\ smem x (s_nonlocal s') = smem x (s_nonlocal s).
Proof. exact global_decl_not_propagated. Qed.
Print Assumptions C07_global_not_propagated.

(* decl_after_use_is_error: if the function/class/comprehension scope has seen a node whose name
   is among the declared ones, the declaration is rejected (HySyntaxError "declared ... after
   being used"); at event level: use x, then declare it. *)
Theorem C07_decl_after_use_is_error : forall s rest c l root r,
  match s_kind s with KFn | KClass | KGen => True | _ => False end ->
  In r (s_seen s) -> In (name_of c r) (cell_names c l) ->
  exists x, In x (cell_names c l) /\ define_nonlocal (s :: rest) c l root = inr (ErrDeclAfterUse x root).
Proof. exact decl_after_use_is_error. Qed.
Print Assumptions C07_decl_after_use_is_error.

Theorem C07_use_then_declare_rejected : forall perm ord st s rest x root names,
  st_err st = None -> st_stack st = s :: rest ->
  match s_kind s with KFn | KClass => True | _ => False end -> In x names ->
  exists y, st_err (run perm ord [EAccess x; EDecl root names] st) = Some (ErrDeclAfterUse y root).
Proof. exact use_then_declare_rejected. Qed.
Print Assumptions C07_use_then_declare_rejected.

(* let elision: names bound by an outer let of the same function are removed from the nonlocal
   statement (they already mean that let variable) -- all of them, with every occurrence, and no other
   name.  (Before the fix 87cbe18 the loop mutated the list it iterated and skipped the name after a
   removed one; the model then refuted this statement with (let [a 1 b 2] (let [c 3] (nonlocal a b) ..)).) *)
Theorem C07_let_elision : forall P names x, In x (elide P names) <-> In x names /\ P x = false.
Proof. exact let_elision. Qed.
Print Assumptions C07_let_elision.

Theorem C07_let_elision_counts : forall P names x, count x (elide P names) = if P x then 0 else count x names.
Proof. exact elide_spec. Qed.
Print Assumptions C07_let_elision_counts.

Theorem C07_let_define_nonlocal_elides : forall s rest c l,
  s_kind s = KLet ->
  let_define_nonlocal (s :: rest) c l RNonlocal false =
    match let_define_nonlocal rest
            (set_cell c l (elide (fun x => match lookup x (s_bindings s) with Some _ => true | None => false end)
                                 (cell_names c l))) l RNonlocal false with
    | inl (rest', c') => inl (s :: rest', c')
    | inr e => inr e
    end.
Proof. exact let_define_nonlocal_elides. Qed.
Print Assumptions C07_let_define_nonlocal_elides.

Example C07_let_elision_former_witness :
  match define_nonlocal (el_inner :: el_outer :: [el_fn; new_scope 0 KGlobal]) [[el_a; el_b]] 0 RNonlocal with
  | inl (_, c') => cell_names c' 0 = []
  | inr _ => False
  end.
Proof. exact let_elision_former_witness. Qed.

(* One place where the faithful model violates the property. *)

(* a class body is not an enclosing scope for `nonlocal`, but the walk counts a class
   attribute as a binding: with x a class attribute and a module variable, (nonlocal x) in a
   method yields `nonlocal x` (Python: no binding) instead of `global x`. *)
Definition C07_nonlocal_names_have_function_binding_full : Prop := nonlocal_names_have_function_binding_full.
Theorem C07_nonlocal_names_have_function_binding_refuted :
  exists perm ord chain names l x, In (ONonlocal l) (visit_outervar perm ord chain names) /\ In x l /\
    (exists g, In (PGlobal g) chain /\ ssubset names (fold_right (fun sc acc => has_of sc ++ acc) [] chain) = true) /\
    function_binds chain x = false.
Proof. exact nonlocal_names_have_function_binding_refuted. Qed.
Print Assumptions C07_nonlocal_names_have_function_binding_refuted.

(* non-trivial instances of the hypotheses *)
Example C07_outer_resolution_example :
  visit_outervar perm_id OSorted [PLet [nm_b]; PFn true [nm_a]; PGlobal [nm_g]] [nm_g; nm_a; nm_b]
  = [OGlobal [nm_g]; ONonlocal [nm_a; nm_b]].
Proof. exact outer_resolution_example. Qed.
Example C07_use_then_declare_example :
  st_err (run (fun l => l) OSorted [EEnter KFn 1 []; EAccess [120%N]; EDecl RNonlocal [[120%N]]] init_state)
  = Some (ErrDeclAfterUse [120%N] RNonlocal).
Proof. exact use_then_declare_example. Qed.
