(* C11 -- no subform is silently dropped by the compiler.
   Statements only; proofs are in Collect/Proofs.v, Collect/Order.v (argument collection) and Compiler/Correct3.v. *)
From HyV Require Import Collect.Model Collect.Proofs Collect.Order.

(* _compile_collect, the one place where argument forms are distributed over the slots of a display, call
   or dict node: for every argument list of any length mixing ordinary forms, #* and #** unpackings and
   keywords, if compilation succeeds every argument is held by exactly as many slots of the node as it
   occurs in the list (nothing dropped, nothing duplicated). *)
Theorem C11_display_keeps_every_argument : forall l es, compile_display l = Ok es ->
  forall n, occ n (ovars es) = occ n (cvars l).
Proof. exact display_keeps_every_argument. Qed.
Print Assumptions C11_display_keeps_every_argument.

Theorem C11_call_keeps_every_argument : forall l es ks, compile_call l = Ok (es, ks) ->
  forall n, occ n (ovars es) + occ n (kvars ks) = occ n (cvars l).
Proof. exact call_keeps_every_argument. Qed.
Print Assumptions C11_call_keeps_every_argument.

Theorem C11_dict_keeps_every_argument : forall l keys vals, compile_dict l = Ok (keys, vals) ->
  forall n, occ n (ovars keys) + occ n (ovars vals) = occ n (cvars l).
Proof. exact dict_keeps_every_argument. Qed.
Print Assumptions C11_dict_keeps_every_argument.

(* Stronger than the counts: a display holds its argument forms in SOURCE ORDER (so the slots cannot
   be a permutation that drops one occurrence and doubles another elsewhere), and a dict's keys and values
   are the even and odd slots of one slot sequence in source order. *)
Theorem C11_display_keeps_source_order : forall l es, compile_display l = Ok es -> ovars es = cvars l.
Proof. exact display_keeps_source_order. Qed.
Print Assumptions C11_display_keeps_source_order.

Theorem C11_dict_keeps_source_order : forall l keys vals, compile_dict l = Ok (keys, vals) ->
  exists es, keys = evens es /\ vals = odds es /\ ovars es = cvars l.
Proof. exact dict_keeps_source_order. Qed.
Print Assumptions C11_dict_keeps_source_order.

(* Where Python has no construct, compilation fails instead: a #** anywhere in a list/set/tuple display
   (or subscript, operator...: every non-dict, non-call use of the collector), and a dict with an odd
   number of slots. *)
Theorem C11_unplaceable_is_an_error : forall a n b, compile_display (a ++ CDouble n :: b) = Err.
Proof. exact display_rejects_mapping_unpack. Qed.
Print Assumptions C11_unplaceable_is_an_error.

Example C11_premises_met :
  compile_call [CForm 1; CKeyword 7; CForm 2; CStar 3; CDouble 4; CForm 5]
  = Ok ([OLeaf 1; OStar 3; OLeaf 5], [(Some 7, OLeaf 2); (None, OLeaf 4)])
  /\ compile_dict [CForm 1; CForm 2; CDouble 3] = Ok ([OLeaf 1; ONone], [OLeaf 2; OLeaf 3]).
Proof. split; reflexivity. Qed.
