(* C03 -- Operator macros agree with hy.pyops functions and Python semantics.
   Statements only; proofs are in Ops/OperatorsSyntaxProofs.v and Ops/OperatorsProofs.v.
   Tables (m_ops, c_ops, a_ops, decorators, pyops_defs ...) are Gen/OpTables.v, regenerated
   from /repo on every run.  Python's operators are abstract: every theorem holds for every
   interpretation binop/unop/cmpop/truthy/konst over every value and exception domain. *)
From HyV Require Import Ops.OpSyntax Gen.OpTables Ops.Operators Ops.OperatorsSyntaxProofs Ops.OperatorsProofs.
Close Scope string_scope.

(* 1. For every operator macro and every operand list of an allowed length, the expression
      the macro emits IS the documented Python expansion (the parse of "a1 op a2 op ... an":
      left fold, right fold for **, one Compare node for comparisons; the documented nullary
      and unary rows) -- hence the same value, exception and evaluation order for operands
      that are arbitrary expressions. *)
Theorem C03_macro_is_documented_expansion : forall (L : Type) name, In name operator_macro_names ->
  forall (args : list (pexpr L)) d, find_decorator name = Some d -> arity_ok d (List.length args) = true ->
  exists e, compile_op name args = Some e /\ doc_expansion name args = Some e.
Proof. exact (@macro_is_documented_expansion). Qed.
Print Assumptions C03_macro_is_documented_expansion.

(* 2. Arithmetic, bitwise and unary operators: the hy.pyops function returns/raises exactly
      what the macro does on the same operand values; outside the allowed arities the macro
      is a syntax error and the function raises TypeError. *)
Theorem C03_maths_macro_eq_pyops :
  forall (val exn : Type) binop unop cmpop truthy konst (type_error : exn),
  forall name, In name (names_of HMaths ++ names_of HUnary) ->
  forall d (vs : list val), find_decorator name = Some d ->
  (arity_ok d (List.length vs) = true ->
     call_pyops val exn binop unop cmpop truthy konst type_error name vs
     = macro_vals val exn binop unop cmpop truthy konst name vs) /\
  (arity_ok d (List.length vs) = false ->
     call_pyops val exn binop unop cmpop truthy konst type_error name vs = Exn type_error
     /\ compile_op name (map (@PLeaf val) vs) = None).
Proof. exact maths_macro_eq_pyops. Qed.
Print Assumptions C03_maths_macro_eq_pyops.

(* 3. Comparison macros are Python's chained comparison: the first falsy comparison result or
      the last one, later operands unevaluated (the trace is the prefix of operands used). *)
Theorem C03_compare_macro_chain :
  forall (val exn : Type) binop unop cmpop truthy konst (L : Type) (leaf : L -> out exn val),
  forall name, In name (names_of HCompare) ->
  forall d l0 l1 r, find_decorator name = Some d -> arity_ok d (List.length (l0 :: l1 :: r)) = true ->
  exists c e, lookup name c_ops = Some c /\ compile_op name (map PLeaf (l0 :: l1 :: r)) = Some e /\
    peval val exn binop unop cmpop truthy konst leaf e =
    let (x, k) := compare_ref val exn cmpop truthy c (map leaf (l0 :: l1 :: r)) in (x, firstn k (l0 :: l1 :: r)).
Proof. exact compare_macro_chain. Qed.
Print Assumptions C03_compare_macro_chain.

(* 4. Comparison functions.  Full statement (function = macro including the exception outcome): *)
Definition C03_compare_pyops_full : Prop :=
  forall (val exn : Type) binop unop cmpop truthy konst (type_error : exn),
  forall name, In name (names_of HCompare) ->
  forall d (vs : list val), find_decorator name = Some d -> arity_ok d (List.length vs) = true ->
  call_pyops val exn binop unop cmpop truthy konst type_error name vs
  = macro_vals val exn binop unop cmpop truthy konst name vs.

(* What holds: the function evaluates EVERY comparison of consecutive operands first and only
   then short-circuits, so it equals the macro exactly when none of those comparisons fails
   (one or two operands: always). *)
Theorem C03_compare_pyops_partial :
  forall (val exn : Type) binop unop cmpop truthy konst (type_error : exn),
  forall name, In name (names_of HCompare) ->
  forall d (vs : list val), find_decorator name = Some d -> arity_ok d (List.length vs) = true ->
  exists c v rest, lookup name c_ops = Some c /\ vs = v :: rest /\
    call_pyops val exn binop unop cmpop truthy konst type_error name vs =
    match rest with
    | [] => macro_vals val exn binop unop cmpop truthy konst name vs
    | _ => match pairwise val exn (cmpop c) v rest with
           | Val _ => macro_vals val exn binop unop cmpop truthy konst name vs
           | Exn e => Exn e
           | Stuck => Stuck
           end
    end.
Proof. exact compare_pyops_exact. Qed.
Print Assumptions C03_compare_pyops_partial.

(* The full statement is false of the model: a witness (replayed on the implementation by
   props/c03.py: (< 2 1 "a") is False, (hy.pyops.< 2 1 "a") raises TypeError). *)
Theorem C03_compare_pyops_refuted : ~ C03_compare_pyops_full.
Proof. exact compare_pyops_full_refuted. Qed.
Print Assumptions C03_compare_pyops_refuted.

(* 5. Augmented assignment: (op= x v) is x op= v; with two or more values it is
      x op= (agg v1 .. vn) for the table's aggregator, a syntax error where there is none. *)
Theorem C03_augassign_shape : forall (L : Type) k, In k (map fst m_ops) ->
  forall m agg, lookup k m_ops = Some (m, agg) ->
  forall (target : L) (values : list (pexpr L)),
  compile_aug (aug_root k) target values =
  match values, agg with
  | [], _ => None
  | [v], _ => Some (PAug target m v)
  | _, None => None
  | _, Some g => option_map (PAug target m) (compile_op g values)
  end.
Proof. exact (@augassign_shape). Qed.
Print Assumptions C03_augassign_shape.

(* Full statement: that aggregator is the DOCUMENTED one (the :agg row of the parent operator,
   else the operator itself) and the assigned value is its documented expansion. *)
Definition C03_augassign_agg_full : Prop := forall (L : Type) k, In k (map fst m_ops) ->
  forall m agg, lookup k m_ops = Some (m, agg) ->
  forall (target : L) (values : list (pexpr L)), 2 <= List.length values ->
  match agg with
  | Some g =>
      doc_aggregator k = Some g /\
      exists e, doc_expansion g values = Some e /\
                compile_aug (aug_root k) target values = Some (PAug target m e)
  | None =>
      compile_aug (aug_root k) target values = None /\
      exists f, find_def_in pyops_defs k = Some f /\ doc_nary (f_doc f) = false
  end.

(* proved for every operator outside aug_doc_exceptions = ["//"] *)
Theorem C03_augassign_agg_partial : forall (L : Type) k, In k (map fst m_ops) -> ~ In k aug_doc_exceptions ->
  forall m agg, lookup k m_ops = Some (m, agg) ->
  forall (target : L) (values : list (pexpr L)), 2 <= List.length values ->
  match agg with
  | Some g =>
      doc_aggregator k = Some g /\
      exists e, doc_expansion g values = Some e /\
                compile_aug (aug_root k) target values = Some (PAug target m e)
  | None =>
      compile_aug (aug_root k) target values = None /\
      exists f, find_def_in pyops_defs k = Some f /\ doc_nary (f_doc f) = false
  end.
Proof. exact (@augassign_agg). Qed.
Print Assumptions C03_augassign_agg_partial.

(* //= multiplies the extra arguments; the documentation of // names no aggregator *)
Theorem C03_augassign_agg_refuted : ~ C03_augassign_agg_full.
Proof. exact augassign_agg_full_refuted. Qed.
Print Assumptions C03_augassign_agg_refuted.

(* 6. A macro call containing #* expands to the call of the same-named hy.pyops function with
      the same arguments (which exists and is exported), whose value is the macro semantics
      on the flattened argument values. *)
Theorem C03_shadow_fallback : forall name, In name operator_macro_names ->
  forall args, existsb (is_unpack "iterable") args = true ->
  expand_macro name args = Some (ExpandTo (FExpr (FExpr [FSym "."; FSym "hy"; FSym "pyops"; FSym name] :: args)))
  /\ In name pyops_all /\ exists f, find_def_in pyops_defs name = Some f.
Proof. exact shadow_fallback. Qed.
Print Assumptions C03_shadow_fallback.

Theorem C03_shadow_fallback_value :
  forall (val exn : Type) binop unop cmpop truthy konst (type_error : exn) iterate (L : Type) (leaf : L -> out exn val),
  forall name, In name (names_of HMaths ++ names_of HUnary) ->
  forall d (cargs : list (carg L)), find_decorator name = Some d ->
  bind (eval_cargs val exn iterate leaf cargs) (call_pyops val exn binop unop cmpop truthy konst type_error name) =
  bind (eval_cargs val exn iterate leaf cargs) (fun vs =>
    if arity_ok d (List.length vs) then macro_vals val exn binop unop cmpop truthy konst name vs
    else Exn type_error).
Proof. exact shadow_fallback_value. Qed.
Print Assumptions C03_shadow_fallback_value.

(* 7. Function arity = macro arity, for every operator. *)
Theorem C03_arity_agreement : forall (val exn : Type) binop unop cmpop truthy konst (type_error : exn),
  forall name, In name operator_macro_names ->
  forall d (vs : list val), find_decorator name = Some d -> arity_ok d (List.length vs) = false ->
  call_pyops val exn binop unop cmpop truthy konst type_error name vs = Exn type_error /\
  compile_op name (map (@PLeaf val) vs) = None.
Proof. exact arity_agreement. Qed.
Print Assumptions C03_arity_agreement.

(* the quantifiers range over something: all 25 operators of the property statement *)
Example C03_operator_names :
  operator_macro_names =
  ["%"; "^"; "**"; "//"; "<<"; ">>"; "-"; "/"; "&"; "@"; "+"; "*"; "|";
   "!="; "is-not"; "in"; "not-in"; "="; "is"; "<"; "<="; ">"; ">="; "not"; "bnot"]%string.
Proof. vm_compute. reflexivity. Qed.
Example C03_example_pow : @compile_op nat "**" [PLeaf 0; PLeaf 1; PLeaf 2]
                          = Some (PBin (PLeaf 0) Pow (PBin (PLeaf 1) Pow (PLeaf 2))).
Proof. vm_compute. reflexivity. Qed.
Example C03_example_aug : @compile_aug nat "-=" 9 [PLeaf 0; PLeaf 1; PLeaf 2]
                          = Some (PAug 9 Sub (PBin (PBin (PLeaf 0) Add (PLeaf 1)) Add (PLeaf 2))).
Proof. vm_compute. reflexivity. Qed.
