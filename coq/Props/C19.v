(* C19 -- Truncated input is reported as premature end of input.
   Statements only; proofs are in Reader/Trunc.v, Reader/Repl.v.

   A partial program ([items] complete, then a partial end [pend], Reader/Partial.v) is a printed
   program cut: after any complete item or separator, inside a whitespace run, inside a line comment,
   after the # of a tag, after any sugar or discard prefix or between the two operands of the annotate
   sugar, after any opener, and inside a string-like leaf whose prefix on its own reads as Premature --
   at any nesting depth, with arbitrary separators everywhere.  [pend_open]: the cut leaves a construct
   open (as opposed to: it falls between top-level forms or inside a top-level comment). *)
From HyV Require Import Base.Text Reader.Syntax Gen.ReaderTables Reader.Model Reader.Extend Reader.Concat Reader.Cst
  Reader.Steps Reader.Roundtrip Reader.Partial Reader.Trunc Reader.Repl.

Theorem C19_truncation_premature_partial : forall orc, orc_ok orc -> forall its pe,
  wf_items orc its (fst_of (render_pend pe) None) = true -> pwf_pend orc pe = true ->
  read_many orc (render_items its ++ render_pend pe) = if pend_open pe then Premature else Ok (erase_items orc its).
Proof. exact truncation_premature. Qed.
Print Assumptions C19_truncation_premature_partial.

(* the same inside any form, and in the three reading contexts (what the induction is about) *)
Theorem C19_truncation_in_context_partial : forall orc, orc_ok orc ->
  (forall t, pwf_tail orc t = true -> ctx orc (render_ptail t) (tail_open t))
  /\ (forall pe, pwf_pend orc pe = true -> ctx orc (render_pend pe) (pend_open pe))
  /\ (forall pc, pwf orc pc = true -> exists n, rd orc n MTry (render_p pc) = RPrem).
Proof. exact truncation_all. Qed.
Print Assumptions C19_truncation_in_context_partial.

(* The REPL's continuation prompt: more input is requested iff the outcome is Premature. *)
Theorem C19_repl_continuation : forall o, repl_wants_more o = true <-> o = Premature.
Proof. exact repl_continuation. Qed.
Print Assumptions C19_repl_continuation.

(* What is not proved (validated per cut point by the harness instead): that EVERY cut point of every
   printed program is the printing of a well-formed partial program, or lies strictly inside a leaf whose
   prefix does not read on its own as Premature (an identifier-like token: the property makes no claim
   when no delimiter encloses it; inside a delimiter the enclosing construct is open and the outcome is
   that of the prefix of the leaf -- which is where C19_refuted_dotted_identifier lives). *)
Definition C19_full : Prop := forall orc, orc_ok orc -> forall its trail, wf_prog orc its trail = true ->
  forall k, let p := firstn k (render_prog its trail) in
  (exists its' pe, p = render_items its' ++ render_pend pe
                   /\ wf_items orc its' (fst_of (render_pend pe) None) = true /\ pwf_pend orc pe = true
                   /\ read_many orc p = if pend_open pe then Premature else Ok (erase_items orc its'))
  \/ (exists pre t p' post, render_prog its trail = pre ++ t ++ post /\ leaf_ok orc t = true
                   /\ p = pre ++ p' /\ p' <> [] /\ p' <> t /\ leaf_open orc p' = false).

(* a non-trivial instance: the program  ( a SP 'b SP #_ SP ( c   cut there, and cut after  ( a ) SP ; c  *)
Example C19_ex_open :
  let pe := PEnd SNil (TForm (PSeq KExpr (ICons SNil (CLeaf [97]) (ICons (SWs 32 SNil) (CWrap WQuote SNil (CLeaf [98])) INil))
                                  (PEnd (SWs 32 SNil) (TDis (PEnd (SWs 32 SNil) (TForm (PSeq KExpr (ICons SNil (CLeaf [99]) INil) (PEnd SNil TEnd)))))))) in
  pwf_pend toy pe = true /\ pend_open pe = true /\ read_many toy (render_items INil ++ render_pend pe) = Premature.
Proof. vm_compute. repeat split; reflexivity. Qed.
Example C19_ex_boundary :
  let its := ICons SNil (CSeq KExpr (ICons SNil (CLeaf [97]) INil) SNil) INil in
  let pe := PEnd (SWs 32 SNil) (TCom [99]) in
  wf_items toy its (fst_of (render_pend pe) None) = true /\ pwf_pend toy pe = true /\ pend_open pe = false
  /\ read_many toy (render_items its ++ render_pend pe) = Ok [Seq KExpr [Sym [97]]].
Proof. vm_compute. repeat split; reflexivity. Qed.

(* since the fix of read_fcomponent (commit 156eccc) a cut inside a replacement field is a premature end:
   the text  ( f DQ a { x  (DQ = double quote), as a partial tree *)
Example C19_ex_fstring_field :
  let pe := PEnd SNil (TForm (PSeq KExpr INil (PEnd SNil (TFldHead [97] SNil (CLeaf [120]) [])))) in
  pwf_pend toy pe = true /\ render_pend pe = [40; 102; 34; 97; 123; 120] /\ read_many toy (render_pend pe) = Premature.
Proof. vm_compute. repeat split; reflexivity. Qed.
Example C19_ex_fstring_field_conversion :
  let pe := PEnd SNil (TFldHead [] (SWs 32 SNil) (CSeq KExpr (ICons SNil (CLeaf [120]) INil) SNil) [32; 61; 32; 33; 114]) in
  pwf_pend toy pe = true /\ read_many toy (render_pend pe) = Premature.
Proof. vm_compute. repeat split; reflexivity. Qed.

(* The faithful model still violates the property at two classes of cut points (each witness is a
   well-formed text that reads, cut inside an unclosed construct, and the prefix reads as Lex): *)
(* (foo.bar)  cut after  (foo.     -- as_identifier validates the token when its characters end *)
Theorem C19_refuted_dotted_identifier : exists t k ms,
  read_many toy t = Ok ms /\ Nat.ltb k (length t) = true /\ read_many toy (firstn k t) = Lex.
Proof. exact refuted_dotted_identifier. Qed.
(* f DQ a } } DQ  cut between the braces -- a single closing brace at the end of input is a SyntaxError, converted *)
Theorem C19_refuted_fstring_rbrace : exists t k ms,
  read_many toy t = Ok ms /\ Nat.ltb k (length t) = true /\ read_many toy (firstn k t) = Lex.
Proof. exact refuted_fstring_rbrace. Qed.
Print Assumptions C19_refuted_dotted_identifier.
