(* C19 -- Truncated input is reported as premature end of input.
   Statements only; proofs are in Reader/Trunc.v. *)
From HyV Require Import Base.Text Reader.Syntax Gen.ReaderTables Reader.Model Reader.Extend Reader.Concat Reader.Cst
  Reader.Steps Reader.Roundtrip Reader.Sugar.

Definition toy : oracles :=
  {| numeric := fun s => match s with c :: _ => (48 <=? c) && (c <=? 57) | [] => false end;
     decode := fun _ s => Some s; pyspace := fun c => c =? 32; mk := fun _ _ t => t |}.

(* The faithful model violates the property at three classes of cut points (each witness is a
   well-formed text that reads, cut inside an unclosed construct, and the prefix reads as Lex):
   the text  ( f DQ a { x } DQ )  cut after the x  (DQ = double quote) -- read_fcomponent tests that the
   next character is the closing brace, at the end of input *)
Theorem C19_refuted_fstring_field : exists t k ms,
  read_many toy t = Ok ms /\ Nat.ltb k (length t) = true /\ read_many toy (firstn k t) = Lex.
Proof.
  exists [40; 102; 34; 97; 123; 120; 125; 34; 41], 6%nat. eexists. split; [vm_compute; reflexivity|]. split; [vm_compute; reflexivity|].
  vm_compute. reflexivity.
Qed.
(* (foo.bar)  cut after  (foo.     -- as_identifier validates the token when its characters end *)
Theorem C19_refuted_dotted_identifier : exists t k ms,
  read_many toy t = Ok ms /\ Nat.ltb k (length t) = true /\ read_many toy (firstn k t) = Lex.
Proof.
  exists [40; 102; 111; 111; 46; 98; 97; 114; 41], 5%nat. eexists. split; [vm_compute; reflexivity|]. split; [vm_compute; reflexivity|].
  vm_compute. reflexivity.
Qed.
(* f DQ a } } DQ  cut between the braces -- a single closing brace at the end of input is a SyntaxError, converted *)
Theorem C19_refuted_fstring_rbrace : exists t k ms,
  read_many toy t = Ok ms /\ Nat.ltb k (length t) = true /\ read_many toy (firstn k t) = Lex.
Proof.
  exists [102; 34; 97; 125; 125; 34], 4%nat. eexists. split; [vm_compute; reflexivity|]. split; [vm_compute; reflexivity|].
  vm_compute. reflexivity.
Qed.
Print Assumptions C19_refuted_fstring_field.
