(* C28 -- hy.repr output doesn't depend on earlier failed or nested calls.
   Statements only; proofs are in Print/ReprState.v.

   The model: hy_repr_body is the body of hy-repr, regenerated from hy_repr.hy on every run as the sequence of its
   steps on the state (_quoting, _seen), with its try/finally.  Objects are identified by numbers; ismodel says
   which are models other than keywords, ph gives the placeholder registered for an object's type.  A registered
   printer is an arbitrary behaviour tree (beh): it may return a text that depends on the state it sees, raise,
   look at the state, and call hy-repr on any object -- also one that is being printed -- with any behaviour of
   that object's printer, continuing as a function of the text it gets back; an exception propagates, unless the
   printer made the call inside try/except (CallCatch), in which case it goes on knowing that the call failed. *)
From HyV Require Import Print.Syntax Print.Names Print.ReprState Print.ReprScript.

(* The property: for every history of top-level calls, with printers behaving in any of these ways, every call gives
   the result (text, or exception) that it gives when made alone in a fresh interpreter. *)
Definition C28_full : Prop :=
  forall (ismodel : nat -> bool) (ph : nat -> text) (h : list (nat * beh)),
  run_history ismodel ph h idle = fresh_results ismodel ph h.

Theorem C28_history_independence : C28_full.
Proof. exact history_independence. Qed.
Print Assumptions C28_history_independence.

(* No quoting or cycle state leaks: every call -- returning or raising at any depth, with re-entrant calls -- leaves
   _quoting and _seen as it found them.  inv: _quoting is set while a model is being printed; it holds in the idle
   state and (C28_invariant_in_printers) in every state a printer runs in. *)
Theorem C28_state_restored_on_every_exit :
  forall (ismodel : nat -> bool) (ph : nat -> text) o b st, inv ismodel st ->
  snd (hy_repr_call ismodel ph hy_repr_body o b st) = st.
Proof. exact repr_state_restored. Qed.
Print Assumptions C28_state_restored_on_every_exit.

(* What a call made from inside a printer sees and does, exactly.  The enclosing objects are in _seen (a nested call
   shares the cycle set of the enclosing call: that is how self-references are found, not a leak): a call on one of
   them returns its placeholder and changes nothing; a call on another object runs that object's printer in the state
   [enter o st] (o added to _seen; _quoting set if o is a model or was set), gives its text the quote prefix exactly
   when o is a model and no enclosing call had set _quoting, and leaves the state as it was. *)
Theorem C28_nested_call_sees :
  forall (ismodel : nat -> bool) (ph : nat -> text) o b st, inv ismodel st ->
  hy_repr_call ismodel ph hy_repr_body o b st
  = if existsb (Nat.eqb o) (seen st) then (Some (ph o), st)
    else (match fst (printer ismodel ph protected_body b (enter ismodel o st)) with
          | Some t => Some ((if negb (quoting st) && ismodel o then [c_sq] else []) ++ t)
          | None => None
          end, st).
Proof. exact nested_call_sees. Qed.
Print Assumptions C28_nested_call_sees.

(* A printer that catches the exception of a nested call and carries on does so in the state it had before that call:
   every nested call restores the state on its OWN exit (it does not rely on the exception reaching an outer call). *)
Theorem C28_catcher_sees_clean_state :
  forall (ismodel : nat -> bool) (ph : nat -> text) o inner cont st, inv ismodel st ->
  printer ismodel ph protected_body (CallCatch o inner cont) st
  = printer ismodel ph protected_body (cont (fst (hy_repr_call ismodel ph protected_body o inner st))) st.
Proof. exact catcher_sees_clean_state. Qed.

Theorem C28_invariant_in_printers : forall (ismodel : nat -> bool) o st,
  inv ismodel st -> inv ismodel (enter ismodel o st).
Proof. exact inv_enter. Qed.

(* The regenerated body is the protected one (the obligation that a change of the try/finally breaks) ... *)
Theorem C28_body_is_protected : hy_repr_body = protected_body.
Proof. exact hy_repr_body_is_protected. Qed.

(* ... and the protection is needed: with the same steps in a straight line a raising printer leaves its object in
   _seen and _quoting set. *)
Example C28_straight_line_leaks :
  snd (hy_repr_call (fun _ => true) (fun _ => [46; 46; 46]) straight_body 7%nat (Done true (fun _ => [])) idle)
  = {| quoting := true; seen := [7%nat] |}.
Proof. exact straight_line_leaks. Qed.

(* The early return of hy-repr comes after the step that may set _quoting.  It leaks only from a state that breaks the
   invariant, which no sequence of calls produces (C28_invariant_in_printers): not a defect of the code. *)
Example C28_early_return_needs_the_invariant :
  snd (hy_repr_call (fun _ => true) (fun _ => [46; 46; 46]) protected_body 7%nat (Done false (fun _ => []))
                    {| quoting := false; seen := [7%nat] |})
  = {| quoting := true; seen := [7%nat] |}.
Proof. exact early_return_needs_the_invariant. Qed.

(* a history that exercises the hypotheses: object 0 (a model) whose printer looks at the state, calls hy-repr on
   object 1, whose printer calls back on 0 (in progress) and then raises; then object 1 alone *)
Example C28_history_example :
  c28_case 2 [0%nat] []
           [(0%nat, [ALook; ACall 1%nat [ACall 0%nat []; ARaise]]); (1%nat, [AEmit [120]; ALook])]
  = [82; sepc; 84; 120; 60; 113; 48; 32; 115; 48; 49; 62; sepc; 60; 113; 48; 32; 115; 48; 48; 62].
Proof. vm_compute. reflexivity. Qed.
