(* C27 -- hy.repr round-trips values of the documented types.
   Statements only; proofs are in Print/ValueProofs.v, Print/HeapProofs.v, Print/RoundTrip.v. *)
From HyV Require Import Print.Syntax Print.Names Print.Reader Print.ModelRepr Print.ValueRepr Print.TableOracle
     Print.ReaderFacts Print.StringFacts Print.AtomFacts Print.RoundTrip Print.ValueProofs Print.HeapProofs
     Print.Ser Print.GenChecks Print.Witness27 Print.Toy Print.ReprState.

(* The property as stated, for the model: every value of the documented types is printed as a
   text that the reader takes as one form, and that form evaluates to the value. *)
Definition C27_full : Prop :=
  forall (W : oracle) (key_eq : value -> value -> bool), num_facts W -> names_facts W ->
  forall v, exists m, reads W RdOne (vrepr W v) (ROne m []) /\ eval key_eq m = Some v.

(* Proved for every well-formed value (wfv: code points and bytes in range, keyword names without
   delimiters, normalised Fractions, non-zero range steps, keys pairwise unequal, mapping layouts), nested
   to any depth, for every oracle meeting num_facts and names_facts and every key equality --
   except the two classes the refutations below exhibit: a defaultdict whose factory is not None, and a
   slice with a Keyword attribute.  That is what _partial refers to. *)
Theorem C27_value_roundtrip_partial :
  forall (W : oracle) (key_eq : value -> value -> bool), num_facts W -> names_facts W ->
  forall v, wfv key_eq v ->
  exists m, reads W RdOne (vrepr W v) (ROne m []) /\ eval key_eq m = Some v.
Proof. exact value_roundtrip. Qed.
Print Assumptions C27_value_roundtrip_partial.

(* Printing terminates on every finite object graph, cyclic or not: fuel = number of objects + 1. *)
Theorem C27_repr_terminates_on_graphs : forall (W : oracle) (h : heap) (x : hv),
  hrepr W (S (length h)) h [] x <> HOut.
Proof. exact hy_repr_terminates. Qed.
Print Assumptions C27_repr_terminates_on_graphs.

(* A reference to an object that is being printed gives the placeholder registered for its type. *)
Theorem C27_self_reference_placeholder : forall (W : oracle) h fuel seen i c,
  nth_error h i = Some c -> In i seen -> hrepr W fuel h seen (HRef i) = HOk (placeholder (ckind c)).
Proof. exact hrepr_placeholder. Qed.
Print Assumptions C27_self_reference_placeholder.

(* On objects that do not reach themselves the graph printer is the tree printer of the round trip. *)
Theorem C27_graph_printer_is_tree_printer : forall (W : oracle) h v seen x, unfolds h seen x v ->
  forall fuel, (depth v <= fuel)%nat -> hrepr W fuel h seen x = HOk (vrepr W v).
Proof. exact hrepr_tree. Qed.
Print Assumptions C27_graph_printer_is_tree_printer.

(* The printed value is the printed form of the model it denotes (so C25's reader round trip applies). *)
Theorem C27_value_printer_is_model_printer :
  forall (W : oracle) (key_eq : value -> value -> bool), num_facts W -> names_facts W ->
  forall v, wfv key_eq v -> vrepr W v = mrepr W (vmodel v) /\ ok W (vmodel v).
Proof. exact value_printer_is_model_printer. Qed.
Print Assumptions C27_value_printer_is_model_printer.

(* Printing depends only on the value: the state of hy-repr (_quoting, _seen) after ANY call -- returning or
   raising at any depth, with printers that call hy-repr again on any objects -- is the state before it.  The
   body of hy-repr is regenerated from hy_repr.hy on every run (Gen/PrintTables.v: hy_repr_body, the sequence
   of its steps on the state with its try/finally); inv says that _quoting is set while a model is printed. *)
Theorem C27_repr_state_restored_on_every_exit :
  forall (ismodel : nat -> bool) (ph : nat -> text) o b st, inv ismodel st ->
  snd (hy_repr_call ismodel ph hy_repr_body o b st) = st.
Proof. exact repr_state_restored. Qed.
Print Assumptions C27_repr_state_restored_on_every_exit.

Theorem C27_repr_idle_after_any_call : forall (ismodel : nat -> bool) (ph : nat -> text) o b,
  snd (hy_repr_call ismodel ph hy_repr_body o b idle) = idle.
Proof. exact repr_idle_after_any_call. Qed.

(* Refutations of the full statement (witnesses computed in Print/Witness27.v, replayed on the
   implementation by props/c27.py).  W_plain is an oracle under which no token is a number; the two
   printed texts contain no numeric token.
   defaultdict(list) is printed as (defaultdict <class 'list'> {}), which does not evaluate;
   slice(:a, None) is printed as (slice :a None), where the keyword is taken as a keyword argument. *)
Theorem C27_defaultdict_refuted :
  exists m, read_one W_plain (vrepr W_plain (VNode (VkDefaultdict (Some k_list)) [])) = ROne m []
            /\ eval veqb m = None.
Proof. exact defaultdict_refuted. Qed.
Print Assumptions C27_defaultdict_refuted.

Theorem C27_slice_keyword_refuted :
  exists m, read_one W_plain (vrepr W_plain (VNode VkSlice [VKw [97]; VNone; VNone])) = ROne m []
            /\ eval veqb m = None.
Proof. exact slice_keyword_refuted. Qed.
Print Assumptions C27_slice_keyword_refuted.

(* the oracle hypotheses are satisfiable (a concrete oracle: decimal integers, floats written 0f<bits>) *)
Theorem C27_oracle_hypotheses_satisfiable : exists W, num_facts W /\ names_facts W.
Proof. exact facts_satisfiable. Qed.
Print Assumptions C27_oracle_hypotheses_satisfiable.

(* a non-trivial value that meets the hypotheses of the round trip *)
Example C27_hypotheses_met : forall key_eq, key_eq (VInt 1) (VStr [97]) = false ->
  wfv key_eq (VNode VkDict [VInt 1; VNode VkList [VStr [97; 34; 39]; VFloat FNaN];
                            VStr [97]; VNode VkFrozenset [VFraction (-1) 2]]).
Proof. exact example_wfv. Qed.
