(* C24 -- f-strings evaluate like the equivalent Python f-string.
   Statements only; proofs are in Print/FString*.v. *)
From HyV Require Import Print.Syntax Print.Names Print.Reader Print.ModelRepr Print.ReaderFacts Print.StringFacts
     Print.AtomFacts Print.FStringFacts Print.FString Print.FStringRead Print.FStringAst Print.FStringTheorems
     Print.Witness24 Print.GenChecks.

(* An f-string is a list of parts: literal runs (characters, backslash escapes, {{ }}, \N{...}) and fields
   { ws form ws [= ws] [! c ws] [: spec] } whose spec is again a list of parts, to any depth.
   hy_fstring_text renders it as Hy source; py_ast is the JoinedStr tree Python's rules give for it.

   For every such tree that is well formed for the reader (parts_ok: each literal item is one of the item
   shapes, whitespace where Hy needs it, every embedded form is read back from its text, a doubled brace does
   not directly follow the characters backslash N, literal text of a format spec consists of plain characters)
   and whose conversions are s, r or a: the reader turns the source into an FString model, compile_fstring turns
   that into a tree, and this tree formats to the same string as Python's -- for every assignment of values to
   the embedded forms and every formatting function (formatting is Python's own in both languages).
   _partial: escapes and braces inside the literal text of a format spec, and rf / bracket / t-strings, are not
   covered by the theorem. *)
Theorem C24_fstring_evaluates_like_python_partial :
  forall (W : oracle) ps rest, parts_ok W false [] ps -> forallb convs_ok ps = true ->
  exists m js,
    reads W RdForm (hy_fstring_text ps ++ rest) (RForm (Some m) rest)
    /\ compile_fstring m = Some js
    /\ forall (val : Type) (env : model -> val) (fmt : val -> option N -> text -> text),
         jeval val env fmt js = jeval val env fmt (py_ast ps).
Proof. exact fstring_agrees. Qed.
Print Assumptions C24_fstring_evaluates_like_python_partial.

(* The reader on the rendered parts, in the text of the string (sm = false) and in a format spec (sm = true):
   read_fcomponents_until returns the components of the tree. *)
Theorem C24_reader_builds_the_components :
  forall (W : oracle) sm ps acc rest, parts_ok W sm [] ps ->
  reads W (RdFComps (cl_of sm) (st_of sm) false acc) (render_all ps ++ closer_of sm :: rest)
        (RSeq (rev acc ++ comps_from [] ps) rest).
Proof. exact read_rendered. Qed.
Print Assumptions C24_reader_builds_the_components.

(* FString.__new__ joins adjacent String components; the formatted result does not change. *)
Theorem C24_adjacent_strings_joined :
  forall (val : Type) (env : model -> val) (fmt : val -> option N -> text -> text) cs js,
  compile_comps cs = Some js ->
  exists js', compile_comps (join_strs cs) = Some js' /\ jeval val env fmt js' = jeval val env fmt js.
Proof. exact compile_join. Qed.

(* Malformed fields and conversions are Hy syntax errors: a single closing brace, an empty field and text after
   the form other than = ! : } are reader errors; a conversion other than s r a is rejected by the compiler. *)
Theorem C24_single_close_brace_is_lex : forall (W : oracle) rec c rest acc,
  N.eqb c c_rc = false ->
  fcomps_body W rec (CQuote false false) (StQuote false) false acc (c_rc :: c :: rest) = RErr ELex.
Proof. exact single_close_brace_is_lex. Qed.

Theorem C24_empty_field_is_lex : forall (W : oracle) n raw ts sp rest,
  forallb is_ws sp = true -> rd W (S (S (S n))) (RdFComp raw ts) (sp ++ c_rc :: rest) = RErr ELex.
Proof. exact empty_field_is_lex. Qed.

Theorem C24_trailing_junk_is_lex : forall rec raw ts m t x rest,
  rec RdOne (t ++ x :: rest) = ROne m (x :: rest) ->
  (match t with c :: _ => is_ws c = false | [] => False end) ->
  is_ws x = false -> N.eqb x c_eq = false -> N.eqb x c_bang = false -> N.eqb x c_colon = false -> N.eqb x c_rc = false ->
  fcomp_body rec raw ts (t ++ x :: rest) = RErr ELex.
Proof. exact trailing_junk_is_lex. Qed.

Theorem C24_bad_conversion_is_syntax_error : forall x0 c ts rest,
  conv_valid (Some c) = false -> compile_comp (MNode (KFComp (Some c) ts) (x0 :: rest)) = None.
Proof. exact bad_conversion_is_syntax_error. Qed.
Print Assumptions C24_trailing_junk_is_lex.

(* the hypotheses are met by f"a{{{x = !r :>{w}}" under any oracle for which x and w are not numbers *)
Example C24_hypotheses_met : forall W, num W [120] = NotNum -> num W [119] = NotNum ->
  parts_ok W false [] ps_example /\ forallb convs_ok ps_example = true.
Proof. exact example_parts_ok. Qed.
