(* C22 -- Numeric literals read like Python plus the documented extensions.
   Statements only; proofs are in Lit/NumericProofs.v, NumericInt.v, NumericFloat.v, NumericLit.v,
   NumericSep.v, NumericExt.v.  U is the Unicode oracle (digit / space classes of the interpreter);
   the model consults it only on characters >= U+007F, so the theorems hold for every U. *)
From HyV Require Import Base.Text Gen.LitTables Lit.Numeric Lit.NumericSpec Lit.NumericProofs Lit.NumericInt
  Lit.NumericFloat Lit.NumericLit Lit.NumericSep Lit.NumericExt.
From Coq Require Import ZArith.

(* Every Python numeric literal without underscores -- decimal, binary, octal, hexadecimal integer,
   point float, exponent float, imaginary number; any number of digits -- reads as the model of the
   matching numeric type with Python's value (integers exactly; floats as the decimal text strtod rounds). *)
Theorem C22_python_literals_read : forall U rd l, wf l = true ->
  as_identifier U rd (render l) = INum (value l).
Proof. exact python_literals_read_as_identifier. Qed.
Print Assumptions C22_python_literals_read.

(* Separators (underscore, comma) inserted anywhere after the first character -- Python's single
   underscores between digits, and Hy's repeated, trailing, after . e j or inside-a-radix-prefix
   placements alike -- do not change how a text of numeric characters reads, except that a plain digit
   string must read the same in base 0 and base 10 (true for every Python decimal literal, see below). *)
Theorem C22_separators_transparent : forall U c t t',
  forallb num_char (c :: t) = true -> sep_ins t t' ->
  existsb (text_eqb (c :: t)) complex_bare_excluded = false ->
  (isdigit_str U (c :: t) = true -> py_int U true (c :: t) = py_int U false (c :: t)) ->
  numeric U (c :: t') = numeric U (c :: t).
Proof. exact separators_transparent. Qed.
Print Assumptions C22_separators_transparent.

Theorem C22_python_decimal_bases_agree : forall U ds, wf (CDec ds) = true -> py_int U true ds = py_int U false ds.
Proof. exact leading_rule_bases. Qed.
Print Assumptions C22_python_decimal_bases_agree.

(* Decimal integers may have leading zeros: every non-empty string of ASCII digits is that Integer. *)
Theorem C22_leading_zeros_read : forall U ds, ds <> [] -> forallb is_dec ds = true ->
  numeric U ds = Some (NInt (Z.of_N (dec_value ds))).
Proof. exact digits_read_as_integer. Qed.
Print Assumptions C22_leading_zeros_read.

(* NaN, Inf, -Inf (and +NaN, -NaN, +Inf) are floats exactly in that capitalisation: of the 48 signed
   capitalisations of nan and inf the other 42 are not numbers. *)
Theorem C22_nan_inf_case_sensitive : forall U t, In t special_texts ->
  numeric U t = special_expected special_table t.
Proof. exact nan_inf_case_sensitive. Qed.
Print Assumptions C22_nan_inf_case_sensitive.

(* Complex texts such as 5+4j: <mantissa>[exponent] (+|-) <mantissa>[exponent] (j|J). *)
Theorem C22_complex_sum_reads : forall U ip1 fp1 ex1 (minus : bool) ip2 fp2 ex2 (upper : bool),
  wf_mant ip1 fp1 = true -> wf_opt_expo ex1 = true -> wf_mant ip2 fp2 = true -> wf_opt_expo ex2 = true ->
  numeric U (render_mant ip1 fp1 ex1 ++ (if minus then ch_minus else ch_plus) :: render_mant ip2 fp2 ex2 ++ [if upper then ch_J else ch_j])
  = Some (NComplex (mant_value ip1 fp1 ex1)
                   (FFin minus (digits_value 10 (ip2 ++ frac_digits fp2)) (expo_value ex2 - Z.of_nat (length (frac_digits fp2))))).
Proof. exact complex_sum_reads. Qed.
Print Assumptions C22_complex_sum_reads.

(* A text none of the three constructors accepts reads as a symbol or a dotted form (or is rejected as
   a malformed dotted form) -- never as a number; and a number is only ever reported by the cascade. *)
Theorem C22_non_numbers_are_symbols : forall U rd s, numeric U s = None ->
  (forall n, as_identifier U rd s <> INum n) /\
  (mem ch_dot s = false -> rd = true -> as_identifier U rd s = ISym s) /\
  (forallb is_dot s = true -> as_identifier U rd s = ISym s \/ mem ch_dot s = false).
Proof. exact non_numbers_are_symbols. Qed.
Print Assumptions C22_non_numbers_are_symbols.

Theorem C22_number_only_from_cascade : forall U rd s n, as_identifier U rd s = INum n -> numeric U s = Some n.
Proof. exact number_only_from_cascade. Qed.
Print Assumptions C22_number_only_from_cascade.

(* ASCII texts never consult the Unicode oracle. *)
Theorem C22_ascii_oracle_free : forall U V s, forallb is_ascii s = true -> numeric U s = numeric V s.
Proof. exact numeric_ascii_indep. Qed.
Print Assumptions C22_ascii_oracle_free.

(* ---- where the faithful model departs from the documented rules: witnesses, replayed on the real
        reader by props/c22.py (each is a recorded known finding) ---- *)

(* "01" is Integer 1, but "0,1" and "-01" are Float 1.0 / -1.0: the full statement
   "separators and signs never change the type" is refuted for leading-zero decimals *)
Theorem C22_leading_zero_refuted :
  numeric uni0 [48; 49] = Some (NInt 1) /\
  numeric uni0 [48; 44; 49] = Some (NFloat (FFin false 1 0)) /\
  numeric uni0 [45; 48; 49] = Some (NFloat (FFin true 1 0)).
Proof. exact leading_zero_witness. Qed.
Print Assumptions C22_leading_zero_refuted.

(* "+_1" is Integer 1 and ".,5" is Float 0.5: separators before the first digit *)
Theorem C22_separator_before_digit_refuted :
  numeric uni0 [43; 95; 49] = Some (NInt 1) /\ numeric uni0 [46; 44; 53] = Some (NFloat (FFin false 5 (-1))).
Proof. exact sep_before_digit_witness. Qed.
Print Assumptions C22_separator_before_digit_refuted.

(* "j" is not a number but "j_" is Complex 1j *)
Theorem C22_bare_j_refuted :
  numeric uni0 [106] = None /\ numeric uni0 [106; 95] = Some (NComplex fzero (one false)).
Proof. exact bare_j_witness. Qed.
Print Assumptions C22_bare_j_refuted.

(* "InfINITY" is Float inf *)
Theorem C22_infinity_word_refuted : numeric uni0 [73; 110; 102; 73; 78; 73; 84; 89] = Some (NFloat (FInf false)).
Proof. exact infinity_witness. Qed.
Print Assumptions C22_infinity_word_refuted.

(* with U+0663 a decimal digit and U+00A0 a space (the interpreter's facts) both texts are Integer 3 *)
Theorem C22_unicode_digit_refuted :
  numeric uni_arabic [1635] = Some (NInt 3) /\ numeric uni_arabic [160; 51] = Some (NInt 3).
Proof. exact unicode_witness. Qed.
Print Assumptions C22_unicode_digit_refuted.

(* ---- the implications are not vacuous ---- *)

(* 0x1F, 12.50e-3, .5J are well-formed literals *)
Example C22_example_literals :
  wf (CRadix RHex false [49; 70]) = true /\
  wf (CFloat [49; 50] (Some [53; 48]) (Some (false, Some true, [51]))) = true /\
  wf (CImag [] (Some [53]) None true) = true /\
  value (CFloat [49; 50] (Some [53; 48]) (Some (false, Some true, [51]))) = NFloat (FFin false 1250 (-5)).
Proof. repeat split; reflexivity. Qed.

(* 1_0,,0_ is a separator variant of 100 *)
Example C22_example_sep_variant : sep_ins [48; 48] [95; 48; 44; 44; 48; 95].
Proof. repeat constructor. Qed.
