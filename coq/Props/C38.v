(* C38 -- hy.gensym returns distinct reserved symbols under any thread schedule.
   Statements only; proofs are in Gensym/Proofs.v and Gensym/NameProofs.v.
   gensym_prog and the gen_* constants are regenerated from hy/core/util.hy
   (and cross-checked with the bytecode) on every run. *)
From HyV Require Import Base.Text Gen.MangleTables Mangle.Model Mangle.Facts Mangle.Toy
                        Gensym.Model Gensym.Proofs Gensym.NameProofs Gen.GensymSteps Gen.GensymObl.

(* Any number of threads, any number of calls each, every schedule (a list of thread ids, each
   with a flag that makes the step raise when it is inside the try body): the numbers of the
   returned symbols are pairwise distinct.  No bound on threads, calls or schedule length. *)
Theorem C38_distinct_under_every_schedule :
  forall sched : list (tid * bool), NoDup (issued (run gensym_prog sched init)).
Proof. exact (well_locked_distinct gensym_prog gensym_well_locked). Qed.
Print Assumptions C38_distinct_under_every_schedule.

(* The same for every program the checker accepts (so a harmless rewrite keeps the theorem). *)
Theorem C38_every_well_locked_program :
  forall p, well_locked p = true -> forall sched, NoDup (issued (run p sched init)).
Proof. exact well_locked_distinct. Qed.
Print Assumptions C38_every_well_locked_program.

(* The lock is never left behind: whoever holds it is inside a call that will release it
   (this is what the finally clause is for). *)
Theorem C38_lock_not_leaked :
  forall sched t, lock (run gensym_prog sched init) = Some t -> th (run gensym_prog sched init) t <> Idle.
Proof. exact (well_locked_no_leak gensym_prog gensym_well_locked). Qed.
Print Assumptions C38_lock_not_leaked.

(* The name.  Full statement: for every argument text, the symbol starts with _hy_, mangling it
   changes nothing, and different numbers give different symbols. *)
Definition ascii_split (U : uni) : Prop := forall a c t,
  forallb is_ascii a = true -> is_ascii c = true -> nfkc U (a ++ c :: t) = a ++ nfkc U (c :: t).

Definition C38_names_full : Prop :=
  forall U, unicode_facts U -> ascii_split U -> forall g n,
    starts_with [95; 104; 121; 95] (gensym_name (mangle U) g n) = true
    /\ mangle U (gensym_name (mangle U) g n) = gensym_name (mangle U) g n
    /\ forall g' n', n <> n' -> gensym_name (mangle U) g n <> gensym_name (mangle U) g' n'.

(* Proved: the first two clauses, for argument texts without a dot.  Missing: arguments containing
   dots (mangle treats the parts separately) and injectivity in the number (the decimal suffix
   survives mangling) -- both are covered by the oracle on the real function only. *)
Theorem C38_name_props_partial :
  forall U, unicode_facts U -> ascii_split U -> forall g n, mem ch_dot g = false ->
    starts_with [95; 104; 121; 95] (gensym_name (mangle U) g n) = true
    /\ mangle U (gensym_name (mangle U) g n) = gensym_name (mangle U) g n.
Proof. exact gensym_name_props. Qed.
Print Assumptions C38_name_props_partial.

(* the format string and the prefix handling of the source are the ones the name theorem is about *)
Theorem C38_constants_as_in_source :
  (gen_fmt_pre, gen_fmt_mid, gen_fmt_post, gen_strip_prefix, gen_strip_repl)
  = (fmt_pre, fmt_mid, fmt_post, strip_prefix, strip_repl).
Proof. exact gensym_constants. Qed.
Print Assumptions C38_constants_as_in_source.

(* the hypotheses about the Unicode oracle are satisfiable *)
Theorem C38_name_hypotheses_satisfiable : exists U, unicode_facts U /\ ascii_split U.
Proof. exact (ex_intro _ U_toy (conj U_toy_facts toy_ascii_split)). Qed.
Print Assumptions C38_name_hypotheses_satisfiable.
