(* C40 -- the REPL evaluates incremental input like a script and tracks *1 *2 *3 *e.
   Statements only; proofs are in State/Repl*.v.  The code under study is REPL.runsource, runcode,
   showsyntaxerror, showtraceback, _error_wrap, set_last_exc (hy/repl.py) and the running
   interpreter's code.InteractiveInterpreter.runsource, regenerated into Gen/StateReplTerm.v (tie T2)
   and run by the fragment semantics with compile / eval / output_fn / print / sys.excepthook /
   mangle opaque and scripted by the inputs of a session (State/Repl.v).
   [step] / [run_abstract] is the abstract machine (last_value, print flag, *1 *2 *3, *e). *)
From HyV Require Import State.Repl State.ReplAbstract State.ReplSweep State.ReplProofs.

(* PARTIAL LINK.  That the generated code implements [step] is established by computation on tables:
   16 start states x 83 inputs (value None / not None, output_fn failing with 20 exception classes,
   compile errors and run-time errors of 20 classes in either evaluation step), and all 820 sessions
   of at most 3 inputs over a 9-letter alphabet.  Missing: the lift to ALL values and exception
   objects (the code only moves values and tests `is None` / exception classes -- a parametricity
   argument that is not proved here). *)
Theorem C40_generated_code_implements_step_partial : sweep_single = true /\ sweep_sessions 3 = true.
Proof. exact generated_code_implements_step_on_tables. Qed.
Print Assumptions C40_generated_code_implements_step_partial.

(* "asks for more input exactly while the accumulated text is incomplete": runsource returns True
   iff the compiler asked for more; then nothing changes.  For every input, state and output script. *)
Theorem C40_more_input_iff_incomplete : forall out inp r,
  (snd (step out inp r) = Some true <-> inp = IIncomplete) /\ fst (step out IIncomplete r) = r.
Proof. intros. split; [apply more_iff_incomplete | apply incomplete_changes_nothing]. Qed.
Print Assumptions C40_more_input_iff_incomplete.

(* After ANY history of inputs -- any length, any values, failing and incomplete inputs interleaved
   in any way, any output function: *1 *2 *3 are the results of the latest three inputs that were
   evaluated to a value (None included), and *e is the exception of the latest input that failed
   visibly (or none yet). *)
Theorem C40_history_vars : forall out inputs,
  slots_are (run_abstract out inputs initial) (results inputs) /\
  r_e (run_abstract out inputs initial) = latest_failure out inputs None.
Proof. intros. split; [apply history_vars | apply star_e_is_latest_failure]. Qed.
Print Assumptions C40_history_vars.

(* A failed or incomplete input leaves *1 *2 *3 exactly as they were; hence, when the evaluated
   inputs produced pairwise different non-None results, no result ever occupies two of them --
   "a failed input never makes two of them repeat one input's result", for ALL histories. *)
Theorem C40_no_repeat : forall out,
  (forall inp r, evaluated inp = None ->
     let r' := fst (step out inp r) in r_1 r' = r_1 r /\ r_2 r' = r_2 r /\ r_3 r' = r_3 r) /\
  (forall inputs, NoDup (results inputs) -> ~ In VNone (results inputs) ->
     no_repeat (run_abstract out inputs initial)).
Proof.
  intros out. split; [intros; apply failed_input_leaves_slots; assumption|].
  intros. apply no_repeat_any_history; assumption.
Qed.
Print Assumptions C40_no_repeat.

(* regression sessions on the GENERATED code ([regression_run], [regression_run2] in
   State/ReplProofs.v): inputs `1`, `(/ 1 0)` -- which made *1 = *2 = 1 before hy commit 7e4d2e4 -- now
   end with *1 = 1, *2 = *3 = None, *e = the ZeroDivisionError; an 8-input session mixing values, None,
   lexer / macro-expansion / run-time errors and an incomplete line ends with *1 *2 *3 = 3, None, 2. *)
Theorem C40_regressions : regression_run /\ regression_run2.
Proof. exact (conj regression_on_generated_code regression2_on_generated_code). Qed.
Print Assumptions C40_regressions.

(* [mixed_history_meets]: an 8-input history, half of it failing, meets the hypotheses of C40_no_repeat
   and ends with *1 *2 *3 = 4, 3, 2 *)
Theorem C40_example : mixed_history_meets.
Proof. exact mixed_history_ok. Qed.
Print Assumptions C40_example.
