(* C40 -- the REPL evaluates incremental input like a script and tracks *1 *2 *3 *e.
   Statements only; proofs are in State/Repl*.v.  The code under study is REPL.runsource, runcode,
   showsyntaxerror, showtraceback, _error_wrap, set_last_exc (hy/repl.py) and the running
   interpreter's code.InteractiveInterpreter.runsource, regenerated into Gen/StateReplTerm.v (tie T2)
   and run by the fragment semantics with compile / eval / output_fn / print / sys.excepthook /
   mangle opaque and scripted by the inputs of a session (State/Repl.v).
   [step] / [run_abstract] is the abstract machine (last_value, print flag, *1 *2 *3, *e). *)
From HyV Require Import State.Repl State.ReplAbstract State.ReplSweep State.ReplProofs.

(* PARTIAL LINK.  That the generated code implements [step] is established by computation on tables:
   16 start states x 83 inputs (value None / not None, output_fn failing with 20 exception classes,
   compile errors and run-time errors of 20 classes in either evaluation step), and all 820 sessions
   of at most 3 inputs over a 9-letter alphabet.  Missing: the lift to ALL values and exception
   objects (the code only moves values and tests `is None` / exception classes -- a parametricity
   argument that is not proved here). *)
Theorem C40_generated_code_implements_step_partial : sweep_single = true /\ sweep_sessions 3 = true.
Proof. exact generated_code_implements_step_on_tables. Qed.
Print Assumptions C40_generated_code_implements_step_partial.

(* "asks for more input exactly while the accumulated text is incomplete": runsource returns True
   iff the compiler asked for more; then nothing changes.  For every input, state and output script. *)
Theorem C40_more_input_iff_incomplete : forall out inp r,
  (snd (step out inp r) = Some true <-> inp = IIncomplete) /\ fst (step out IIncomplete r) = r.
Proof. intros. split; [apply more_iff_incomplete | apply incomplete_changes_nothing]. Qed.
Print Assumptions C40_more_input_iff_incomplete.

(* After ANY history of inputs, of any length, with any values: *e is the exception of the latest
   input that failed visibly (or none yet). *)
Theorem C40_star_e_latest : forall out inputs,
  r_e (run_abstract out inputs initial) = latest_failure out inputs None.
Proof. intros. apply star_e_is_latest_failure. Qed.
Print Assumptions C40_star_e_latest.

(* After any history WITHOUT failed inputs: *1 *2 *3 are the results of the latest three evaluated
   inputs (None included), and with pairwise different non-None results no result is repeated. *)
Theorem C40_history_vars_partial : forall out inputs, forallb unfailing inputs = true ->
  slots_are (run_abstract out inputs initial) (results inputs) /\
  (NoDup (results inputs) -> ~ In VNone (results inputs) -> no_repeat (run_abstract out inputs initial)).
Proof.
  intros out inputs H. split; [apply history_vars_without_failures; exact H|].
  intros. apply no_repeat_without_failures; assumption.
Qed.
Print Assumptions C40_history_vars_partial.

(* What the code does on ANY history: the slots hold the latest three SHIFTED values, and an input
   shown as a syntax error or a run-time error shifts the stale last_value in again. *)
Theorem C40_history_vars_actual : forall out inputs,
  slots_are (run_abstract out inputs initial) (shift_log out inputs initial []).
Proof. exact history_vars_actual. Qed.
Print Assumptions C40_history_vars_actual.

(* [witness_run] (State/ReplProofs.v): the generated code run on inputs `1`, `(/ 1 0)` ends with
   *1 = *2 = VInt 1 and *e = the ZeroDivisionError.
   Hence the full statement "a failed input never makes two of *1 *2 *3 repeat one input's result"
   is REFUTED: inputs `1`, `(/ 1 0)`, run on the generated code, leave *1 = *2 = 1. *)
Definition C40_full : Prop := no_repeat_full.
Theorem C40_no_repeat_refuted : ~ C40_full /\ witness_run.
Proof. exact (conj no_repeat_refuted witness_on_generated_code). Qed.
Print Assumptions C40_no_repeat_refuted.

(* [good_history_meets]: a 7-input history (values, None, incomplete lines) meets the hypotheses of the
   positive theorems and ends with *1 *2 *3 = 4, 3, None *)
Theorem C40_example : good_history_meets.
Proof. exact good_history_ok. Qed.
Print Assumptions C40_example.
