(* C40 -- the REPL evaluates incremental input like a script and tracks *1 *2 *3 *e.
   Statements only; proofs are in State/Repl*.v.  The code under study is REPL.runsource, runcode,
   showsyntaxerror, showtraceback, _error_wrap, set_last_exc (hy/repl.py) and the running
   interpreter's code.InteractiveInterpreter.runsource, regenerated into Gen/StateReplTerm.v (tie T2)
   and run by the fragment semantics with compile / eval / output_fn / print / sys.excepthook /
   mangle opaque and scripted by the inputs of a session (State/Repl.v: [one_pure]).
   [step] / [run_abstract] is the abstract machine (last_value, print flag, *1 *2 *3, *e). *)
From HyV Require Import State.Repl State.ReplAbstract State.ReplLift State.ReplSweep State.ReplProofs.

(* THE LINK.  One input: for every REPL state (all values of last_value, *1 *2 *3, *e, _hy_exc_info,
   all other variables `rest`, all other heap objects `h0`, every log), every input (any result value,
   any exception object, failing in either evaluation step), every output script and every class
   matcher m in which SystemExit and non-Exception BaseExceptions are not Hy language errors:
   running the GENERATED runsource ends -- no timeout, nothing outside the fragment -- returns what
   [step] says (True / False / the escaping exception) and leaves exactly the state [step] computes,
   touching nothing else.  Sessions: the same for any number of inputs.  The generated class table is
   such a matcher. *)
Theorem C40_generated_code_implements_machine :
  (forall m out inp, sane m -> refines m out inp) /\
  (forall m out, sane m -> forall inputs lv pf gv a b c e info rest h0 log,
     exists gv' info' log',
       let r' := run_abstract m out inputs (rs lv pf a b c e) in
       run_inputs m out inputs (mkheap lv pf gv a b c e info rest h0, log) =
       Some (mkheap (r_last r') (r_print r') gv' (r_1 r') (r_2 r') (r_3 r') (r_e r') info' rest h0, log')) /\
  sane table.
Proof.
  split; [exact generated_code_implements_step|].
  split; [intros m out S; exact (session_implements_machine m out S) | exact table_sane].
Qed.
Print Assumptions C40_generated_code_implements_machine.

(* Hence, for a new REPL and ANY session: the generated code's run is observable and shows the
   abstract machine's state. *)
Theorem C40_session_observed : forall out inputs,
  exists h log, run_session inputs out = Some (h, log) /\ observe h = Some (run_abstract table out inputs initial).
Proof. exact session_observed. Qed.
Print Assumptions C40_session_observed.

(* "asks for more input exactly while the accumulated text is incomplete": runsource returns True
   iff the compiler asked for more; then nothing changes.  For every input, state, matcher and script. *)
Theorem C40_more_input_iff_incomplete : forall m out inp r,
  (snd (step m out inp r) = inl true <-> inp = IIncomplete) /\ fst (step m out IIncomplete r) = r.
Proof. intros. split; [apply more_iff_incomplete | apply incomplete_changes_nothing]. Qed.
Print Assumptions C40_more_input_iff_incomplete.

(* After ANY history of inputs -- any length, any values, failing and incomplete inputs interleaved
   in any way, any output function: *1 *2 *3 are the results of the latest three inputs that were
   evaluated to a value (None included), and *e is the exception of the latest input that failed
   visibly (None: none yet). *)
Theorem C40_history_vars : forall m out inputs,
  slots_are (run_abstract m out inputs initial) (results inputs) /\
  r_e (run_abstract m out inputs initial) = latest_failure m out inputs VNone.
Proof. intros. split; [apply history_vars | apply star_e_is_latest_failure]. Qed.
Print Assumptions C40_history_vars.

(* A failed or incomplete input leaves *1 *2 *3 exactly as they were; hence, when the evaluated
   inputs produced pairwise different non-None results, no result ever occupies two of them --
   "a failed input never makes two of them repeat one input's result", for ALL histories. *)
Theorem C40_no_repeat : forall m out,
  (forall inp r, evaluated inp = None ->
     let r' := fst (step m out inp r) in r_1 r' = r_1 r /\ r_2 r' = r_2 r /\ r_3 r' = r_3 r) /\
  (forall inputs, NoDup (results inputs) -> ~ In VNone (results inputs) ->
     no_repeat (run_abstract m out inputs initial)).
Proof.
  intros m out. split; [intros; apply failed_input_leaves_slots; assumption|].
  intros. apply no_repeat_any_history; assumption.
Qed.
Print Assumptions C40_no_repeat.

(* Not covered by a theorem (judged by the oracle on the real REPL only): what is printed, and
   push()'s line buffering. *)

(* regression sessions on the GENERATED code ([regression_run], [regression_run2] in
   State/ReplProofs.v): inputs `1`, `(/ 1 0)` -- which made *1 = *2 = 1 before hy commit 7e4d2e4 -- now
   end with *1 = 1, *2 = *3 = None, *e = the ZeroDivisionError; an 8-input session mixing values, None,
   lexer / macro-expansion / run-time errors and an incomplete line ends with *1 *2 *3 = 3, None, 2.
   [sweep_pairs]: all pairs of 84 tabulated inputs, by plain computation (the table that names a
   failing configuration if the link ever breaks). *)
Theorem C40_regressions : regression_run /\ regression_run2 /\ sweep_pairs = true.
Proof. exact (conj regression_on_generated_code (conj regression2_on_generated_code cross_check)). Qed.
Print Assumptions C40_regressions.

(* [mixed_history_meets]: an 8-input history, half of it failing, meets the hypotheses of C40_no_repeat
   and ends with *1 *2 *3 = 4, 3, 2 *)
Theorem C40_example : mixed_history_meets.
Proof. exact mixed_history_ok. Qed.
Print Assumptions C40_example.
