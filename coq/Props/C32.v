(* C32 -- hy.mangle always yields a canonical Python identifier.
   Statements only; proofs are in Mangle/MangleProofs.v. *)
From HyV Require Import Base.Text Gen.MangleTables Mangle.Model Mangle.Facts Mangle.MangleProofs Mangle.Toy Mangle.Shape.

(* For every Unicode oracle with the listed facts and every non-empty name that
   does not take the dotted branch (no dot, or nothing but dots): the result is
   an identifier, is NFKC-normal, has as many leading underscores as the name
   has leading underscore-class characters, and mangling is idempotent. *)
Theorem C32_canonical : forall U, unicode_facts U -> forall s, s <> [] -> dotted s = false ->
  isid U (mangle U s) = true
  /\ nfkc U (mangle U s) = mangle U s
  /\ leading is_us (mangle U s) = leading is_us_class s
  /\ mangle U (mangle U s) = mangle U s.
Proof. exact mangle_canonical. Qed.
Print Assumptions C32_canonical.

(* Names that are already NFKC-normal identifiers are returned unchanged. *)
Theorem C32_fixes_normal_identifiers : forall U, unicode_facts U -> forall s,
  isid U s = true -> nfkc U s = s -> mangle U s = s.
Proof. exact mangle_fixes_normal_identifiers. Qed.
Print Assumptions C32_fixes_normal_identifiers.

(* Dotted names: each dot-delimited part is mangled separately (empty parts stay empty),
   and every part is itself dot-free, so C32_canonical applies to it. *)
Theorem C32_dotted : forall U s, dotted s = true ->
  mangle U s = join_dots (map (fun x => match x with [] => [] | _ => mangle U x end) (split_dots s))
  /\ Forall (fun x => mem ch_dot x = false) (split_dots s).
Proof. exact mangle_dotted_by_parts. Qed.
Print Assumptions C32_dotted.

(* the hypotheses are satisfiable *)
Theorem C32_facts_satisfiable : exists U, unicode_facts U.
Proof. exact (ex_intro _ U_toy U_toy_facts). Qed.
Print Assumptions C32_facts_satisfiable.
