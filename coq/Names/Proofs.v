(* C34: soundness of the site checkers, the per-site obligations over the
   regenerated table Gen/NameSites.v, and the same-binding corollaries. *)
From HyV Require Import Base.Text Names.Syntax Names.Model Gen.NameSites.

Section Sound.
Variable mangle : text -> text.
Variables nm pfx : text.
Notation ev := (neval mangle nm pfx).

Lemma is_name_partial : forall e, is_name e = true -> forall v, ev e = Some v -> v = nm.
Proof.
  fix IH 1. intros e H v Hv. destruct e; cbn [is_name] in H; try discriminate.
  - cbn in Hv. congruence.
  - cbn [neval] in Hv. destruct (ev e) as [w|] eqn:E; [|discriminate].
    destruct (is_const w); [discriminate|]. inversion Hv; subst. exact (IH e H _ E).
  - destruct e; try discriminate. cbn [neval] in Hv.
    destruct (ev e) as [w|] eqn:E; cbn in Hv; [|discriminate].
    inversion Hv; subst. cbn. exact (IH e H _ E).
Qed.

Lemma is_name_total e : is_name e = true -> is_const nm = false -> ev e = Some nm.
Proof.
  intros H Hc.
  assert (G : forall e, is_name e = true -> exists v, ev e = Some v).
  { clear e H. fix IH 1. intros e H. destruct e; cbn [is_name] in H; try discriminate.
    - exists nm. reflexivity.
    - destruct (IH e H) as [v Ev]. pose proof (is_name_partial e H v Ev) as ->.
      exists nm. cbn [neval]. rewrite Ev, Hc. reflexivity.
    - destruct e; try discriminate. destruct (IH e H) as [v Ev].
      exists v. cbn [neval]. rewrite Ev. reflexivity. }
  destruct (G e H) as [v Ev]. rewrite Ev. f_equal. exact (is_name_partial e H v Ev).
Qed.

Lemma is_mangled_partial e : is_mangled_name e = true -> forall v, ev e = Some v -> v = mangle nm.
Proof.
  induction e; cbn [is_mangled_name]; intros H v Hv; try discriminate.
  - cbn [neval] in Hv. destruct (ev e) as [w|] eqn:E; cbn in Hv; [|discriminate].
    inversion Hv; subst. f_equal. exact (is_name_partial e H w E).
  - cbn [neval] in Hv. destruct (ev e) as [w|] eqn:E; [|discriminate].
    destruct (is_const w); [discriminate|]. inversion Hv; subst. exact (IHe H _ eq_refl).
Qed.

Lemma is_mangled_total e : is_mangled_name e = true ->
  is_const nm = false -> is_const (mangle nm) = false -> ev e = Some (mangle nm).
Proof.
  intros H Hc Hm. induction e; cbn [is_mangled_name] in H; try discriminate.
  - cbn [neval]. rewrite (is_name_total e H Hc). reflexivity.
  - cbn [neval]. rewrite (IHe H), Hm. reflexivity.
Qed.

Lemma is_mangled_prefixed_sound e : is_mangled_prefixed e = true -> is_const nm = false ->
  ev e = Some (mangle (pfx ++ nm)).
Proof.
  destruct e; try discriminate. destruct e; try discriminate. destruct e1; try discriminate.
  cbn [is_mangled_prefixed]. intros H Hc. cbn [neval]. rewrite (is_name_total e2 H Hc). reflexivity.
Qed.

End Sound.

(* ---------------------------------------------------------------- obligations over the generated table *)

Lemma plain_sites_checked :
  forallb (fun s => if plain_site s then is_mangled_name (site_expr s) else true) all_sites = true.
Proof. vm_compute. reflexivity. Qed.

Lemma plain_site_is_mangled s : plain_site s = true -> is_mangled_name (site_expr s) = true.
Proof.
  intros H. pose proof plain_sites_checked as A. rewrite forallb_forall in A.
  specialize (A s (all_sites_complete s)). rewrite H in A. exact A.
Qed.

Theorem plain_site_emits_mangle : forall (mangle : text -> text) nm pfx s, plain_site s = true ->
  (forall v, neval mangle nm pfx (site_expr s) = Some v -> v = mangle nm)
  /\ (is_const nm = false -> is_const (mangle nm) = false ->
      neval mangle nm pfx (site_expr s) = Some (mangle nm)).
Proof.
  intros mangle nm pfx s H. pose proof (plain_site_is_mangled s H) as M. split.
  - intros v Hv. exact (is_mangled_partial mangle nm pfx _ M v Hv).
  - intros Hc Hm. exact (is_mangled_total mangle nm pfx _ M Hc Hm).
Qed.

Lemma require_alias_checked : is_mangled_prefixed (site_expr S_require_alias) = true.
Proof. vm_compute. reflexivity. Qed.

Theorem require_alias_emits : forall (mangle : text -> text) nm pfx, is_const nm = false ->
  neval mangle nm pfx (site_expr S_require_alias) = Some (mangle (pfx ++ nm)).
Proof. intros. apply is_mangled_prefixed_sound; [exact require_alias_checked | assumption]. Qed.

(* ---------------------------------------------------------------- local_macro_name *)

Lemma local_macro_checked : site_expr S_local_macro = local_macro_expected.
Proof. vm_compute. reflexivity. Qed.

Lemma two_replaces_are_lm_encode t :
  replace_ch_str 46 [68; 68] (replace_ch_str 68 [68; 78] t) = lm_encode t.
Proof.
  unfold replace_ch_str, lm_encode. induction t as [|x t IH]; [reflexivity|].
  cbn [flat_map]. rewrite flat_map_app, IH. f_equal.
  unfold lm_enc. destruct (N.eqb x 68) eqn:E.
  - reflexivity.
  - cbn [flat_map]. destruct (N.eqb x 46); reflexivity.
Qed.

Theorem local_macro_emits : forall (mangle : text -> text) nm pfx,
  neval mangle nm pfx (site_expr S_local_macro) = Some (lm_prefix ++ lm_encode (mangle nm)).
Proof.
  intros mangle nm pfx. rewrite local_macro_checked. unfold local_macro_expected.
  cbn [neval option_map]. rewrite two_replaces_are_lm_encode. reflexivity.
Qed.

(* the escape code is injective: two local macro variables coincide only for equal manglings *)
Lemma lm_encode_inj : forall a b, lm_encode a = lm_encode b -> a = b.
Proof.
  unfold lm_encode. induction a as [|x a IH]; intros [|y b] H.
  - reflexivity.
  - exfalso. cbn [flat_map] in H. unfold lm_enc in H.
    destruct (N.eqb y 68); [discriminate|]. destruct (N.eqb y 46); discriminate.
  - exfalso. cbn [flat_map] in H. unfold lm_enc in H.
    destruct (N.eqb x 68); [discriminate|]. destruct (N.eqb x 46); discriminate.
  - cbn [flat_map] in H. unfold lm_enc in H.
    destruct (N.eqb x 68) eqn:X1; destruct (N.eqb y 68) eqn:Y1.
    + apply N.eqb_eq in X1, Y1. subst. cbn in H. inversion H. f_equal. apply IH. assumption.
    + destruct (N.eqb y 46) eqn:Y2.
      * cbn in H. inversion H.
      * cbn in H. inversion H. subst y. rewrite N.eqb_refl in Y1. discriminate.
    + destruct (N.eqb x 46) eqn:X2.
      * cbn in H. inversion H.
      * cbn in H. inversion H. subst x. rewrite N.eqb_refl in X1. discriminate.
    + destruct (N.eqb x 46) eqn:X2; destruct (N.eqb y 46) eqn:Y2.
      * apply N.eqb_eq in X2, Y2. subst. cbn in H. inversion H. f_equal. apply IH. assumption.
      * cbn in H. inversion H. subst y. rewrite N.eqb_refl in Y1. discriminate.
      * cbn in H. inversion H. subst x. rewrite N.eqb_refl in X1. discriminate.
      * cbn in H. inversion H. subst. f_equal. apply IH. assumption.
Qed.

Theorem local_macro_same_iff : forall (mangle : text -> text) a b pfx,
  neval mangle a pfx (site_expr S_local_macro) = neval mangle b pfx (site_expr S_local_macro)
  <-> mangle a = mangle b.
Proof.
  intros. rewrite !local_macro_emits. split.
  - intros H.
    assert (H1 : lm_prefix ++ lm_encode (mangle a) = lm_prefix ++ lm_encode (mangle b)) by congruence.
    apply app_inv_head in H1. exact (lm_encode_inj _ _ H1).
  - intros ->. reflexivity.
Qed.

(* ---------------------------------------------------------------- same binding iff equal manglings *)

Theorem same_binding_iff : forall (mangle : text -> text) s1 s2 a b pfx va vb,
  plain_site s1 = true -> plain_site s2 = true ->
  neval mangle a pfx (site_expr s1) = Some va -> neval mangle b pfx (site_expr s2) = Some vb ->
  (va = vb <-> mangle a = mangle b).
Proof.
  intros mangle s1 s2 a b pfx va vb P1 P2 E1 E2.
  destruct (plain_site_emits_mangle mangle a pfx s1 P1) as [A _].
  destruct (plain_site_emits_mangle mangle b pfx s2 P2) as [B _].
  rewrite (A _ E1), (B _ E2). tauto.
Qed.

(* ---------------------------------------------------------------- the class-pattern keyword site *)

(* a mangle that only turns hyphens into underscores: enough to tell a mangled site from an unmangled one *)
Definition toy_mangle (t : text) : text := replace_ch ch_hyphen ch_us t.
Definition a_hyphen_b : text := [97; 45; 98].

(* Either the site mangles (the code has been repaired), or there is a name for
   which the emitted attribute differs from its mangling: whichever holds for the
   regenerated table is established by computation. *)
Theorem class_kwd_status :
  is_mangled_name (site_expr S_match_class_kwd) = true
  \/ (exists (mangle : text -> text) nm,
        neval mangle nm [] (site_expr S_match_class_kwd) = Some nm /\ nm <> mangle nm).
Proof.
  first [ left; vm_compute; reflexivity
        | right; exists toy_mangle, a_hyphen_b; split; [vm_compute; reflexivity | vm_compute; discriminate] ].
Qed.
