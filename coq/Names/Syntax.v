(* C34: syntax of the name-handling model.

   [site] enumerates the places of hy/compiler.py, hy/core/result_macros.py,
   hy/macros.py, hy/models.py and hy/scoping.py at which a Hy name becomes a
   Python identifier (or a key under which a binding is stored / looked up).
   [nexp] is the little expression language in which translator/names_sites.py
   re-states the Python expression found at each site (Gen/NameSites.v). *)
From HyV Require Import Base.Text.

Inductive site :=
| S_symbol          (* compile_symbol: Name(id=...) for a variable reference *)
| S_attr            (* (. obj a) and dotted identifiers obj.a: Attribute(attr=...) *)
| S_method          (* (. obj (m args)) , (.m obj args) , (obj.m args) *)
| S_param           (* compile_arguments_set: arg(arg=...) for every kind of parameter *)
| S_kwarg           (* _compile_collect: keyword(arg=...) of a call / class keyword *)
| S_defn            (* defn: FunctionDef.name *)
| S_defclass        (* defclass: ClassDef.name *)
| S_import_name     (* (import m [k]) : alias.name *)
| S_import_asname   (* (import m [k :as v]) : alias.asname *)
| S_import_as       (* (import m :as v) : alias.asname *)
| S_import_module   (* (import m) : module name part *)
| S_macro_install   (* install_macro / hy.macros.macro: key in _hy_macros *)
| S_macro_lookup    (* macroexpand: key looked up for a symbol head *)
| S_kw_call         (* Keyword.__call__: key of data[...] *)
| S_global          (* global / nonlocal names *)
| S_match_as        (* match: pattern :as name *)
| S_match_capture   (* match: capture pattern *)
| S_match_star      (* match: #* name in a sequence pattern *)
| S_match_rest      (* match: #** name in a mapping pattern *)
| S_match_class_kwd (* match: (C :attr pattern) keyword attribute *)
| S_except_name     (* (except [name E] ...) *)
| S_setv_rename     (* Result.rename: (setv name <statement-valued form>) *)
| S_let_bind        (* ScopeLet.add: key of the let binding *)
| S_local_macro     (* local_macro_name: variable holding a local macro *)
| S_require_name    (* require: source macro key *)
| S_require_alias   (* require: target macro key (prefix + alias) *)
| S_defmacro_local  (* compile_macro_def: key in the local macro table *)
| S_deftype         (* deftype: TypeAlias name *)
| S_typevar         (* :tp [T] *)
| S_typevartuple    (* :tp [#* T] *)
| S_paramspec.      (* :tp [#** T] *)

Definition all_sites : list site :=
  [S_symbol; S_attr; S_method; S_param; S_kwarg; S_defn; S_defclass; S_import_name; S_import_asname;
   S_import_as; S_import_module; S_macro_install; S_macro_lookup; S_kw_call; S_global; S_match_as;
   S_match_capture; S_match_star; S_match_rest; S_match_class_kwd; S_except_name; S_setv_rename;
   S_let_bind; S_local_macro; S_require_name; S_require_alias; S_defmacro_local; S_deftype; S_typevar;
   S_typevartuple; S_paramspec].

Lemma all_sites_complete : forall s, In s all_sites.
Proof. intros s; destruct s; cbn; tauto. Qed.

Inductive nexp :=
| NName                                    (* the text of the Hy name (a keyword's text after the colon) *)
| NPrefix                                  (* a second input: the prefix of a prefixed require *)
| NLit (t : text)
| NMangle (e : nexp)                       (* hy.mangle *)
| NNonconst (e : nexp)                     (* HyASTCompiler._nonconst: its argument, or a syntax error *)
| NKwStr (e : nexp)                        (* str(keyword) = ":" + name *)
| NTail (e : nexp)                         (* x[1:] *)
| NCat (a b : nexp)                        (* a + b *)
| NReplaceCh (c : N) (r : text) (e : nexp). (* x.replace(c, r), c one character *)
