(* C34: evaluation of the name expressions, for an arbitrary [mangle], and the
   syntactic checkers whose soundness is proved in Names/Proofs.v. *)
From HyV Require Import Base.Text Names.Syntax.

Definition ch_colon : N := 58.
Definition t_None : text := [78; 111; 110; 101].
Definition t_True : text := [84; 114; 117; 101].
Definition t_False : text := [70; 97; 108; 115; 101].

(* str(name) in ("None", "True", "False") *)
Definition is_const (t : text) : bool := text_eqb t t_None || text_eqb t t_True || text_eqb t t_False.

Definition replace_ch_str (c : N) (r : text) (t : text) : text :=
  flat_map (fun x => if N.eqb x c then r else [x]) t.

Section Eval.
Variable mangle : text -> text.
Variables nm pfx : text.

(* None = the site raises the user-facing "Can't assign to constant" *)
Fixpoint neval (e : nexp) : option text :=
  match e with
  | NName => Some nm
  | NPrefix => Some pfx
  | NLit t => Some t
  | NMangle e => option_map mangle (neval e)
  | NNonconst e => match neval e with Some v => if is_const v then None else Some v | None => None end
  | NKwStr e => option_map (fun v => ch_colon :: v) (neval e)
  | NTail e => option_map (@tl N) (neval e)
  | NCat a b => match neval a, neval b with Some x, Some y => Some (x ++ y) | _, _ => None end
  | NReplaceCh c r e => option_map (replace_ch_str c r) (neval e)
  end.
End Eval.

(* e denotes the name itself wherever it is defined *)
Fixpoint is_name (e : nexp) : bool :=
  match e with
  | NName => true
  | NNonconst e => is_name e
  | NTail (NKwStr e) => is_name e
  | _ => false
  end.

(* e denotes (mangle name) wherever it is defined *)
Fixpoint is_mangled_name (e : nexp) : bool :=
  match e with
  | NMangle e => is_name e
  | NNonconst e => is_mangled_name e
  | _ => false
  end.

(* e denotes mangle (prefix ++ name) *)
Definition is_mangled_prefixed (e : nexp) : bool :=
  match e with
  | NMangle (NCat NPrefix e) => is_name e
  | _ => false
  end.

(* the escape code that local_macro_name is meant to implement: D -> DN, . -> DD *)
Definition lm_enc (x : N) : text :=
  if N.eqb x 68 then [68; 78] else if N.eqb x 46 then [68; 68] else [x].
Definition lm_encode (t : text) : text := flat_map lm_enc t.
Definition lm_prefix : text := [95;104;121;95;108;111;99;97;108;95;109;97;99;114;111;95;95].

(* what local_macro_name is expected to be, as a name expression *)
Definition local_macro_expected : nexp :=
  NCat (NLit lm_prefix) (NReplaceCh 46 [68; 68] (NReplaceCh 68 [68; 78] (NMangle NName))).

(* constructs whose identifier is exactly (mangle name): every site except the
   two with their own specification (the class-pattern keyword site is among the
   plain ones since the fix 7ce654c mangles it) *)
Definition plain_site (s : site) : bool :=
  match s with
  | S_local_macro | S_require_alias => false
  | _ => true
  end.
