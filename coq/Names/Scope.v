(* C34: the renaming layer of hy/scoping.py (ScopeLet), which `let` and
   `except [name ...]` use: bindings are keyed by the mangled target
   (ScopeLet.add: name = mangle(target); self.bindings[name] = new_name) and a
   reference is renamed when its already mangled identifier is a key
   (_rename_if_bound), innermost scope first, else it goes to the parent scope.
   Nested scopes and dict overwriting both amount to "newest entry wins". *)
From HyV Require Import Base.Text.

Section Let.
Variable mangle : text -> text.

Definition bindings := list (text * text).

Fixpoint lookup (k : text) (bs : bindings) : option text :=
  match bs with
  | [] => None
  | (k', v) :: r => if text_eqb k k' then Some v else lookup k r
  end.

(* ScopeLet.add(target, new_name) *)
Definition let_add (bs : bindings) (target new_name : text) : bindings := (mangle target, new_name) :: bs.

(* compile_symbol followed by scope.access: Name(id = mangle sym), renamed if bound *)
Definition access (bs : bindings) (sym : text) : text :=
  match lookup (mangle sym) bs with Some t => t | None => mangle sym end.

Lemma text_eqb_refl t : text_eqb t t = true.
Proof. apply text_eqb_eq. reflexivity. Qed.

Theorem access_let_add : forall bs a t b,
  access (let_add bs a t) b = if text_eqb (mangle b) (mangle a) then t else access bs b.
Proof. intros. unfold access, let_add. cbn [lookup]. destruct (text_eqb (mangle b) (mangle a)); reflexivity. Qed.

(* a reference reaches the new let variable exactly when the manglings agree,
   provided the variable's generated name is not already what the reference meant *)
Theorem let_reaches_iff : forall bs a t b, access bs b <> t ->
  (access (let_add bs a t) b = t <-> mangle a = mangle b).
Proof.
  intros bs a t b Hfresh. rewrite access_let_add.
  destruct (text_eqb (mangle b) (mangle a)) eqn:E.
  - apply text_eqb_eq in E. split; [intros _; symmetry; exact E | reflexivity].
  - split.
    + intros H. contradiction.
    + intros H. rewrite H, text_eqb_refl in E. discriminate.
Qed.

(* two references resolve alike whenever their manglings agree, whatever is bound *)
Theorem access_respects_mangle : forall bs a b, mangle a = mangle b -> access bs a = access bs b.
Proof. intros bs a b H. unfold access. rewrite H. reflexivity. Qed.

End Let.
