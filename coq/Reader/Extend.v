(* Reader family, C20/C19/C21: the extension (locality) lemma.  What the reader does on a
   text u it also does on u ++ rest, leaving rest untouched, provided rest starts with a
   character that ends an identifier and does not open a string.  Stated for two oracle
   records whose position annotations differ by the shift |rest|, so that it serves the
   position-free reader and the positioned one alike. *)
From HyV Require Import Base.Text Reader.Syntax Gen.ReaderTables Reader.Model Reader.Progress Reader.Mono Reader.Shape Reader.Suffix.
From Coq Require Import Lia.

Definition c_semi : N := 59.
Definition has_nl (s : text) : bool := existsb (fun c => c =? c_nl) s.
(* every ";" is followed, later in the text, by a newline: no line comment runs to the end *)
Fixpoint semis_ok (s : text) : bool :=
  match s with [] => true | c :: r => (negb (c =? c_semi) || has_nl r) && semis_ok r end.
(* a character that ends an identifier and does not start a string *)
Definition stop (d : N) : bool := ends_ident d && negb (d =? c_dq).

Lemma semis_ok_app p r : semis_ok (p ++ r) = true -> semis_ok r = true.
Proof. induction p as [|c p IH]; simpl; auto. intros H. apply andb_prop in H as [_ H]. auto. Qed.
Lemma semis_ok_suffix r s : suffix r s -> semis_ok s = true -> semis_ok r = true.
Proof. intros [p ->]. apply semis_ok_app. Qed.

Section Prim.
  Variable rest : text.
  Hypothesis Hrest : match rest with [] => True | d :: _ => stop d = true end.

  Lemma rest_ends : match rest with [] => True | d :: _ => ends_ident d = true /\ (d =? c_dq) = false end.
  Proof. destruct rest as [|d r]; auto. unfold stop in Hrest. apply andb_prop in Hrest as [A B].
    split; auto. apply negb_true_iff in B. exact B. Qed.

  Lemma slurp_ext u c r : slurp u = c :: r -> slurp (u ++ rest) = c :: r ++ rest.
  Proof.
    unfold slurp. induction u as [|x u IH]; simpl; [discriminate|].
    destruct (is_ws x); [exact IH|]. intros E. inversion E; subst. reflexivity.
  Qed.
  Lemma slurp_nil_ext u : slurp u = [] -> slurp (u ++ rest) = slurp rest.
  Proof.
    unfold slurp. induction u as [|x u IH]; simpl; [reflexivity|].
    destruct (is_ws x); [exact IH|discriminate].
  Qed.

  Lemma span_ident_ext u : forall id r, span_ident u = (id, r) -> span_ident (u ++ rest) = (id, r ++ rest).
  Proof.
    induction u as [|x u IH]; simpl; intros id r E.
    - inversion E; subst. simpl. pose proof rest_ends as H. destruct rest as [|d q]; [reflexivity|].
      simpl. destruct H as [H _]. rewrite H. reflexivity.
    - destruct (ends_ident x); [inversion E; subst; reflexivity|].
      destruct (span_ident u) as [a b] eqn:E'. inversion E; subst. rewrite (IH _ _ eq_refl). reflexivity.
  Qed.

  Lemma drop_line_ext u : has_nl u = true -> drop_line (u ++ rest) = drop_line u ++ rest.
  Proof.
    induction u as [|x u IH]; simpl; [discriminate|].
    destruct (x =? c_nl); simpl; [reflexivity|exact IH].
  Qed.

  Lemma read_delim_ext u : forall acc d r, read_delim acc u = DOk d r -> read_delim acc (u ++ rest) = DOk d (r ++ rest).
  Proof.
    induction u as [|x u IH]; simpl; intros acc d r E; [discriminate|].
    destruct (x =? c_lbrack); [inversion E; subst; reflexivity|].
    destruct (x =? c_rbrack); [discriminate|]. apply IH. exact E.
  Qed.

  Definition scan_ext_ok (x y : scanres) : Prop :=
    match x with
    | ScClosed b cl r => y = ScClosed b cl (r ++ rest)
    | ScField b cl r => r <> [] -> y = ScField b cl (r ++ rest)
    | _ => True
    end.

  Lemma scan_ext fm rawp : forall n u cl named acc, (length u <= n)%nat ->
    scan_ext_ok (scan fm rawp cl named acc u) (scan fm rawp cl named acc (u ++ rest)).
  Proof.
    induction n as [|n IH]; intros u cl named acc L.
    { destruct u; [exact I|simpl in L; lia]. }
    destruct u as [|c r]; [exact I|]. simpl in L.
    assert (R1 : forall cl named acc, scan_ext_ok (scan fm rawp cl named acc r) (scan fm rawp cl named acc (r ++ rest)))
      by (intros; apply IH; lia).
    cbn [scan app]. destruct (closing_step cl c) as [cl'|k|]; [|reflexivity|exact I].
    destruct fm; [|apply R1].
    destruct (c =? c_lbrace).
    - destruct (negb rawp && starts_with [c_lbrace; c_N; c_bslash] (c :: acc)); [apply R1|].
      destruct r as [|c2 r2]; [simpl; intros X; congruence|]. cbn [app].
      destruct (c2 =? c_lbrace); [apply IH; simpl in L; lia|]. simpl. intros _. reflexivity.
    - destruct (c =? c_rbrace); [|apply R1].
      destruct named; [apply R1|].
      destruct r as [|c2 r2]; [exact I|]. cbn [app]. destruct (c2 =? c_rbrace); [apply IH; simpl in L; lia|exact I].
  Qed.
End Prim.

Lemma lookup_in {A} k (t : list (text * A)) v : lookup k t = Some v -> In (k, v) t.
Proof.
  induction t as [|[k' v'] t IH]; simpl; [discriminate|].
  destruct (text_eqb k k') eqn:E; [|auto]. intros H; inversion H; subst. apply text_eqb_eq in E. subst. auto.
Qed.
(* the regenerated table registers line_comment for ";" only *)
Lemma comment_key k : lookup k reader_table = Some HComment -> k = [c_semi].
Proof.
  intros H. apply lookup_in in H. unfold reader_table in H. simpl in H.
  repeat (destruct H as [H|H]; [inversion H; reflexivity|]); try contradiction;
  repeat (destruct H as [H|H]; [try discriminate H; inversion H; try reflexivity|]); try contradiction.
Qed.

Definition is_succ (x : res) : bool := match x with RTry _ _ | ROne _ _ | RSeq _ _ | RParts _ _ => true | _ => false end.

Section Ext.
  Variables orc orc' : oracles.
  Variable rest : text.
  Variable cs : bool.   (* comment-safe: also claim results that may end in a line comment running to the end *)
  Hypothesis Hrest : match rest with [] => True | d :: _ => stop d = true end.
  Hypothesis Hnum : forall t, numeric orc t = numeric orc' t.
  Hypothesis Hdec : forall b t, decode orc b t = decode orc' b t.
  Hypothesis Hsp : forall c, pyspace orc c = pyspace orc' c.
  Hypothesis Hmk : forall a b t, mk orc (a + length rest) (b + length rest) t = mk orc' a b t.

  Definition shift (md : mode) : mode :=
    match md with MParts cl rawp tmode start acc => MParts cl rawp tmode (start + length rest) acc | _ => md end.
  (* x' is the result on u (oracles orc'), x the result on u ++ rest (oracles orc) *)
  Definition sem (u : text) : Prop := cs = true -> semis_ok u = true.
  Lemma sem_suffix r s : suffix r s -> sem s -> sem r.
  Proof. intros S H C. eapply semis_ok_suffix; [exact S|apply H; exact C]. Qed.
  Definition ext_res (x' x : res) : Prop :=
    match x' with
    | RTry m r => (cs = false /\ m = None /\ r = []) \/ x = RTry m (r ++ rest)
    | ROne m r => x = ROne m (r ++ rest)
    | RSeq ms r => x = RSeq ms (r ++ rest)
    | RParts ps r => x = RParts ps (r ++ rest)
    | _ => True
    end.
  Definition nested (md : mode) : Prop := match md with MSeq None _ => False | _ => True end.

  Lemma as_identifier_eq t : as_identifier orc t = as_identifier orc' t.
  Proof.
    unfold as_identifier. rewrite Hnum.
    replace (existsb (numeric orc) (split_dots (dropwhile is_dot t))) with (existsb (numeric orc') (split_dots (dropwhile is_dot t))).
    reflexivity. induction (split_dots (dropwhile is_dot t)) as [|a l IH]; simpl; [reflexivity|]. rewrite Hnum, IH. reflexivity.
  Qed.
  Lemma finish_chunk_eq rawp bytes body : finish_chunk orc rawp bytes body = finish_chunk orc' rawp bytes body.
  Proof. unfold finish_chunk. rewrite Hdec. reflexivity. Qed.
  Lemma add_str_eq v a b acc : add_str orc v (a + length rest) (b + length rest) acc = add_str orc' v a b acc.
  Proof. unfold add_str. destruct v; [reflexivity|]. rewrite Hmk. reflexivity. Qed.
  Lemma len_app (r : text) : length (r ++ rest) = (length r + length rest)%nat.
  Proof. apply app_length. Qed.

  Variables rec rec' : mode -> text -> res.
  Hypothesis Hext : forall md u, nested md -> sem u -> ext_res (rec' md u) (rec (shift md) (u ++ rest)).
  Hypothesis Hsh : forall md u, shrinks u (rec' md u).
  Hypothesis Hsfx : forall md u, sfx_res u (rec' md u).

  Hypothesis Hshape : forall md u, shape md (rec' md u).
  Hypothesis Hseq_nil : forall k acc, is_succ (rec' (MSeq (Some k) acc) []) = false.
  Lemma rec_nil md : match md with MSeq _ _ => True | _ => is_succ (rec' md []) = false end.
  Proof.
    pose proof (Hsh md []) as H. pose proof (Hshape md []) as H2.
    destruct md; auto; destruct (rec' _ []); simpl in *; auto; try contradiction; lia.
  Qed.

  (* a call of rec' on u, matched by the corresponding call of rec on u ++ rest *)
  Ltac call md u Hs :=
    let HE := fresh "HE" in let HX := fresh "HX" in
    let HP := fresh "HP" in
    pose proof (Hext md u I Hs) as HE; pose proof (Hsfx md u) as HX; pose proof (Hshape md u) as HP;
    destruct (rec' md u) eqn:?; cbn [ext_res sfx_res shift shape] in HE, HX, HP; try contradiction; try exact I;
    try (rewrite HE; try reflexivity; try (right; reflexivity)).

  Lemma string_lit_ext prefix r : sem r ->
    ext_res (string_lit orc' rec' prefix r) (string_lit orc rec prefix (r ++ rest)).
  Proof.
    intros Hs. unfold string_lit. destruct (negb (prefix_ok prefix)); [exact I|].
    destruct (mem c_f prefix || mem c_t prefix).
    - rewrite len_app.
      call (MParts (ClQuote (mem c_r prefix) (mem c_b prefix) false) (mem c_r prefix) (negb (mem c_f prefix)) (length r) []) r Hs.
    - pose proof (scan_ext rest false (mem c_r prefix) _ r (ClQuote (mem c_r prefix) (mem c_b prefix) false) false [] (le_n _)) as H.
      destruct (scan false (mem c_r prefix) (ClQuote (mem c_r prefix) (mem c_b prefix) false) false [] r); cbn [scan_ext_ok] in H; try exact I.
      rewrite H. rewrite finish_chunk_eq. destruct (finish_chunk orc' _ _ body); [right; reflexivity|exact I].
  Qed.

  Definition strip1 (c0 : N) (r1 : text) : text := match r1 with c :: x => if c =? c0 then x else r1 | [] => r1 end.
  Lemma strip1_ext c0 r1 : strip1 c0 r1 <> [] -> strip1 c0 (r1 ++ rest) = strip1 c0 r1 ++ rest.
  Proof. destruct r1 as [|c x]; simpl; [congruence|]. destruct (c =? c0); reflexivity. Qed.
  Lemma strip1_suffix c0 r1 : suffix (strip1 c0 r1) r1.
  Proof. destruct r1 as [|c x]; simpl; auto with sfx. destruct (c =? c0); auto with sfx. Qed.

  Lemma bracket_lit_ext r : sem r ->
    ext_res (bracket_lit orc' rec' r) (bracket_lit orc rec (r ++ rest)).
  Proof.
    intros Hs. unfold bracket_lit. pose proof (read_delim_sfx r []) as Hd.
    destruct (read_delim [] r) as [d r1| |] eqn:E; try exact I.
    rewrite (read_delim_ext rest r [] d r1 E).
    fold (strip1 c_cr r1). fold (strip1 c_cr (r1 ++ rest)).
    fold (strip1 c_nl (strip1 c_cr r1)). fold (strip1 c_nl (strip1 c_cr (r1 ++ rest))).
    destruct (strip1 c_nl (strip1 c_cr r1)) as [|x3 r3'] eqn:E3.
    { (* nothing left after the opening: the literal cannot be completed *)
      destruct (is_f_delim d).
      - pose proof (rec_nil (MParts (ClDelim d None) true false (length (@nil N)) [])) as H.
        destruct (rec' (MParts (ClDelim d None) true false (length (@nil N)) []) []); simpl in *; try discriminate; exact I.
      - exact I. }
    assert (N2 : strip1 c_cr r1 <> []) by (intros X; rewrite X in E3; discriminate).
    rewrite (strip1_ext c_cr r1 N2), strip1_ext by (rewrite E3; discriminate). rewrite E3.
    assert (S3 : suffix (x3 :: r3') r).
    { rewrite <- E3. eapply suffix_trans; [apply strip1_suffix|]. eapply suffix_trans; [apply strip1_suffix|exact Hd]. }
    pose proof (sem_suffix _ _ S3 Hs) as Hs3.
    remember (x3 :: r3') as u3 eqn:Eu. clear Eu E3 S3.
    destruct (is_f_delim d).
    - rewrite len_app.
      call (MParts (ClDelim d None) true false (length u3) []) u3 Hs3.
      destruct (existsb _ _); [exact I|right; reflexivity].
    - pose proof (scan_ext rest false true _ u3 (ClDelim d None) false [] (le_n _)) as H.
      destruct (scan false true (ClDelim d None) false [] u3); cbn [scan_ext_ok] in H; try exact I.
      rewrite H. rewrite finish_chunk_eq. destruct (finish_chunk orc' _ _ body); [|exact I].
      destruct (contains _ _); [exact I|right; reflexivity].
  Qed.

  Lemma ext_intro_try m r : ext_res (RTry m r) (RTry m (r ++ rest)).
  Proof. right. reflexivity. Qed.

  Lemma drop_line_nonl u : has_nl u = false -> drop_line u = [].
  Proof. induction u as [|x u IH]; simpl; [reflexivity|]. destruct (x =? c_nl); simpl; [discriminate|exact IH]. Qed.

  Lemma run_basic_ext h r : sem r -> (h = HComment -> cs = true -> has_nl r = true) ->
    ext_res (run_basic orc' rec' h r) (run_basic orc rec h (r ++ rest)).
  Proof.
    intros Hs Hc. destruct h; cbn [run_basic]; try exact I.
    - destruct (has_nl r) eqn:Hn.
      + rewrite drop_line_ext by exact Hn. apply ext_intro_try.
      + rewrite (drop_line_nonl r Hn). left. destruct cs; [specialize (Hc eq_refl eq_refl); discriminate|auto].
    - destruct (span_ident r) as [id r'] eqn:E. rewrite (span_ident_ext rest Hrest r id r' E).
      destruct (mem ch_dot id); [exact I|apply ext_intro_try].
    - apply string_lit_ext; exact Hs.
    - call MOne r Hs.
    - destruct r as [|c2 r2].
      + pose proof (rec_nil MOne) as H. destruct (rec' MOne []); simpl in *; try discriminate; exact I.
      + cbn [app]. destruct (c2 =? ch).
        * assert (Hs2 : sem r2) by (eapply sem_suffix; [apply suffix_tl|exact Hs]).
          call MOne r2 Hs2.
        * change (c2 :: r2 ++ rest) with ((c2 :: r2) ++ rest). call MOne (c2 :: r2) Hs.
    - call (MSeq (Some closer) []) r Hs.
    - call MOne r Hs.
    - call MOne r Hs. rename rest0 into r'.
      assert (Hs2 : sem r') by (eapply sem_suffix; eauto).
      call MOne r' Hs2.
    - apply bracket_lit_ext; exact Hs.
  Qed.

  Lemma dispatch_ext r : sem r -> ext_res (dispatch orc' rec' r) (dispatch orc rec (r ++ rest)).
  Proof.
    intros Hs. unfold dispatch. destruct r as [|c2 r2]; [exact I|]. cbn [app]. rewrite Hsp.
    destruct (pyspace orc' c2); [exact I|].
    change (c2 :: r2 ++ rest) with ((c2 :: r2) ++ rest).
    destruct (span_ident (c2 :: r2)) as [id0 r0] eqn:E. rewrite (span_ident_ext rest Hrest _ id0 r0 E).
    pose proof (span_ident_suffix _ _ _ E) as S0.
    assert (X : forall ident r1, suffix r1 (c2 :: r2) ->
      ext_res match lookup (c_hash :: ident) reader_table with Some h => run_basic orc' rec' h r1 | None => RLex end
              match lookup (c_hash :: ident) reader_table with Some h => run_basic orc rec h (r1 ++ rest) | None => RLex end).
    { intros ident r1 S1. destruct (lookup (c_hash :: ident) reader_table) as [h|] eqn:L; [|exact I].
      apply run_basic_ext; [eapply sem_suffix; eauto|].
      intros ->. apply comment_key in L. discriminate L. }
    destruct id0; apply X; auto with sfx.
  Qed.

  Lemma read_default_ext c r : sem r -> ext_res (read_default orc' rec' c r) (read_default orc rec c (r ++ rest)).
  Proof.
    intros Hs. unfold read_default. destruct (span_ident r) as [id0 r'] eqn:E. rewrite (span_ident_ext rest Hrest _ id0 r' E).
    pose proof (span_ident_suffix _ _ _ E) as S0.
    assert (X : ext_res (ident_res orc' (c :: id0) r') (ident_res orc (c :: id0) (r' ++ rest))).
    { unfold ident_res. rewrite as_identifier_eq. destruct (as_identifier orc' (c :: id0)); [apply ext_intro_try|exact I]. }
    destruct r' as [|c2 r2].
    - cbn [app] in *. pose proof (rest_ends rest Hrest) as R. destruct rest as [|d q]; [exact X|].
      destruct R as [_ R]. rewrite R. exact X.
    - cbn [app]. destruct (c2 =? c_dq); [|exact X].
      apply string_lit_ext. eapply sem_suffix; [|exact Hs]. eapply suffix_trans; [apply suffix_tl|exact S0].
  Qed.

  Lemma convert_succ x : is_succ x = true -> convert x = x.
  Proof. destruct x; simpl; try discriminate; reflexivity. Qed.
  Lemma convert_err x : is_succ x = false -> is_succ (convert x) = false.
  Proof.
    destruct x as [| | | | | |e|]; intros H; try discriminate H; try destruct e; vm_compute; reflexivity.
  Qed.
  Lemma ext_res_err x' x : is_succ x' = false -> ext_res x' x.
  Proof. destruct x'; simpl; try discriminate; auto. Qed.

  Lemma try_body_ext s : sem s -> ext_res (try_body orc' rec' s) (try_body orc rec (s ++ rest)).
  Proof.
    intros Hs. unfold try_body. pose proof (slurp_suffix s) as L. destruct (slurp s) as [|c r] eqn:E.
    { apply ext_res_err. apply convert_err. reflexivity. }
    rewrite (slurp_ext rest s c r E).
    assert (Hsc : sem (c :: r)) by (eapply sem_suffix; eauto).
    assert (Hsr : sem r) by (eapply sem_suffix; [apply suffix_tl|exact Hsc]).
    set (body' := match lookup [c] reader_table with
                 | Some HDispatch => dispatch orc' rec' r
                 | Some h => run_basic orc' rec' h r
                 | None => read_default orc' rec' c r end).
    set (body := match lookup [c] reader_table with
                 | Some HDispatch => dispatch orc rec (r ++ rest)
                 | Some h => run_basic orc rec h (r ++ rest)
                 | None => read_default orc rec c (r ++ rest) end).
    assert (B : ext_res body' body).
    { unfold body, body'. destruct (lookup [c] reader_table) as [h|] eqn:Lk; [|apply read_default_ext; exact Hsr].
      assert (Hc : h = HComment -> cs = true -> has_nl r = true).
      { intros -> C. apply comment_key in Lk. inversion Lk; subst. specialize (Hsc C). simpl in Hsc.
        apply andb_prop in Hsc as [A _]. exact A. }
      destruct h; try (apply run_basic_ext; assumption). apply dispatch_ext; exact Hsr. }
    destruct (is_succ body') eqn:Sb.
    - rewrite (convert_succ body' Sb). destruct body' as [[m|] r0| | | | | | |]; try discriminate Sb; cbn [ext_res] in B.
      + destruct B as [[_ [B _]]|B]; [discriminate B|]. rewrite B. cbn [convert convert_with]. right.
        rewrite !len_app, Hmk. reflexivity.
      + destruct B as [[C [_ ->]]|B]; [left; auto|]. rewrite B. cbn [convert convert_with]. right. reflexivity.
      + rewrite B. reflexivity.
      + rewrite B. reflexivity.
      + rewrite B. reflexivity.
    - apply convert_err in Sb. destruct (convert body') as [[m|] r0| | | | | | |]; try discriminate Sb; exact I.
  Qed.

  Lemma one_body_ext s : sem s -> ext_res (one_body rec' s) (one_body rec (s ++ rest)).
  Proof.
    intros Hs. unfold one_body.
    pose proof (Hext MTry s I Hs) as HE. pose proof (Hsfx MTry s) as HX. pose proof (Hshape MTry s) as HP.
    destruct (rec' MTry s) as [[m|] r| | | | | | |] eqn:ET; cbn [ext_res sfx_res shape shift] in HE, HX, HP; try contradiction; try exact I.
    - destruct HE as [[_ [HE _]]|HE]; [discriminate HE|]. rewrite HE. reflexivity.
    - destruct HE as [[_ [_ ->]]|HE].
      + pose proof (rec_nil MOne) as Hn. pose proof (Hshape MOne []) as H2.
        destruct (rec' MOne []); simpl in *; try discriminate; try contradiction; exact I.
      + rewrite HE. apply (Hext MOne r I). eapply sem_suffix; eauto.
  Qed.

  Lemma seq_body_ext k acc s : sem s ->
    ext_res (seq_body rec' (Some k) acc s) (seq_body rec (Some k) acc (s ++ rest)).
  Proof.
    intros Hs. unfold seq_body. pose proof (slurp_suffix s) as L. destruct (slurp s) as [|c r] eqn:E.
    { cbn [at_closer]. pose proof (rec_nil MTry) as H. pose proof (Hshape MTry []) as H2.
      destruct (rec' MTry []) as [[m|] r0| | | | | | |]; simpl in *; try discriminate; try contradiction; exact I. }
    rewrite (slurp_ext rest s c r E). cbn [at_closer app]. destruct (c =? k); [reflexivity|].
    assert (Hsc : sem (c :: r)) by (eapply sem_suffix; eauto).
    change (c :: r ++ rest) with ((c :: r) ++ rest).
    pose proof (Hext MTry (c :: r) I Hsc) as HE. pose proof (Hsfx MTry (c :: r)) as HX. pose proof (Hshape MTry (c :: r)) as HP.
    destruct (rec' MTry (c :: r)) as [[m|] r0| | | | | | |] eqn:ET; cbn [ext_res sfx_res shape shift] in HE, HX, HP; try contradiction; try exact I.
    - destruct HE as [[_ [HE _]]|HE]; [discriminate HE|]. rewrite HE.
      apply (Hext (MSeq (Some k) (m :: acc)) r0 I). eapply sem_suffix; eauto.
    - destruct HE as [[_ [_ ->]]|HE].
      + pose proof (Hseq_nil k acc) as Hn. pose proof (Hshape (MSeq (Some k) acc) []) as H2.
        destruct (rec' (MSeq (Some k) acc) []); simpl in *; try discriminate; try contradiction; exact I.
      + rewrite HE. apply (Hext (MSeq (Some k) acc) r0 I). eapply sem_suffix; eauto.
  Qed.

  Lemma parts_body_ext cl rawp tmode start acc s : sem s ->
    ext_res (parts_body orc' rec' cl rawp tmode start acc s)
            (parts_body orc rec cl rawp tmode (start + length rest) acc (s ++ rest)).
  Proof.
    intros Hs. unfold parts_body. cbv zeta.
    pose proof (scan_ext rest true rawp _ s cl false [] (le_n _)) as H.
    pose proof (scan_sfx true rawp _ s cl false [] (le_n _)) as Hx.
    destruct (scan true rawp cl false [] s) as [body cl' r|body cl' r| | |]; cbn [scan_ext_ok scan_suffix] in H, Hx; try exact I.
    - rewrite H, finish_chunk_eq. destruct (finish_chunk orc' rawp false body); [|exact I].
      cbn [ext_res]. rewrite !len_app, add_str_eq. reflexivity.
    - destruct r as [|c0 r0].
      { destruct (finish_chunk orc' rawp false body); [|exact I].
        pose proof (rec_nil (MField rawp tmode)) as Hn. pose proof (Hshape (MField rawp tmode) []) as H2.
        destruct (rec' (MField rawp tmode) []); simpl in *; try discriminate; try contradiction; exact I. }
      rewrite H by discriminate. rewrite finish_chunk_eq. destruct (finish_chunk orc' rawp false body); [|exact I].
      assert (Hsr : sem (c0 :: r0)) by (eapply sem_suffix; eauto).
      call (MField rawp tmode) (c0 :: r0) Hsr.
      rewrite !len_app, add_str_eq.
      match goal with |- ext_res (rec' ?m ?u) _ => apply (Hext m u I) end. eapply sem_suffix; eauto.
  Qed.

  Lemma field_after_ext rawp tmode dbg start values m ft conv s6 : sem s6 ->
    ext_res (field_after orc' rec' rawp tmode dbg start values m ft conv s6)
            (field_after orc rec rawp tmode dbg (start + length rest) values m ft conv (s6 ++ rest)).
  Proof.
    intros Hs. unfold field_after. pose proof (slurp_suffix s6) as L. destruct (slurp s6) as [|c r] eqn:E; [exact I|].
    rewrite (slurp_ext rest s6 c r E).
    assert (Hsr : sem r).
    { eapply sem_suffix; [|exact Hs]. eapply suffix_trans; [apply suffix_tl|exact L]. }
    destruct (c =? c_colon).
    - rewrite len_app. call (MParts ClBrace rawp false (length r) []) r Hsr.
      cbn [ext_res]. rewrite len_app, Hmk. reflexivity.
    - destruct (c =? c_rbrace); [|exact I]. cbn [ext_res]. rewrite len_app, Hmk. reflexivity.
  Qed.

  Lemma firstn_ext (s s5 : text) : suffix s5 s ->
    firstn (length (s ++ rest) - length (s5 ++ rest)) (s ++ rest) = firstn (length s - length s5) s.
  Proof.
    intros Sx. pose proof (suffix_len _ _ Sx). rewrite !app_length.
    replace (length s + length rest - (length s5 + length rest))%nat with (length s - length s5)%nat by lia.
    rewrite firstn_app. replace (length s - length s5 - length s)%nat with 0%nat by lia. simpl. apply app_nil_r.
  Qed.

  Lemma field_body_ext rawp tmode s : sem s ->
    ext_res (field_body orc' rec' rawp tmode s) (field_body orc rec rawp tmode (s ++ rest)).
  Proof.
    intros Hs. unfold field_body. cbv zeta. pose proof (slurp_suffix s) as L. destruct (slurp s) as [|c1 r1] eqn:E1.
    { pose proof (rec_nil MOne) as Hn. pose proof (Hshape MOne []) as H2.
      destruct (rec' MOne []); simpl in *; try discriminate; try contradiction; exact I. }
    rewrite (slurp_ext rest s c1 r1 E1). change (c1 :: r1 ++ rest) with ((c1 :: r1) ++ rest).
    assert (Hs1 : sem (c1 :: r1)) by (eapply sem_suffix; eauto).
    call MOne (c1 :: r1) Hs1. rename rest0 into s2.
    assert (S2 : suffix s2 s) by (eapply suffix_trans; eauto).
    pose proof (slurp_suffix s2) as L3.
    rewrite (firstn_ext (c1 :: r1) s2 HX).
    destruct (slurp s2) as [|c3 r3] eqn:E3.
    { (* nothing after the form *) cbv beta iota zeta. unfold field_after. simpl. exact I. }
    rewrite (slurp_ext rest s2 c3 r3 E3). cbn [tl app].
    assert (S3 : suffix (c3 :: r3) s) by (eapply suffix_trans; eauto).
    assert (FA : forall dbg values conv s6, suffix s6 s ->
      ext_res (field_after orc' rec' rawp tmode dbg (length s) values m (firstn (length (c1 :: r1) - length s2) (c1 :: r1)) conv s6)
              (field_after orc rec rawp tmode dbg (length (s ++ rest)) values m (firstn (length (c1 :: r1) - length s2) (c1 :: r1)) conv (s6 ++ rest))).
    { intros. rewrite len_app. apply field_after_ext. eapply sem_suffix; eauto. }
    (* the rest of the field, from the position s5 on *)
    assert (TAIL : forall dbg s5, suffix s5 s -> s5 <> [] ->
      ext_res
        (match s5 with
         | c :: r => if c =? c_bang then match r with
                       | c2 :: r2 => field_after orc' rec' rawp tmode dbg (length s)
                            (if dbg then [mk orc' (length s) (length s5) (Str (firstn (length s - length s5) s) None)] else [])
                            m (firstn (length (c1 :: r1) - length s2) (c1 :: r1)) (Some c2) r2
                       | [] => RPrem end
                     else field_after orc' rec' rawp tmode dbg (length s)
                            (if dbg then [mk orc' (length s) (length s5) (Str (firstn (length s - length s5) s) None)] else [])
                            m (firstn (length (c1 :: r1) - length s2) (c1 :: r1)) None s5
         | [] => field_after orc' rec' rawp tmode dbg (length s)
                            (if dbg then [mk orc' (length s) (length s5) (Str (firstn (length s - length s5) s) None)] else [])
                            m (firstn (length (c1 :: r1) - length s2) (c1 :: r1)) None s5
         end)
        (match s5 ++ rest with
         | c :: r => if c =? c_bang then match r with
                       | c2 :: r2 => field_after orc rec rawp tmode dbg (length (s ++ rest))
                            (if dbg then [mk orc (length (s ++ rest)) (length (s5 ++ rest))
                                            (Str (firstn (length (s ++ rest) - length (s5 ++ rest)) (s ++ rest)) None)] else [])
                            m (firstn (length (c1 :: r1) - length s2) (c1 :: r1)) (Some c2) r2
                       | [] => RPrem end
                     else field_after orc rec rawp tmode dbg (length (s ++ rest))
                            (if dbg then [mk orc (length (s ++ rest)) (length (s5 ++ rest))
                                            (Str (firstn (length (s ++ rest) - length (s5 ++ rest)) (s ++ rest)) None)] else [])
                            m (firstn (length (c1 :: r1) - length s2) (c1 :: r1)) None (s5 ++ rest)
         | [] => field_after orc rec rawp tmode dbg (length (s ++ rest))
                            (if dbg then [mk orc (length (s ++ rest)) (length (s5 ++ rest))
                                            (Str (firstn (length (s ++ rest) - length (s5 ++ rest)) (s ++ rest)) None)] else [])
                            m (firstn (length (c1 :: r1) - length s2) (c1 :: r1)) None (s5 ++ rest)
         end)).
    { intros dbg s5 S5 N5. rewrite (firstn_ext s s5 S5). rewrite !len_app, Hmk. rewrite <- !len_app.
      destruct s5 as [|c5 r5]; [congruence|]. cbn [app]. destruct (c5 =? c_bang).
      - destruct r5 as [|c6 r6]; [exact I|]. cbn [app]. apply FA.
        eapply suffix_trans; [|exact S5]. exists [c5; c6]. reflexivity.
      - change (c5 :: r5 ++ rest) with ((c5 :: r5) ++ rest). apply FA. exact S5. }
    destruct (c3 =? c_eq).
    - (* debug "=" *)
      destruct (slurp r3) as [|c5 r5] eqn:E5.
      { cbv beta iota zeta. unfold field_after. simpl. exact I. }
      rewrite (slurp_ext rest r3 c5 r5 E5).
      change (c5 :: r5 ++ rest) with ((c5 :: r5) ++ rest).
      apply (TAIL true (c5 :: r5)); [|discriminate].
      rewrite <- E5. eapply suffix_trans; [apply slurp_suffix|]. eapply suffix_trans; [apply suffix_tl|exact S3].
    - change (c3 :: r3 ++ rest) with ((c3 :: r3) ++ rest).
      apply (TAIL false (c3 :: r3)); [exact S3|discriminate].
  Qed.
End Ext.

Lemma rd_seq_nil orc f k acc : is_succ (rd orc f (MSeq (Some k) acc) []) = false.
Proof.
  destruct f as [|f]; [reflexivity|]. cbn [rd]. unfold seq_body. cbn [slurp dropwhile at_closer].
  destruct (rd_good orc f MTry []) as [Hs _]. pose proof (rd_shape orc f MTry []) as Hp.
  destruct (rd orc f MTry []) as [[m|] r| | | | | | |]; simpl in *; try contradiction; try reflexivity; lia.
Qed.

Section RdExt.
  Variables orc orc' : oracles.
  Variable rest : text.
  Variable cs : bool.
  Hypothesis Hrest : match rest with [] => True | d :: _ => stop d = true end.
  Hypothesis Hnum : forall t, numeric orc t = numeric orc' t.
  Hypothesis Hdec : forall b t, decode orc b t = decode orc' b t.
  Hypothesis Hsp : forall c, pyspace orc c = pyspace orc' c.
  Hypothesis Hmk : forall a b t, mk orc (a + length rest) (b + length rest) t = mk orc' a b t.

  (* Extension: what the reader does on u, it does on u ++ rest, leaving rest untouched --
     provided rest starts with a character that ends an identifier and is not a double quote.
     With cs = false nothing is claimed about a result "no form, input exhausted" (which may be a
     line comment that ran to the end); with cs = true the text must close its comments. *)
  Theorem rd_ext : forall f md u, nested md -> sem cs u ->
    ext_res rest cs (rd orc' f md u) (rd orc f (shift rest md) (u ++ rest)).
  Proof.
    induction f as [|f IH]; intros md u Hn Hs; [exact I|].
    assert (Hsh : forall md u, shrinks u (rd orc' f md u)) by (intros; apply rd_good).
    pose proof (rd_suffix orc' f) as Hsfx. pose proof (rd_shape orc' f) as Hshape.
    pose proof (rd_seq_nil orc' f) as Hnil.
    destruct md as [| |closer acc|cl rawp tmode start acc|rawp tmode]; cbn [rd shift].
    - apply try_body_ext; assumption.
    - apply one_body_ext; assumption.
    - destruct closer as [k|]; [|contradiction]. apply seq_body_ext; assumption.
    - apply parts_body_ext; assumption.
    - apply field_body_ext; assumption.
  Qed.
End RdExt.

