(* Reader family, C18: which results each mode of the reader can return.  A Python
   exception other than the reader's own two classes can be raised only inside the
   string/f-string code; try_parse_one_form (the regenerated except clauses in
   Gen/ReaderTables.try_handlers) turns it into a LexException, so none leaves
   read_many.  Together with Progress.rd_good this gives the two C18 theorems. *)
From HyV Require Import Base.Text Reader.Syntax Gen.ReaderTables Reader.Model Reader.Progress Reader.Mono.
From Coq Require Import Lia.

(* which result constructors each mode can return; a Python exception can leave only the f-string modes *)
Definition shape (md : mode) (x : res) : Prop :=
  match x with
  | RTry _ _ => match md with MTry => True | _ => False end
  | ROne _ _ => match md with MOne => True | _ => False end
  | RSeq _ _ => match md with MSeq _ _ => True | _ => False end
  | RParts _ _ | RPy _ => match md with MParts _ _ _ _ _ | MField _ _ => True | _ => False end
  | RPrem | RLex | ROut => True
  end.
(* results of the handler bodies, before the except clauses are applied *)
Definition tryres (x : res) : Prop :=
  match x with RTry _ _ | RPrem | RLex | RPy _ | ROut => True | _ => False end.

Lemma convert_py e : convert (RPy e) = RLex.
Proof. destruct e; reflexivity. Qed.
Lemma convert_prem : convert RPrem = RPrem.
Proof. reflexivity. Qed.
Lemma convert_lex : convert RLex = RLex.
Proof. reflexivity. Qed.

Section S.
  Variable orc : oracles.
  Variable rec : mode -> text -> res.
  Hypothesis Hrec : forall md s, shape md (rec md s).

  Ltac call md r := let H := fresh "H" in pose proof (Hrec md r) as H; destruct (rec md r); simpl in *; auto; try contradiction.

  Lemma string_lit_shape prefix r : tryres (string_lit orc rec prefix r).
  Proof.
    unfold string_lit. destruct (negb (prefix_ok prefix)); [exact I|].
    destruct (mem c_f prefix || mem c_t prefix).
    - call (MParts (ClQuote (mem c_r prefix) (mem c_b prefix) false) (mem c_r prefix) (negb (mem c_f prefix)) (length r) []) r.
    - destruct (scan _ _ _ _ _ _); try exact I. destruct (finish_chunk _ _ _ _); exact I.
  Qed.

  Lemma bracket_lit_shape r : tryres (bracket_lit orc rec r).
  Proof.
    unfold bracket_lit. destruct (read_delim [] r) as [d r1| |]; try exact I.
    destruct (is_f_delim d).
    - match goal with |- tryres (match rec ?m ?r with _ => _ end) => pose proof (Hrec m r) as H; destruct (rec m r) end;
        simpl in *; auto; try contradiction. destruct (existsb _ _); exact I.
    - destruct (scan _ _ _ _ _ _); try exact I. destruct (finish_chunk _ _ _ _); try exact I. destruct (contains _ _); exact I.
  Qed.

  Lemma run_basic_shape h r : tryres (run_basic orc rec h r).
  Proof.
    destruct h; cbn [run_basic]; try exact I.
    - destruct (span_ident r) as [id r']. destruct (mem ch_dot id); exact I.
    - apply string_lit_shape.
    - call MOne r.
    - destruct r as [|c2 r2]; [call MOne (@nil N)|]. destruct (c2 =? ch); [call MOne r2|call MOne (c2 :: r2)].
    - call (MSeq (Some closer) []) r.
    - call MOne r.
    - pose proof (Hrec MOne r) as H. destruct (rec MOne r) as [| a r' | | | | | |]; simpl in *; auto; try contradiction.
      call MOne r'.
    - apply bracket_lit_shape.
  Qed.

  Lemma dispatch_shape r : tryres (dispatch orc rec r).
  Proof.
    unfold dispatch. destruct r as [|c2 r2]; [exact I|]. destruct (pyspace orc c2); [exact I|].
    destruct (span_ident (c2 :: r2)) as [id0 r0].
    destruct id0; (destruct (lookup _ reader_table); [apply run_basic_shape|exact I]).
  Qed.

  Lemma read_default_shape c r : tryres (read_default orc rec c r).
  Proof.
    unfold read_default. destruct (span_ident r) as [id0 r'].
    assert (X : tryres (ident_res orc (c :: id0) r')) by (unfold ident_res; destruct (as_identifier orc (c :: id0)); exact I).
    destruct r' as [|c2 r2]; [exact X|]. destruct (c2 =? c_dq); [apply string_lit_shape|exact X].
  Qed.

  Lemma try_body_shape s : shape MTry (try_body orc rec s).
  Proof.
    unfold try_body. destruct (slurp s) as [|c r]; [rewrite convert_prem; exact I|].
    set (body := match lookup [c] reader_table with
                 | Some HDispatch => dispatch orc rec r
                 | Some h => run_basic orc rec h r
                 | None => read_default orc rec c r end).
    assert (B : tryres body).
    { unfold body. destruct (lookup [c] reader_table) as [h|]; [|apply read_default_shape].
      destruct h; try apply run_basic_shape. apply dispatch_shape. }
    destruct body as [[m|] rest| | | | | | e |]; simpl in B; try contradiction; try exact I.
    rewrite convert_py. exact I.
  Qed.

  Lemma one_body_shape s : shape MOne (one_body rec s).
  Proof.
    unfold one_body. pose proof (Hrec MTry s) as H. destruct (rec MTry s) as [[m|] r| | | | | | |]; simpl in *; auto; try contradiction.
  Qed.

  Lemma seq_body_shape closer acc s : shape (MSeq closer acc) (seq_body rec closer acc s).
  Proof.
    unfold seq_body. destruct (at_closer closer (slurp s)); [exact I|].
    pose proof (Hrec MTry (slurp s)) as H. destruct (rec MTry (slurp s)) as [[m|] r| | | | | | |]; simpl in *; auto; try contradiction.
    all: match goal with |- shape _ (rec ?m ?r) => pose proof (Hrec m r) as H2; destruct (rec m r); exact H2 end.
  Qed.

  Lemma parts_body_shape cl rawp tmode start acc s :
    shape (MParts cl rawp tmode start acc) (parts_body orc rec cl rawp tmode start acc s).
  Proof.
    unfold parts_body. destruct (scan _ _ _ _ _ _) as [body cl' rest|body cl' rest| | |]; try exact I.
    - destruct (finish_chunk _ _ _ _); exact I.
    - destruct (finish_chunk _ _ _ _); [|exact I].
      pose proof (Hrec (MField rawp tmode) rest) as H. destruct (rec (MField rawp tmode) rest); simpl in *; auto; try contradiction.
      match goal with |- shape _ (rec ?m ?r) => pose proof (Hrec m r) as H2; destruct (rec m r); simpl in *; auto end.
  Qed.

  Lemma field_after_shape rawp tmode dbg start values m ft conv s6 :
    shape (MField rawp tmode) (field_after orc rec rawp tmode dbg start values m ft conv s6).
  Proof.
    unfold field_after. destruct (slurp s6) as [|c r]; [exact I|].
    destruct (c =? c_colon).
    - pose proof (Hrec (MParts ClBrace rawp false (length r) []) r) as H.
      destruct (rec (MParts ClBrace rawp false (length r) []) r); simpl in *; auto.
    - destruct (c =? c_rbrace); exact I.
  Qed.

  Lemma field_body_shape rawp tmode s : shape (MField rawp tmode) (field_body orc rec rawp tmode s).
  Proof.
    unfold field_body. pose proof (Hrec MOne (slurp s)) as H.
    destruct (rec MOne (slurp s)) as [|m s2| | | | | |]; simpl in H |- *; auto; try contradiction.
    match goal with |- context [match ?s5 with [] => _ | _ => _ end] => destruct s5 as [|c r] end; [apply field_after_shape|].
    destruct (c =? c_bang); [|apply field_after_shape].
    destruct r; [exact I|apply field_after_shape].
  Qed.
End S.

Theorem rd_shape orc : forall f md s, shape md (rd orc f md s).
Proof.
  induction f as [|f IH]; intros md s; [exact I|].
  destruct md; cbn [rd].
  - apply try_body_shape; exact IH.
  - apply one_body_shape; exact IH.
  - apply seq_body_shape; exact IH.
  - apply parts_body_shape; exact IH.
  - apply field_body_shape; exact IH.
Qed.

(* C18: fuel linear in the length of the input suffices, for every input and all oracles *)
Theorem read_terminates orc s : read_many orc s <> OutOfFuel.
Proof.
  unfold read_many. destruct (rd_good orc (read_fuel s) (MSeq None []) s) as [_ H].
  assert (N : rd orc (read_fuel s) (MSeq None []) s <> ROut) by (apply H; unfold need, read_fuel; simpl; lia).
  pose proof (rd_shape orc (read_fuel s) (MSeq None []) s) as Sh.
  destruct (rd orc (read_fuel s) (MSeq None []) s); simpl in *; try contradiction; try discriminate; congruence.
Qed.

(* C18: whatever the oracles answer, no Python exception other than the two reader errors leaves read_many *)
Theorem read_outcome_class orc s : forall e, read_many orc s <> PyErr e.
Proof.
  intros e. unfold read_many. pose proof (rd_shape orc (read_fuel s) (MSeq None []) s) as Sh.
  destruct (rd orc (read_fuel s) (MSeq None []) s); simpl in *; try contradiction; discriminate.
Qed.

Theorem read_fuel_irrelevant orc s k :
  outcome_of (rd orc (read_fuel s + k) (MSeq None []) s) = read_many orc s.
Proof.
  unfold read_many. rewrite rd_mono; [reflexivity|].
  intros E. apply (read_terminates orc s). unfold read_many. rewrite E. reflexivity.
Qed.

Theorem read_trichotomy orc s :
  (exists ms, read_many orc s = Ok ms) \/ read_many orc s = Lex \/ read_many orc s = Premature.
Proof.
  pose proof (read_terminates orc s) as H. pose proof (read_outcome_class orc s) as H0.
  destruct (read_many orc s) as [ms| | |e|]; eauto.
  - exfalso; eapply H0; reflexivity.
  - congruence.
Qed.

Lemma convert_table e : convert (RPy e) = RLex /\ convert RPrem = RPrem /\ convert RLex = RLex.
Proof. split; [apply convert_py|split; reflexivity]. Qed.

(* the same two facts for files read with skip_shebang=True *)
Theorem read_file_terminates orc s : read_many_file orc s <> OutOfFuel.
Proof.
  unfold read_many_file. destruct (starts_with shebang_mark s); [|apply read_terminates].
  destruct (drop_through shebang_end s) as [r|]; [|discriminate]. apply (read_terminates orc r).
Qed.
Theorem read_file_outcome_class orc s : forall e, read_many_file orc s <> PyErr e.
Proof.
  intros e. unfold read_many_file. destruct (starts_with shebang_mark s); [|apply read_outcome_class].
  destruct (drop_through shebang_end s) as [r|]; [|discriminate]. apply (read_outcome_class orc r).
Qed.
