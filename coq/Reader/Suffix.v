(* Reader family: the remainder of every successful reader call is a suffix of its
   input (used by the extension lemma of Reader/Extend.v and by the position theorems). *)
From HyV Require Import Base.Text Reader.Syntax Gen.ReaderTables Reader.Model.
From Coq Require Import Lia.

(* the remainder of every successful call is a suffix of its input *)
Definition suffix (r s : text) : Prop := exists p, s = p ++ r.

Lemma suffix_refl s : suffix s s.
Proof. exists []. reflexivity. Qed.
Lemma suffix_trans a b c : suffix a b -> suffix b c -> suffix a c.
Proof. intros [p ->] [q ->]. exists (q ++ p). rewrite app_assoc. reflexivity. Qed.
Lemma suffix_cons c r s : suffix r s -> suffix r (c :: s).
Proof. intros [p ->]. exists (c :: p). reflexivity. Qed.
Lemma suffix_tl c s : suffix s (c :: s).
Proof. exists [c]. reflexivity. Qed.
Lemma suffix_nil s : suffix [] s.
Proof. exists s. rewrite app_nil_r. reflexivity. Qed.
Lemma suffix_len r s : suffix r s -> (length r <= length s)%nat.
Proof. intros [p ->]. rewrite app_length. lia. Qed.
Lemma suffix_app_l p s : suffix s (p ++ s).
Proof. exists p. reflexivity. Qed.
#[export] Hint Resolve suffix_refl suffix_cons suffix_tl suffix_nil : sfx.

Lemma dropwhile_suffix p s : suffix (dropwhile p s) s.
Proof. induction s as [|c r IH]; simpl; auto with sfx. destruct (p c); auto with sfx. Qed.
Lemma slurp_suffix s : suffix (slurp s) s.
Proof. apply dropwhile_suffix. Qed.
Lemma span_ident_app s : forall a b, span_ident s = (a, b) -> s = a ++ b.
Proof.
  induction s as [|c r IH]; simpl; intros a b E; [inversion E; reflexivity|].
  destruct (ends_ident c); [inversion E; reflexivity|].
  destruct (span_ident r) as [a' b'] eqn:E'. inversion E; subst. simpl. f_equal. apply IH. reflexivity.
Qed.
Lemma span_ident_suffix s a b : span_ident s = (a, b) -> suffix b s.
Proof. intros E. exists a. apply span_ident_app. exact E. Qed.
Lemma drop_line_suffix s : suffix (drop_line s) s.
Proof. induction s as [|c r IH]; simpl; auto with sfx. destruct (c =? c_nl); auto with sfx. Qed.

Definition scan_suffix (s : text) (x : scanres) : Prop :=
  match x with ScClosed _ _ rest | ScField _ _ rest => suffix rest s | _ => True end.

Lemma scan_sfx fm rawp : forall n s cl named acc, (length s <= n)%nat -> scan_suffix s (scan fm rawp cl named acc s).
Proof.
  induction n as [|n IH]; intros s cl named acc L.
  { destruct s; [exact I|simpl in L; lia]. }
  destruct s as [|c r]; [exact I|]. simpl in L.
  assert (R1 : forall cl named acc, scan_suffix (c :: r) (scan fm rawp cl named acc r)).
  { intros. pose proof (IH r cl0 named0 acc0 ltac:(lia)) as H. destruct (scan fm rawp cl0 named0 acc0 r); simpl in *; auto with sfx. }
  assert (R2 : forall c2 r2 cl named acc, r = c2 :: r2 -> scan_suffix (c :: r) (scan fm rawp cl named acc r2)).
  { intros ? ? ? ? ? ->. simpl in L. pose proof (IH r2 cl0 named0 acc0 ltac:(lia)) as H.
    destruct (scan fm rawp cl0 named0 acc0 r2); simpl in *; auto with sfx. }
  cbn [scan]. destruct (closing_step cl c) as [cl'|k|]; [|simpl; auto with sfx|exact I].
  destruct fm; [|apply R1].
  destruct (c =? c_lbrace).
  - destruct (negb rawp && starts_with [c_lbrace; c_N; c_bslash] (c :: acc)); [apply R1|].
    destruct r as [|c2 r2]; [simpl; auto with sfx|]. destruct (c2 =? c_lbrace); [eapply R2; reflexivity|simpl; auto with sfx].
  - destruct (c =? c_rbrace); [|apply R1].
    destruct named; [apply R1|].
    destruct r as [|c2 r2]; [exact I|]. destruct (c2 =? c_rbrace); [eapply R2; reflexivity|exact I].
Qed.

Lemma read_delim_sfx : forall s acc, match read_delim acc s with DOk _ rest => suffix rest s | _ => True end.
Proof.
  induction s as [|c r IH]; intros acc; [exact I|]. cbn [read_delim].
  destruct (c =? c_lbrack); [auto with sfx|]. destruct (c =? c_rbrack); [exact I|].
  specialize (IH (c :: acc)). destruct (read_delim (c :: acc) r); simpl in *; auto with sfx.
Qed.

Definition sfx_res (s : text) (x : res) : Prop :=
  match x with RTry _ r | ROne _ r | RSeq _ r | RParts _ r => suffix r s | _ => True end.

Lemma sfx_res_trans s s' x : sfx_res s x -> suffix s s' -> sfx_res s' x.
Proof. destruct x; simpl; auto; intros; eapply suffix_trans; eauto. Qed.

Section P.
  Variable orc : oracles.
  Variable rec : mode -> text -> res.
  Hypothesis Hrec : forall md s, sfx_res s (rec md s).

  Ltac call md r := let H := fresh "H" in pose proof (Hrec md r) as H; destruct (rec md r); simpl in *; auto with sfx.

  Lemma string_lit_sfx prefix r : sfx_res r (string_lit orc rec prefix r).
  Proof.
    unfold string_lit. destruct (negb (prefix_ok prefix)); [exact I|].
    destruct (mem c_f prefix || mem c_t prefix).
    - call (MParts (ClQuote (mem c_r prefix) (mem c_b prefix) false) (mem c_r prefix) (negb (mem c_f prefix)) (length r) []) r.
    - pose proof (scan_sfx false (mem c_r prefix) _ r (ClQuote (mem c_r prefix) (mem c_b prefix) false) false [] (le_n _)) as H.
      destruct (scan false (mem c_r prefix) (ClQuote (mem c_r prefix) (mem c_b prefix) false) false [] r); simpl in *; auto.
      destruct (finish_chunk orc (mem c_r prefix) (mem c_b prefix) body); simpl; auto.
  Qed.

  Lemma bracket_lit_sfx r : sfx_res r (bracket_lit orc rec r).
  Proof.
    unfold bracket_lit. pose proof (read_delim_sfx r []) as H. destruct (read_delim [] r) as [d r1| |]; simpl; auto.
    set (r2 := match r1 with [] => r1 | c :: x => if c =? c_cr then x else r1 end).
    set (r3 := match r2 with [] => r2 | c :: x => if c =? c_nl then x else r2 end).
    assert (L2 : suffix r2 r1) by (unfold r2; destruct r1 as [|c x]; auto with sfx; destruct (c =? c_cr); auto with sfx).
    assert (L3 : suffix r3 r2) by (unfold r3; destruct r2 as [|c x]; auto with sfx; destruct (c =? c_nl); auto with sfx).
    assert (L : suffix r3 r) by (eapply suffix_trans; [exact L3|]; eapply suffix_trans; eauto).
    clearbody r3 r2.
    destruct (is_f_delim d).
    - pose proof (Hrec (MParts (ClDelim d None) true false (length r3) []) r3) as H0.
      destruct (rec (MParts (ClDelim d None) true false (length r3) []) r3); simpl in *; auto; try (eapply suffix_trans; eauto).
      destruct (existsb _ _); simpl; auto. eapply suffix_trans; eauto.
    - pose proof (scan_sfx false true _ r3 (ClDelim d None) false [] (le_n _)) as H0.
      destruct (scan false true (ClDelim d None) false [] r3); simpl in *; auto.
      repeat (match goal with |- context [match ?x with _ => _ end] => destruct x end; simpl in *; auto).
      eapply suffix_trans; eauto.
  Qed.

  Lemma run_basic_sfx h r : sfx_res r (run_basic orc rec h r).
  Proof.
    destruct h; cbn [run_basic]; try exact I.
    - cbn [sfx_res]. apply drop_line_suffix.
    - destruct (span_ident r) as [id r'] eqn:E. apply span_ident_suffix in E. destruct (mem ch_dot id); cbn [sfx_res]; auto.
    - apply string_lit_sfx.
    - call MOne r.
    - destruct r as [|c2 r2]; [call MOne (@nil N)|]. destruct (c2 =? ch); [|call MOne (c2 :: r2)].
      pose proof (Hrec MOne r2) as H; destruct (rec MOne r2); simpl in *; auto with sfx.
    - call (MSeq (Some closer) []) r.
    - call MOne r.
    - pose proof (Hrec MOne r) as H. destruct (rec MOne r) as [| a r' | | | | | |]; simpl in *; auto.
      pose proof (Hrec MOne r') as H2. destruct (rec MOne r'); simpl in *; auto; eapply suffix_trans; eauto.
    - apply bracket_lit_sfx.
  Qed.

  Lemma dispatch_sfx r : sfx_res r (dispatch orc rec r).
  Proof.
    unfold dispatch. destruct r as [|c2 r2]; [exact I|]. destruct (pyspace orc c2); [exact I|].
    destruct (span_ident (c2 :: r2)) as [id0 r0] eqn:E. apply span_ident_suffix in E.
    destruct id0; (destruct (lookup _ reader_table); [|exact I]);
      (eapply sfx_res_trans; [apply run_basic_sfx|auto with sfx]).
  Qed.

  Lemma read_default_sfx c r : sfx_res r (read_default orc rec c r).
  Proof.
    unfold read_default. destruct (span_ident r) as [id0 r'] eqn:E. apply span_ident_suffix in E.
    assert (X : sfx_res r (ident_res orc (c :: id0) r')) by (unfold ident_res; destruct (as_identifier orc (c :: id0)); simpl; auto).
    destruct r' as [|c2 r2]; [exact X|]. destruct (c2 =? c_dq); [|exact X].
    eapply sfx_res_trans; [apply string_lit_sfx|]. eapply suffix_trans; [apply suffix_tl|exact E].
  Qed.

  Lemma convert_sfx s x : sfx_res s x -> sfx_res s (convert x).
  Proof.
    destruct x as [| | | | | |e|]; try (intros H; exact H); intros _; unfold convert, convert_with;
      match goal with |- context [first_handler ?m ?h] => destruct (first_handler m h) as [[|]|] end; exact I.
  Qed.

  Lemma try_body_sfx s : sfx_res s (try_body orc rec s).
  Proof.
    unfold try_body. pose proof (slurp_suffix s) as L. destruct (slurp s) as [|c r]; [apply convert_sfx; exact I|].
    set (body := match lookup [c] reader_table with
                 | Some HDispatch => dispatch orc rec r
                 | Some h => run_basic orc rec h r
                 | None => read_default orc rec c r end).
    assert (B : sfx_res r body).
    { unfold body. destruct (lookup [c] reader_table) as [h|]; [|apply read_default_sfx].
      destruct h; try apply run_basic_sfx. apply dispatch_sfx. }
    apply convert_sfx in B.
    assert (Lr : suffix r s) by (eapply suffix_trans; [apply suffix_tl|exact L]).
    destruct (convert body) as [[m|] rest| | | | | | |]; simpl in *; auto; eapply suffix_trans; eauto.
  Qed.

  Lemma one_body_sfx s : sfx_res s (one_body rec s).
  Proof.
    unfold one_body. pose proof (Hrec MTry s) as H. destruct (rec MTry s) as [[m|] r| | | | | | |]; simpl in *; auto.
    pose proof (Hrec MOne r) as H2. destruct (rec MOne r); simpl in *; auto; eapply suffix_trans; eauto.
  Qed.

  Lemma seq_body_sfx closer acc s : sfx_res s (seq_body rec closer acc s).
  Proof.
    unfold seq_body. pose proof (slurp_suffix s) as L.
    destruct (at_closer closer (slurp s)).
    { simpl. destruct (slurp s); simpl in *; auto with sfx. eapply suffix_trans; [apply suffix_tl|exact L]. }
    pose proof (Hrec MTry (slurp s)) as H. destruct (rec MTry (slurp s)) as [[m|] r| | | | | | |]; simpl in *; auto;
      try (eapply suffix_trans; eauto).
    - pose proof (Hrec (MSeq closer (m :: acc)) r) as H2. destruct (rec (MSeq closer (m :: acc)) r); simpl in *; auto;
        (eapply suffix_trans; [eassumption|]; eapply suffix_trans; eauto).
    - pose proof (Hrec (MSeq closer acc) r) as H2. destruct (rec (MSeq closer acc) r); simpl in *; auto;
        (eapply suffix_trans; [eassumption|]; eapply suffix_trans; eauto).
  Qed.

  Lemma parts_body_sfx cl rawp tmode start acc s : sfx_res s (parts_body orc rec cl rawp tmode start acc s).
  Proof.
    unfold parts_body. pose proof (scan_sfx true rawp _ s cl false [] (le_n _)) as H.
    destruct (scan true rawp cl false [] s) as [body cl' rest|body cl' rest| | |]; simpl in *; auto.
    - destruct (finish_chunk orc rawp false body); simpl; auto.
    - destruct (finish_chunk orc rawp false body); simpl; auto.
      pose proof (Hrec (MField rawp tmode) rest) as H1. destruct (rec (MField rawp tmode) rest) as [| | |fs rest'| | | |]; simpl in *; auto;
        try (eapply suffix_trans; eauto).
      match goal with |- sfx_res _ (rec ?m ?r) => pose proof (Hrec m r) as H2; destruct (rec m r); simpl in *; auto;
        (eapply suffix_trans; [eassumption|]; eapply suffix_trans; eauto) end.
  Qed.

  Lemma field_after_sfx rawp tmode dbg start values m ft conv s6 :
    sfx_res s6 (field_after orc rec rawp tmode dbg start values m ft conv s6).
  Proof.
    unfold field_after. pose proof (slurp_suffix s6) as L7. destruct (slurp s6) as [|c r]; [exact I|].
    assert (Lr : suffix r s6) by (eapply suffix_trans; [apply suffix_tl|exact L7]).
    destruct (c =? c_colon).
    - pose proof (Hrec (MParts ClBrace rawp false (length r) []) r) as H3.
      destruct (rec (MParts ClBrace rawp false (length r) []) r); simpl in *; auto; eapply suffix_trans; eauto.
    - destruct (c =? c_rbrace); simpl; auto.
  Qed.

  Lemma field_body_sfx rawp tmode s : sfx_res s (field_body orc rec rawp tmode s).
  Proof.
    unfold field_body. pose proof (slurp_suffix s) as L.
    pose proof (Hrec MOne (slurp s)) as H. destruct (rec MOne (slurp s)) as [|m s2| | | | | |]; simpl in H |- *; auto;
      try (eapply suffix_trans; eauto).
    assert (L2 : suffix s2 s) by (eapply suffix_trans; eauto).
    pose proof (slurp_suffix s2) as L3.
    set (dbg := match slurp s2 with [] => false | c :: _ => c =? c_eq end).
    set (s5 := if dbg then slurp (tl (slurp s2)) else slurp s2).
    assert (L5 : suffix s5 s).
    { unfold s5. destruct dbg; [|eapply suffix_trans; eauto].
      eapply suffix_trans; [apply slurp_suffix|]. eapply suffix_trans; [|eapply suffix_trans; [exact L3|exact L2]].
      destruct (slurp s2); simpl; auto with sfx. }
    clearbody s5 dbg.
    assert (A : forall values ft conv s6, suffix s6 s ->
                sfx_res s (field_after orc rec rawp tmode dbg (length s) values m ft conv s6)).
    { intros. eapply sfx_res_trans; [apply field_after_sfx|assumption]. }
    destruct s5 as [|c r]; [apply A; exact L5|].
    destruct (c =? c_bang); [|apply A; exact L5].
    destruct r as [|c2 r2]; [exact I|]. apply A.
    eapply suffix_trans; [|exact L5]. exists [c; c2]. reflexivity.
  Qed.
End P.

Theorem rd_suffix orc : forall f md s, sfx_res s (rd orc f md s).
Proof.
  induction f as [|f IH]; intros md s; [exact I|].
  destruct md; cbn [rd].
  - apply try_body_sfx; exact IH.
  - apply one_body_sfx; exact IH.
  - apply seq_body_sfx; exact IH.
  - apply parts_body_sfx; exact IH.
  - apply field_body_sfx; exact IH.
Qed.
