(* Reader family, C19: reading a partial tree reports a premature end of input exactly when the
   cut leaves a construct open; otherwise the forms completed so far are returned.  Mutual induction
   over partial trees, reusing the separator/item lemmas of the C20 round trip. *)
From HyV Require Import Base.Text Reader.Syntax Gen.ReaderTables Reader.Model Reader.Progress Reader.Mono Reader.Shape Reader.Suffix Reader.Extend Reader.Concat Reader.Cst Reader.Steps Reader.Roundtrip Reader.Partial.
From Coq Require Import Lia.

Lemma convert_prem_eq : convert RPrem = RPrem.
Proof. reflexivity. Qed.

Section TR.
  Variable orc : oracles.
  Hypothesis Hok : orc_ok orc.
  Let Hp := ok_plain orc Hok.

  Lemma try_nil f : rd orc (S f) MTry [] = RPrem.
  Proof. reflexivity. Qed.
  Lemma one_prem f u : rd orc f MTry u = RPrem -> rd orc (S f) MOne u = RPrem.
  Proof. intros E. rewrite one_eq, E. reflexivity. Qed.
  Lemma seq_prem f closer acc u : at_closer closer (slurp u) = false -> rd orc f MTry u = RPrem ->
    rd orc (S f) (MSeq closer acc) u = RPrem.
  Proof. intros A E. rewrite seq_eq. cbv zeta. rewrite A, try_slurp, E. reflexivity. Qed.

  Lemma try_comment_eof f body : has_nl body = false -> rd orc (S f) MTry (c_semi :: body) = RTry None [].
  Proof.
    intros H. cbn [rd]. unfold try_body.
    change (slurp (c_semi :: body)) with (c_semi :: body). cbv beta iota. rewrite lk_0. cbn [run_basic].
    rewrite (drop_line_nonl body H). reflexivity.
  Qed.
  Lemma try_hash : rd orc 1 MTry [c_hash] = RPrem.
  Proof. reflexivity. Qed.

  Lemma try_wrap_prem f w r :
    match w with
    | WUnquote => match r with d :: _ => d =? c_at | [] => false end = false
    | WStar | WStarStar => ends_opt (hd_opt r) = true
    | _ => True
    end ->
    rd orc f MOne r = RPrem -> rd orc (S f) MTry (wrap_key w ++ r) = RPrem.
  Proof.
    intros C E. cbn [rd]. unfold try_body. destruct w; cbn [wrap_key app].
    - change (slurp (c_quote :: r)) with (c_quote :: r). cbv beta iota. rewrite lk_1. cbn [run_basic]. rewrite E. reflexivity.
    - change (slurp (c_bquote :: r)) with (c_bquote :: r). cbv beta iota. rewrite lk_2. cbn [run_basic]. rewrite E. reflexivity.
    - change (slurp (c_tilde :: r)) with (c_tilde :: r). cbv beta iota. rewrite lk_3. cbn [run_basic]. destruct r as [|d q].
      + rewrite E. reflexivity.
      + rewrite C. rewrite E. reflexivity.
    - change (slurp (c_tilde :: c_at :: r)) with (c_tilde :: c_at :: r). cbv beta iota. rewrite lk_3. cbn [run_basic].
      change (c_at =? c_at) with true. cbv iota. rewrite E. reflexivity.
    - change (slurp (c_hash :: c_star :: r)) with (c_hash :: c_star :: r). cbv beta iota. rewrite lk_4. cbv iota. unfold dispatch.
      rewrite (ok_space orc Hok c_star) by (simpl; intuition reflexivity).
      rewrite (span_tag c_star r eq_refl C). rewrite lk_5. cbn [run_basic]. rewrite E. reflexivity.
    - change (slurp (c_hash :: c_star :: c_star :: r)) with (c_hash :: c_star :: c_star :: r). cbv beta iota. rewrite lk_4. cbv iota. unfold dispatch.
      rewrite (ok_space orc Hok c_star) by (simpl; intuition reflexivity).
      assert (Sp : span_ident (c_star :: c_star :: r) = ([c_star; c_star], r)).
      { change (span_ident (c_star :: c_star :: r)) with (let '(a, b) := span_ident (c_star :: r) in (c_star :: a, b)).
        rewrite (span_tag c_star r eq_refl C). reflexivity. }
      rewrite Sp. rewrite lk_6. cbn [run_basic]. rewrite E. reflexivity.
  Qed.

  Lemma try_ann_prem1 f r : ends_opt (hd_opt r) = true -> rd orc f MOne r = RPrem -> rd orc (S f) MTry (ann_key ++ r) = RPrem.
  Proof.
    intros C E. cbn [rd]. unfold try_body. cbn [ann_key app].
    change (slurp (c_hash :: c_caret :: r)) with (c_hash :: c_caret :: r). cbv beta iota. rewrite lk_4. cbv iota. unfold dispatch.
    rewrite (ok_space orc Hok c_caret) by (simpl; intuition reflexivity).
    rewrite (span_tag c_caret r eq_refl C). rewrite lk_7. cbn [run_basic]. rewrite E. reflexivity.
  Qed.
  Lemma try_ann_prem2 f r a r' : ends_opt (hd_opt r) = true -> rd orc f MOne r = ROne a r' -> rd orc f MOne r' = RPrem ->
    rd orc (S f) MTry (ann_key ++ r) = RPrem.
  Proof.
    intros C E1 E2. cbn [rd]. unfold try_body. cbn [ann_key app].
    change (slurp (c_hash :: c_caret :: r)) with (c_hash :: c_caret :: r). cbv beta iota. rewrite lk_4. cbv iota. unfold dispatch.
    rewrite (ok_space orc Hok c_caret) by (simpl; intuition reflexivity).
    rewrite (span_tag c_caret r eq_refl C). rewrite lk_7. cbn [run_basic]. rewrite E1, E2. reflexivity.
  Qed.
  Lemma try_discard_prem f r : ends_opt (hd_opt r) = true -> rd orc f MOne r = RPrem -> rd orc (S f) MTry (dis_key ++ r) = RPrem.
  Proof.
    intros C E. cbn [rd]. unfold try_body. cbn [dis_key app].
    change (slurp (c_hash :: c_us :: r)) with (c_hash :: c_us :: r). cbv beta iota. rewrite lk_4. cbv iota. unfold dispatch.
    rewrite (ok_space orc Hok c_us) by (simpl; intuition reflexivity).
    rewrite (span_tag c_us r eq_refl C). rewrite lk_8. cbn [run_basic]. rewrite E. reflexivity.
  Qed.
  Lemma try_seq_prem f k r : rd orc f (MSeq (Some (seq_close k)) []) r = RPrem -> rd orc (S f) MTry (seq_open k ++ r) = RPrem.
  Proof.
    intros E. cbn [rd]. unfold try_body. destruct k; cbn [seq_open seq_close app] in *.
    - change (slurp (c_lp :: r)) with (c_lp :: r). cbv beta iota. rewrite lk_9. cbn [run_basic]. rewrite E. reflexivity.
    - change (slurp (c_lbrack :: r)) with (c_lbrack :: r). cbv beta iota. rewrite lk_10. cbn [run_basic]. rewrite E. reflexivity.
    - change (slurp (c_lbrace :: r)) with (c_lbrace :: r). cbv beta iota. rewrite lk_11. cbn [run_basic]. rewrite E. reflexivity.
    - change (slurp (c_hash :: c_lbrace :: r)) with (c_hash :: c_lbrace :: r). cbv beta iota. rewrite lk_4. cbv iota. unfold dispatch.
      rewrite (ok_space orc Hok c_lbrace) by (simpl; intuition reflexivity).
      change (span_ident (c_lbrace :: r)) with (@nil N, c_lbrace :: r). cbv beta iota zeta. rewrite lk_12. cbn [run_basic]. rewrite E. reflexivity.
    - change (slurp (c_hash :: c_lp :: r)) with (c_hash :: c_lp :: r). cbv beta iota. rewrite lk_4. cbv iota. unfold dispatch.
      rewrite (ok_space orc Hok c_lp) by (simpl; intuition reflexivity).
      change (span_ident (c_lp :: r)) with (@nil N, c_lp :: r). cbv beta iota zeta. rewrite lk_13. cbn [run_basic]. rewrite E. reflexivity.
  Qed.

  (* ---- f-strings: a literal part without braces, then a replacement field ---- *)
  Lemma plain_no_named l : forallb plain_char l = true -> starts_with [c_lbrace; c_N; c_bslash] (c_lbrace :: l) = false.
  Proof.
    intros H. destruct (starts_with [c_lbrace; c_N; c_bslash] (c_lbrace :: l)) eqn:E; [|reflexivity].
    apply starts_with_spec in E as [r Hr]. inversion Hr; subst. vm_compute in H. discriminate H.
  Qed.
  Lemma plain_step c : plain_char c = true ->
    closing_step (ClQuote false false false) c = CsCont (ClQuote false false false) /\ (c =? c_lbrace) = false /\ (c =? c_rbrace) = false.
  Proof.
    unfold plain_char. intros H. apply negb_true_iff in H. apply orb_false_elim in H as [H H4]. apply orb_false_elim in H as [H H3].
    apply orb_false_elim in H as [H1 H2]. unfold closing_step. rewrite H3, H4. simpl. auto.
  Qed.
  Lemma scan_plain : forall lit acc r, forallb plain_char lit = true -> forallb plain_char acc = true ->
    match r with d :: _ => d =? c_lbrace | [] => false end = false ->
    scan true false (ClQuote false false false) false acc (lit ++ c_lbrace :: r) = ScField (rev acc ++ lit) (ClQuote false false false) r.
  Proof.
    induction lit as [|c lit IH]; intros acc r Hl Ha Hr.
    - cbn [app scan]. change (closing_step (ClQuote false false false) c_lbrace) with (CsCont (ClQuote false false false)).
      cbv iota. change (c_lbrace =? c_lbrace) with true. cbv iota. change (negb false) with true.
      rewrite (plain_no_named acc Ha). cbn [andb]. rewrite app_nil_r.
      destruct r as [|d q]; [reflexivity|]. rewrite Hr. reflexivity.
    - simpl in Hl. apply andb_prop in Hl as [Hc Hl]. destruct (plain_step c Hc) as [S1 [S2 S3]].
      cbn [app scan]. rewrite S1, S2, S3. rewrite (IH (c :: acc) r Hl); [|simpl; rewrite Hc; exact Ha|exact Hr].
      simpl. rewrite <- app_assoc. reflexivity.
  Qed.

  Lemma lk_f : lookup [c_f] reader_table = None.
  Proof. reflexivity. Qed.
  Lemma try_fstring_prem f r2 :
    rd orc f (MParts (ClQuote false false false) false false (length r2) []) r2 = RPrem ->
    rd orc (S f) MTry (fopen ++ r2) = RPrem.
  Proof.
    intros E. cbn [rd]. unfold try_body. cbn [fopen app].
    change (slurp (c_f :: c_dq :: r2)) with (c_f :: c_dq :: r2). cbv beta iota. rewrite lk_f.
    unfold read_default. change (span_ident (c_dq :: r2)) with (@nil N, c_dq :: r2). cbv beta iota zeta.
    change (c_dq =? c_dq) with true. cbv iota. unfold string_lit.
    change (negb (prefix_ok [c_f])) with false. cbv iota.
    change (mem c_f [c_f] || mem c_t [c_f]) with true. cbv iota.
    change (mem c_r [c_f]) with false. change (mem c_b [c_f]) with false. change (negb (mem c_f [c_f])) with false.
    rewrite E. reflexivity.
  Qed.
  Lemma parts_field_prem f lit r :
    forallb plain_char lit = true -> match r with d :: _ => d =? c_lbrace | [] => false end = false ->
    match decode orc false (norm_nl false lit) with Some _ => true | None => false end = true ->
    rd orc f (MField false false) r = RPrem ->
    forall st acc, rd orc (S f) (MParts (ClQuote false false false) false false st acc) (lit ++ c_lbrace :: r) = RPrem.
  Proof.
    intros Hl Hr Hd E st acc. cbn [rd]. unfold parts_body. cbv zeta. rewrite (scan_plain lit [] r Hl eq_refl Hr). cbn [rev app].
    unfold finish_chunk. cbn [andb]. destruct (decode orc false (norm_nl false lit)); [|discriminate]. rewrite E. reflexivity.
  Qed.

  Lemma one_slurp f u : rd orc f MOne (slurp u) = rd orc f MOne u.
  Proof. destruct f; [reflexivity|]. rewrite !one_eq, try_slurp. reflexivity. Qed.
  Lemma field_prem_before f rawp tmode u : rd orc f MOne u = RPrem -> rd orc (S f) (MField rawp tmode) u = RPrem.
  Proof. intros E. cbn [rd]. unfold field_body. cbv zeta. rewrite one_slurp, E. reflexivity. Qed.

  Lemma all_ws_slurp w : all_ws w = true -> slurp w = [].
  Proof. unfold slurp. induction w as [|c r IH]; simpl; [reflexivity|]. intros H. apply andb_prop in H as [H1 H2]. rewrite H1. auto. Qed.
  Lemma conv_part_prem rawp tmode dbg st values m ft t : conv_part t = true ->
    match t with
    | c :: r => if c =? c_bang then match r with
                  | c2 :: r2 => field_after orc (rd orc 0) rawp tmode dbg st values m ft (Some c2) r2
                  | [] => RPrem end
                else field_after orc (rd orc 0) rawp tmode dbg st values m ft None t
    | [] => field_after orc (rd orc 0) rawp tmode dbg st values m ft None t
    end = RPrem.
  Proof.
    destruct t as [|c r]; [reflexivity|]. simpl. intros H. apply andb_prop in H as [H1 H2]. rewrite H1.
    destruct r as [|c2 w]; [reflexivity|]. unfold field_after. rewrite (all_ws_slurp w H2). reflexivity.
  Qed.
  (* field_after only calls rec when it sees a colon; the cases above never do, so any rec will do *)
  Lemma conv_part_prem_rec rec rawp tmode dbg st values m ft t : conv_part t = true ->
    match t with
    | c :: r => if c =? c_bang then match r with
                  | c2 :: r2 => field_after orc rec rawp tmode dbg st values m ft (Some c2) r2
                  | [] => RPrem end
                else field_after orc rec rawp tmode dbg st values m ft None t
    | [] => field_after orc rec rawp tmode dbg st values m ft None t
    end = RPrem.
  Proof.
    destruct t as [|c r]; [reflexivity|]. simpl. intros H. apply andb_prop in H as [H1 H2]. rewrite H1.
    destruct r as [|c2 w]; [reflexivity|]. unfold field_after. rewrite (all_ws_slurp w H2). reflexivity.
  Qed.
  Lemma field_prem_after f rawp tmode u m tl : rd orc f MOne u = ROne m tl -> fhead tl = true ->
    rd orc (S f) (MField rawp tmode) u = RPrem.
  Proof.
    intros E H. cbn [rd]. unfold field_body. cbv zeta. rewrite one_slurp, E. unfold fhead in H. cbv zeta in H.
    destruct (slurp tl) as [|c r] eqn:Es.
    - reflexivity.
    - destruct (c =? c_eq) eqn:Eq.
      + assert (Hc : conv_part (slurp r) = true).
        { apply orb_prop in H as [H|H]; [|exact H]. simpl in H. apply andb_prop in H as [H _].
          apply N.eqb_eq in Eq. subst c. discriminate H. }
        cbn [List.tl]. apply conv_part_prem_rec. exact Hc.
      + simpl in H. rewrite orb_false_r in H.
        exact (conv_part_prem_rec (rd orc f) rawp tmode false (length u) [] m _ (c :: r) H).
  Qed.

  (* the three contexts in which a cut text is read *)
  Definition ctx_one (u : text) : Prop := exists n, rd orc n MOne u = RPrem.
  Definition ctx_seq (u : text) : Prop := forall k acc, exists n, rd orc n (MSeq (Some (seq_close k)) acc) u = RPrem.
  Definition ctx_top (u : text) (open : bool) : Prop :=
    forall acc, exists n, rd orc n (MSeq None acc) u = if open then RPrem else RSeq (rev acc) [].
  Definition ctx (u : text) (open : bool) : Prop := ctx_one u /\ ctx_seq u /\ ctx_top u open.

  Lemma open_ctx u : (exists n, rd orc n MTry u = RPrem) ->
    (forall closer, closer_ok closer -> at_closer closer (slurp u) = false) -> ctx u true.
  Proof.
    intros [n E] A. split; [|split].
    - exists (S n). apply one_prem; exact E.
    - intros k acc. exists (S n). apply seq_prem; [apply A; right; exists k; reflexivity|exact E].
    - intros acc. exists (S n). apply seq_prem; [apply A; left; reflexivity|exact E].
  Qed.

  Lemma closed_ctx_nil : ctx [] false.
  Proof.
    split; [|split].
    - exists 2%nat. reflexivity.
    - intros k acc. exists 2%nat. rewrite seq_eq. cbv zeta. cbn [slurp dropwhile at_closer]. rewrite try_nil. reflexivity.
    - intros acc. exists 1%nat. reflexivity.
  Qed.
  Lemma closed_ctx_comment body : has_nl body = false -> ctx (c_semi :: body) false.
  Proof.
    intros H. destruct closed_ctx_nil as [A [B C]]. split; [|split].
    - eapply one_skip; [exists 1%nat; apply try_comment_eof; exact H|exact A|discriminate].
    - intros k acc. eapply seq_skip; [apply at_closer_first; [right; exists k; reflexivity|auto]
                                     |exists 1%nat; apply try_comment_eof; exact H|apply B|discriminate].
    - intros acc. eapply seq_skip; [reflexivity|exists 1%nat; apply try_comment_eof; exact H|apply C|discriminate].
  Qed.

  Definition PT (t : ptail) : Prop := pwf_tail orc t = true -> ctx (render_ptail t) (tail_open t).
  Definition PE (pe : pend) : Prop := pwf_pend orc pe = true -> ctx (render_pend pe) (pend_open pe).
  Definition PC (pc : pcst) : Prop := pwf orc pc = true -> exists n, rd orc n MTry (render_p pc) = RPrem.

  Lemma first_not_closer c q : is_ws c = false -> (forall k, (c =? seq_close k) = false) ->
    forall closer, closer_ok closer -> at_closer closer (slurp (c :: q)) = false.
  Proof.
    intros W H closer [->|[k ->]]; unfold slurp; simpl; rewrite W; [reflexivity|]. simpl. apply H.
  Qed.

  Lemma closer_lex f k q : rd orc (S f) MTry (seq_close k :: q) = RLex.
  Proof.
    cbn [rd]. unfold try_body. destruct k; cbn [seq_close].
    - change (slurp (c_rp :: q)) with (c_rp :: q). cbv beta iota. pose proof (lk_invalid KExpr) as L; cbn [seq_close] in L; rewrite L. reflexivity.
    - change (slurp (c_rbrack :: q)) with (c_rbrack :: q). cbv beta iota. pose proof (lk_invalid KList) as L; cbn [seq_close] in L; rewrite L. reflexivity.
    - change (slurp (c_rbrace :: q)) with (c_rbrace :: q). cbv beta iota. pose proof (lk_invalid KDict) as L; cbn [seq_close] in L; rewrite L. reflexivity.
    - change (slurp (c_rbrace :: q)) with (c_rbrace :: q). cbv beta iota. pose proof (lk_invalid KDict) as L; cbn [seq_close] in L; rewrite L. reflexivity.
    - change (slurp (c_rp :: q)) with (c_rp :: q). cbv beta iota. pose proof (lk_invalid KExpr) as L; cbn [seq_close] in L; rewrite L. reflexivity.
  Qed.

  Lemma leaf_not_closer p : leaf_open orc p = true ->
    forall closer, closer_ok closer -> at_closer closer (slurp p) = false.
  Proof.
    unfold leaf_open. intros H closer C. apply andb_prop in H as [H1 H2]. destruct p as [|c q]; [discriminate|].
    apply negb_true_iff in H1. destruct C as [->|[k ->]]; unfold slurp; simpl; rewrite H1; [reflexivity|]. simpl.
    destruct (c =? seq_close k) eqn:E; [|reflexivity]. apply N.eqb_eq in E. subst c. exfalso.
    rewrite closer_lex in H2. discriminate.
  Qed.

  Theorem truncation_all : (forall t, PT t) /\ (forall pe, PE pe) /\ (forall pc, PC pc).
  Proof.
    destruct (roundtrip_all orc Hok) as (HP & HQ & HR).
    apply ptail_pend_pcst_ind; unfold PT, PE, PC.
    - intros _. apply closed_ctx_nil.
    - intros body W. cbn [pwf_tail] in W. apply negb_true_iff in W. apply closed_ctx_comment. exact W.
    - intros _. apply open_ctx; [exists 1%nat; apply try_hash|]. apply first_not_closer; [reflexivity|destruct k; reflexivity].
    - intros pe IH W. cbn [pwf_tail] in W. apply andb_prop in W as [W1 W2]. destruct (IH W2) as [[n E] _].
      cbn [render_ptail tail_open]. apply open_ctx.
      + exists (S n). apply try_discard_prem; assumption.
      + apply first_not_closer; [reflexivity|destruct k; reflexivity].
    - intros p W. cbn [pwf_tail render_ptail tail_open] in *. apply open_ctx; [|apply leaf_not_closer; exact W].
      unfold leaf_open in W. apply andb_prop in W as [_ W]. exists 1%nat. destruct (rd orc 1 MTry p); try discriminate W. reflexivity.
    - intros pc IH W. cbn [pwf_tail render_ptail tail_open] in *. apply open_ctx; [apply IH; exact W|].
      destruct pc as [k its pe|w pe|pe|s1 c1 pe]; cbn [render_p].
      + destruct k; apply first_not_closer; try reflexivity; destruct k; reflexivity.
      + destruct w; apply first_not_closer; try reflexivity; destruct k; reflexivity.
      + apply first_not_closer; [reflexivity|destruct k; reflexivity].
      + apply first_not_closer; [reflexivity|destruct k; reflexivity].
    - (* inside a replacement field, its form not complete *)
      intros lit pe IH W. cbn [pwf_tail] in W. apply andb_prop in W as [W W4]. apply andb_prop in W as [W W3]. apply andb_prop in W as [W1 W2].
      apply negb_true_iff in W2. destruct (IH W4) as [[n E] _]. cbn [render_ptail tail_open]. apply open_ctx.
      + exists (S (S (S n))). apply try_fstring_prem. apply parts_field_prem; auto. apply field_prem_before. exact E.
      + apply first_not_closer; [reflexivity|destruct k; reflexivity].
    - (* inside a replacement field, after its form *)
      intros lit s c tl W. cbn [pwf_tail] in W.
      apply andb_prop in W as [W W6]. apply andb_prop in W as [W W5]. apply andb_prop in W as [W W4].
      apply andb_prop in W as [W W3]. apply andb_prop in W as [W1 W2]. apply negb_true_iff in W2.
      cbn [render_ptail tail_open]. apply open_ctx; [|apply first_not_closer; [reflexivity|destruct k; reflexivity]].
      destruct (HP c _ W5 tl eq_refl) as [n3 E3].
      destruct (HR s _ W4 (render c ++ tl)) as [_ S1].
      { rewrite hd_opt_app. destruct (render c) eqn:Er; [exfalso; exact (render_nonempty orc c _ W5 Er)|reflexivity]. }
      destruct (S1 _ (one_of_try orc _ _ _ (ex_intro _ n3 E3)) ltac:(discriminate)) as [n2 E2].
      exists (S (S (S n2))). apply try_fstring_prem.
      replace (render_sep s ++ render c ++ tl) with ((render_sep s ++ render c) ++ tl) in * by (rewrite <- app_assoc; reflexivity).
      apply parts_field_prem; auto.
      { destruct (inner_nonempty orc s c _ tl W5) as (d & q & Ei & Ej). rewrite Ei in W2 |- *. exact W2. }
      eapply field_prem_after; [|exact W6]. exact E2.
    - (* a complete separator, then the tail *)
      intros s t IH W. cbn [pwf_pend] in W. apply andb_prop in W as [W1 W2]. destruct (IH W2) as [A [B C]].
      cbn [render_pend pend_open]. destruct (HR s _ W1 (render_ptail t) eq_refl) as [S1 S2]. split; [|split].
      + destruct A as [n E]. apply (S2 RPrem); [exists n; exact E|discriminate].
      + intros k acc. apply (S1 (Some (seq_close k)) acc RPrem); [right; exists k; reflexivity|apply B|discriminate].
      + intros acc. apply (S1 None acc); [left; reflexivity|apply C|destruct (tail_open t); discriminate].
    - (* inside a sequence *)
      intros k its pe IH W. cbn [pwf] in W. apply andb_prop in W as [W1 W2]. destruct (IH W2) as [_ [B _]].
      cbn [render_p].
      destruct (HQ its _ W1 (Some (seq_close k)) [] (render_pend pe) RPrem eq_refl (or_intror (ex_intro _ k eq_refl))
                  (B k _) ltac:(discriminate)) as [n E].
      exists (S n). apply try_seq_prem. exact E.
    - (* after a sugar prefix *)
      intros w pe IH W. cbn [pwf] in W. apply andb_prop in W as [W1 W2]. destruct (IH W2) as [[n E] _].
      cbn [render_p]. exists (S n). apply try_wrap_prem; [|exact E].
      destruct w; auto. apply negb_true_iff in W1. exact W1.
    - intros pe IH W. cbn [pwf] in W. apply andb_prop in W as [W1 W2]. destruct (IH W2) as [[n E] _].
      cbn [render_p]. exists (S n). apply try_ann_prem1; assumption.
    - intros s1 c1 pe IH W. cbn [pwf] in W.
      apply andb_prop in W as [W W4]. apply andb_prop in W as [W W3]. apply andb_prop in W as [W1 W2].
      destruct (IH W4) as [[n4 E4] _]. cbn [render_p].
      destruct (HP c1 _ W3 (render_pend pe) eq_refl) as [n3 E3].
      destruct (HR s1 _ W2 (render c1 ++ render_pend pe)) as [_ S1].
      { rewrite hd_opt_app. destruct (render c1) eqn:Er; [exfalso; exact (render_nonempty orc c1 _ W3 Er)|reflexivity]. }
      destruct (S1 _ (one_of_try orc _ _ _ (ex_intro _ n3 E3)) ltac:(discriminate)) as [n2 E2].
      exists (S (max n2 n4)). eapply try_ann_prem2.
      + destruct (inner_nonempty orc s1 c1 _ (render_pend pe) W3) as (d & q & Ei & Ej). rewrite Ej. rewrite Ei in W1. exact W1.
      + rewrite (rd_ge orc n2 (max n2 n4)) by (try lia; rewrite E2; discriminate). exact E2.
      + rewrite (rd_ge orc n4 (max n2 n4)) by (try lia; rewrite E4; discriminate). exact E4.
  Qed.

  (* C19: a printed program cut anywhere a partial tree describes: inside an unclosed construct the
     reader reports a premature end, between top-level forms (or inside a top-level comment) it
     returns the forms completed so far *)
  Theorem truncation_premature its pe :
    wf_items orc its (fst_of (render_pend pe) None) = true -> pwf_pend orc pe = true ->
    read_many orc (render_items its ++ render_pend pe) = if pend_open pe then Premature else Ok (erase_items orc its).
  Proof.
    intros W1 W2. destruct truncation_all as (_ & HE & _). destruct (HE pe W2) as [_ [_ C]].
    destruct (roundtrip_all orc Hok) as (_ & HQ & _).
    destruct (HQ its _ W1 None [] (render_pend pe) _ eq_refl (or_introl eq_refl) (C _)) as [n E].
    { destruct (pend_open pe); discriminate. }
    unfold read_many.
    assert (N : rd orc (read_fuel (render_items its ++ render_pend pe)) (MSeq None []) (render_items its ++ render_pend pe) <> ROut).
    { destruct (rd_good orc (read_fuel (render_items its ++ render_pend pe)) (MSeq None []) (render_items its ++ render_pend pe)) as [_ H].
      apply H. unfold need, read_fuel. simpl. lia. }
    assert (X : rd orc (read_fuel (render_items its ++ render_pend pe)) (MSeq None []) (render_items its ++ render_pend pe)
                = rd orc n (MSeq None []) (render_items its ++ render_pend pe)).
    { destruct (Nat.le_ge_cases n (read_fuel (render_items its ++ render_pend pe))) as [L|L].
      - apply rd_ge; [rewrite E; destruct (pend_open pe); discriminate|exact L].
      - symmetry. apply rd_ge; assumption. }
    rewrite X, E. destruct (pend_open pe); [reflexivity|]. rewrite app_nil_r, rev_involutive. reflexivity.
  Qed.
End TR.
