(* Reader family: the position-free reader (about which C19/C20 are proved) is the positioned
   reader (which the correspondence runs against hy.read_many) with its annotations erased. *)
From HyV Require Import Base.Text Reader.Syntax Gen.ReaderTables Reader.Model Reader.Progress Reader.Mono Reader.Shape.
From Coq Require Import Lia.

(* erase the position annotations *)
Fixpoint strip (t : tree) : tree :=
  match t with
  | At _ _ t' => strip t'
  | Seq k ts => Seq k (map strip ts)
  | FStr a b ts => FStr a b (map strip ts)
  | FComp a b c ts => FComp a b c (map strip ts)
  | _ => t
  end.
Definition strip_res (x : res) : res :=
  match x with
  | RTry m r => RTry (option_map strip m) r
  | ROne m r => ROne (strip m) r
  | RSeq ms r => RSeq (map strip ms) r
  | RParts ps r => RParts (map strip ps) r
  | _ => x
  end.
Definition strip_mode (md : mode) : mode :=
  match md with
  | MSeq c acc => MSeq c (map strip acc)
  | MParts cl rawp tmode start acc => MParts cl rawp tmode start (map strip acc)
  | _ => md
  end.

Lemma un_at_strip t : un_at (strip t) = strip t.
Proof. induction t; simpl; auto. Qed.
Lemma str_val_strip t : str_val (strip t) = str_val t.
Proof. unfold str_val. induction t; simpl; auto. Qed.
Lemma map_str_val_strip l : map (fun t => match str_val t with Some v => v | None => [] end) (map strip l)
                          = map (fun t => match str_val t with Some v => v | None => [] end) l.
Proof. induction l as [|a l IH]; simpl; [reflexivity|]. rewrite str_val_strip, IH. reflexivity. Qed.
Lemma flush_strip grp : flush_group (map strip grp) = map strip (flush_group grp).
Proof.
  destruct grp as [|a [|b g]]; simpl; try reflexivity.
  rewrite !map_app. simpl. rewrite <- !map_rev. rewrite !str_val_strip, map_str_val_strip. reflexivity.
Qed.
Lemma join_go_strip : forall ts grp, join_go (map strip grp) (map strip ts) = map strip (join_go grp ts).
Proof.
  induction ts as [|t r IH]; intros grp; simpl; [apply flush_strip|]. rewrite str_val_strip.
  destruct (str_val t).
  - apply (IH (t :: grp)).
  - rewrite map_app. simpl. rewrite flush_strip. rewrite <- (IH []). reflexivity.
Qed.
Lemma join_strs_strip ts : join_strs (map strip ts) = map strip (join_strs ts).
Proof. apply (join_go_strip ts []). Qed.
Lemma string_in_node_strip needle : forall t, string_in_node needle (strip t) = string_in_node needle t.
Proof.
  fix IH 1. intros t. destruct t as [s|s|s|v b|v|k ts|a b ts|a b c ts|a b t']; simpl; try reflexivity.
  - induction ts as [|x r IHr]; simpl; [reflexivity|]. rewrite IH, IHr. reflexivity.
  - induction ts as [|x r IHr]; simpl; [reflexivity|]. rewrite IH, IHr. reflexivity.
  - apply IH.
Qed.
Lemma existsb_sin_strip needle ts : existsb (string_in_node needle) (map strip ts) = existsb (string_in_node needle) ts.
Proof. induction ts as [|x r IH]; simpl; [reflexivity|]. rewrite string_in_node_strip, IH. reflexivity. Qed.

Section Z.
  Variables oA oP : oracles.
  Hypothesis Hnum : forall t, numeric oA t = numeric oP t.
  Hypothesis Hdec : forall b t, decode oA b t = decode oP b t.
  Hypothesis Hsp : forall c, pyspace oA c = pyspace oP c.
  Hypothesis HmkA : forall a b t, mk oA a b t = At a b t.
  Hypothesis HmkP : forall a b t, mk oP a b t = t.
  Variables rec rec' : mode -> text -> res.
  Hypothesis Hrec : forall md s, rec' (strip_mode md) s = strip_res (rec md s).

  Lemma as_identifier_s t : as_identifier oP t = option_map strip (as_identifier oA t).
  Proof.
    unfold as_identifier. rewrite <- Hnum.
    replace (existsb (numeric oP) (split_dots (dropwhile is_dot t))) with (existsb (numeric oA) (split_dots (dropwhile is_dot t)))
      by (induction (split_dots (dropwhile is_dot t)) as [|a l IH]; simpl; [reflexivity|rewrite Hnum, IH; reflexivity]).
    assert (M : forall l, map strip (map Sym l) = map Sym l) by (induction l; simpl; congruence).
    destruct (numeric oA t); [reflexivity|]. destruct (mem ch_dot t); [|reflexivity].
    destruct (forallb is_dot t); [reflexivity|]. destruct (has_dotdot _); [reflexivity|]. destruct (is_dot _); [reflexivity|].
    destruct (existsb _ _); [reflexivity|]. destruct (takewhile is_dot t); simpl; rewrite M; reflexivity.
  Qed.
  Lemma finish_chunk_s rawp bytes body : finish_chunk oP rawp bytes body = finish_chunk oA rawp bytes body.
  Proof. unfold finish_chunk. rewrite Hdec. reflexivity. Qed.
  Lemma add_str_s v a b acc : add_str oP v a b (map strip acc) = map strip (add_str oA v a b acc).
  Proof. unfold add_str. destruct v; [reflexivity|]. rewrite HmkA, HmkP. reflexivity. Qed.

  Ltac call md r := change md with (strip_mode md) at 1; rewrite (Hrec md r); destruct (rec md r); simpl; try reflexivity.

  Lemma string_lit_s prefix r : string_lit oP rec' prefix r = strip_res (string_lit oA rec prefix r).
  Proof.
    unfold string_lit. destruct (negb (prefix_ok prefix)); [reflexivity|].
    destruct (mem c_f prefix || mem c_t prefix).
    - change (MParts (ClQuote (mem c_r prefix) (mem c_b prefix) false) (mem c_r prefix) (negb (mem c_f prefix)) (length r) [])
        with (strip_mode (MParts (ClQuote (mem c_r prefix) (mem c_b prefix) false) (mem c_r prefix) (negb (mem c_f prefix)) (length r) [])) at 1.
      rewrite Hrec. destruct (rec _ r); simpl; try reflexivity. rewrite join_strs_strip. reflexivity.
    - destruct (scan _ _ _ _ _ _); try reflexivity. rewrite finish_chunk_s. destruct (finish_chunk oA _ _ _); [|reflexivity].
      destruct (mem c_b prefix); reflexivity.
  Qed.

  Lemma bracket_lit_s r : bracket_lit oP rec' r = strip_res (bracket_lit oA rec r).
  Proof.
    unfold bracket_lit. destruct (read_delim [] r) as [d r1| |]; try reflexivity.
    destruct (is_f_delim d).
    - match goal with |- context [rec' ?m ?u] => change m with (strip_mode m) at 1; rewrite (Hrec m u); destruct (rec m u) end; simpl; try reflexivity.
      rewrite join_strs_strip, existsb_sin_strip. destruct (existsb _ _); reflexivity.
    - destruct (scan _ _ _ _ _ _); try reflexivity. rewrite finish_chunk_s. destruct (finish_chunk oA _ _ _); [|reflexivity].
      destruct (contains _ _); reflexivity.
  Qed.

  Lemma run_basic_s h r : run_basic oP rec' h r = strip_res (run_basic oA rec h r).
  Proof.
    destruct h; cbn [run_basic]; try reflexivity.
    - destruct (span_ident r) as [id r']. destruct (mem ch_dot id); reflexivity.
    - apply string_lit_s.
    - call MOne r.
    - destruct r as [|c2 r2]; [call MOne (@nil N)|]. destruct (c2 =? ch); [call MOne r2|call MOne (c2 :: r2)].
    - call (MSeq (Some closer) []) r.
    - call MOne r.
    - call MOne r. call MOne rest. destruct swapped; reflexivity.
    - apply bracket_lit_s.
  Qed.

  Lemma dispatch_s r : dispatch oP rec' r = strip_res (dispatch oA rec r).
  Proof.
    unfold dispatch. destruct r as [|c2 r2]; [reflexivity|]. rewrite <- Hsp. destruct (pyspace oA c2); [reflexivity|].
    destruct (span_ident (c2 :: r2)) as [id0 r0]. destruct id0; (destruct (lookup _ reader_table); [apply run_basic_s|reflexivity]).
  Qed.

  Lemma read_default_s c r : read_default oP rec' c r = strip_res (read_default oA rec c r).
  Proof.
    unfold read_default. destruct (span_ident r) as [id0 r'].
    assert (X : forall r0, ident_res oP (c :: id0) r0 = strip_res (ident_res oA (c :: id0) r0)).
    { intros. unfold ident_res. rewrite as_identifier_s. destruct (as_identifier oA (c :: id0)); reflexivity. }
    destruct r' as [|c2 r2]; [apply X|]. destruct (c2 =? c_dq); [apply string_lit_s|apply X].
  Qed.

  Lemma convert_s x : convert (strip_res x) = strip_res (convert x).
  Proof. destruct x as [| | | | | |e|]; try reflexivity. destruct e; reflexivity. Qed.

  Lemma try_body_s s : try_body oP rec' s = strip_res (try_body oA rec s).
  Proof.
    unfold try_body. destruct (slurp s) as [|c r]; [rewrite <- (convert_s RPrem); reflexivity|].
    set (body := match lookup [c] reader_table with
                 | Some HDispatch => dispatch oA rec r | Some h => run_basic oA rec h r | None => read_default oA rec c r end).
    assert (B : match lookup [c] reader_table with
                 | Some HDispatch => dispatch oP rec' r | Some h => run_basic oP rec' h r | None => read_default oP rec' c r end
                = strip_res body).
    { unfold body. destruct (lookup [c] reader_table) as [h|]; [|apply read_default_s]. destruct h; try apply run_basic_s. apply dispatch_s. }
    rewrite B, convert_s. destruct (convert body) as [[m|] rest| | | | | | |]; simpl; try reflexivity.
    rewrite HmkA, HmkP. reflexivity.
  Qed.

  Lemma one_body_s s : one_body rec' s = strip_res (one_body rec s).
  Proof.
    unfold one_body. change MTry with (strip_mode MTry) at 1. rewrite Hrec. destruct (rec MTry s) as [[m|] r| | | | | | |]; simpl; try reflexivity.
    apply (Hrec MOne).
  Qed.

  Lemma seq_body_s closer acc s : seq_body rec' closer (map strip acc) s = strip_res (seq_body rec closer acc s).
  Proof.
    unfold seq_body. destruct (at_closer closer (slurp s)); [simpl; rewrite map_rev; reflexivity|].
    change MTry with (strip_mode MTry) at 1. rewrite Hrec. destruct (rec MTry (slurp s)) as [[m|] r| | | | | | |]; simpl; try reflexivity.
    - apply (Hrec (MSeq closer (m :: acc))).
    - apply (Hrec (MSeq closer acc)).
  Qed.

  Lemma parts_body_s cl rawp tmode start acc s :
    parts_body oP rec' cl rawp tmode start (map strip acc) s = strip_res (parts_body oA rec cl rawp tmode start acc s).
  Proof.
    unfold parts_body. destruct (scan _ _ _ _ _ _) as [body cl' rest|body cl' rest| | |]; try reflexivity.
    - rewrite finish_chunk_s. destruct (finish_chunk oA _ _ _); [|reflexivity]. simpl. rewrite add_str_s, map_rev. reflexivity.
    - rewrite finish_chunk_s. destruct (finish_chunk oA _ _ _); [|reflexivity].
      change (MField rawp tmode) with (strip_mode (MField rawp tmode)) at 1. rewrite Hrec.
      destruct (rec (MField rawp tmode) rest) as [| | |fs rest'| | | |]; simpl; try reflexivity.
      rewrite add_str_s, <- map_rev, <- map_app.
      match goal with |- rec' (MParts ?a ?b ?c ?d (map strip ?e)) ?u = _ => apply (Hrec (MParts a b c d e)) end.
  Qed.

  Lemma field_after_s rawp tmode dbg start values m ft conv s6 :
    field_after oP rec' rawp tmode dbg start (map strip values) (strip m) ft conv s6
    = strip_res (field_after oA rec rawp tmode dbg start values m ft conv s6).
  Proof.
    unfold field_after. destruct (slurp s6) as [|c r]; [reflexivity|].
    destruct (c =? c_colon).
    - change (MParts ClBrace rawp false (length r) []) with (strip_mode (MParts ClBrace rawp false (length r) [])) at 1.
      rewrite Hrec. destruct (rec _ r); simpl; try reflexivity. rewrite HmkA, HmkP, map_app. reflexivity.
    - destruct (c =? c_rbrace); [|reflexivity]. simpl. rewrite HmkA, HmkP, map_app. reflexivity.
  Qed.

  Lemma field_body_s rawp tmode s : field_body oP rec' rawp tmode s = strip_res (field_body oA rec rawp tmode s).
  Proof.
    unfold field_body. cbv zeta. change MOne with (strip_mode MOne) at 1. rewrite Hrec.
    destruct (rec MOne (slurp s)) as [|m s2| | | | | |]; simpl; try reflexivity.
    set (dbg := match slurp s2 with [] => false | c :: _ => c =? c_eq end).
    set (s5 := if dbg then slurp (tl (slurp s2)) else slurp s2).
    assert (V : (if dbg then [mk oP (length s) (length s5) (Str (firstn (length s - length s5) s) None)] else [])
                = map strip (if dbg then [mk oA (length s) (length s5) (Str (firstn (length s - length s5) s) None)] else [])).
    { destruct dbg; [rewrite HmkA, HmkP|]; reflexivity. }
    rewrite V. clearbody s5 dbg.
    destruct s5 as [|c r]; [apply field_after_s|]. destruct (c =? c_bang); [|apply field_after_s].
    destruct r; [reflexivity|apply field_after_s].
  Qed.
End Z.

(* the position-free reader is the positioned reader with the annotations erased *)
Theorem rd_strip oA oP :
  (forall t, numeric oA t = numeric oP t) -> (forall b t, decode oA b t = decode oP b t) -> (forall c, pyspace oA c = pyspace oP c) ->
  (forall a b t, mk oA a b t = At a b t) -> (forall a b t, mk oP a b t = t) ->
  forall f md s, rd oP f (strip_mode md) s = strip_res (rd oA f md s).
Proof.
  intros H1 H2 H3 H4 H5. induction f as [|f IH]; intros md s; [reflexivity|].
  destruct md; cbn [rd strip_mode].
  - apply try_body_s; assumption.
  - apply one_body_s; assumption.
  - apply seq_body_s; assumption.
  - apply parts_body_s; assumption.
  - apply field_body_s; assumption.
Qed.

Definition strip_outcome (o : outcome) : outcome := match o with Ok ms => Ok (map strip ms) | _ => o end.
Theorem read_many_strip oA oP :
  (forall t, numeric oA t = numeric oP t) -> (forall b t, decode oA b t = decode oP b t) -> (forall c, pyspace oA c = pyspace oP c) ->
  (forall a b t, mk oA a b t = At a b t) -> (forall a b t, mk oP a b t = t) ->
  forall s, read_many oP s = strip_outcome (read_many oA s).
Proof.
  intros H1 H2 H3 H4 H5 s. unfold read_many.
  change (MSeq None []) with (strip_mode (MSeq None [])) at 1. rewrite (rd_strip oA oP H1 H2 H3 H4 H5).
  destruct (rd oA (read_fuel s) (MSeq None []) s); reflexivity.
Qed.
