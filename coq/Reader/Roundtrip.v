(* Reader family, C20: every well-formed printed tree, with arbitrary separators (whitespace,
   comments, discards) at every boundary, reads back as the models it denotes.  Mutual induction
   over trees, item lists and separators; leaves by the extension lemma. *)
From HyV Require Import Base.Text Reader.Syntax Gen.ReaderTables Reader.Model Reader.Progress Reader.Mono Reader.Shape Reader.Suffix Reader.Extend Reader.Concat Reader.Cst Reader.Steps.
From Coq Require Import Lia.

Lemma fst_of_app t u fol : fst_of (t ++ u) fol = fst_of t (fst_of u fol).
Proof. destruct t; reflexivity. Qed.
Lemma hd_opt_app t u : hd_opt (t ++ u) = fst_of t (hd_opt u).
Proof. apply fst_of_app. Qed.

Definition closer_ok (closer : option N) : Prop := closer = None \/ exists k, closer = Some (seq_close k).
Definition done (x : res) : Prop := x <> ROut.

Lemma lk_invalid k : lookup [seq_close k] reader_table = Some HInvalid.
Proof. destruct k; reflexivity. Qed.

Section RT.
  Variable orc : oracles.
  Hypothesis Hok : orc_ok orc.
  Let Hp := ok_plain orc Hok.

  Lemma not_closer f u m r closer : rd orc f MTry u = RTry (Some m) r -> closer_ok closer -> at_closer closer (slurp u) = false.
  Proof.
    intros E C. destruct f as [|f]; [discriminate|]. cbn [rd] in E. unfold try_body in E.
    destruct (slurp u) as [|c q] eqn:Es.
    { vm_compute in E. discriminate. }
    destruct C as [->|[k ->]]; [reflexivity|]. cbn [at_closer]. destruct (c =? seq_close k) eqn:Ec; [|reflexivity].
    apply N.eqb_eq in Ec. subst c. rewrite lk_invalid in E. cbn [run_basic] in E. vm_compute in E. discriminate.
  Qed.

  (* one more item read in sequence mode *)
  Lemma seq_step closer acc u m r x : closer_ok closer ->
    (exists n, rd orc n MTry u = RTry (Some m) r) ->
    (exists n, rd orc n (MSeq closer (m :: acc)) r = x) -> done x ->
    exists n, rd orc n (MSeq closer acc) u = x.
  Proof.
    intros C [n1 E1] [n2 E2] D. exists (S (max n1 n2)). rewrite seq_eq. cbv zeta.
    rewrite (not_closer n1 u m r closer E1 C). rewrite try_slurp.
    rewrite (rd_ge orc n1 (max n1 n2)) by (try lia; rewrite E1; discriminate). rewrite E1.
    rewrite (rd_ge orc n2 (max n1 n2)) by (try lia; rewrite E2; exact D). exact E2.
  Qed.
  (* a try that yields no form (comment, discard) in sequence mode *)
  Lemma seq_skip closer acc u r x : at_closer closer (slurp u) = false ->
    (exists n, rd orc n MTry u = RTry None r) ->
    (exists n, rd orc n (MSeq closer acc) r = x) -> done x ->
    exists n, rd orc n (MSeq closer acc) u = x.
  Proof.
    intros C [n1 E1] [n2 E2] D. exists (S (max n1 n2)). rewrite seq_eq. cbv zeta.
    rewrite C. rewrite try_slurp.
    rewrite (rd_ge orc n1 (max n1 n2)) by (try lia; rewrite E1; discriminate). rewrite E1.
    rewrite (rd_ge orc n2 (max n1 n2)) by (try lia; rewrite E2; exact D). exact E2.
  Qed.
  Lemma one_skip u r x :
    (exists n, rd orc n MTry u = RTry None r) -> (exists n, rd orc n MOne r = x) -> done x -> exists n, rd orc n MOne u = x.
  Proof.
    intros [n1 E1] [n2 E2] D. exists (S (max n1 n2)). rewrite one_eq.
    rewrite (rd_ge orc n1 (max n1 n2)) by (try lia; rewrite E1; discriminate). rewrite E1.
    rewrite (rd_ge orc n2 (max n1 n2)) by (try lia; rewrite E2; exact D). exact E2.
  Qed.
  Lemma one_of_try u m r : (exists n, rd orc n MTry u = RTry (Some m) r) -> exists n, rd orc n MOne u = ROne m r.
  Proof. intros [n E]. exists (S n). rewrite one_eq, E. reflexivity. Qed.

  Lemma at_closer_first closer c q : closer_ok closer -> c = c_semi \/ c = c_hash -> at_closer closer (slurp (c :: q)) = false.
  Proof.
    intros [->|[k ->]] H.
    - destruct H as [->| ->]; reflexivity.
    - destruct H as [->| ->]; destruct k; reflexivity.
  Qed.

  Definition P (c : cst) : Prop := forall fol, wf orc c fol = true -> forall rest, hd_opt rest = fol ->
    exists n, rd orc n MTry (render c ++ rest) = RTry (Some (erase orc c)) rest.
  Definition Q (its : items) : Prop := forall fol, wf_items orc its fol = true ->
    forall closer acc tail x, hd_opt tail = fol -> closer_ok closer ->
    (exists n, rd orc n (MSeq closer (rev (erase_items orc its) ++ acc)) tail = x) -> done x ->
    exists n, rd orc n (MSeq closer acc) (render_items its ++ tail) = x.
  Definition R (s : sep) : Prop := forall fol, wf_sep orc s fol = true -> forall tail, hd_opt tail = fol ->
    (forall closer acc x, closer_ok closer -> (exists n, rd orc n (MSeq closer acc) tail = x) -> done x ->
       exists n, rd orc n (MSeq closer acc) (render_sep s ++ tail) = x)
    /\ (forall x, (exists n, rd orc n MOne tail = x) -> done x -> exists n, rd orc n MOne (render_sep s ++ tail) = x).

  Lemma leaf_ext t rest : leaf_ok orc t = true -> stop_opt (hd_opt rest) = true ->
    rd orc 1 MTry (t ++ rest) = RTry (Some (leaf_tree orc t)) rest.
  Proof.
    intros L S. unfold leaf_ok, leaf_tree in *.
    assert (Hr : match rest with [] => True | d :: _ => stop d = true end) by (destruct rest; simpl in *; auto).
    pose proof (rd_ext_plain orc Hp rest Hr false 1 MTry t I (fun C => ltac:(discriminate C))) as X.
    destruct (rd orc 1 MTry t) as [[x|] [|? ?]| | | | | | |]; try discriminate L. cbn [ext_res] in X.
    destruct X as [[_ [X _]]|X]; [discriminate X|]. exact X.
  Qed.

  Lemma render_nonempty c fol : wf orc c fol = true -> render c <> [].
  Proof.
    destruct c as [t|k its tr|w s c|s1 c1 s2 c2]; cbn [wf render]; intros W.
    - apply andb_prop in W as [W _]. intros ->. unfold leaf_ok in W. vm_compute in W. discriminate.
    - destruct k; discriminate.
    - destruct w; discriminate.
    - discriminate.
  Qed.
  Lemma inner_nonempty s c fol rest : wf orc c fol = true ->
    exists d q, render_sep s ++ render c = d :: q /\ render_sep s ++ render c ++ rest = d :: q ++ rest.
  Proof.
    intros W. pose proof (render_nonempty c fol W) as N. destruct (render_sep s ++ render c) as [|d q] eqn:E.
    - apply app_eq_nil in E as [_ E]. contradiction.
    - exists d, q. split; [reflexivity|]. rewrite app_assoc, E. reflexivity.
  Qed.

  Theorem roundtrip_all : (forall c, P c) /\ (forall its, Q its) /\ (forall s, R s).
  Proof.
    apply cst_items_sep_ind; unfold P, Q, R.
    - (* leaf *)
      intros t fol W rest Hf. cbn [wf] in W. apply andb_prop in W as [W1 W2]. subst fol.
      exists 1%nat. cbn [render erase]. apply leaf_ext; assumption.
    - (* sequence *)
      intros k its IHi trail IHt fol W rest Hf. cbn [wf] in W. apply andb_prop in W as [W1 W2].
      cbn [render erase]. rewrite <- !app_assoc.
      assert (CK : closer_ok (Some (seq_close k))) by (right; exists k; reflexivity).
      (* after the items and the trailing separator: the closer *)
      assert (E3 : exists n, rd orc n (MSeq (Some (seq_close k)) (rev (erase_items orc its) ++ [])) (seq_close k :: rest)
                             = RSeq (erase_items orc its) rest).
      { exists 1%nat. rewrite seq_eq. cbv zeta.
        assert (Sl : slurp (seq_close k :: rest) = seq_close k :: rest) by (destruct k; reflexivity). rewrite Sl.
        cbn [at_closer tl]. rewrite N.eqb_refl. rewrite app_nil_r, rev_involutive. reflexivity. }
      destruct (IHt _ W2 (seq_close k :: rest) eq_refl) as [T1 _].
      destruct (T1 _ _ _ CK E3 ltac:(discriminate)) as [n2 E2].
      destruct (IHi _ W1 (Some (seq_close k)) [] (render_sep trail ++ [seq_close k] ++ rest) _
                  (hd_opt_app _ _) CK (ex_intro _ n2 E2) ltac:(discriminate)) as [n1 E1].
      exists (S n1). apply try_seq; [exact Hok|exact E1].
    - (* sugar with one operand *)
      intros w s IHs c IHc fol W rest Hf. cbn [wf] in W. apply andb_prop in W as [W Wc]. apply andb_prop in W as [Wt Ws].
      cbn [render erase]. rewrite <- !app_assoc.
      destruct (IHc _ Wc rest Hf) as [n1 E1].
      destruct (IHs _ Ws (render c ++ rest)) as [_ S2]; [rewrite hd_opt_app, Hf; reflexivity|].
      destruct (S2 _ (one_of_try _ _ _ (ex_intro _ n1 E1)) ltac:(discriminate)) as [n2 E2].
      exists (S n2). apply try_wrap; [exact Hok| |exact E2].
      destruct (inner_nonempty s c fol rest Wc) as (d & q & Ei & Ej). rewrite Ej. rewrite Ei in Wt.
      destruct w; auto.
      apply negb_true_iff in Wt. exact Wt.
    - (* "#^" *)
      intros s1 IH1 c1 IHc1 s2 IH2 c2 IHc2 fol W rest Hf. cbn [wf] in W.
      apply andb_prop in W as [W W5]. apply andb_prop in W as [W W4]. apply andb_prop in W as [W W3]. apply andb_prop in W as [W1 W2].
      cbn [render erase]. rewrite <- !app_assoc.
      destruct (IHc2 _ W5 rest Hf) as [n5 E5].
      destruct (IH2 _ W4 (render c2 ++ rest)) as [_ S2]; [rewrite hd_opt_app, Hf; reflexivity|].
      destruct (S2 _ (one_of_try _ _ _ (ex_intro _ n5 E5)) ltac:(discriminate)) as [n4 E4].
      destruct (IHc1 _ W3 (render_sep s2 ++ render c2 ++ rest)) as [n3 E3].
      { rewrite app_assoc, hd_opt_app, Hf. reflexivity. }
      destruct (IH1 _ W2 (render c1 ++ render_sep s2 ++ render c2 ++ rest)) as [_ S1].
      { rewrite hd_opt_app. destruct (render c1) eqn:Er; [exfalso; exact (render_nonempty c1 _ W3 Er)|reflexivity]. }
      destruct (S1 _ (one_of_try _ _ _ (ex_intro _ n3 E3)) ltac:(discriminate)) as [n2 E2].
      exists (S (max n2 n4)). eapply try_ann; [exact Hok| | |].
      + destruct (inner_nonempty s1 c1 _ (render_sep s2 ++ render c2 ++ rest) W3) as (d & q & Ei & Ej). rewrite Ej. rewrite Ei in W1. exact W1.
      + rewrite (rd_ge orc n2 (max n2 n4)) by (try lia; rewrite E2; discriminate). exact E2.
      + rewrite (rd_ge orc n4 (max n2 n4)) by (try lia; rewrite E4; discriminate). exact E4.
    - (* no items *)
      intros fol _ closer acc tail x _ _ E D. exact E.
    - (* an item *)
      intros s IHs c IHc r IHr fol W closer acc tail x Hf C E D. cbn [wf_items] in W.
      apply andb_prop in W as [W W3]. apply andb_prop in W as [W1 W2].
      change (render_items (ICons s c r)) with (render_sep s ++ render c ++ render_items r).
      change (erase_items orc (ICons s c r)) with (erase orc c :: erase_items orc r) in E.
      rewrite <- !app_assoc.
      replace (rev (erase orc c :: erase_items orc r) ++ acc) with (rev (erase_items orc r) ++ erase orc c :: acc) in E
        by (cbn [rev]; rewrite <- app_assoc; reflexivity).
      destruct (IHr _ W3 closer (erase orc c :: acc) tail x Hf C E D) as [n3 E3].
      destruct (IHc _ W2 (render_items r ++ tail)) as [n2 E2]; [rewrite hd_opt_app, Hf; reflexivity|].
      pose proof (seq_step closer acc _ _ _ x C (ex_intro _ n2 E2) (ex_intro _ n3 E3) D) as E1.
      destruct (IHs _ W1 (render c ++ render_items r ++ tail)) as [S1 _].
      { rewrite hd_opt_app. destruct (render c) eqn:Er; [exfalso; exact (render_nonempty c _ W2 Er)|reflexivity]. }
      apply S1; assumption.
    - (* empty separator *)
      intros fol _ tail _. split; intros; assumption.
    - (* whitespace *)
      intros c r IHr fol W tail Hf. cbn [wf_sep] in W. apply andb_prop in W as [W1 W2].
      destruct (IHr _ W2 tail Hf) as [A B]. change (render_sep (SWs c r) ++ tail) with (c :: render_sep r ++ tail). split.
      + intros closer acc x C E D. destruct (A closer acc x C E D) as [n En]. exists n. rewrite seq_ws; assumption.
      + intros x E D. destruct (B x E D) as [n En]. exists n. destruct n as [|n]; [exact En|].
        rewrite one_eq in *. rewrite try_ws by exact W1. exact En.
    - (* comment *)
      intros body r IHr fol W tail Hf. cbn [wf_sep] in W. apply andb_prop in W as [W1 W2]. apply negb_true_iff in W1.
      destruct (IHr _ W2 tail Hf) as [A B].
      change (render_sep (SCom body r) ++ tail) with (c_semi :: (body ++ c_nl :: render_sep r) ++ tail).
      rewrite <- app_assoc. cbn [app]. split.
      + intros closer acc x C E D. eapply seq_skip; [apply at_closer_first; auto| |apply A; eassumption|exact D].
        exists 1%nat. apply try_comment; assumption.
      + intros x E D. eapply one_skip; [|apply B; eassumption|exact D].
        exists 1%nat. apply try_comment; assumption.
    - (* discard *)
      intros s IHs c IHc r IHr fol W tail Hf. cbn [wf_sep] in W.
      apply andb_prop in W as [W W4]. apply andb_prop in W as [W W3]. apply andb_prop in W as [W1 W2].
      destruct (IHr _ W4 tail Hf) as [A B].
      change (render_sep (SDis s c r)) with (dis_key ++ render_sep s ++ render c ++ render_sep r). rewrite <- !app_assoc.
      destruct (IHc _ W3 (render_sep r ++ tail)) as [n3 E3]; [rewrite hd_opt_app, Hf; reflexivity|].
      destruct (IHs _ W2 (render c ++ render_sep r ++ tail)) as [_ S1].
      { rewrite hd_opt_app. destruct (render c) eqn:Er; [exfalso; exact (render_nonempty c _ W3 Er)|reflexivity]. }
      destruct (S1 _ (one_of_try _ _ _ (ex_intro _ n3 E3)) ltac:(discriminate)) as [n2 E2].
      assert (T : exists n, rd orc n MTry (dis_key ++ render_sep s ++ render c ++ render_sep r ++ tail) = RTry None (render_sep r ++ tail)).
      { exists (S n2). eapply try_discard; [exact Hok| |exact E2].
        destruct (inner_nonempty s c _ (render_sep r ++ tail) W3) as (d & q & Ei & Ej). rewrite Ej. rewrite Ei in W1. exact W1. }
      split.
      + intros closer acc x C E D. eapply seq_skip; [apply at_closer_first; auto|exact T|apply A; eassumption|exact D].
      + intros x E D. eapply one_skip; [exact T|apply B; eassumption|exact D].
  Qed.

  (* C20: a printed program reads back as the models it denotes, whatever separators it was printed with *)
  Theorem read_print_seps its trail : wf_prog orc its trail = true ->
    read_many orc (render_prog its trail) = Ok (erase_items orc its).
  Proof.
    intros W. unfold wf_prog in W. apply andb_prop in W as [W1 W2]. unfold render_prog.
    destruct roundtrip_all as (_ & HQ & HR).
    destruct (HR trail _ W2 [] eq_refl) as [A _].
    assert (E0 : exists n, rd orc n (MSeq None (rev (erase_items orc its) ++ [])) [] = RSeq (erase_items orc its) []).
    { exists 1%nat. rewrite seq_eq. cbv zeta. cbn [slurp dropwhile at_closer tl]. rewrite app_nil_r, rev_involutive. reflexivity. }
    destruct (A None _ _ (or_introl eq_refl) E0 ltac:(discriminate)) as [n1 E1].
    destruct (HQ its _ W1 None [] (render_sep trail ++ []) _ (hd_opt_app _ _) (or_introl eq_refl) (ex_intro _ n1 E1) ltac:(discriminate)) as [n E].
    rewrite app_nil_r in E. eapply read_many_of_rd. exact E.
  Qed.
End RT.
