(* Reader family (C18-C21): executable model of hy.read_many.

   Follows hy/reader/reader.py (Reader: peekc/getc/chars/slurp_space/read_ident,
   position bookkeeping) and hy/reader/hy_reader.py (HyReader: try_parse_one_form,
   parse_one_form, parse_forms_until, every @reader_for handler, read_default,
   as_identifier, prefixed_string, bracketed_string, read_string_until,
   read_chars_until, read_fcomponents_until, read_fcomponent) and the model
   constructors of hy/models.py that can raise (String/FString with brackets) or
   reshape (FString joining adjacent strings).

   The reader state is the remaining input (the peek buffer plus the unread
   stream); a position is recorded as the LENGTH OF THE REMAINING INPUT at the
   moment the code evaluates self.pos (see Reader/Positions.v for line/column).

   ONE function [rd] on fuel with a mode argument; each mode's body is a
   non-recursive definition over the recursive call [rec] (open recursion), so
   every case has an unfolding equation by reflexivity.

   Coarser than the code (the character-level details belong to C22-C26):
     - [numeric]: whether as_identifier's Integer/Float/Complex cascade accepts a text is an oracle;
       numbers keep their token text;
     - [decode]: backslash-escape decoding (unicode_escape / escape_decode) is an oracle on the body text;
     - [pyspace]: str.strip()'s notion of whitespace (tag_dispatch) is an oracle;
     - HyReader(bracketed_templates=False), the default of hy.read_many: no t-bracket-strings;
     - skip_shebang=False; reader macros defined by user code are outside (C37);
     - no Python recursion limit (RecursionError is converted to LexException by the code; checked by the
       harness, not modelled). *)
From HyV Require Import Base.Text Reader.Syntax Gen.ReaderTables.

Definition c_nl : N := 10.      Definition c_cr : N := 13.
Definition c_dq : N := 34.      Definition c_hash : N := 35.
Definition c_colon : N := 58.   Definition c_eq : N := 61.
Definition c_bang : N := 33.    Definition c_bslash : N := 92.
Definition c_lbrack : N := 91.  Definition c_rbrack : N := 93.
Definition c_lbrace : N := 123. Definition c_rbrace : N := 125.
Definition c_N : N := 78.
Definition c_b : N := 98. Definition c_f : N := 102. Definition c_r : N := 114. Definition c_t : N := 116.

(* ------------------------------------------------------------------ models *)
Inductive tree :=
| Sym (s : text)                                   (* hy.models.Symbol *)
| Kw (s : text)                                    (* Keyword, name without the colon *)
| Num (s : text)                                   (* Integer / Float / Complex: the token text *)
| Str (v : text) (brackets : option text)          (* String *)
| Byt (v : text)                                   (* Bytes *)
| Seq (k : skind) (ts : list tree)                 (* Expression List Dict Set Tuple *)
| FStr (tstr : bool) (brackets : option text) (ts : list tree)
| FComp (tstr : bool) (conv : option N) (expr : text) (ts : list tree)
| At (a b : nat) (t : tree).                       (* fill_pos: remaining-input lengths at start and end *)

Inductive res :=
| RTry (m : option tree) (rest : text)             (* try_parse_one_form *)
| ROne (m : tree) (rest : text)                    (* parse_one_form *)
| RSeq (ms : list tree) (rest : text)              (* parse_forms_until *)
| RParts (ps : list tree) (rest : text)            (* read_fcomponents_until / read_fcomponent *)
| RPrem | RLex | RPy (e : pyexc) | ROut.

(* the three `closing` callbacks of read_string_until with their mutable state *)
Inductive closing :=
| ClQuote (raw bytes esc : bool)                   (* quote_closing: prefix has r / has b; `escaping` *)
| ClDelim (delim : text) (idx : option nat)        (* delim_closing: `index`, None = -1 *)
| ClBrace.                                         (* component_closing *)

Inductive mode :=
| MTry | MOne
| MSeq (closer : option N) (acc : list tree)
| MParts (cl : closing) (rawp tmode : bool) (start : nat) (acc : list tree)
| MField (rawp tmode : bool).

(* ------------------------------------------------------- character streams *)
Definition is_ws (c : N) : bool := mem c ws_chars.                 (* isnormalizedspace *)
Definition non_ident (c : N) : bool := mem c non_ident_chars.
Definition ends_ident (c : N) : bool := non_ident c || is_ws c.
Definition slurp (s : text) : text := dropwhile is_ws s.           (* slurp_space *)

(* read_ident: the identifier characters and what follows *)
Fixpoint span_ident (s : text) : text * text :=
  match s with
  | [] => ([], [])
  | c :: r => if ends_ident c then ([], s) else let '(a, b) := span_ident r in (c :: a, b)
  end.

(* line_comment: consume through the next newline or to the end *)
Fixpoint drop_line (s : text) : text :=
  match s with [] => [] | c :: r => if c =? c_nl then r else drop_line r end.

(* for c in self.chars(): if c == stop: break  -- None: the input ended first *)
Fixpoint drop_through (stop : N) (s : text) : option text :=
  match s with [] => None | c :: r => if c =? stop then Some r else drop_through stop r end.

Fixpoint lookup {A} (k : text) (t : list (text * A)) : option A :=
  match t with [] => None | (k', v) :: r => if text_eqb k k' then Some v else lookup k r end.

Fixpoint contains (needle s : text) : bool :=
  starts_with needle s || match s with [] => false | _ :: r => contains needle r end.

(* "".join(s).replace("\r\n", "\n").replace("\r", "\n") *)
Fixpoint norm_nl (prev_cr : bool) (s : text) : text :=
  match s with
  | [] => []
  | c :: r => if c =? c_cr then c_nl :: norm_nl true r
              else if (c =? c_nl) && prev_cr then norm_nl false r
              else c :: norm_nl false r
  end.

(* ------------------------------------------------- exceptions and wrapping *)
Definition t_Exception : text := [69; 120; 99; 101; 112; 116; 105; 111; 110].
Definition t_BaseException : text := [66; 97; 115; 101] ++ t_Exception.
Definition t_SyntaxError : text := [83; 121; 110; 116; 97; 120; 69; 114; 114; 111; 114].
Definition t_ValueError : text := [86; 97; 108; 117; 101; 69; 114; 114; 111; 114].
Definition t_LexException : text := [76; 101; 120] ++ t_Exception.
Definition t_Premature : text := [80; 114; 101; 109; 97; 116; 117; 114; 101; 69; 110; 100; 79; 102; 73; 110; 112; 117; 116].
Definition t_HySyntaxError : text := [72; 121] ++ t_SyntaxError.
Definition t_HyLanguageError : text := [72; 121; 76; 97; 110; 103; 117; 97; 103; 101; 69; 114; 114; 111; 114].
Definition t_HyError : text := [72; 121; 69; 114; 114; 111; 114].

Definition mro_py (e : pyexc) : list text :=
  match e with
  | ESyntaxError => [t_SyntaxError; t_Exception; t_BaseException]
  | EValueError => [t_ValueError; t_Exception; t_BaseException]
  end.
Definition mro_lex : list text :=
  [t_LexException; t_HySyntaxError; t_HyLanguageError; t_HyError; t_SyntaxError; t_Exception; t_BaseException].
Definition mro_prem : list text := t_Premature :: mro_lex.

Fixpoint first_handler (mro : list text) (hs : list (text * exc_action)) : option exc_action :=
  match hs with
  | [] => None
  | (cls, a) :: r => if existsb (text_eqb cls) mro then Some a else first_handler mro r
  end.

(* the except clauses of try_parse_one_form applied to what its body raised *)
Definition convert_with (hs : list (text * exc_action)) (x : res) : res :=
  let go mro := match first_handler mro hs with Some ToLex => RLex | _ => x end in
  match x with
  | RPrem => go mro_prem
  | RLex => go mro_lex
  | RPy e => go (mro_py e)
  | _ => x
  end.
Definition convert := convert_with try_handlers.

(* ------------------------------------------------------------ string scans *)
Inductive cstep := CsCont (cl : closing) | CsClose (n : nat) | CsLex.

Definition closing_step (cl : closing) (c : N) : cstep :=
  match cl with
  | ClQuote raw bytes esc =>
      if c =? c_bslash then CsCont (ClQuote raw bytes (negb esc))
      else if (c =? c_dq) && negb esc then CsClose 1
      else if esc && negb raw && negb (mem c (escape_whitelist ++ (if bytes then [] else escape_whitelist_str)))
           then CsLex
      else CsCont (ClQuote raw bytes false)
  | ClDelim d idx =>
      if c =? c_rbrack then
        match idx with
        | Some i => if Nat.eqb i (length d) then CsClose (length d + 2) else CsCont (ClDelim d (Some O))
        | None => CsCont (ClDelim d (Some O))
        end
      else
        match idx with
        | Some i =>
            if Nat.leb i (length d) then
              if Nat.ltb i (length d) && (nth i d 0 =? c) then CsCont (ClDelim d (Some (S i)))
              else CsCont (ClDelim d None)
            else CsCont cl
        | None => CsCont cl
        end
  | ClBrace => if c =? c_rbrace then CsClose 1 else CsCont ClBrace
  end.

Inductive scanres :=
| ScClosed (body : text) (cl : closing) (rest : text)    (* ended by the closing callback *)
| ScField (body : text) (cl : closing) (rest : text)     (* ended by a single "{" (f-string modes only) *)
| ScPrem | ScLex | ScPy (e : pyexc).

(* read_chars_until, before the post-processing of the collected characters.
   [acc] is the list `s` of the code, reversed. *)
Fixpoint scan (fmode rawp : bool) (cl : closing) (named : bool) (acc : text) (s : text) : scanres :=
  match s with
  | [] => ScPrem
  | c :: r =>
    let acc1 := c :: acc in
    match closing_step cl c with
    | CsLex => ScLex
    | CsClose n => ScClosed (rev (skipn n acc1)) cl r
    | CsCont cl' =>
      if fmode then
        if c =? c_lbrace then
          if negb rawp && starts_with [c_lbrace; c_N; c_bslash] acc1
          then scan fmode rawp cl' true acc1 r
          else match r with
               | c2 :: r2 => if c2 =? c_lbrace then scan fmode rawp cl' named acc1 r2
                             else ScField (rev acc) cl' r
               | [] => ScField (rev acc) cl' r
               end
        else if c =? c_rbrace then
          if named then scan fmode rawp cl' false acc1 r
          else match r with
               | c2 :: r2 => if c2 =? c_rbrace then scan fmode rawp cl' named acc1 r2
                             else ScPy ESyntaxError
               | [] => ScPy ESyntaxError
               end
        else scan fmode rawp cl' named acc1 r
      else scan fmode rawp cl' named acc1 r
    end
  end.

Inductive delimres := DOk (d : text) (rest : text) | DPrem | DLex.
Fixpoint read_delim (acc : text) (s : text) : delimres :=
  match s with
  | [] => DPrem
  | c :: r => if c =? c_lbrack then DOk (rev acc) r
              else if c =? c_rbrack then DLex
              else read_delim (c :: acc) r
  end.

(* prefixed_string's check of the prefix *)
Fixpoint nodupb (s : text) : bool :=
  match s with [] => true | c :: r => negb (mem c r) && nodupb r end.
Definition prefix_ok (p : text) : bool :=
  nodupb p && forallb (fun c => mem c prefix_alphabet) p
  && negb (Nat.eqb (length p) (length prefix_alphabet))
  && Nat.leb (length (filter (fun c => negb (c =? c_r)) p)) 1.

(* ------------------------------------------------------------ identifiers *)
Definition is_dot (c : N) : bool := c =? ch_dot.
Fixpoint has_dotdot (s : text) : bool :=
  match s with
  | a :: r => (is_dot a && match r with b :: _ => is_dot b | [] => false end) || has_dotdot r
  | [] => false
  end.
Fixpoint split_dots_aux (cur : text) (s : text) : list text :=
  match s with
  | [] => [rev cur]
  | c :: r => if is_dot c then rev cur :: split_dots_aux [] r else split_dots_aux (c :: cur) r
  end.
Definition split_dots (s : text) : list text := split_dots_aux [] s.

Definition sym_expr (root : text) (args : list tree) : tree := Seq KExpr (Sym root :: args).

(* FString.__new__: adjacent String nodes are joined into one new String *)
Fixpoint un_at (t : tree) : tree := match t with At _ _ t' => un_at t' | _ => t end.
Definition str_val (t : tree) : option text := match un_at t with Str v _ => Some v | _ => None end.
Definition flush_group (grp : list tree) : list tree :=
  match grp with
  | [] => []
  | [t] => [t]
  | _ => [Str (concat (map (fun t => match str_val t with Some v => v | None => [] end) (rev grp))) None]
  end.
Fixpoint join_go (grp : list tree) (ts : list tree) : list tree :=
  match ts with
  | [] => flush_group grp
  | t :: r => match str_val t with
              | Some _ => join_go (t :: grp) r
              | None => flush_group grp ++ t :: join_go [] r
              end
  end.
Definition join_strs (ts : list tree) : list tree := join_go [] ts.

(* models._string_in_node *)
Fixpoint string_in_node (needle : text) (t : tree) : bool :=
  match t with
  | Str v _ => contains needle v
  | FStr _ _ ts => existsb (string_in_node needle) ts
  | FComp _ _ _ ts => existsb (string_in_node needle) ts
  | At _ _ t' => string_in_node needle t'
  | _ => false
  end.

Definition closing_delim (d : text) : text := c_rbrack :: d ++ [c_rbrack].
Definition is_f_delim (d : text) : bool := text_eqb d [c_f] || starts_with [c_f; ch_hyphen] d.

Inductive outcome := Ok (ms : list tree) | Lex | Premature | PyErr (e : pyexc) | OutOfFuel.

(* what the model does not decide itself *)
Record oracles := {
  numeric : text -> bool;                (* as_identifier yields Integer/Float/Complex for this text *)
  decode : bool -> text -> option text;  (* escape decoding; first argument: bytes literal; None: the codec raises *)
  pyspace : N -> bool;                   (* c.strip() == "" *)
  mk : nat -> nat -> tree -> tree        (* fill_pos: [At], or the identity for the position-free reader *)
}.

Section Reader.
  Variable orc : oracles.

  (* as_identifier(ident, reader=self); None = LexException *)
  Definition as_identifier (ident : text) : option tree :=
    if numeric orc ident then Some (Num ident)
    else if mem ch_dot ident then
      if forallb is_dot ident then Some (Sym ident)
      else
        let body := dropwhile is_dot ident in
        if has_dotdot body then None
        else if is_dot (last ident 0) then None
        else
          let head := takewhile is_dot ident in
          let parts := split_dots body in
          if existsb (numeric orc) parts then None
          else Some (match head with
                     | [] => sym_expr [ch_dot] (map Sym parts)
                     | _ => sym_expr head (Sym none_name :: map Sym parts)
                     end)
    else Some (Sym ident).

  (* the post-processing at the end of read_chars_until *)
  Definition finish_chunk (rawp bytes : bool) (body : text) : text + pyexc :=
    let v := norm_nl false body in
    if bytes && negb (forallb is_ascii v) then inr ESyntaxError
    else if rawp then inl v
    else match decode orc bytes v with Some d => inl d | None => inr EValueError end.

  Definition add_str (v : text) (a b : nat) (acc : list tree) : list tree :=
    match v with [] => acc | _ => mk orc a b (Str v None) :: acc end.

  Section Bodies.
    Variable rec : mode -> text -> res.

    (* prefixed_string after the opening quote, with the given prefix *)
    Definition string_lit (prefix r : text) : res :=
      if negb (prefix_ok prefix) then RLex else
      let raw := mem c_r prefix in
      let bytes := mem c_b prefix in
      let cl := ClQuote raw bytes false in
      if mem c_f prefix || mem c_t prefix then
        let tmode := negb (mem c_f prefix) in
        match rec (MParts cl raw tmode (length r) []) r with
        | RParts ps rest => RTry (Some (FStr tmode None (join_strs ps))) rest
        | x => x
        end
      else
        match scan false raw cl false [] r with
        | ScClosed body _ rest =>
            match finish_chunk raw bytes body with
            | inl v => RTry (Some (if bytes then Byt v else Str v None)) rest
            | inr e => RPy e
            end
        | ScField _ _ _ => RLex
        | ScPrem => RPrem
        | ScLex => RLex
        | ScPy e => RPy e
        end.

    (* bracketed_string after "#[" *)
    Definition bracket_lit (r : text) : res :=
      match read_delim [] r with
      | DPrem => RPrem
      | DLex => RLex
      | DOk delim r1 =>
        let r2 := match r1 with c :: x => if c =? c_cr then x else r1 | [] => r1 end in
        let r3 := match r2 with c :: x => if c =? c_nl then x else r2 | [] => r2 end in
        let cl := ClDelim delim None in
        if is_f_delim delim then
          match rec (MParts cl true false (length r3) []) r3 with
          | RParts ps rest =>
              let ps' := join_strs ps in
              if existsb (string_in_node (closing_delim delim)) ps' then RPy EValueError
              else RTry (Some (FStr false (Some delim) ps')) rest
          | x => x
          end
        else
          match scan false true cl false [] r3 with
          | ScClosed body _ rest =>
              match finish_chunk true false body with
              | inl v => if contains (closing_delim delim) v then RPy EValueError
                         else RTry (Some (Str v (Some delim))) rest
              | inr e => RPy e
              end
          | ScField _ _ _ => RLex
          | ScPrem => RPrem
          | ScLex => RLex
          | ScPy e => RPy e
          end
      end.

    (* every handler except tag_dispatch; [r] is the input after the key *)
    Definition run_basic (h : handler) (r : text) : res :=
      match h with
      | HInvalid => RLex
      | HComment => RTry None (drop_line r)
      | HKeyword => let '(id, r') := span_ident r in
                    if mem ch_dot id then RLex else RTry (Some (Kw id)) r'
      | HString => string_lit [] r
      | HWrap root =>
          match rec MOne r with ROne m r' => RTry (Some (sym_expr root [m])) r' | x => x end
      | HUnquote base suffix ch =>
          let '(root, r1) := match r with
                             | c2 :: r2 => if c2 =? ch then (base ++ suffix, r2) else (base, r)
                             | [] => (base, r)
                             end in
          match rec MOne r1 with ROne m r' => RTry (Some (sym_expr root [m])) r' | x => x end
      | HSeq k closer =>
          match rec (MSeq (Some closer) []) r with RSeq ms r' => RTry (Some (Seq k ms)) r' | x => x end
      | HDispatch => RLex  (* tag_dispatch is registered for "#" only (checked by the translator) *)
      | HDiscard =>
          match rec MOne r with ROne _ r' => RTry None r' | x => x end
      | HAnn root swapped =>
          match rec MOne r with
          | ROne a r' =>
              match rec MOne r' with
              | ROne b r'' => RTry (Some (sym_expr root (if swapped then [b; a] else [a; b]))) r''
              | x => x
              end
          | x => x
          end
      | HBracket => bracket_lit r
      end.

    (* tag_dispatch after "#" *)
    Definition dispatch (r : text) : res :=
      match r with
      | [] => RPrem
      | c2 :: r2 =>
        if pyspace orc c2 then RPrem else
        let '(id0, r0) := span_ident r in
        let '(ident, r1) := match id0 with [] => ([c2], r2) | _ => (id0, r0) end in
        match lookup (c_hash :: ident) reader_table with
        | Some h => run_basic h r1
        | None => RLex
        end
      end.

    Definition ident_res (ident r' : text) : res :=
      match as_identifier ident with Some t => RTry (Some t) r' | None => RLex end.

    (* read_default(key) *)
    Definition read_default (c : N) (r : text) : res :=
      let '(id0, r') := span_ident r in
      let ident := c :: id0 in
      match r' with
      | c2 :: r2 => if c2 =? c_dq then string_lit ident r2 else ident_res ident r'
      | [] => ident_res ident r'
      end.

    (* try_parse_one_form *)
    Definition try_body (s : text) : res :=
      match slurp s with
      | [] => convert RPrem
      | c :: r =>
        let body := match lookup [c] reader_table with
                    | Some HDispatch => dispatch r
                    | Some h => run_basic h r
                    | None => read_default c r
                    end in
        match convert body with
        | RTry (Some m) rest => RTry (Some (mk orc (length r) (length rest) m)) rest
        | x => x
        end
      end.

    (* parse_one_form *)
    Definition one_body (s : text) : res :=
      match rec MTry s with
      | RTry (Some m) r => ROne m r
      | RTry None r => rec MOne r
      | x => x
      end.

    (* parse_forms_until(closer); closer None is the "" of parse() *)
    Definition at_closer (closer : option N) (s : text) : bool :=
      match closer, s with
      | None, [] => true
      | Some k, c :: _ => c =? k
      | _, _ => false
      end.
    Definition seq_body (closer : option N) (acc : list tree) (s : text) : res :=
      let s1 := slurp s in
      if at_closer closer s1 then RSeq (rev acc) (tl s1)
      else match rec MTry s1 with
           | RTry (Some m) r' => rec (MSeq closer (m :: acc)) r'
           | RTry None r' => rec (MSeq closer acc) r'
           | x => x
           end.

    (* read_fcomponents_until *)
    (* `start = self.pos` is taken at the top of every iteration of the loop, i.e. it is the length of the
       input this call starts with; the mode's start argument only records the length at the first iteration *)
    Definition parts_body (cl : closing) (rawp tmode : bool) (start0 : nat) (acc : list tree) (s : text) : res :=
      let start := length s in
      match scan true rawp cl false [] s with
      | ScClosed body _ rest =>
          match finish_chunk rawp false body with
          | inl v => RParts (rev (add_str v start (length rest) acc)) rest
          | inr e => RPy e
          end
      | ScField body cl' rest =>
          match finish_chunk rawp false body with
          | inl v =>
              match rec (MField rawp tmode) rest with
              | RParts fs rest' => rec (MParts cl' rawp tmode start0 (rev fs ++ add_str v start (length rest) acc)) rest'
              | x => x
              end
          | inr e => RPy e
          end
      | ScPrem => RPrem
      | ScLex => RLex
      | ScPy e => RPy e
      end.

    (* read_fcomponent, from the conversion's slurp_space on *)
    Definition field_after (rawp tmode dbg : bool) (start : nat) (values : list tree) (m : tree) (form_text : text)
                           (conv : option N) (s6 : text) : res :=
      match slurp s6 with
      | c :: r =>
          if c =? c_colon then
            match rec (MParts ClBrace rawp false (length r) []) r with
            | RParts fcs rest =>
                RParts (values ++ [mk orc start (length rest) (FComp tmode conv form_text (m :: fcs))]) rest
            | x => x
            end
          else if c =? c_rbrace then
            let conv' := match conv with None => if dbg then Some c_r else None | _ => conv end in
            RParts (values ++ [mk orc start (length r) (FComp tmode conv' form_text [m])]) r
          else RLex
      | [] => RPrem   (* c = self.getc(); if not c: raise PrematureEndOfInput *)
      end.

    (* read_fcomponent *)
    Definition field_body (rawp tmode : bool) (s : text) : res :=
      let start := length s in
      let s1 := slurp s in
      match rec MOne s1 with
      | ROne m s2 =>
        let form_text := firstn (length s1 - length s2) s1 in
        let s3 := slurp s2 in
        let dbg := match s3 with c :: _ => c =? c_eq | [] => false end in
        let s5 := if dbg then slurp (tl s3) else s3 in
        let values := if dbg then [mk orc start (length s5) (Str (firstn (length s - length s5) s) None)] else [] in
        match s5 with
        | c :: r => if c =? c_bang then
                      match r with
                      | c2 :: r2 => field_after rawp tmode dbg start values m form_text (Some c2) r2
                      | [] => RPrem   (* the conversion character is the empty string: the field ends at the end of input *)
                      end
                    else field_after rawp tmode dbg start values m form_text None s5
        | [] => field_after rawp tmode dbg start values m form_text None s5
        end
      | x => x
      end.
  End Bodies.

  Fixpoint rd (fuel : nat) (md : mode) (s : text) : res :=
    match fuel with
    | O => ROut
    | S f =>
      match md with
      | MTry => try_body (rd f) s
      | MOne => one_body (rd f) s
      | MSeq closer acc => seq_body (rd f) closer acc s
      | MParts cl rawp tmode start acc => parts_body (rd f) cl rawp tmode start acc s
      | MField rawp tmode => field_body (rd f) rawp tmode s
      end
    end.

  Definition read_fuel (s : text) : nat := 3 * length s + 3.

  Definition outcome_of (x : res) : outcome :=
    match x with
    | RSeq ms _ => Ok ms
    | RPrem => Premature
    | RLex => Lex
    | RPy e => PyErr e
    | _ => OutOfFuel
    end.

  (* list(hy.read_many(text)) *)
  Definition read_many (s : text) : outcome := outcome_of (rd (read_fuel s) (MSeq None []) s).

  (* list(hy.read_many(text, skip_shebang=True)), the way the importer, hy2py and `hy file` read source files:
     HyReader.parse peeks len(shebang_mark) characters and, if they are the mark, consumes characters with chars()
     through the first shebang_end -- PrematureEndOfInput if there is none; all of this outside try_parse_one_form *)
  Definition read_many_file (s : text) : outcome :=
    if starts_with shebang_mark s then
      match drop_through shebang_end s with
      | None => Premature
      | Some r => outcome_of (rd (read_fuel r) (MSeq None []) r)
      end
    else read_many s.
End Reader.
