(* Reader family: one-step equations of try_parse_one_form for the sugar prefixes, "#_", "#^",
   the sequence openers and line comments, computed from the regenerated dispatch table
   (each [lk_*] lemma is a table fact proved by reflexivity over Gen/ReaderTables.v). *)
From HyV Require Import Base.Text Reader.Syntax Gen.ReaderTables Reader.Model Reader.Progress Reader.Mono Reader.Shape Reader.Suffix Reader.Extend Reader.Concat Reader.Cst.
From Coq Require Import Lia.

(* what the printed-tree theorems ask of the oracles *)
Definition tag_chars : list N := [c_star; c_caret; c_us; c_lbrace; c_lp; c_lbrack].
Record orc_ok (orc : oracles) : Prop := {
  ok_plain : plain orc;
  ok_space : forall c, In c tag_chars -> pyspace orc c = false
}.

Lemma lk_0 : lookup [c_semi] reader_table = Some HComment.
Proof. reflexivity. Qed.
Lemma lk_1 : lookup [c_quote] reader_table = Some (HWrap t_quote).
Proof. reflexivity. Qed.
Lemma lk_2 : lookup [c_bquote] reader_table = Some (HWrap t_quasiquote).
Proof. reflexivity. Qed.
Lemma lk_3 : lookup [c_tilde] reader_table = Some (HUnquote t_unquote [45; 115; 112; 108; 105; 99; 101] c_at).
Proof. reflexivity. Qed.
Lemma lk_4 : lookup [c_hash] reader_table = Some HDispatch.
Proof. reflexivity. Qed.
Lemma lk_5 : lookup (c_hash :: [c_star]) reader_table = Some (HWrap t_unpack_iterable).
Proof. reflexivity. Qed.
Lemma lk_6 : lookup (c_hash :: [c_star; c_star]) reader_table = Some (HWrap t_unpack_mapping).
Proof. reflexivity. Qed.
Lemma lk_7 : lookup (c_hash :: [c_caret]) reader_table = Some (HAnn t_annotate true).
Proof. reflexivity. Qed.
Lemma lk_8 : lookup (c_hash :: [c_us]) reader_table = Some HDiscard.
Proof. reflexivity. Qed.
Lemma lk_9 : lookup [c_lp] reader_table = Some (HSeq KExpr c_rp).
Proof. reflexivity. Qed.
Lemma lk_10 : lookup [c_lbrack] reader_table = Some (HSeq KList c_rbrack).
Proof. reflexivity. Qed.
Lemma lk_11 : lookup [c_lbrace] reader_table = Some (HSeq KDict c_rbrace).
Proof. reflexivity. Qed.
Lemma lk_12 : lookup (c_hash :: [c_lbrace]) reader_table = Some (HSeq KSet c_rbrace).
Proof. reflexivity. Qed.
Lemma lk_13 : lookup (c_hash :: [c_lp]) reader_table = Some (HSeq KTuple c_rp).
Proof. reflexivity. Qed.

Section Steps.
  Variable orc : oracles.
  Hypothesis Hok : orc_ok orc.
  Let Hp := ok_plain orc Hok.

  Lemma one_eq f u : rd orc (S f) MOne u =
    match rd orc f MTry u with RTry (Some m) r => ROne m r | RTry None r => rd orc f MOne r | x => x end.
  Proof. reflexivity. Qed.
  Lemma seq_eq f closer acc u : rd orc (S f) (MSeq closer acc) u =
    let s1 := slurp u in
    if at_closer closer s1 then RSeq (rev acc) (tl s1)
    else match rd orc f MTry s1 with
         | RTry (Some m) r' => rd orc f (MSeq closer (m :: acc)) r'
         | RTry None r' => rd orc f (MSeq closer acc) r'
         | x => x
         end.
  Proof. reflexivity. Qed.

  Lemma slurp_idem u : slurp (slurp u) = slurp u.
  Proof. unfold slurp. induction u as [|c u IH]; simpl; [reflexivity|]. destruct (is_ws c) eqn:E; [exact IH|]. simpl. rewrite E. reflexivity. Qed.
  Lemma try_slurp f u : rd orc f MTry (slurp u) = rd orc f MTry u.
  Proof. destruct f; [reflexivity|]. cbn [rd]. unfold try_body. rewrite slurp_idem. reflexivity. Qed.
  Lemma try_ws f c u : is_ws c = true -> rd orc f MTry (c :: u) = rd orc f MTry u.
  Proof. intros H. rewrite <- (try_slurp f (c :: u)). unfold slurp. simpl. rewrite H. apply try_slurp. Qed.
  Lemma seq_ws f closer acc c u : is_ws c = true -> rd orc f (MSeq closer acc) (c :: u) = rd orc f (MSeq closer acc) u.
  Proof. intros H. destruct f; [reflexivity|]. rewrite !seq_eq. unfold slurp. simpl. rewrite H. reflexivity. Qed.

  (* line comment *)
  Lemma drop_line_body body u : has_nl body = false -> drop_line (body ++ c_nl :: u) = u.
  Proof. induction body as [|c b IH]; simpl; [reflexivity|]. destruct (c =? c_nl); simpl; [discriminate|exact IH]. Qed.
  Lemma try_comment f body u : has_nl body = false -> rd orc (S f) MTry (c_semi :: body ++ c_nl :: u) = RTry None u.
  Proof.
    intros H. cbn [rd]. unfold try_body.
    change (slurp (c_semi :: body ++ c_nl :: u)) with (c_semi :: body ++ c_nl :: u). cbv beta iota.
    rewrite lk_0. cbn [run_basic].
    rewrite drop_line_body by exact H. reflexivity.
  Qed.

  Lemma span_tag c r : ends_ident c = false -> ends_opt (hd_opt r) = true -> span_ident (c :: r) = ([c], r).
  Proof.
    intros H E. simpl. rewrite H. destruct r as [|d q]; [reflexivity|]. simpl in *. rewrite E. reflexivity.
  Qed.

  (* sugar: one operand *)
  Lemma try_wrap f w r m r' :
    match w with
    | WUnquote => match r with d :: _ => d =? c_at | [] => false end = false
    | WStar | WStarStar => ends_opt (hd_opt r) = true
    | _ => True
    end ->
    rd orc f MOne r = ROne m r' ->
    rd orc (S f) MTry (wrap_key w ++ r) = RTry (Some (sym_expr (wrap_root w) [m])) r'.
  Proof.
    intros C E. cbn [rd]. unfold try_body. destruct w; cbn [wrap_key app].
    - change (slurp (c_quote :: r)) with (c_quote :: r). cbv beta iota. rewrite lk_1.
      cbn [run_basic]. rewrite E. cbn [convert convert_with]. rewrite Hp. reflexivity.
    - change (slurp (c_bquote :: r)) with (c_bquote :: r). cbv beta iota. rewrite lk_2.
      cbn [run_basic]. rewrite E. cbn [convert convert_with]. rewrite Hp. reflexivity.
    - change (slurp (c_tilde :: r)) with (c_tilde :: r). cbv beta iota.
      rewrite lk_3.
      cbn [run_basic]. destruct r as [|d q].
      + rewrite E. cbn [convert convert_with]. rewrite Hp. reflexivity.
      + rewrite C. rewrite E. cbn [convert convert_with]. rewrite Hp. reflexivity.
    - change (slurp (c_tilde :: c_at :: r)) with (c_tilde :: c_at :: r). cbv beta iota.
      rewrite lk_3.
      cbn [run_basic]. change (c_at =? c_at) with true. cbv iota. rewrite E. cbn [convert convert_with]. rewrite Hp. reflexivity.
    - change (slurp (c_hash :: c_star :: r)) with (c_hash :: c_star :: r). cbv beta iota.
      rewrite lk_4. cbv iota. unfold dispatch.
      rewrite (ok_space orc Hok c_star) by (simpl; intuition reflexivity).
      rewrite (span_tag c_star r eq_refl C).
      rewrite lk_5.
      cbn [run_basic]. rewrite E. cbn [convert convert_with]. rewrite Hp. reflexivity.
    - change (slurp (c_hash :: c_star :: c_star :: r)) with (c_hash :: c_star :: c_star :: r). cbv beta iota.
      rewrite lk_4. cbv iota. unfold dispatch.
      rewrite (ok_space orc Hok c_star) by (simpl; intuition reflexivity).
      assert (Sp : span_ident (c_star :: c_star :: r) = ([c_star; c_star], r)).
      { change (span_ident (c_star :: c_star :: r)) with (let '(a, b) := span_ident (c_star :: r) in (c_star :: a, b)).
        rewrite (span_tag c_star r eq_refl C). reflexivity. }
      rewrite Sp.
      rewrite lk_6.
      cbn [run_basic]. rewrite E. cbn [convert convert_with]. rewrite Hp. reflexivity.
  Qed.

  (* "#^": two operands, emitted in the opposite order *)
  Lemma try_ann f r a r' b r'' : ends_opt (hd_opt r) = true ->
    rd orc f MOne r = ROne a r' -> rd orc f MOne r' = ROne b r'' ->
    rd orc (S f) MTry (ann_key ++ r) = RTry (Some (sym_expr t_annotate [b; a])) r''.
  Proof.
    intros C E1 E2. cbn [rd]. unfold try_body. cbn [ann_key app].
    change (slurp (c_hash :: c_caret :: r)) with (c_hash :: c_caret :: r). cbv beta iota.
    rewrite lk_4. cbv iota. unfold dispatch.
    rewrite (ok_space orc Hok c_caret) by (simpl; intuition reflexivity).
    rewrite (span_tag c_caret r eq_refl C).
    rewrite lk_7.
    cbn [run_basic]. rewrite E1, E2. cbn [convert convert_with]. rewrite Hp. reflexivity.
  Qed.

  (* "#_": the operand is dropped *)
  Lemma try_discard f r m r' : ends_opt (hd_opt r) = true ->
    rd orc f MOne r = ROne m r' -> rd orc (S f) MTry (dis_key ++ r) = RTry None r'.
  Proof.
    intros C E. cbn [rd]. unfold try_body. cbn [dis_key app].
    change (slurp (c_hash :: c_us :: r)) with (c_hash :: c_us :: r). cbv beta iota.
    rewrite lk_4. cbv iota. unfold dispatch.
    rewrite (ok_space orc Hok c_us) by (simpl; intuition reflexivity).
    rewrite (span_tag c_us r eq_refl C).
    rewrite lk_8.
    cbn [run_basic]. rewrite E. reflexivity.
  Qed.

  (* sequences *)
  Lemma try_seq f k r ms r' :
    rd orc f (MSeq (Some (seq_close k)) []) r = RSeq ms r' ->
    rd orc (S f) MTry (seq_open k ++ r) = RTry (Some (Seq k ms)) r'.
  Proof.
    intros E. cbn [rd]. unfold try_body. destruct k; cbn [seq_open seq_close app] in *.
    - change (slurp (c_lp :: r)) with (c_lp :: r). cbv beta iota. rewrite lk_9.
      cbn [run_basic]. rewrite E. cbn [convert convert_with]. rewrite Hp. reflexivity.
    - change (slurp (c_lbrack :: r)) with (c_lbrack :: r). cbv beta iota. rewrite lk_10.
      cbn [run_basic]. rewrite E. cbn [convert convert_with]. rewrite Hp. reflexivity.
    - change (slurp (c_lbrace :: r)) with (c_lbrace :: r). cbv beta iota. rewrite lk_11.
      cbn [run_basic]. rewrite E. cbn [convert convert_with]. rewrite Hp. reflexivity.
    - change (slurp (c_hash :: c_lbrace :: r)) with (c_hash :: c_lbrace :: r). cbv beta iota.
      rewrite lk_4. cbv iota. unfold dispatch.
      rewrite (ok_space orc Hok c_lbrace) by (simpl; intuition reflexivity).
      change (span_ident (c_lbrace :: r)) with (@nil N, c_lbrace :: r). cbv beta iota zeta.
      rewrite lk_12.
      cbn [run_basic]. rewrite E. cbn [convert convert_with]. rewrite Hp. reflexivity.
    - change (slurp (c_hash :: c_lp :: r)) with (c_hash :: c_lp :: r). cbv beta iota.
      rewrite lk_4. cbv iota. unfold dispatch.
      rewrite (ok_space orc Hok c_lp) by (simpl; intuition reflexivity).
      change (span_ident (c_lp :: r)) with (@nil N, c_lp :: r). cbv beta iota zeta.
      rewrite lk_13.
      cbn [run_basic]. rewrite E. cbn [convert convert_with]. rewrite Hp. reflexivity.
  Qed.
End Steps.
