(* Reader family, C21: the position annotations the reader puts on models are well nested
   (a child lies within its parent), the items of every sequence are strictly in source order -- the one
   exception, by design, is the model of the annotate sugar -- and the parts of every f-string and the
   children of every replacement field are in source order in the weak sense (starts and ends do not go
   backwards; neighbouring parts share their delimiting brace).  For ALL texts and all oracles whose
   fill_pos is [At].  Positions are remaining-input lengths (larger = earlier in the text). *)
From HyV Require Import Base.Text Reader.Syntax Gen.ReaderTables Reader.Model Reader.Progress Reader.Mono Reader.Shape Reader.Suffix Reader.Extend Reader.Cst.
From Coq Require Import Lia.

(* Positions are remaining-input lengths: larger = earlier in the text.
   [wn hi lo t]: every annotation of t lies between hi (start side) and lo (end side),
   and the annotations nested in it lie within it. *)
Fixpoint wn (hi lo : nat) (t : tree) : Prop :=
  match t with
  | At a b t' => (lo <= b /\ b <= a /\ a <= hi)%nat /\ wn a b t'
  | Seq _ ts => (fix go (l : list tree) : Prop := match l with [] => True | x :: r => wn hi lo x /\ go r end) ts
  | FStr _ _ ts => (fix go (l : list tree) : Prop := match l with [] => True | x :: r => wn hi lo x /\ go r end) ts
  | FComp _ _ _ ts => (fix go (l : list tree) : Prop := match l with [] => True | x :: r => wn hi lo x /\ go r end) ts
  | _ => True
  end.
Fixpoint wnl (hi lo : nat) (l : list tree) : Prop := match l with [] => True | x :: r => wn hi lo x /\ wnl hi lo r end.

Lemma wn_seq hi lo k ts : wn hi lo (Seq k ts) = wnl hi lo ts.
Proof. simpl. induction ts as [|x r IH]; simpl; [reflexivity|]. rewrite IH. reflexivity. Qed.
Lemma wn_fstr hi lo a b ts : wn hi lo (FStr a b ts) = wnl hi lo ts.
Proof. simpl. induction ts as [|x r IH]; simpl; [reflexivity|]. rewrite IH. reflexivity. Qed.
Lemma wn_fcomp hi lo a b c ts : wn hi lo (FComp a b c ts) = wnl hi lo ts.
Proof. simpl. induction ts as [|x r IH]; simpl; [reflexivity|]. rewrite IH. reflexivity. Qed.

Lemma wn_mono_gen : forall t hi lo hi' lo', wn hi lo t -> (hi <= hi')%nat -> (lo' <= lo)%nat -> wn hi' lo' t.
Proof.
  fix IH 1. intros t hi lo hi' lo' H L1 L2. destruct t as [s|s|s|v b|v|k ts|a b ts|a b c ts|a b t']; try exact I.
  - rewrite wn_seq in *. induction ts as [|x r IHr]; simpl in *; [exact I|]. destruct H as [Hx Hr]. split; [eapply IH; eauto|auto].
  - rewrite wn_fstr in *. induction ts as [|x r IHr]; simpl in *; [exact I|]. destruct H as [Hx Hr]. split; [eapply IH; eauto|auto].
  - rewrite wn_fcomp in *. induction ts as [|x r IHr]; simpl in *; [exact I|]. destruct H as [Hx Hr]. split; [eapply IH; eauto|auto].
  - simpl in *. destruct H as [[A [B C]] D]. split; [lia|exact D].
Qed.
Lemma wnl_mono l : forall hi lo hi' lo', wnl hi lo l -> (hi <= hi')%nat -> (lo' <= lo)%nat -> wnl hi' lo' l.
Proof. induction l as [|x r IH]; simpl; intros hi lo hi' lo' W L1 L2; [exact I|]. destruct W as [Wx Wr]. split; [eapply wn_mono_gen; eauto|eapply IH; eauto]. Qed.
Lemma wnl_app hi lo l1 l2 : wnl hi lo (l1 ++ l2) <-> wnl hi lo l1 /\ wnl hi lo l2.
Proof. induction l1 as [|x r IH]; simpl; [tauto|]. rewrite IH. tauto. Qed.
Lemma wnl_rev hi lo l : wnl hi lo (rev l) <-> wnl hi lo l.
Proof. induction l as [|x r IH]; simpl; [tauto|]. rewrite wnl_app. simpl. tauto. Qed.

(* source order of the children of a sequence: the next child starts after the previous one ends *)
Definition top_a (t : tree) : option nat := match t with At a _ _ => Some a | _ => None end.
Definition top_b (t : tree) : option nat := match t with At _ b _ => Some b | _ => None end.
Definition before (x y : tree) : Prop :=
  match top_b x, top_a y with Some b, Some a => (a < b)%nat | _, _ => True end.
Fixpoint ordered (l : list tree) : Prop :=
  match l with
  | x :: r => match r with y :: _ => before x y | [] => True end /\ ordered r
  | [] => True
  end.
(* the parts of an f-string (and the children of a replacement field): starts and ends do not go
   backwards (neighbouring regions share their delimiting brace, and a debugging text shares the start
   of its field, so the strict order of sequences does not apply) *)
Definition beforew (x y : tree) : Prop :=
  match x, y with At ax bx _, At ay by' _ => (ay <= ax)%nat /\ (by' <= bx)%nat | _, _ => True end.
Definition okhd (x : tree) (l : list tree) : Prop := match l with y :: _ => beforew x y | [] => True end.
Fixpoint ordw (l : list tree) : Prop := match l with x :: r => okhd x r /\ ordw r | [] => True end.
Definition le_top (n : nat) (t : tree) : Prop := match t with At a _ _ => (a <= n)%nat | _ => True end.

(* the one exception, by design: the model of "#^" lists the target before the type *)
Definition is_annotate (ts : list tree) : Prop := exists x y, ts = [Sym t_annotate; x; y].
Fixpoint ord (t : tree) : Prop :=
  match t with
  | At _ _ t' => ord t'
  | Seq _ ts => (ordered ts \/ is_annotate ts)
                /\ (fix go (l : list tree) : Prop := match l with [] => True | x :: r => ord x /\ go r end) ts
  | FStr _ _ ts => ordw ts /\ (fix go (l : list tree) : Prop := match l with [] => True | x :: r => ord x /\ go r end) ts
  | FComp _ _ _ ts => ordw ts /\ (fix go (l : list tree) : Prop := match l with [] => True | x :: r => ord x /\ go r end) ts
  | _ => True
  end.
Fixpoint ordl (l : list tree) : Prop := match l with [] => True | x :: r => ord x /\ ordl r end.
Lemma ord_seq k ts : ord (Seq k ts) = ((ordered ts \/ is_annotate ts) /\ ordl ts).
Proof.
  assert (E : forall l, (fix go (l : list tree) : Prop := match l with [] => True | x :: r => ord x /\ go r end) l = ordl l)
    by (induction l as [|x r IH]; simpl; [reflexivity|rewrite IH; reflexivity]).
  simpl. rewrite E. reflexivity.
Qed.
Lemma ord_fstr a b ts : ord (FStr a b ts) = (ordw ts /\ ordl ts).
Proof.
  assert (E : forall l, (fix go (l : list tree) : Prop := match l with [] => True | x :: r => ord x /\ go r end) l = ordl l)
    by (induction l as [|x r IH]; simpl; [reflexivity|rewrite IH; reflexivity]).
  simpl. rewrite E. reflexivity.
Qed.
Lemma ord_fcomp a b c ts : ord (FComp a b c ts) = (ordw ts /\ ordl ts).
Proof.
  assert (E : forall l, (fix go (l : list tree) : Prop := match l with [] => True | x :: r => ord x /\ go r end) l = ordl l)
    by (induction l as [|x r IH]; simpl; [reflexivity|rewrite IH; reflexivity]).
  simpl. rewrite E. reflexivity.
Qed.
Lemma ordl_app l1 l2 : ordl (l1 ++ l2) <-> ordl l1 /\ ordl l2.
Proof. induction l1 as [|x r IH]; simpl; [tauto|]. rewrite IH. tauto. Qed.
Lemma ordl_rev l : ordl (rev l) <-> ordl l.
Proof. induction l as [|x r IH]; simpl; [tauto|]. rewrite ordl_app. simpl. tauto. Qed.

(* appending an element that starts after everything before it has ended *)
Lemma ordered_snoc l y lo hi : ordered l -> wnl hi lo l ->
  (match top_a y with Some a => (a < lo)%nat | None => True end) -> ordered (l ++ [y]).
Proof.
  induction l as [|x r IH]; intros O W A; simpl; [auto|]. simpl in O, W. destruct O as [O1 O2]. destruct W as [W1 W2].
  split; [|apply IH; assumption].
  destruct r as [|z r']; simpl; [|exact O1].
  unfold before. destruct x; simpl; auto. destruct (top_a y); auto. simpl in W1. lia.
Qed.

(* ---- the weak order ---- *)
Lemma beforew_noat_r x y : top_a y = None -> beforew x y.
Proof. destruct x; simpl; auto. destruct y; simpl; auto. discriminate. Qed.
Fixpoint last_opt (l : list tree) : option tree :=
  match l with [] => None | a :: r => match r with [] => Some a | _ => last_opt r end end.
Definition oklast (l1 l2 : list tree) : Prop := match last_opt l1 with Some x => okhd x l2 | None => True end.
Lemma ordw_app l1 : forall l2, ordw (l1 ++ l2) <-> ordw l1 /\ ordw l2 /\ oklast l1 l2.
Proof.
  unfold oklast. induction l1 as [|a l1 IH]; intros l2; [simpl; tauto|].
  destruct l1 as [|b l1'].
  - simpl. tauto.
  - change ((a :: b :: l1') ++ l2) with (a :: (b :: l1') ++ l2).
    change (ordw (a :: (b :: l1') ++ l2)) with (okhd a ((b :: l1') ++ l2) /\ ordw ((b :: l1') ++ l2)).
    rewrite IH. change (last_opt (a :: b :: l1')) with (last_opt (b :: l1')).
    change (ordw (a :: b :: l1')) with (okhd a (b :: l1') /\ ordw (b :: l1')). simpl okhd. tauto.
Qed.
Lemma wnl_last hi lo l x : wnl hi lo l -> last_opt l = Some x -> wn hi lo x.
Proof.
  induction l as [|a r IH]; [discriminate|]. intros [W1 W2] E. destruct r as [|b r'].
  - inversion E; subst. exact W1.
  - apply IH; [exact W2|exact E].
Qed.
(* joining a list whose elements end at or after lo with one whose first element starts at or before lo *)
Lemma ordw_join hi lo hi' lo' l1 l2 : ordw l1 -> ordw l2 -> wnl hi lo l1 -> wnl hi' lo' l2 ->
  (match l2 with y :: _ => le_top lo y | [] => True end) -> ordw (l1 ++ l2).
Proof.
  intros O1 O2 W1 W2 T. apply ordw_app. split; [exact O1|split; [exact O2|]]. unfold oklast.
  destruct (last_opt l1) as [x|] eqn:E; [|exact I]. destruct l2 as [|y l2']; [exact I|]. simpl.
  pose proof (wnl_last _ _ _ _ W1 E) as Wx. destruct W2 as [Wy _].
  unfold beforew. destruct x; auto. destruct y; auto. simpl in *. lia.
Qed.

(* FString.__new__'s joining of adjacent strings keeps the weak order *)
Lemma okhd_flush x grp : okhd x (rev grp) -> okhd x (flush_group grp).
Proof.
  destruct grp as [|a [|b g]]; simpl; auto. intros _. destruct x; simpl; auto.
Qed.
Lemma okhd_app_nonempty x l1 l2 : l1 <> [] -> okhd x (l1 ++ l2) <-> okhd x l1.
Proof. destruct l1; [congruence|]. simpl. tauto. Qed.
Lemma join_go_okhd x : forall ts grp, okhd x (rev grp ++ ts) -> okhd x (join_go grp ts).
Proof.
  induction ts as [|t r IH]; intros grp H; simpl.
  - rewrite app_nil_r in H. apply okhd_flush. exact H.
  - destruct (str_val t).
    + apply IH. simpl. rewrite <- app_assoc. exact H.
    + destruct grp as [|a [|b g]].
      * simpl in *. exact H.
      * simpl in *. exact H.
      * simpl. destruct x; simpl; auto.
Qed.
Lemma flush_last grp : match last_opt (flush_group grp) with
                       | Some z => (exists a, grp = [a] /\ z = a) \/ top_a z = None
                       | None => grp = [] end.
Proof. destruct grp as [|a [|b g]]; simpl; auto. left. exists a. auto. Qed.
Lemma join_go_ordw : forall ts grp, ordw (rev grp ++ ts) -> ordw (join_go grp ts).
Proof.
  induction ts as [|t r IH]; intros grp H; simpl.
  - destruct grp as [|a [|b g]]; simpl; auto.
  - destruct (str_val t).
    + apply IH. simpl. rewrite <- app_assoc. exact H.
    + apply ordw_app in H. destruct H as [H1 [H2 H3]]. simpl in H2. destruct H2 as [H2a H2b].
      apply ordw_app. split; [|split].
      * destruct grp as [|a [|b g]]; simpl; auto.
      * simpl. split; [apply (join_go_okhd t r []); exact H2a|apply (IH []); exact H2b].
      * unfold oklast in *. pose proof (flush_last grp) as F. destruct (last_opt (flush_group grp)) as [z|]; [|exact I].
        destruct F as [[a [-> ->]]|F].
        -- simpl in H3. exact H3.
        -- simpl. destruct z; simpl; auto. discriminate.
Qed.
Lemma join_strs_ordw ts : ordw ts -> ordw (join_strs ts).
Proof. intros H. apply (join_go_ordw ts []). exact H. Qed.

Definition lt_top (n : nat) (t : tree) : Prop := match top_a t with Some a => (a < n)%nat | None => True end.

(* what a mode's accumulator / start argument must satisfy on entry *)
Definition modeinv (H : nat) (s : text) (md : mode) : Prop :=
  match md with
  | MSeq _ acc => wnl H (length s) acc /\ ordl acc /\ ordered (rev acc)
  | MParts _ _ _ start acc => wnl H (length s) acc /\ ordl acc /\ ordw (rev acc) /\ Forall (le_top start) acc /\ (length s <= start)%nat
  | _ => True
  end.
(* the parts an f-string mode returns start at or after the position the mode was entered at *)
Definition bound (md : mode) (s : text) : nat := match md with MParts _ _ _ start _ => start | _ => length s end.
(* what a result satisfies: trees lie between H and the remainder; items of a sequence are in source order *)
Definition resinv (H : nat) (s : text) (md : mode) (x : res) : Prop :=
  match x with
  | RTry (Some m) r => wn H (length r) m /\ ord m /\ lt_top (length s) m
  | ROne m r => wn H (length r) m /\ ord m /\ lt_top (length s) m
  | RSeq ms r => wnl H (length r) ms /\ ordl ms /\ ordered ms
  | RParts ps r => wnl H (length r) ps /\ ordl ps /\ ordw ps /\ Forall (le_top (bound md s)) ps
  | _ => True
  end.
(* results of handler bodies, relative to the input r after the key *)
Definition bodyinv (r : text) (x : res) : Prop :=
  match x with
  | RTry (Some m) rest => wn (length r) (length rest) m /\ ord m
  | _ => True
  end.

Lemma ann_root k root sw : lookup k reader_table = Some (HAnn root sw) -> root = t_annotate.
Proof.
  intros H. apply lookup_in in H. unfold reader_table in H. simpl in H.
  repeat (destruct H as [H|H]; [try discriminate H; inversion H; reflexivity|]); contradiction.
Qed.

Lemma join_go_wnl hi lo : forall ts grp, wnl hi lo ts -> wnl hi lo grp -> wnl hi lo (join_go grp ts).
Proof.
  assert (F : forall grp, wnl hi lo grp -> wnl hi lo (flush_group grp)).
  { intros [|a [|b g]] W; simpl in *; auto. }
  induction ts as [|t r IH]; intros grp W G; simpl; [apply F; exact G|]. destruct W as [W1 W2].
  destruct (str_val t).
  - apply IH; [exact W2|simpl; auto].
  - apply wnl_app. split; [apply F; exact G|]. simpl. split; [exact W1|]. apply IH; [exact W2|exact I].
Qed.
Lemma join_go_ordl : forall ts grp, ordl ts -> ordl grp -> ordl (join_go grp ts).
Proof.
  assert (F : forall grp, ordl grp -> ordl (flush_group grp)).
  { intros [|a [|b g]] W; simpl in *; auto. }
  induction ts as [|t r IH]; intros grp W G; simpl; [apply F; exact G|]. destruct W as [W1 W2].
  destruct (str_val t).
  - apply IH; [exact W2|simpl; auto].
  - apply ordl_app. split; [apply F; exact G|]. simpl. split; [exact W1|]. apply IH; [exact W2|exact I].
Qed.

Section W.
  Variable orc : oracles.
  Hypothesis Hmk : forall a b t, mk orc a b t = At a b t.
  Variable rec : mode -> text -> res.
  Hypothesis Hrec : forall H md s, (length s <= H)%nat -> modeinv H s md -> resinv H s md (rec md s).
  Variable f : nat.
  Hypothesis Hgood : forall md s, good_s s (need md s < f)%nat (rec md s).
  Hypothesis Hshape : forall md s, shape md (rec md s).

  Lemma Hsh md s : shrinks s (rec md s).
  Proof. apply Hgood. Qed.

  Ltac call H md r :=
    let HI := fresh "HI" in let HS := fresh "HS" in let HP := fresh "HP" in
    pose proof (Hrec H md r) as HI; pose proof (Hsh md r) as HS; pose proof (Hshape md r) as HP;
    destruct (rec md r); cbn [bodyinv resinv shrinks shape bound] in *; try contradiction; try exact I.

  Lemma string_lit_inv prefix r : bodyinv r (string_lit orc rec prefix r).
  Proof.
    unfold string_lit. destruct (negb (prefix_ok prefix)); [exact I|].
    destruct (mem c_f prefix || mem c_t prefix).
    - call (length r) (MParts (ClQuote (mem c_r prefix) (mem c_b prefix) false) (mem c_r prefix) (negb (mem c_f prefix)) (length r) []) r.
      destruct HI as [W [O [Ow _]]]; [lia|simpl; repeat split; auto; lia|].
      rewrite wn_fstr, ord_fstr. split; [apply join_go_wnl; [exact W|exact I]|].
      split; [apply join_strs_ordw; exact Ow|apply join_go_ordl; [exact O|exact I]].
    - destruct (scan _ _ _ _ _ _); try exact I. destruct (finish_chunk _ _ _ _); [|exact I]. destruct (mem c_b prefix); simpl; auto.
  Qed.

  Lemma strip_len (c0 : N) (r1 : text) : (length (match r1 with c :: x => if (c =? c0)%N then x else r1 | [] => r1 end) <= length r1)%nat.
  Proof. destruct r1 as [|c x]; simpl; [lia|]. destruct (c =? c0)%N; simpl; lia. Qed.

  Lemma bracket_lit_inv r : bodyinv r (bracket_lit orc rec r).
  Proof.
    unfold bracket_lit. pose proof (read_delim_len r []) as Hd. destruct (read_delim [] r) as [d r1| |]; try exact I.
    set (r2 := match r1 with c :: x => if c =? c_cr then x else r1 | [] => r1 end).
    set (r3 := match r2 with c :: x => if c =? c_nl then x else r2 | [] => r2 end).
    assert (L3 : (length r3 <= length r)%nat).
    { assert (A : (length r2 <= length r1)%nat) by (unfold r2; apply strip_len).
      assert (B : (length r3 <= length r2)%nat) by (unfold r3; apply strip_len). simpl in Hd. lia. }
    clearbody r3 r2.
    destruct (is_f_delim d).
    - call (length r3) (MParts (ClDelim d None) true false (length r3) []) r3.
      destruct HI as [W [O [Ow _]]]; [lia|simpl; repeat split; auto; lia|].
      destruct (existsb _ _); [exact I|]. cbn [bodyinv]. rewrite wn_fstr, ord_fstr.
      split; [apply join_go_wnl; [eapply wnl_mono; eauto; lia|exact I]|].
      split; [apply join_strs_ordw; exact Ow|apply join_go_ordl; [exact O|exact I]].
    - destruct (scan _ _ _ _ _ _); try exact I. destruct (finish_chunk _ _ _ _); [|exact I]. destruct (contains _ _); simpl; auto.
  Qed.

  Lemma run_basic_inv h r : (forall root sw, h = HAnn root sw -> root = t_annotate) -> bodyinv r (run_basic orc rec h r).
  Proof.
    intros Ha. destruct h; cbn [run_basic]; try exact I.
    - destruct (span_ident r) as [id r']. destruct (mem ch_dot id); simpl; auto.
    - apply string_lit_inv.
    - call (length r) MOne r. destruct HI as [W [O T]]; [lia|exact I|].
      unfold sym_expr. rewrite wn_seq, ord_seq. split; [simpl; auto|]. split; [left; simpl; unfold before; simpl; auto|simpl; auto].
    - assert (X : forall r1, (length r1 <= length r)%nat -> forall rt,
                bodyinv r match rec MOne r1 with ROne m r' => RTry (Some (sym_expr rt [m])) r' | x => x end).
      { intros r1 L rt. call (length r) MOne r1. destruct HI as [W [O T]]; [lia|exact I|].
        unfold sym_expr. rewrite wn_seq, ord_seq. split; [simpl; auto|]. split; [left; simpl; unfold before; simpl; auto|simpl; auto]. }
      destruct r as [|c2 r2]; [apply X; simpl; lia|]. destruct (c2 =? ch); apply X; simpl; lia.
    - call (length r) (MSeq (Some closer) []) r. destruct HI as [W [O S]]; [lia|simpl; auto|].
      rewrite wn_seq, ord_seq. auto.
    - call (length r) MOne r.
    - call (length r) MOne r. rename m into a. rename rest into r'.
      destruct HI as [W1 [O1 T1]]; [lia|exact I|].
      call (length r) MOne r'. rename m into b. rename rest into r''.
      destruct HI as [W2 [O2 T2]]; [lia|exact I|].
      assert (W1' : wn (length r) (length r'') a) by (eapply wn_mono_gen; eauto; lia).
      unfold sym_expr. rewrite wn_seq, ord_seq.
      destruct swapped; simpl; repeat split; auto.
      + right. rewrite (Ha root true eq_refl). exists b, a. reflexivity.
      + left. split; [exact I|]. split; [|auto].
        unfold before, lt_top in *. destruct a; simpl; auto. destruct (top_a b); auto. simpl in W1. lia.
    - apply bracket_lit_inv.
  Qed.

  Lemma dispatch_inv r : bodyinv r (dispatch orc rec r).
  Proof.
    unfold dispatch. destruct r as [|c2 r2]; [exact I|]. destruct (pyspace orc c2); [exact I|].
    destruct (span_ident (c2 :: r2)) as [id0 r0] eqn:E. apply span_ident_len in E.
    assert (X : forall ident r1, (length r1 <= length (c2 :: r2))%nat ->
      bodyinv (c2 :: r2) match lookup (c_hash :: ident) reader_table with Some h => run_basic orc rec h r1 | None => RLex end).
    { intros ident r1 L. destruct (lookup (c_hash :: ident) reader_table) as [h|] eqn:Lk; [|exact I].
      pose proof (run_basic_inv h r1) as B. destruct (run_basic orc rec h r1) as [[m|] rest| | | | | | |]; cbn [bodyinv] in *; auto.
      destruct B as [W O]; [intros root sw ->; eapply ann_root; eauto|]. split; [eapply wn_mono_gen; eauto; lia|exact O]. }
    destruct id0; apply X; simpl in *; lia.
  Qed.

  Lemma as_identifier_inv t x : as_identifier orc t = Some x -> forall hi lo, wn hi lo x /\ ord x.
  Proof.
    unfold as_identifier. intros H hi lo.
    assert (S : forall l, wnl hi lo (map Sym l) /\ ordl (map Sym l) /\ forall y, ordered (y :: map Sym l) \/ True).
    { induction l; simpl; auto. destruct IHl as [A [B _]]. auto. }
    assert (OS : forall l, ordered (map Sym l)).
    { induction l as [|a l IH]; simpl; auto. split; [|exact IH]. destruct l; simpl; auto. unfold before. simpl. exact I. }
    destruct (numeric orc t); [inversion H; subst; simpl; auto|].
    destruct (mem ch_dot t); [|inversion H; subst; simpl; auto].
    destruct (forallb is_dot t); [inversion H; subst; simpl; auto|].
    destruct (has_dotdot _); [discriminate|]. destruct (is_dot _); [discriminate|]. destruct (existsb _ _); [discriminate|].
    inversion H; subst. destruct (S (split_dots (dropwhile is_dot t))) as [A [B _]].
    destruct (takewhile is_dot t); unfold sym_expr; rewrite wn_seq, ord_seq; simpl; repeat split; auto; left.
    + split; [|apply OS]. destruct (map Sym _) eqn:E; simpl; auto. unfold before. simpl. exact I.
    + split; [unfold before; simpl; exact I|]. split; [|apply OS]. destruct (map Sym _); simpl; auto. unfold before. simpl. exact I.
  Qed.

  Lemma read_default_inv c r : bodyinv r (read_default orc rec c r).
  Proof.
    unfold read_default. destruct (span_ident r) as [id0 r'] eqn:E. apply span_ident_len in E.
    assert (X : forall r0, bodyinv r (ident_res orc (c :: id0) r0)).
    { intros r0. unfold ident_res. destruct (as_identifier orc (c :: id0)) eqn:A; [|exact I]. cbn [bodyinv].
      apply (as_identifier_inv _ _ A). }
    destruct r' as [|c2 r2]; [apply X|]. destruct (c2 =? c_dq); [|apply X].
    pose proof (string_lit_inv (c :: id0) r2) as B. destruct (string_lit orc rec (c :: id0) r2) as [[m|] rest| | | | | | |]; cbn [bodyinv] in *; auto.
    destruct B as [W O]. split; [eapply wn_mono_gen; eauto; simpl in E; lia|exact O].
  Qed.

  Lemma wn_at H a b m : wn H b (At a b m) <-> ((b <= a)%nat /\ (a <= H)%nat) /\ wn a b m.
  Proof. simpl. split; intros [A B]; split; auto; lia. Qed.

  Lemma try_body_inv H s : (length s <= H)%nat -> resinv H s MTry (try_body orc rec s).
  Proof.
    intros LH. unfold try_body. pose proof (slurp_len s) as L. destruct (slurp s) as [|c r].
    { unfold convert, convert_with. destruct (first_handler mro_prem try_handlers) as [[|]|]; exact I. }
    simpl in L.
    set (body := match lookup [c] reader_table with
                 | Some HDispatch => dispatch orc rec r
                 | Some h => run_basic orc rec h r
                 | None => read_default orc rec c r end).
    assert (B : bodyinv r body /\ rest_le (length r) body).
    { unfold body. destruct (lookup [c] reader_table) as [h|] eqn:Lk.
      - assert (Ha : forall root sw, h = HAnn root sw -> root = t_annotate) by (intros root sw ->; eapply ann_root; eauto).
        destruct h; try (split; [apply run_basic_inv; exact Ha|apply (run_basic_good orc rec f Hgood)]).
        split; [apply dispatch_inv|apply (dispatch_good orc rec f Hgood)].
      - split; [apply read_default_inv|apply (read_default_good orc rec f Hgood)]. }
    destruct B as [B1 B2].
    assert (T : tryres body).
    { unfold body. destruct (lookup [c] reader_table) as [h|]; [|apply read_default_shape; exact Hshape].
      destruct h; try (apply run_basic_shape; exact Hshape). apply dispatch_shape; exact Hshape. }
    destruct body as [[m|] rest| | | | | | e |]; cbn [convert convert_with tryres] in *; try contradiction; try exact I;
      try (unfold convert, convert_with; match goal with |- context [first_handler ?mm ?h] => destruct (first_handler mm h) as [[|]|] end; exact I).
    cbn [bodyinv rest_le] in *. destruct B1 as [W O]. rewrite Hmk. cbn [resinv]. split; [|split; [exact O|unfold lt_top; simpl; lia]].
    simpl. repeat split; try lia. exact W.
  Qed.

  Lemma lt_top_mono n n' t : lt_top n t -> (n <= n')%nat -> lt_top n' t.
  Proof. unfold lt_top. destruct (top_a t); auto; lia. Qed.

  Lemma one_body_inv H s : (length s <= H)%nat -> resinv H s MOne (one_body rec s).
  Proof.
    intros LH. unfold one_body. call H MTry s. destruct m as [m|].
    - exact (HI LH I).
    - pose proof (Hrec H MOne rest) as HI2. pose proof (Hshape MOne rest) as HP2.
      destruct (rec MOne rest); cbn [resinv shape] in *; try contradiction; try exact I.
      destruct HI2 as [W [O T]]; [lia|exact I|]. repeat split; auto. eapply lt_top_mono; eauto; lia.
  Qed.


  Lemma seq_body_inv H closer acc s : (length s <= H)%nat -> modeinv H s (MSeq closer acc) ->
    resinv H s (MSeq closer acc) (seq_body rec closer acc s).
  Proof.
    intros LH [W [O S]]. unfold seq_body. pose proof (slurp_len s) as L.
    destruct (at_closer closer (slurp s)).
    { cbn [resinv]. split; [|split; [apply ordl_rev; exact O|exact S]]. apply wnl_rev. eapply wnl_mono; eauto.
      destruct (slurp s); simpl in *; lia. }
    call H MTry (slurp s). destruct m as [m|].
    - destruct HI as [Wm [Om Tm]]; [lia|exact I|].
      pose proof (Hrec H (MSeq closer (m :: acc)) rest) as HI2. pose proof (Hshape (MSeq closer (m :: acc)) rest) as HP2.
      destruct (rec (MSeq closer (m :: acc)) rest); cbn [resinv shape] in *; try contradiction; try exact I.
      apply HI2; [lia|]. cbn [modeinv]. split; [|split].
      + simpl. split; [exact Wm|eapply wnl_mono; eauto; lia].
      + simpl. auto.
      + simpl. eapply (ordered_snoc _ _ (length s) H); [exact S|apply wnl_rev; exact W|].
        unfold lt_top in Tm. destruct (top_a m); auto. lia.
    - pose proof (Hrec H (MSeq closer acc) rest) as HI2. pose proof (Hshape (MSeq closer acc) rest) as HP2.
      destruct (rec (MSeq closer acc) rest); cbn [resinv shape] in *; try contradiction; try exact I.
      apply HI2; [lia|]. cbn [modeinv]. split; [eapply wnl_mono; eauto; lia|auto].
  Qed.

  Lemma Forall_app_iff {A} (P : A -> Prop) l1 l2 : Forall P (l1 ++ l2) <-> Forall P l1 /\ Forall P l2.
  Proof. apply Forall_app. Qed.
  Lemma Forall_le_top_mono n n' l : Forall (le_top n) l -> (n <= n')%nat -> Forall (le_top n') l.
  Proof. intros F L. eapply Forall_impl; [|exact F]. intros t. unfold le_top. destruct t; auto. lia. Qed.

  (* one more literal part in front of the accumulator (which is kept reversed) *)
  Lemma add_str_inv H v a b acc st : wnl H a acc -> ordl acc -> ordw (rev acc) -> Forall (le_top st) acc ->
    (b <= a)%nat -> (a <= H)%nat -> (a <= st)%nat ->
    let acc' := add_str orc v a b acc in
    wnl H b acc' /\ ordl acc' /\ ordw (rev acc') /\ Forall (le_top st) acc'.
  Proof.
    intros W O Ow F L1 L2 L3. unfold add_str. destruct v as [|c v'].
    - simpl. repeat split; auto. eapply wnl_mono; eauto.
    - rewrite Hmk. simpl. repeat split; auto; try lia.
      + eapply wnl_mono; eauto.
      + apply (ordw_join H a H b (rev acc) [At a b (Str (c :: v') None)]);
          [exact Ow|simpl; auto|apply wnl_rev; exact W|simpl; repeat split; auto; lia|simpl; lia].
  Qed.

  Lemma parts_body_inv H cl rawp tmode start acc s : (length s <= H)%nat -> modeinv H s (MParts cl rawp tmode start acc) ->
    resinv H s (MParts cl rawp tmode start acc) (parts_body orc rec cl rawp tmode start acc s).
  Proof.
    intros LH [W [O [Ow [F S1]]]]. unfold parts_body. cbv zeta. pose proof (scan_len true rawp _ s cl false [] (le_n _)) as Hl.
    destruct (scan true rawp cl false [] s) as [body cl' rest|body cl' rest| | |]; try exact I; simpl in Hl.
    - destruct (finish_chunk orc rawp false body) as [v|]; [|exact I]. cbn [resinv bound].
      destruct (add_str_inv H v (length s) (length rest) acc start W O Ow F) as [A [B [C D]]]; try lia.
      split; [apply wnl_rev; exact A|]. split; [apply ordl_rev; exact B|]. split; [exact C|].
      apply Forall_rev. exact D.
    - destruct (finish_chunk orc rawp false body) as [v|]; [|exact I].
      destruct (add_str_inv H v (length s) (length rest) acc start W O Ow F) as [A [B [C D]]]; try lia.
      call H (MField rawp tmode) rest. destruct HI as [Wf [Of [Owf Ff]]]; [lia|exact I|]. rename rest0 into rest'.
      match goal with |- resinv _ _ _ (rec ?m ?u) => pose proof (Hrec H m u) as HI2; pose proof (Hshape m u) as HP2;
        destruct (rec m u); cbn [resinv shape bound] in *; try contradiction; try exact I end.
      apply HI2; [lia|]. cbn [modeinv]. split; [|split; [|split; [|split]]].
      + apply wnl_app. split; [apply wnl_rev; exact Wf|eapply wnl_mono; eauto; lia].
      + apply ordl_app. split; [apply ordl_rev; exact Of|exact B].
      + rewrite rev_app_distr, rev_involutive.
        apply (ordw_join H (length rest) H (length rest')); auto.
        * apply wnl_rev. exact A.
        * destruct ps as [|y ys]; [exact I|]. inversion Ff; subst. assumption.
      + apply Forall_app_iff. split; [apply Forall_rev; eapply Forall_le_top_mono; eauto; lia|exact D].
      + lia.
  Qed.

  Lemma field_after_inv H rawp tmode dbg start values m ft conv s6 :
    (length s6 <= start)%nat -> (start <= H)%nat ->
    (forall lo, (lo <= length s6)%nat -> wn start lo m) -> ord m -> lt_top start m ->
    (exists b6, (length s6 <= b6)%nat /\ (b6 <= start)%nat /\ (values = [] \/ exists v, values = [At start b6 (Str v None)])) ->
    match field_after orc rec rawp tmode dbg start values m ft conv s6 with
    | RParts ps r => wnl H (length r) ps /\ ordl ps /\ ordw ps /\ Forall (le_top start) ps
    | _ => True
    end.
  Proof.
    intros L6 LS Wm Om Tm [b6 [Lb1 [Lb2 Hv]]]. unfold field_after. pose proof (slurp_len s6) as L7.
    destruct (slurp s6) as [|c r]; [exact I|]. simpl in L7.
    assert (Wv : forall lo, (lo <= length s6)%nat -> wnl H lo values).
    { intros lo Llo. destruct Hv as [->|[v ->]]; simpl; repeat split; auto; lia. }
    assert (Ov : ordl values) by (destruct Hv as [->|[v ->]]; simpl; auto).
    assert (FIN : forall cv fcs b, (b <= length r)%nat -> wnl start b fcs -> ordl fcs -> ordw fcs -> Forall (le_top (length r)) fcs ->
       let ps := values ++ [mk orc start b (FComp tmode cv ft (m :: fcs))] in
       wnl H b ps /\ ordl ps /\ ordw ps /\ Forall (le_top start) ps).
    { intros cv fcs b Lb Wf Of Owf Ff. rewrite Hmk.
      assert (WF : wn H b (At start b (FComp tmode cv ft (m :: fcs)))).
      { apply wn_at. split; [lia|]. rewrite wn_fcomp. split; [apply Wm; lia|exact Wf]. }
      assert (OF : ord (At start b (FComp tmode cv ft (m :: fcs)))).
      { change (ord (FComp tmode cv ft (m :: fcs))). rewrite ord_fcomp. split; [|simpl; auto].
        simpl. split; [|exact Owf]. destruct fcs as [|y ys]; [exact I|]. simpl.
        inversion Ff; subst. destruct Wf as [Wy _]. specialize (Wm (length s6) (le_n _)).
        unfold beforew, le_top, lt_top in *. destruct m; auto. destruct y; auto. simpl in *. lia. }
      destruct Hv as [->|[v ->]].
      - change ([] ++ [At start b (FComp tmode cv ft (m :: fcs))]) with [At start b (FComp tmode cv ft (m :: fcs))].
        split; [split; [exact WF|exact I]|]. split; [split; [exact OF|exact I]|]. split; [simpl; auto|].
        constructor; [simpl; lia|constructor].
      - change ([At start b6 (Str v None)] ++ [At start b (FComp tmode cv ft (m :: fcs))])
          with [At start b6 (Str v None); At start b (FComp tmode cv ft (m :: fcs))].
        split; [split; [simpl; repeat split; auto; lia|split; [exact WF|exact I]]|].
        split; [split; [exact I|split; [exact OF|exact I]]|].
        split; [simpl; repeat split; auto; lia|].
        constructor; [simpl; lia|constructor; [simpl; lia|constructor]]. }
    destruct (c =? c_colon).
    - call start (MParts ClBrace rawp false (length r) []) r.
      destruct HI as [Wf [Of [Owf Ff]]]; [lia|simpl; repeat split; auto|]. apply FIN; auto. lia.
    - destruct (c =? c_rbrace); [|exact I]. apply (FIN _ [] (length r)); simpl; auto.
  Qed.

  Lemma field_body_inv H rawp tmode s : (length s <= H)%nat -> resinv H s (MField rawp tmode) (field_body orc rec rawp tmode s).
  Proof.
    intros LH. unfold field_body. cbv zeta. pose proof (slurp_len s) as L.
    call (length s) MOne (slurp s). rename rest into s2. destruct HI as [Wm [Om Tm]]; [lia|exact I|].
    pose proof (slurp_len s2) as L2.
    set (dbg := match slurp s2 with [] => false | c :: _ => c =? c_eq end).
    set (s5 := if dbg then slurp (tl (slurp s2)) else slurp s2).
    assert (L5 : (length s5 <= length s2)%nat).
    { unfold s5. destruct dbg; [|exact L2]. pose proof (slurp_len (tl (slurp s2))). destruct (slurp s2); simpl in *; lia. }
    clearbody s5 dbg.
    set (values := if dbg then [mk orc (length s) (length s5) (Str (firstn (length s - length s5) s) None)] else []).
    assert (Hv : values = [] \/ exists v, values = [At (length s) (length s5) (Str v None)]).
    { unfold values. destruct dbg; [right; rewrite Hmk; eauto|left; reflexivity]. }
    clearbody values.
    assert (A : forall conv s6, (length s6 <= length s5)%nat ->
       resinv H s (MField rawp tmode) (field_after orc rec rawp tmode dbg (length s) values m (firstn (length (slurp s) - length s2) (slurp s)) conv s6)).
    { intros conv s6 L6.
      pose proof (field_after_inv H rawp tmode dbg (length s) values m (firstn (length (slurp s) - length s2) (slurp s)) conv s6) as X.
      destruct (field_after _ _ _ _ _ _ _ _ _ _ _) eqn:E; try exact I; try (exfalso; revert E; unfold field_after;
        destruct (slurp s6) as [|c0 r0]; [discriminate|]; destruct (c0 =? c_colon);
        [pose proof (Hshape (MParts ClBrace rawp false (length r0) []) r0) as Q; destruct (rec _ r0); simpl in Q; try contradiction; discriminate
        |destruct (c0 =? c_rbrace); discriminate]).
      cbn [resinv bound]. apply X; try lia; auto.
      - intros lo Llo. eapply wn_mono_gen; eauto; lia.
      - eapply lt_top_mono; eauto.
      - exists (length s5). repeat split; auto; lia. }
    destruct s5 as [|c r]; [apply A; simpl; lia|].
    destruct (c =? c_bang); [|apply A; lia].
    destruct r as [|c2 r2]; [exact I|]. apply A. simpl. lia.
  Qed.
End W.

Theorem rd_positions orc (Hmk : forall a b t, mk orc a b t = At a b t) :
  forall f H md s, (length s <= H)%nat -> modeinv H s md -> resinv H s md (rd orc f md s).
Proof.
  induction f as [|f IH]; intros H md s LH MI; [exact I|].
  pose proof (rd_good orc f) as G. pose proof (rd_shape orc f) as Sh.
  destruct md; cbn [rd].
  - eapply try_body_inv; eauto.
  - eapply one_body_inv; eauto.
  - eapply seq_body_inv; eauto.
  - eapply parts_body_inv; eauto.
  - eapply field_body_inv; eauto.
Qed.
