(* Extraction of the reader model for the correspondence harness.
   ExtrOcamlBasic only; numbers stay the extracted positive/N/nat. *)
From HyV Require Import Base.Text Reader.Syntax Gen.ReaderTables Reader.Model.
Require Extraction.
Require Import ExtrOcamlBasic.
Extraction "../extract/reader_model.ml" read_many read_many_file rd read_fuel.
