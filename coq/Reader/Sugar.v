(* Reader family, C20: the sugar reads as the long forms; separators are transparent. *)
From HyV Require Import Base.Text Reader.Syntax Gen.ReaderTables Reader.Model Reader.Progress Reader.Mono Reader.Shape Reader.Suffix Reader.Extend Reader.Concat Reader.Cst Reader.Steps Reader.Roundtrip.
From Coq Require Import Lia.

Definition one (c : cst) : items := ICons SNil c INil.
Definition sp : sep := SWs ch_space SNil.
(* the long forms of the sugar *)
Definition long_wrap (w : wrapk) (c : cst) : cst :=
  CSeq KExpr (ICons SNil (CLeaf (wrap_root w)) (ICons sp c INil)) SNil.
Definition long_ann (c1 c2 : cst) : cst :=
  CSeq KExpr (ICons SNil (CLeaf t_annotate) (ICons sp c2 (ICons sp c1 INil))) SNil.

Section Sugar.
  Variable orc : oracles.
  Hypothesis Hok : orc_ok orc.

  Lemma render_one c : render_prog (one c) SNil = render c.
  Proof. unfold render_prog, one. simpl. rewrite !app_nil_r. reflexivity. Qed.
  Lemma wf_one c : wf orc c None = true -> wf_prog orc (one c) SNil = true.
  Proof. intros W. unfold wf_prog, one. simpl. rewrite W. reflexivity. Qed.
  Lemma read_one c : wf orc c None = true -> read_many orc (render c) = Ok [erase orc c].
  Proof.
    intros W. rewrite <- render_one. rewrite (read_print_seps orc Hok (one c) SNil (wf_one c W)). reflexivity.
  Qed.

  (* a head symbol of a long form reads as that symbol, provided the number classifier does not claim it *)
  Lemma leaf_sym c q : numeric orc (c :: q) = false -> is_ws c = false -> lookup [c] reader_table = None ->
    span_ident q = (q, []) -> mem ch_dot (c :: q) = false ->
    rd orc 1 MTry (c :: q) = RTry (Some (Sym (c :: q))) [].
  Proof.
    intros Hn Hw Hl Hs Hd. pose proof (ok_plain orc Hok) as Hp. cbn [rd]. unfold try_body.
    assert (Sl : slurp (c :: q) = c :: q) by (unfold slurp; simpl; rewrite Hw; reflexivity). rewrite Sl, Hl.
    unfold read_default. rewrite Hs. unfold ident_res, as_identifier. rewrite Hn, Hd.
    cbn [convert convert_with]. rewrite Hp. reflexivity.
  Qed.

  Lemma leaf_sym_wrap w : numeric orc (wrap_root w) = false ->
    leaf_ok orc (wrap_root w) = true /\ leaf_tree orc (wrap_root w) = Sym (wrap_root w).
  Proof.
    intros H. unfold leaf_ok, leaf_tree.
    assert (E : rd orc 1 MTry (wrap_root w) = RTry (Some (Sym (wrap_root w))) []).
    { destruct w; apply leaf_sym; try reflexivity; exact H. }
    rewrite E. split; reflexivity.
  Qed.
  Lemma leaf_sym_ann : numeric orc t_annotate = false ->
    leaf_ok orc t_annotate = true /\ leaf_tree orc t_annotate = Sym t_annotate.
  Proof.
    intros H. unfold leaf_ok, leaf_tree.
    assert (E : rd orc 1 MTry t_annotate = RTry (Some (Sym t_annotate)) []) by (apply leaf_sym; try reflexivity; exact H).
    rewrite E. split; reflexivity.
  Qed.

  (* C20: the sugar reads as the same models as the long form *)
  Theorem sugar_eq_long w s c :
    numeric orc (wrap_root w) = false ->
    wf orc (CWrap w s c) None = true -> wf orc c (Some c_rp) = true ->
    read_many orc (render (CWrap w s c)) = Ok [sym_expr (wrap_root w) [erase orc c]]
    /\ read_many orc (render (long_wrap w c)) = Ok [sym_expr (wrap_root w) [erase orc c]].
  Proof.
    intros Hn W1 W2. split; [apply (read_one (CWrap w s c) W1)|].
    destruct (leaf_sym_wrap w Hn) as [L1 L2].
    assert (W : wf orc (long_wrap w c) None = true).
    { unfold long_wrap, sp. simpl. rewrite L1, W2. destruct (render c) eqn:Er; [exfalso; exact (render_nonempty orc c _ W2 Er)|reflexivity]. }
    rewrite (read_one _ W). change (erase orc (long_wrap w c)) with (Seq KExpr [leaf_tree orc (wrap_root w); erase orc c]).
    rewrite L2. reflexivity.
  Qed.

  Theorem annotate_eq_long s1 c1 s2 c2 :
    numeric orc t_annotate = false ->
    wf orc (CAnn s1 c1 s2 c2) None = true -> wf orc c1 (Some c_rp) = true -> wf orc c2 (Some ch_space) = true ->
    read_many orc (render (CAnn s1 c1 s2 c2)) = Ok [sym_expr t_annotate [erase orc c2; erase orc c1]]
    /\ read_many orc (render (long_ann c1 c2)) = Ok [sym_expr t_annotate [erase orc c2; erase orc c1]].
  Proof.
    intros Hn W0 W1 W2. split; [apply (read_one (CAnn s1 c1 s2 c2) W0)|].
    destruct (leaf_sym_ann Hn) as [L1 L2].
    assert (W : wf orc (long_ann c1 c2) None = true).
    { unfold long_ann, sp. simpl. rewrite L1, W1, W2.
      destruct (render c2) eqn:Er; [exfalso; exact (render_nonempty orc c2 _ W2 Er)|].
      destruct (render c1) eqn:Er1; [exfalso; exact (render_nonempty orc c1 _ W1 Er1)|reflexivity]. }
    rewrite (read_one _ W). change (erase orc (long_ann c1 c2)) with (Seq KExpr [leaf_tree orc t_annotate; erase orc c2; erase orc c1]).
    rewrite L2. reflexivity.
  Qed.

  (* C20: separators are transparent: two printings of the same forms read alike *)
  Theorem seps_transparent its trail its' trail' :
    wf_prog orc its trail = true -> wf_prog orc its' trail' = true -> erase_items orc its = erase_items orc its' ->
    read_many orc (render_prog its trail) = read_many orc (render_prog its' trail').
  Proof. intros W W' E. rewrite !(read_print_seps orc Hok) by assumption. rewrite E. reflexivity. Qed.
End Sugar.
