(* Reader family, C20/C19/C21: concrete syntax trees with an arbitrary separator (whitespace,
   ";" comments, "#_" discards -- which contain trees again) at every boundary, their
   printing [render], the models they denote [erase], and well-formedness [wf].

   Leaves are opaque: a leaf is any text that try_parse_one_form reads, on its own and without
   recursion, as exactly one form consuming all of it (symbols, numbers, dotted identifiers,
   keywords, plain / raw / bytes strings, bracket strings).  f-strings are not in this type
   (their fields contain forms; the model reads them, the printed-tree theorems do not cover them). *)
From HyV Require Import Base.Text Reader.Syntax Gen.ReaderTables Reader.Model Reader.Extend.

Inductive wrapk := WQuote | WQuasi | WUnquote | WSplice | WStar | WStarStar.

Inductive cst :=
| CLeaf (t : text)
| CSeq (k : skind) (its : items) (trail : sep)
| CWrap (w : wrapk) (s : sep) (c : cst)
| CAnn (s1 : sep) (c1 : cst) (s2 : sep) (c2 : cst)
with items := INil | ICons (s : sep) (c : cst) (r : items)
with sep := SNil | SWs (c : N) (r : sep) | SCom (body : text) (r : sep) | SDis (s : sep) (c : cst) (r : sep).

Scheme cst_mut := Induction for cst Sort Prop
with items_mut := Induction for items Sort Prop
with sep_mut := Induction for sep Sort Prop.
Combined Scheme cst_items_sep_ind from cst_mut, items_mut, sep_mut.

Definition c_lp : N := 40. Definition c_rp : N := 41.
Definition c_quote : N := 39. Definition c_bquote : N := 96. Definition c_tilde : N := 126. Definition c_at : N := 64.
Definition c_star : N := 42. Definition c_caret : N := 94. Definition c_us : N := 95.

Definition seq_open (k : skind) : text :=
  match k with KExpr => [c_lp] | KList => [c_lbrack] | KDict => [c_lbrace] | KSet => [c_hash; c_lbrace] | KTuple => [c_hash; c_lp] end.
Definition seq_close (k : skind) : N :=
  match k with KExpr => c_rp | KList => c_rbrack | KDict => c_rbrace | KSet => c_rbrace | KTuple => c_rp end.
Definition wrap_key (w : wrapk) : text :=
  match w with
  | WQuote => [c_quote] | WQuasi => [c_bquote] | WUnquote => [c_tilde] | WSplice => [c_tilde; c_at]
  | WStar => [c_hash; c_star] | WStarStar => [c_hash; c_star; c_star]
  end.
(* the long-form head symbols, as the property names them *)
Definition t_quote : text := [113; 117; 111; 116; 101].
Definition t_quasiquote : text := [113; 117; 97; 115; 105] ++ t_quote.
Definition t_unquote : text := [117; 110] ++ t_quote.
Definition t_unquote_splice : text := t_unquote ++ [45; 115; 112; 108; 105; 99; 101].
Definition t_unpack_iterable : text := [117; 110; 112; 97; 99; 107; 45; 105; 116; 101; 114; 97; 98; 108; 101].
Definition t_unpack_mapping : text := [117; 110; 112; 97; 99; 107; 45; 109; 97; 112; 112; 105; 110; 103].
Definition t_annotate : text := [97; 110; 110; 111; 116; 97; 116; 101].
Definition wrap_root (w : wrapk) : text :=
  match w with
  | WQuote => t_quote | WQuasi => t_quasiquote | WUnquote => t_unquote | WSplice => t_unquote_splice
  | WStar => t_unpack_iterable | WStarStar => t_unpack_mapping
  end.
Definition ann_key : text := [c_hash; c_caret].
Definition dis_key : text := [c_hash; c_us].

Fixpoint render (c : cst) : text :=
  match c with
  | CLeaf t => t
  | CSeq k its trail => seq_open k ++ render_items its ++ render_sep trail ++ [seq_close k]
  | CWrap w s c => wrap_key w ++ render_sep s ++ render c
  | CAnn s1 c1 s2 c2 => ann_key ++ render_sep s1 ++ render c1 ++ render_sep s2 ++ render c2
  end
with render_items (its : items) : text :=
  match its with INil => [] | ICons s c r => render_sep s ++ render c ++ render_items r end
with render_sep (s : sep) : text :=
  match s with
  | SNil => []
  | SWs c r => c :: render_sep r
  | SCom body r => c_semi :: body ++ c_nl :: render_sep r
  | SDis s c r => dis_key ++ render_sep s ++ render c ++ render_sep r
  end.

Definition fst_of (t : text) (follow : option N) : option N := match t with c :: _ => Some c | [] => follow end.
Definition hd_opt (t : text) : option N := fst_of t None.
Definition stop_opt (o : option N) : bool := match o with None => true | Some d => stop d end.
Definition ends_opt (o : option N) : bool := match o with None => true | Some d => ends_ident d end.

Section WithOracles.
  Variable orc : oracles.

  (* what a leaf reads as, on its own *)
  Definition leaf_tree (t : text) : tree :=
    match rd orc 1 MTry t with RTry (Some x) _ => x | _ => Sym [] end.
  Definition leaf_ok (t : text) : bool :=
    match rd orc 1 MTry t with RTry (Some _) [] => true | _ => false end.

  Fixpoint erase (c : cst) : tree :=
    match c with
    | CLeaf t => leaf_tree t
    | CSeq k its _ => Seq k (erase_items its)
    | CWrap w _ c => sym_expr (wrap_root w) [erase c]
    | CAnn _ c1 _ c2 => sym_expr t_annotate [erase c2; erase c1]
    end
  with erase_items (its : items) : list tree :=
    match its with INil => [] | ICons _ c r => erase c :: erase_items r end.

  (* [follow]: the character that comes after the printed tree (None: end of input) *)
  Fixpoint wf (c : cst) (follow : option N) : bool :=
    match c with
    | CLeaf t => leaf_ok t && stop_opt follow
    | CSeq k its trail =>
        wf_items its (fst_of (render_sep trail) (Some (seq_close k))) && wf_sep trail (Some (seq_close k))
    | CWrap w s c =>
        let inner := render_sep s ++ render c in
        match w with
        | WUnquote => negb (match inner with d :: _ => d =? c_at | [] => false end)
        | WStar | WStarStar => ends_opt (hd_opt inner)
        | _ => true
        end && wf_sep s (fst_of (render c) follow) && wf c follow
    | CAnn s1 c1 s2 c2 =>
        ends_opt (hd_opt (render_sep s1 ++ render c1))
        && wf_sep s1 (fst_of (render c1) None) && wf c1 (fst_of (render_sep s2 ++ render c2) follow)
        && wf_sep s2 (fst_of (render c2) follow) && wf c2 follow
    end
  with wf_items (its : items) (follow : option N) : bool :=
    match its with
    | INil => true
    | ICons s c r => wf_sep s (fst_of (render c) None) && wf c (fst_of (render_items r) follow) && wf_items r follow
    end
  with wf_sep (s : sep) (follow : option N) : bool :=
    match s with
    | SNil => true
    | SWs c r => is_ws c && wf_sep r follow
    | SCom body r => negb (has_nl body) && wf_sep r follow
    | SDis s c r =>
        ends_opt (hd_opt (render_sep s ++ render c))
        && wf_sep s (fst_of (render c) None) && wf c (fst_of (render_sep r) follow) && wf_sep r follow
    end.

  (* a program: top-level items and a trailing separator *)
  Definition wf_prog (its : items) (trail : sep) : bool :=
    wf_items its (fst_of (render_sep trail) None) && wf_sep trail None.
  Definition render_prog (its : items) (trail : sep) : text := render_items its ++ render_sep trail.
End WithOracles.
