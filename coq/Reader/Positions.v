(* Reader family, C21: from remaining-input lengths to (line, column), following Reader.getc
   (constants regenerated in Gen/ReaderTables.v), and the top-level position theorems. *)
From HyV Require Import Base.Text Reader.Syntax Gen.ReaderTables Reader.Model Reader.Progress Reader.Mono Reader.Shape
  Reader.Suffix Reader.Extend Reader.Concat Reader.Cst Reader.PosInv.
From Coq Require Import Lia.

(* Reader.getc's bookkeeping: the position after one more character *)
Definition step_pos (p : nat * nat) (c : N) : nat * nat :=
  if c =? getc_newline then (fst p + getc_line_step, getc_col_reset)%nat else (fst p, snd p + getc_col_step)%nat.
(* self.pos after the characters of t have been consumed *)
Definition pos_after (t : text) : nat * nat := fold_left step_pos t pos_init.
(* the (line, column) a model records for a remaining-input length n of the source s *)
Definition linecol (s : text) (n : nat) : nat * nat := pos_after (firstn (length s - n) s).

Definition lex_le (p q : nat * nat) : Prop := (fst p < fst q)%nat \/ (fst p = fst q /\ (snd p <= snd q)%nat).

Lemma lex_le_refl p : lex_le p p.
Proof. right. split; lia. Qed.
Lemma lex_le_trans p q r : lex_le p q -> lex_le q r -> lex_le p r.
Proof. unfold lex_le. intros [A|[A B]] [C|[C D]]; try (left; lia). right. split; lia. Qed.
Lemma step_pos_le p c : lex_le p (step_pos p c).
Proof.
  unfold step_pos, lex_le. destruct (c =? getc_newline); simpl.
  - left. unfold getc_line_step. lia.
  - right. split; [reflexivity|lia].
Qed.
Lemma fold_step_le t : forall p, lex_le p (fold_left step_pos t p).
Proof. induction t as [|c t IH]; intros p; simpl; [apply lex_le_refl|]. eapply lex_le_trans; [apply step_pos_le|apply IH]. Qed.
Lemma pos_after_app t u : pos_after (t ++ u) = fold_left step_pos u (pos_after t).
Proof. unfold pos_after. apply fold_left_app. Qed.

Lemma firstn_plus {A} (s : list A) : forall n m, firstn (n + m) s = firstn n s ++ firstn m (skipn n s).
Proof. induction s as [|c s IH]; intros [|n] m; simpl; try reflexivity; [destruct m; reflexivity|]. rewrite IH. reflexivity. Qed.

(* consuming more never moves the position backwards: the order of remaining-input lengths is the
   (reversed) lexicographic order of the recorded (line, column) pairs *)
Theorem linecol_mono s a b : (b <= a)%nat -> (a <= length s)%nat -> lex_le (linecol s a) (linecol s b).
Proof.
  intros L1 L2. unfold linecol.
  replace (length s - b)%nat with ((length s - a) + (a - b))%nat by lia.
  rewrite firstn_plus, pos_after_app. apply fold_step_le.
Qed.

(* the invariant: _pos = (1 + newlines consumed, characters since the last newline) *)
Fixpoint count_nl (t : text) : nat := match t with [] => 0 | c :: r => (if c =? getc_newline then 1 else 0) + count_nl r end.
Fixpoint since_nl (acc : nat) (t : text) : nat :=
  match t with [] => acc | c :: r => since_nl (if c =? getc_newline then 0 else S acc) r end.
Lemma fold_step_spec t : forall l k, fold_left step_pos t (l, k) = ((l + count_nl t)%nat, since_nl k t).
Proof.
  induction t as [|c t IH]; intros l k; simpl; [f_equal; lia|]. unfold step_pos at 2. simpl.
  destruct (c =? getc_newline); rewrite IH; unfold getc_line_step, getc_col_reset, getc_col_step; f_equal; try lia; try reflexivity; f_equal; lia.
Qed.
Theorem pos_after_spec t : pos_after t = ((1 + count_nl t)%nat, since_nl 0 t).
Proof. unfold pos_after, pos_init. apply fold_step_spec. Qed.

(* ---- top level ---- *)
Definition positioned (orc : oracles) : Prop := forall a b t, mk orc a b t = At a b t.

Theorem read_positions orc : positioned orc -> forall s ms, read_many orc s = Ok ms ->
  wnl (length s) 0 ms /\ ordl ms /\ ordered ms.
Proof.
  intros Hmk s ms E. apply read_many_ok in E.
  pose proof (rd_positions orc Hmk (read_fuel s) (length s) (MSeq None []) s (le_n _)) as H.
  rewrite E in H. cbn [resinv length] in H. apply H. simpl. auto.
Qed.

(* a model's region, as the reader sees it: for a tree [At a b t] read from s, the characters of s
   from index |s| - a - 1 (its first character) to index |s| - b (exclusive) *)
Definition region (s : text) (a b : nat) : text := firstn (S a - b) (skipn (length s - S a) s).

(* C21, locality: the positioned model of a form in context is the positioned model of its own text,
   computed with the annotation function shifted by the length of what follows *)
Definition shifted (orc : oracles) (k : nat) : oracles :=
  {| numeric := numeric orc; decode := decode orc; pyspace := pyspace orc;
     mk := fun a b t => mk orc (a + k) (b + k) t |}.
Theorem region_locality orc rest u f m :
  match rest with [] => True | d :: _ => stop d = true end ->
  rd (shifted orc (length rest)) f MTry u = RTry (Some m) [] ->
  rd orc f MTry (u ++ rest) = RTry (Some m) rest.
Proof.
  intros Hr E.
  pose proof (rd_ext orc (shifted orc (length rest)) rest false Hr (fun _ => eq_refl) (fun _ _ => eq_refl) (fun _ => eq_refl)
                (fun _ _ _ => eq_refl) f MTry u I (fun C => ltac:(discriminate C))) as X.
  rewrite E in X. cbn [ext_res shift] in X. destruct X as [[_ [X _]]|X]; [discriminate X|exact X].
Qed.

(* ---- concrete witnesses where the unchanged reader (and the faithful model) departs from the property ---- *)
Definition toyp : oracles :=
  {| numeric := fun s => match s with c :: _ => (48 <=? c) && (c <=? 57) | [] => false end;
     decode := fun _ s => Some s; pyspace := fun c => c =? 32; mk := At |}.

Lemma refuted_annotate_order : exists s ms, read_many toyp s = Ok ms /\
  ms = [At 7 0 (Seq KExpr [Sym t_annotate; At 0 0 (Sym [120]); At 4 2 (Sym [105; 110; 116])])]
  /\ ~ ordered [At 0 0 (Sym [120]); At 4 2 (Sym [105; 110; 116])].
Proof.
  exists [35; 94; 32; 105; 110; 116; 32; 120]. eexists. split; [vm_compute; reflexivity|]. split; [reflexivity|].
  simpl. unfold before. simpl. intros [H _]. lia.
Qed.
(* f DQ a { x } b DQ : since the fix of read_fcomponents_until the second literal part b starts where the field
   ended (2 remaining); neighbouring parts share the brace between them *)
Lemma fstring_parts_example : exists s, read_many toyp s =
  Ok [At 7 0 (FStr false None [At 6 4 (Str [97] None); At 4 2 (FComp false None [120] [At 3 3 (Sym [120])]); At 2 0 (Str [98] None)])].
Proof. exists [102; 34; 97; 123; 120; 125; 98; 34]. vm_compute. reflexivity. Qed.
Lemma refuted_synthesized_child : exists s, read_many toyp s = Ok [At 1 0 (Seq KExpr [Sym [113; 117; 111; 116; 101]; At 0 0 (Sym [120])])].
Proof. exists [39; 120]. vm_compute. reflexivity. Qed.
