(* Reader family, C19: partial trees -- a printed tree cut at a token boundary, inside a
   separator (whitespace run, line comment, discard), inside a tag, inside a string-like leaf
   whose prefix reads on its own as a premature end, or inside a replacement field of an f-string
   (before its form is complete, or after the form and before the colon or the closing brace). *)
From HyV Require Import Base.Text Reader.Syntax Gen.ReaderTables Reader.Model Reader.Progress Reader.Mono Reader.Shape Reader.Suffix Reader.Extend Reader.Concat Reader.Cst Reader.Steps Reader.Roundtrip.
From Coq Require Import Lia.

(* Partial trees: a printed tree cut somewhere.  The complete parts are ordinary trees, items and
   separators; the cut is described by the tail. *)
Inductive ptail :=
| TEnd                       (* the cut is right here (after a complete separator, item or opener) *)
| TCom (body : text)         (* inside a line comment *)
| THash                      (* after the "#" of a tag *)
| TDis (pe : pend)           (* after "#_": the discarded form is not complete *)
| TLeaf (p : text)           (* inside a string-like leaf: p alone reads as Premature *)
| TForm (pc : pcst)          (* inside a compound form *)
| TFld (lit : text) (pe : pend)                       (* f DQ lit { : inside a replacement field, its form not complete *)
| TFldHead (lit : text) (s : sep) (c : cst) (tl : text)  (* f DQ lit { form : after the form, before the : or the closing brace *)
with pend := PEnd (s : sep) (t : ptail)
with pcst :=
| PSeq (k : skind) (its : items) (pe : pend)
| PWrap (w : wrapk) (pe : pend)
| PAnn1 (pe : pend)
| PAnn2 (s1 : sep) (c1 : cst) (pe : pend).

Scheme ptail_mut := Induction for ptail Sort Prop
with pend_mut := Induction for pend Sort Prop
with pcst_mut := Induction for pcst Sort Prop.
Combined Scheme ptail_pend_pcst_ind from ptail_mut, pend_mut, pcst_mut.

Definition fopen : text := [c_f; c_dq].
(* literal text of an f-string without braces, backslashes or quotes *)
Definition plain_char (c : N) : bool := negb ((c =? c_lbrace) || (c =? c_rbrace) || (c =? c_bslash) || (c =? c_dq)).
Fixpoint all_ws (w : text) : bool := match w with [] => true | c :: r => is_ws c && all_ws r end.
(* what may stand between the form of a replacement field and its : or closing brace, the input ending there:
   ws* [= ws*] [! [char ws*]] *)
Definition conv_part (t : text) : bool :=
  match t with
  | [] => true
  | c :: r => (c =? c_bang) && match r with [] => true | _ :: w => all_ws w end
  end.
Definition fhead (t : text) : bool :=
  let t1 := slurp t in
  conv_part t1 || match t1 with c :: r => (c =? c_eq) && conv_part (slurp r) | [] => false end.

Fixpoint render_ptail (t : ptail) : text :=
  match t with
  | TEnd => []
  | TCom body => c_semi :: body
  | THash => [c_hash]
  | TDis pe => dis_key ++ render_pend pe
  | TLeaf p => p
  | TForm pc => render_p pc
  | TFld lit pe => fopen ++ lit ++ c_lbrace :: render_pend pe
  | TFldHead lit s c tl => fopen ++ lit ++ c_lbrace :: render_sep s ++ render c ++ tl
  end
with render_pend (pe : pend) : text := match pe with PEnd s t => render_sep s ++ render_ptail t end
with render_p (pc : pcst) : text :=
  match pc with
  | PSeq k its pe => seq_open k ++ render_items its ++ render_pend pe
  | PWrap w pe => wrap_key w ++ render_pend pe
  | PAnn1 pe => ann_key ++ render_pend pe
  | PAnn2 s1 c1 pe => ann_key ++ render_sep s1 ++ render c1 ++ render_pend pe
  end.

(* the cut leaves something open (as opposed to: it falls between forms, or inside a comment) *)
Definition tail_open (t : ptail) : bool := match t with TEnd | TCom _ => false | _ => true end.
Definition pend_open (pe : pend) : bool := match pe with PEnd _ t => tail_open t end.

Section PW.
  Variable orc : oracles.

  Definition leaf_open (p : text) : bool :=
    match p with c :: _ => negb (is_ws c) | [] => false end
    && match rd orc 1 MTry p with RPrem => true | _ => false end.

  Fixpoint pwf_tail (t : ptail) : bool :=
    match t with
    | TEnd => true
    | TCom body => negb (has_nl body)
    | THash => true
    | TDis pe => ends_opt (hd_opt (render_pend pe)) && pwf_pend pe
    | TLeaf p => leaf_open p
    | TForm pc => pwf pc
    | TFld lit pe =>
        forallb plain_char lit && negb (match render_pend pe with d :: _ => d =? c_lbrace | [] => false end)
        && match decode orc false (norm_nl false lit) with Some _ => true | None => false end && pwf_pend pe
    | TFldHead lit s c tl =>
        forallb plain_char lit && negb (match render_sep s ++ render c with d :: _ => d =? c_lbrace | [] => false end)
        && match decode orc false (norm_nl false lit) with Some _ => true | None => false end
        && wf_sep orc s (fst_of (render c) None) && wf orc c (fst_of tl None) && fhead tl
    end
  with pwf_pend (pe : pend) : bool :=
    match pe with PEnd s t => wf_sep orc s (fst_of (render_ptail t) None) && pwf_tail t end
  with pwf (pc : pcst) : bool :=
    match pc with
    | PSeq k its pe => wf_items orc its (fst_of (render_pend pe) None) && pwf_pend pe
    | PWrap w pe =>
        match w with
        | WUnquote => negb (match render_pend pe with d :: _ => d =? c_at | [] => false end)
        | WStar | WStarStar => ends_opt (hd_opt (render_pend pe))
        | _ => true
        end && pwf_pend pe
    | PAnn1 pe => ends_opt (hd_opt (render_pend pe)) && pwf_pend pe
    | PAnn2 s1 c1 pe =>
        ends_opt (hd_opt (render_sep s1 ++ render c1))
        && wf_sep orc s1 (fst_of (render c1) None) && wf orc c1 (fst_of (render_pend pe) None) && pwf_pend pe
    end.
End PW.
