(* Reader family, C19: the REPL asks for more input exactly when the reader reports a premature end.
   HyCommandCompiler.__call__ (shape checked and the caught class regenerated in Gen/ReplTables.v)
   returns None -- which makes code.InteractiveConsole.runsource return True -- iff the exception
   raised while reading is an instance of the caught class. *)
From HyV Require Import Base.Text Reader.Syntax Gen.ReaderTables Gen.ReplTables Reader.Model.

Definition caught_by_repl (mro : list text) : bool := existsb (text_eqb repl_incomplete_class) mro.
Definition repl_wants_more (o : outcome) : bool :=
  match o with
  | Premature => caught_by_repl mro_prem
  | Lex => caught_by_repl mro_lex
  | PyErr e => caught_by_repl (mro_py e)
  | _ => false
  end.

Theorem repl_continuation o : repl_wants_more o = true <-> o = Premature.
Proof.
  destruct o as [ms| | |e|]; split; intros H.
  - discriminate H.
  - discriminate H.
  - vm_compute in H. discriminate H.
  - discriminate H.
  - reflexivity.
  - reflexivity.
  - destruct e; vm_compute in H; discriminate H.
  - discriminate H.
  - discriminate H.
  - discriminate H.
Qed.

(* ---- concrete witnesses where the unchanged reader (and the faithful model) departs from C19 ---- *)
Definition toy : oracles :=
  {| numeric := fun s => match s with c :: _ => (48 <=? c) && (c <=? 57) | [] => false end;
     decode := fun _ s => Some s; pyspace := fun c => c =? 32; mk := fun _ _ t => t |}.
Lemma refuted_dotted_identifier : exists t k ms,
  read_many toy t = Ok ms /\ Nat.ltb k (length t) = true /\ read_many toy (firstn k t) = Lex.
Proof.
  exists [40; 102; 111; 111; 46; 98; 97; 114; 41], 5%nat. eexists. split; [vm_compute; reflexivity|]. split; vm_compute; reflexivity.
Qed.
Lemma refuted_fstring_rbrace : exists t k ms,
  read_many toy t = Ok ms /\ Nat.ltb k (length t) = true /\ read_many toy (firstn k t) = Lex.
Proof.
  exists [102; 34; 97; 125; 125; 34], 4%nat. eexists. split; [vm_compute; reflexivity|]. split; vm_compute; reflexivity.
Qed.
