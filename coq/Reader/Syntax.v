(* Reader family: the data the regenerated tables (Gen/ReaderTables.v) and the
   model (Reader/Model.v) share.  No functions of the reader live here. *)
From HyV Require Import Base.Text.

(* the five sequence models built by HyReader.sequence *)
Inductive skind := KExpr | KList | KDict | KSet | KTuple.

(* One descriptor per @reader_for handler of HyReader.  The translator maps the
   decorated method (by name, after checking the shape of the small ones) to a
   descriptor; constants inside are taken from the source. *)
Inductive handler :=
| HInvalid                                   (* INVALID: ) ] }  *)
| HComment                                   (* line_comment *)
| HKeyword                                   (* keyword *)
| HString                                    (* prefixed_string *)
| HWrap (root : text)                        (* tag_as(root), hash_star: mkexpr(root, parse_one_form()) *)
| HUnquote (base suffix : text) (ch : N)     (* unquote: base + (suffix if next char is ch) *)
| HSeq (k : skind) (closer : N)              (* sequence(seq_type, closer) *)
| HDispatch                                  (* tag_dispatch *)
| HDiscard                                   (* discard *)
| HAnn (root : text) (swapped : bool)        (* annotate: two forms; swapped = emitted in the opposite order *)
| HBracket.                                  (* bracketed_string *)

(* what an `except` clause of try_parse_one_form does with a matching exception *)
Inductive exc_action := Reraise | ToLex.

(* Python exception classes the model can produce, with their method resolution
   order as class names (validated against the interpreter by the harness). *)
Inductive pyexc := ESyntaxError | EValueError.
