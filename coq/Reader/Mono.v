(* Reader family: fuel monotonicity.  A result other than ROut does not change when
   more fuel is given; so theorems may say "there is an amount of fuel" and the
   bound of Progress.v makes read_many's own fuel one of them. *)
From HyV Require Import Base.Text Reader.Syntax Gen.ReaderTables Reader.Model.
From Coq Require Import Lia.

(* fuel monotonicity: more fuel never changes a result that is not ROut *)
Section M.
  Variable orc : oracles.
  Variable rec rec' : mode -> text -> res.
  Hypothesis Hext : forall md s, rec md s <> ROut -> rec' md s = rec md s.

  (* rewrite one call of rec' into the call of rec, closing the ROut case by the hypothesis on the whole result *)
  Ltac call md r :=
    let E := fresh "E" in
    destruct (rec md r) eqn:E;
    try (rewrite (Hext md r) by (rewrite E; discriminate); rewrite E);
    try reflexivity; try (intros D; exfalso; apply D; reflexivity).

  Lemma string_lit_ext prefix r : string_lit orc rec prefix r <> ROut -> string_lit orc rec' prefix r = string_lit orc rec prefix r.
  Proof.
    unfold string_lit. destruct (negb (prefix_ok prefix)); [reflexivity|].
    destruct (mem c_f prefix || mem c_t prefix); [|reflexivity].
    call (MParts (ClQuote (mem c_r prefix) (mem c_b prefix) false) (mem c_r prefix) (negb (mem c_f prefix)) (length r) []) r.
  Qed.

  Lemma bracket_lit_ext r : bracket_lit orc rec r <> ROut -> bracket_lit orc rec' r = bracket_lit orc rec r.
  Proof.
    unfold bracket_lit. destruct (read_delim [] r) as [d r1| |]; try reflexivity.
    destruct (is_f_delim d); [|reflexivity].
    match goal with |- context [rec ?m ?r] => call m r end.
  Qed.

  Lemma run_basic_ext h r : run_basic orc rec h r <> ROut -> run_basic orc rec' h r = run_basic orc rec h r.
  Proof.
    destruct h; cbn [run_basic]; try reflexivity.
    - call MOne r.
    - destruct r as [|c2 r2]; [call MOne (@nil N)|]. destruct (c2 =? ch); [call MOne r2|call MOne (c2 :: r2)].
    - call (MSeq (Some closer) []) r.
    - call MOne r.
    - call MOne r. call MOne rest.
    - apply bracket_lit_ext.
  Qed.

  Lemma dispatch_ext r : dispatch orc rec r <> ROut -> dispatch orc rec' r = dispatch orc rec r.
  Proof.
    unfold dispatch. destruct r as [|c2 r2]; [reflexivity|]. destruct (pyspace orc c2); [reflexivity|].
    destruct (span_ident (c2 :: r2)) as [id0 r0].
    destruct id0; (destruct (lookup _ reader_table); [apply run_basic_ext|reflexivity]).
  Qed.

  Lemma read_default_ext c r : read_default orc rec c r <> ROut -> read_default orc rec' c r = read_default orc rec c r.
  Proof.
    unfold read_default. destruct (span_ident r) as [id0 r'].
    destruct r' as [|c2 r2]; [reflexivity|]. destruct (c2 =? c_dq); [apply string_lit_ext|reflexivity].
  Qed.

  Lemma convert_out x : convert x = ROut -> x = ROut.
  Proof.
    destruct x as [| | | | | |e|]; intros H; try discriminate H; try reflexivity; try destruct e; vm_compute in H; discriminate H.
  Qed.

  Lemma try_body_ext s : try_body orc rec s <> ROut -> try_body orc rec' s = try_body orc rec s.
  Proof.
    unfold try_body. destruct (slurp s) as [|c r]; [reflexivity|].
    set (body := match lookup [c] reader_table with
                 | Some HDispatch => dispatch orc rec r
                 | Some h => run_basic orc rec h r
                 | None => read_default orc rec c r end).
    set (body' := match lookup [c] reader_table with
                 | Some HDispatch => dispatch orc rec' r
                 | Some h => run_basic orc rec' h r
                 | None => read_default orc rec' c r end).
    intros D. assert (B : body <> ROut).
    { intros E. apply D. rewrite E. reflexivity. }
    assert (X : body' = body).
    { unfold body, body' in *. destruct (lookup [c] reader_table) as [h|]; [|apply read_default_ext; exact B].
      destruct h; try (apply run_basic_ext; exact B). apply dispatch_ext; exact B. }
    rewrite X. reflexivity.
  Qed.

  Lemma one_body_ext s : one_body rec s <> ROut -> one_body rec' s = one_body rec s.
  Proof.
    unfold one_body. call MTry s. destruct m; [reflexivity|]. intros D. apply Hext. exact D.
  Qed.

  Lemma seq_body_ext closer acc s : seq_body rec closer acc s <> ROut -> seq_body rec' closer acc s = seq_body rec closer acc s.
  Proof.
    unfold seq_body. destruct (at_closer closer (slurp s)); [reflexivity|].
    call MTry (slurp s). destruct m; intros D; apply Hext; exact D.
  Qed.

  Lemma parts_body_ext cl rawp tmode start acc s :
    parts_body orc rec cl rawp tmode start acc s <> ROut ->
    parts_body orc rec' cl rawp tmode start acc s = parts_body orc rec cl rawp tmode start acc s.
  Proof.
    unfold parts_body. destruct (scan _ _ _ _ _ _) as [body cl' rest|body cl' rest| | |]; try reflexivity.
    destruct (finish_chunk _ _ _ _); [|reflexivity].
    call (MField rawp tmode) rest. intros D. apply Hext. exact D.
  Qed.

  Lemma field_after_ext rawp tmode dbg start values m ft conv s6 :
    field_after orc rec rawp tmode dbg start values m ft conv s6 <> ROut ->
    field_after orc rec' rawp tmode dbg start values m ft conv s6 = field_after orc rec rawp tmode dbg start values m ft conv s6.
  Proof.
    unfold field_after. destruct (slurp s6) as [|c r]; [reflexivity|].
    destruct (c =? c_colon); [|reflexivity].
    call (MParts ClBrace rawp false (length r) []) r.
  Qed.

  Lemma field_body_ext rawp tmode s :
    field_body orc rec rawp tmode s <> ROut -> field_body orc rec' rawp tmode s = field_body orc rec rawp tmode s.
  Proof.
    unfold field_body. call MOne (slurp s).
    match goal with |- context [match ?s5 with [] => _ | _ => _ end] => destruct s5 as [|c r] end; [apply field_after_ext|].
    destruct (c =? c_bang); [|apply field_after_ext].
    destruct r; [reflexivity|apply field_after_ext].
  Qed.
End M.

Theorem rd_mono orc : forall f md s, rd orc f md s <> ROut -> forall k, rd orc (f + k) md s = rd orc f md s.
Proof.
  induction f as [|f IH]; intros md s D k; [exfalso; apply D; reflexivity|].
  change (S f + k)%nat with (S (f + k)).
  assert (H : forall md s, rd orc f md s <> ROut -> rd orc (f + k) md s = rd orc f md s) by (intros; apply IH; assumption).
  destruct md; cbn [rd] in *.
  - apply try_body_ext; assumption.
  - apply one_body_ext; assumption.
  - apply seq_body_ext; assumption.
  - apply parts_body_ext; assumption.
  - apply field_body_ext; assumption.
Qed.

Lemma rd_ge orc f f' md s : rd orc f md s <> ROut -> (f <= f')%nat -> rd orc f' md s = rd orc f md s.
Proof. intros D L. replace f' with (f + (f' - f))%nat by lia. apply rd_mono; exact D. Qed.
