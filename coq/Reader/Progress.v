(* Reader family, C18: every successful step of the reader consumes input, and
   fuel linear in the length of the input is enough -- the termination proof.
   [good_s s (need md s < f) (rd orc f md s)]: a successful result leaves a
   shorter remainder, and with more than 3*|s| + rank(md) units of fuel the
   result is not ROut.  All statements hold for every oracle record. *)
From HyV Require Import Base.Text Reader.Syntax Gen.ReaderTables Reader.Model.
From Coq Require Import Lia.

Lemma dropwhile_len p s : (length (dropwhile p s) <= length s)%nat.
Proof. induction s as [|c r IH]; simpl; [lia|]. destruct (p c); simpl; lia. Qed.
Lemma slurp_len s : (length (slurp s) <= length s)%nat.
Proof. apply dropwhile_len. Qed.
Lemma span_ident_len s : forall a b, span_ident s = (a, b) -> (length b <= length s)%nat.
Proof.
  induction s as [|c r IH]; simpl; intros a b E; [inversion E; simpl; lia|].
  destruct (ends_ident c); [inversion E; simpl; lia|].
  destruct (span_ident r) as [a' b'] eqn:E'. inversion E; subst. specialize (IH _ _ eq_refl). lia.
Qed.
Lemma drop_line_len s : (length (drop_line s) <= length s)%nat.
Proof. induction s as [|c r IH]; simpl; [lia|]. destruct (c =? c_nl); simpl; lia. Qed.

Definition scan_shrinks (s : text) (x : scanres) : Prop :=
  match x with
  | ScClosed _ _ rest | ScField _ _ rest => (length rest < length s)%nat
  | _ => True
  end.

Lemma scan_len fm rawp : forall n s cl named acc, (length s <= n)%nat ->
  scan_shrinks s (scan fm rawp cl named acc s).
Proof.
  induction n as [|n IH]; intros s cl named acc L.
  { destruct s; [exact I|simpl in L; lia]. }
  destruct s as [|c r]; [exact I|]. simpl in L.
  assert (R1 : forall cl named acc, scan_shrinks (c :: r) (scan fm rawp cl named acc r)).
  { intros. pose proof (IH r cl0 named0 acc0 ltac:(lia)) as H. destruct (scan fm rawp cl0 named0 acc0 r); simpl in *; auto; lia. }
  assert (R2 : forall c2 r2 cl named acc, r = c2 :: r2 -> scan_shrinks (c :: r) (scan fm rawp cl named acc r2)).
  { intros ? ? ? ? ? ->. simpl in L. pose proof (IH r2 cl0 named0 acc0 ltac:(lia)) as H.
    destruct (scan fm rawp cl0 named0 acc0 r2); simpl in *; auto; lia. }
  cbn [scan]. destruct (closing_step cl c) as [cl'|k|]; [|simpl; lia|exact I].
  destruct fm; [|apply R1].
  destruct (c =? c_lbrace).
  - destruct (negb rawp && starts_with [c_lbrace; c_N; c_bslash] (c :: acc)); [apply R1|].
    destruct r as [|c2 r2]; [simpl; lia|]. destruct (c2 =? c_lbrace); [eapply R2; reflexivity|simpl; lia].
  - destruct (c =? c_rbrace); [|apply R1].
    destruct named; [apply R1|].
    destruct r as [|c2 r2]; [exact I|]. destruct (c2 =? c_rbrace); [eapply R2; reflexivity|exact I].
Qed.

Lemma read_delim_len : forall s acc, match read_delim acc s with DOk _ rest => (length rest < length s)%nat | _ => True end.
Proof.
  induction s as [|c r IH]; intros acc; [exact I|]. cbn [read_delim].
  destruct (c =? c_lbrack); [simpl; lia|]. destruct (c =? c_rbrack); [exact I|].
  specialize (IH (c :: acc)). destruct (read_delim (c :: acc) r); simpl in *; auto; lia.
Qed.

Definition rest_le (n : nat) (x : res) : Prop :=
  match x with RTry _ r | ROne _ r | RSeq _ r | RParts _ r => (length r <= n)%nat | _ => True end.
Definition shrinks (s : text) (x : res) : Prop :=
  match x with
  | RSeq _ r => (length r <= length s)%nat
  | RTry _ r | ROne _ r | RParts _ r => (length r < length s)%nat
  | _ => True
  end.

Definition rank (md : mode) : nat :=
  match md with MTry => 0 | MOne => 1 | MSeq _ _ => 1 | MParts _ _ _ _ _ => 2 | MField _ _ => 2 end.
Definition need (md : mode) (s : text) : nat := 3 * length s + rank md.

(* [le n x]: a successful x leaves at most n characters; [b] implies x is not out of fuel *)
Definition good (n : nat) (b : Prop) (x : res) : Prop := rest_le n x /\ (b -> x <> ROut).
Definition good_s (s : text) (b : Prop) (x : res) : Prop := shrinks s x /\ (b -> x <> ROut).

Lemma good_mono n m (b b' : Prop) x : good n b x -> (n <= m)%nat -> (b' -> b) -> good m b' x.
Proof. intros [A B] L I. split; [destruct x; simpl in *; lia|auto]. Qed.

Section P.
  Variable orc : oracles.
  Variable rec : mode -> text -> res.
  Variable f : nat.
  Hypothesis Hrec : forall md s, good_s s (need md s < f)%nat (rec md s).

  Ltac fin := simpl in *; auto; try lia; try discriminate.
  Ltac call md r :=
    let Hs := fresh "Hs" in let Ho := fresh "Ho" in
    destruct (Hrec md r) as [Hs Ho]; unfold need in Ho; simpl rank in Ho; destruct (rec md r);
    (split; [fin | intros; try discriminate; try (exfalso; apply Ho; [fin|reflexivity])]).

  Lemma string_lit_good prefix r : good (length r) (3 * length r + 2 < f)%nat (string_lit orc rec prefix r).
  Proof.
    unfold string_lit. destruct (negb (prefix_ok prefix)); [split; [exact I|discriminate]|].
    destruct (mem c_f prefix || mem c_t prefix).
    - call (MParts (ClQuote (mem c_r prefix) (mem c_b prefix) false) (mem c_r prefix) (negb (mem c_f prefix)) (length r) []) r.
    - pose proof (scan_len false (mem c_r prefix) _ r (ClQuote (mem c_r prefix) (mem c_b prefix) false) false [] (le_n _)) as H.
      destruct (scan false (mem c_r prefix) (ClQuote (mem c_r prefix) (mem c_b prefix) false) false [] r);
        try (split; [exact I|discriminate]).
      destruct (finish_chunk orc (mem c_r prefix) (mem c_b prefix) body); split; fin.
  Qed.

  Lemma bracket_lit_good r : good (length r) (3 * length r + 2 < f)%nat (bracket_lit orc rec r).
  Proof.
    unfold bracket_lit. pose proof (read_delim_len r []) as H. destruct (read_delim [] r) as [d r1| |]; try (split; [exact I|discriminate]).
    set (r2 := match r1 with [] => r1 | c :: x => if c =? c_cr then x else r1 end).
    set (r3 := match r2 with [] => r2 | c :: x => if c =? c_nl then x else r2 end).
    assert (L2 : (length r2 <= length r1)%nat) by (unfold r2; destruct r1 as [|c x]; simpl; [lia|destruct (c =? c_cr); simpl; lia]).
    assert (L3 : (length r3 <= length r2)%nat) by (unfold r3; destruct r2 as [|c x]; simpl; [lia|destruct (c =? c_nl); simpl; lia]).
    clearbody r3 r2.
    destruct (is_f_delim d).
    - destruct (Hrec (MParts (ClDelim d None) true false (length r3) []) r3) as [Hs Ho]. unfold need in Ho. simpl rank in Ho.
      destruct (rec (MParts (ClDelim d None) true false (length r3) []) r3);
        (split; [fin | intros; try discriminate; try (exfalso; apply Ho; [fin|reflexivity])]).
      + destruct (existsb _ _); fin.
      + destruct (existsb _ _); fin.
    - pose proof (scan_len false true _ r3 (ClDelim d None) false [] (le_n _)) as H0.
      destruct (scan false true (ClDelim d None) false [] r3); try (split; [exact I|discriminate]).
      split; repeat (match goal with |- context [match ?x with _ => _ end] => destruct x end; fin).
  Qed.

  Lemma run_basic_good h r : good (length r) (3 * length r + 2 < f)%nat (run_basic orc rec h r).
  Proof.
    destruct h; cbn [run_basic]; try (split; [exact I|discriminate]).
    - split; [cbn [rest_le]; apply drop_line_len|discriminate].
    - destruct (span_ident r) as [id r'] eqn:E. apply span_ident_len in E. destruct (mem ch_dot id); split; fin.
    - apply string_lit_good.
    - call MOne r.
    - destruct r as [|c2 r2]; [call MOne (@nil N)|]. destruct (c2 =? ch); [call MOne r2|call MOne (c2 :: r2)].
    - call (MSeq (Some closer) []) r.
    - call MOne r.
    - destruct (Hrec MOne r) as [Hs Ho]. unfold need in Ho. simpl rank in Ho.
      destruct (rec MOne r) as [| a r' | | | | | |]; try solve [split; [fin | intros; try discriminate; try (exfalso; apply Ho; [fin|reflexivity])]].
      simpl in Hs. call MOne r'.
    - apply bracket_lit_good.
  Qed.

  Lemma dispatch_good r : good (length r) (3 * length r + 2 < f)%nat (dispatch orc rec r).
  Proof.
    unfold dispatch. destruct r as [|c2 r2]; [split; [exact I|discriminate]|]. destruct (pyspace orc c2); [split; [exact I|discriminate]|].
    destruct (span_ident (c2 :: r2)) as [id0 r0] eqn:E. apply span_ident_len in E.
    assert (X : forall ident r1, (length r1 <= length (c2 :: r2))%nat ->
       good (length (c2 :: r2)) (3 * length (c2 :: r2) + 2 < f)%nat
         match lookup (c_hash :: ident) reader_table with Some h => run_basic orc rec h r1 | None => RLex end).
    { intros ident r1 L. destruct (lookup (c_hash :: ident) reader_table); [|split; [exact I|discriminate]].
      eapply good_mono; [apply run_basic_good|exact L|lia]. }
    destruct id0; apply X; simpl in *; lia.
  Qed.

  Lemma read_default_good c r : good (length r) (3 * length r + 2 < f)%nat (read_default orc rec c r).
  Proof.
    unfold read_default. destruct (span_ident r) as [id0 r'] eqn:E. apply span_ident_len in E.
    assert (X : good (length r) (3 * length r + 2 < f)%nat (ident_res orc (c :: id0) r')).
    { unfold ident_res. destruct (as_identifier orc (c :: id0)); split; fin. }
    destruct r' as [|c2 r2]; [exact X|]. destruct (c2 =? c_dq); [|exact X].
    eapply good_mono; [apply string_lit_good|simpl in E; lia|simpl in E; lia].
  Qed.

  Lemma convert_with_good hs n b x : good n b x -> good n b (convert_with hs x).
  Proof.
    intros [A B]. destruct x; simpl; try (split; assumption);
      destruct (first_handler _ hs) as [[|]|]; split; simpl; auto; discriminate.
  Qed.

  Lemma try_body_good s : good_s s (need MTry s < S f)%nat (try_body orc rec s).
  Proof.
    unfold try_body, need. simpl rank. pose proof (slurp_len s) as L. destruct (slurp s) as [|c r].
    { unfold convert, convert_with. destruct (first_handler mro_prem try_handlers) as [[|]|]; split; fin. }
    simpl in L.
    set (body := match lookup [c] reader_table with
                 | Some HDispatch => dispatch orc rec r
                 | Some h => run_basic orc rec h r
                 | None => read_default orc rec c r end).
    assert (B : good (length r) (3 * length r + 2 < f)%nat body).
    { unfold body. destruct (lookup [c] reader_table) as [h|]; [|apply read_default_good].
      destruct h; try apply run_basic_good. apply dispatch_good. }
    apply (convert_with_good try_handlers) in B. fold convert in B. destruct B as [B1 B2].
    destruct (convert body) as [[m|] rest| | | | | | |]; split; fin; intros; apply B2; lia.
  Qed.

  Lemma one_body_good s : good_s s (need MOne s < S f)%nat (one_body rec s).
  Proof.
    unfold one_body, need. simpl rank.
    destruct (Hrec MTry s) as [Hs Ho]. unfold need in Ho. simpl rank in Ho.
    destruct (rec MTry s) as [[m|] r| | | | | | |]; try solve [split; [fin | intros; try discriminate; try (exfalso; apply Ho; [fin|reflexivity])]].
    simpl in Hs. destruct (Hrec MOne r) as [Hs2 Ho2]. unfold need in Ho2. simpl rank in Ho2.
    destruct (rec MOne r); (split; [fin | intros; try discriminate; try (exfalso; apply Ho2; [fin|reflexivity])]).
  Qed.

  Lemma seq_body_good closer acc s : good_s s (need (MSeq closer acc) s < S f)%nat (seq_body rec closer acc s).
  Proof.
    unfold seq_body, need. simpl rank. pose proof (slurp_len s) as L.
    destruct (at_closer closer (slurp s)).
    { split; [|discriminate]. simpl. destruct (slurp s); simpl in *; lia. }
    destruct (Hrec MTry (slurp s)) as [Hs Ho]. unfold need in Ho. simpl rank in Ho.
    destruct (rec MTry (slurp s)) as [[m|] r| | | | | | |]; try solve [split; [fin | intros; try discriminate; try (exfalso; apply Ho; [fin|reflexivity])]].
    - simpl in Hs. destruct (Hrec (MSeq closer (m :: acc)) r) as [Hs2 Ho2]. unfold need in Ho2. simpl rank in Ho2.
      destruct (rec (MSeq closer (m :: acc)) r); (split; [fin | intros; try discriminate; try (exfalso; apply Ho2; [fin|reflexivity])]).
    - simpl in Hs. destruct (Hrec (MSeq closer acc) r) as [Hs2 Ho2]. unfold need in Ho2. simpl rank in Ho2.
      destruct (rec (MSeq closer acc) r); (split; [fin | intros; try discriminate; try (exfalso; apply Ho2; [fin|reflexivity])]).
  Qed.

  Lemma parts_body_good cl rawp tmode start acc s :
    good_s s (need (MParts cl rawp tmode start acc) s < S f)%nat (parts_body orc rec cl rawp tmode start acc s).
  Proof.
    unfold parts_body, need. simpl rank. pose proof (scan_len true rawp _ s cl false [] (le_n _)) as H.
    destruct (scan true rawp cl false [] s) as [body cl' rest|body cl' rest| | |]; try (split; [exact I|discriminate]).
    - destruct (finish_chunk orc rawp false body); split; fin.
    - destruct (finish_chunk orc rawp false body); [|split; fin].
      simpl in H. destruct (Hrec (MField rawp tmode) rest) as [Hs Ho]. unfold need in Ho. simpl rank in Ho.
      destruct (rec (MField rawp tmode) rest) as [| | |fs rest'| | | |];
        try solve [split; [fin | intros; try discriminate; try (exfalso; apply Ho; [fin|reflexivity])]].
      simpl in Hs.
      match goal with |- good_s _ _ (rec ?m ?r) => destruct (Hrec m r) as [Hs2 Ho2]; unfold need in Ho2; simpl rank in Ho2;
        destruct (rec m r); (split; [fin | intros; try discriminate; try (exfalso; apply Ho2; [fin|reflexivity])]) end.
  Qed.

  Lemma field_after_good rawp tmode dbg start values m ft conv s6 :
    good (length s6 - 1) (3 * length s6 < f)%nat (field_after orc rec rawp tmode dbg start values m ft conv s6).
  Proof.
    unfold field_after. pose proof (slurp_len s6) as L7. destruct (slurp s6) as [|c r]; [split; [exact I|discriminate]|]. simpl in L7.
    destruct (c =? c_colon).
    - call (MParts ClBrace rawp false (length r) []) r.
    - destruct (c =? c_rbrace); split; fin.
  Qed.

  Lemma field_body_good rawp tmode s : good_s s (need (MField rawp tmode) s < S f)%nat (field_body orc rec rawp tmode s).
  Proof.
    unfold field_body, need. simpl rank. pose proof (slurp_len s) as L.
    destruct (Hrec MOne (slurp s)) as [Hs Ho]. unfold need in Ho. simpl rank in Ho.
    destruct (rec MOne (slurp s)) as [|m s2| | | | | |]; try solve [split; [fin | intros; try discriminate; try (exfalso; apply Ho; [fin|reflexivity])]].
    simpl in Hs. pose proof (slurp_len s2) as L2.
    set (dbg := match slurp s2 with [] => false | c :: _ => c =? c_eq end).
    set (s5 := if dbg then slurp (tl (slurp s2)) else slurp s2).
    assert (L5 : (length s5 <= length s2)%nat).
    { unfold s5. destruct dbg; [|exact L2]. pose proof (slurp_len (tl (slurp s2))). destruct (slurp s2); simpl in *; lia. }
    clearbody s5 dbg.
    assert (A : forall values ft conv s6, (length s6 <= length s2)%nat ->
                good_s s (3 * length s + 2 < S f)%nat (field_after orc rec rawp tmode dbg (length s) values m ft conv s6)).
    { intros. destruct (field_after_good rawp tmode dbg (length s) values m ft conv s6) as [Q1 Q2].
      destruct (field_after orc rec rawp tmode dbg (length s) values m ft conv s6); split; fin; intros; apply Q2; lia. }
    destruct s5 as [|c r]; [apply A; simpl; lia|].
    destruct (c =? c_bang); [|apply A; exact L5].
    destruct r as [|c2 r2]; [split; fin|]. apply A. simpl in L5. lia.
  Qed.
End P.

Theorem rd_good orc : forall f md s, good_s s (need md s < f)%nat (rd orc f md s).
Proof.
  induction f as [|f IH]; intros md s; [split; [exact I|unfold need; lia]|].
  destruct md; cbn [rd].
  - apply try_body_good; exact IH.
  - apply one_body_good; exact IH.
  - apply seq_body_good; exact IH.
  - apply parts_body_good; exact IH.
  - apply field_body_good; exact IH.
Qed.

