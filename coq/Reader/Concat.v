(* Reader family, C20: reading the concatenation of two texts that each hold whole forms
   gives the concatenation of their model lists -- for ARBITRARY texts, under the
   two-character boundary condition [boundary_safe]. *)
From HyV Require Import Base.Text Reader.Syntax Gen.ReaderTables Reader.Model Reader.Progress Reader.Mono Reader.Shape Reader.Suffix Reader.Extend.
From Coq Require Import Lia.
(* ---- concatenation at top level, for the position-free reader ---- *)
Definition plain (orc : oracles) : Prop := forall a b t, mk orc a b t = t.

Lemma rd_top_rest orc : forall f acc u xs r, rd orc f (MSeq None acc) u = RSeq xs r -> r = [].
Proof.
  induction f as [|f IH]; intros acc u xs r E; [discriminate|]. cbn [rd] in E. unfold seq_body in E.
  destruct (slurp u) as [|c q] eqn:Es; cbn [at_closer tl] in E; [inversion E; reflexivity|].
  pose proof (rd_shape orc f MTry (c :: q)) as Sh.
  destruct (rd orc f MTry (c :: q)) as [[m|] r'| | | | | | |]; try discriminate E; try contradiction; eapply IH; exact E.
Qed.

(* the accumulator of parse_forms_until only prefixes the result *)
Lemma rd_seq_acc orc : forall f closer acc u xs r, rd orc f (MSeq closer acc) u = RSeq xs r ->
  forall acc0, rd orc f (MSeq closer (acc ++ acc0)) u = RSeq (rev acc0 ++ xs) r.
Proof.
  induction f as [|f IH]; intros closer acc u xs r E acc0; [discriminate|]. cbn [rd] in *. unfold seq_body in *.
  destruct (at_closer closer (slurp u)).
  { inversion E; subst. rewrite rev_app_distr. reflexivity. }
  pose proof (rd_shape orc f MTry (slurp u)) as Sh.
  destruct (rd orc f MTry (slurp u)) as [[m|] r'| | | | | | |]; try discriminate E; try contradiction.
  - apply (IH closer (m :: acc)); exact E.
  - apply IH; exact E.
Qed.

Section Concat.
  Variable orc : oracles.
  Hypothesis Hplain : plain orc.
  Variable rest : text.
  Hypothesis Hrest : match rest with [] => True | d :: _ => stop d = true end.

  Lemma rd_ext_plain cs f md u : nested md -> sem cs u ->
    ext_res rest cs (rd orc f md u) (rd orc f (shift rest md) (u ++ rest)).
  Proof. apply rd_ext; auto. intros. rewrite !Hplain. reflexivity. Qed.

  (* reading u to its end at top level, then continuing into rest *)
  Lemma top_ext : forall f acc u xs, semis_ok u = true ->
    rd orc f (MSeq None acc) u = RSeq xs [] ->
    forall g, rd orc g (MSeq None (rev xs)) rest <> ROut ->
    exists h, rd orc h (MSeq None acc) (u ++ rest) = rd orc g (MSeq None (rev xs)) rest.
  Proof.
    induction f as [|f IH]; intros acc u xs Hs E g Hg; [discriminate|].
    cbn [rd] in E. unfold seq_body in E.
    pose proof (slurp_suffix u) as L. destruct (slurp u) as [|c r] eqn:Es.
    - cbn [at_closer tl] in E. inversion E; subst. rewrite rev_involutive.
      destruct g as [|g]; [exfalso; apply Hg; reflexivity|]. exists (S g). cbn [rd]. unfold seq_body.
      rewrite (slurp_nil_ext rest u Es). reflexivity.
    - cbn [at_closer] in E.
      assert (Hsc : semis_ok (c :: r) = true) by (eapply semis_ok_suffix; eauto).
      pose proof (rd_ext_plain true f MTry (c :: r) I (fun _ => Hsc)) as X. pose proof (rd_suffix orc f MTry (c :: r)) as Sx.
      assert (CONT : forall (om : option tree) r', suffix r' (c :: r) ->
                 rd orc f MTry ((c :: r) ++ rest) = RTry om (r' ++ rest) ->
                 rd orc f (MSeq None (match om with Some m => m :: acc | None => acc end)) r' = RSeq xs [] ->
                 exists h, rd orc h (MSeq None acc) (u ++ rest) = rd orc g (MSeq None (rev xs)) rest).
      { intros om r' Sr ET E2.
        destruct (IH _ r' xs (semis_ok_suffix _ _ Sr Hsc) E2 g Hg) as [h Hh].
        exists (S (max f h)). cbn [rd]. unfold seq_body. rewrite (slurp_ext rest u c r Es).
        change (c :: r ++ rest) with ((c :: r) ++ rest).
        assert (AC : at_closer None ((c :: r) ++ rest) = false) by reflexivity. rewrite AC.
        rewrite (rd_ge orc f (max f h)) by (try lia; rewrite ET; discriminate). rewrite ET.
        assert (Hh' : rd orc (max f h) (MSeq None (match om with Some m => m :: acc | None => acc end)) (r' ++ rest)
                      = rd orc g (MSeq None (rev xs)) rest).
        { rewrite (rd_ge orc h (max f h)) by (try lia; rewrite Hh; exact Hg). exact Hh. }
        destruct om; exact Hh'. }
      destruct (rd orc f MTry (c :: r)) as [[m|] r'| | | | | | |] eqn:ET; try discriminate E; cbn [ext_res sfx_res] in X, Sx.
      + destruct X as [[X _]|X]; [discriminate X|]. apply (CONT (Some m) r' Sx X E).
      + destruct X as [[X _]|X]; [discriminate X|]. apply (CONT None r' Sx X E).
      + pose proof (rd_shape orc f MTry (c :: r)) as Sh. rewrite ET in Sh. contradiction.
  Qed.
End Concat.

Definition boundary_safe (t1 t2 : text) : bool :=
  semis_ok t1 && match t2 with [] => true | d :: _ => stop d end.

Lemma read_many_ok orc s ms : read_many orc s = Ok ms -> rd orc (read_fuel s) (MSeq None []) s = RSeq ms [].
Proof.
  unfold read_many. destruct (rd orc (read_fuel s) (MSeq None []) s) eqn:E; simpl; try discriminate.
  intros H; inversion H; subst. rewrite (rd_top_rest orc _ _ _ _ _ E). reflexivity.
Qed.
Lemma read_many_of_rd orc s f ms r : rd orc f (MSeq None []) s = RSeq ms r -> read_many orc s = Ok ms.
Proof.
  intros E. unfold read_many.
  assert (N : rd orc (read_fuel s) (MSeq None []) s <> ROut).
  { destruct (rd_good orc (read_fuel s) (MSeq None []) s) as [_ H]. apply H. unfold need, read_fuel. simpl. lia. }
  destruct (Nat.le_ge_cases f (read_fuel s)) as [L|L].
  - rewrite (rd_ge orc f (read_fuel s)) by (try assumption; rewrite E; discriminate). rewrite E. reflexivity.
  - rewrite <- (rd_ge orc (read_fuel s) f) by assumption. rewrite E. reflexivity.
Qed.

(* C20: concatenation of two texts that each hold whole forms *)
Theorem read_concat orc : plain orc -> forall t1 t2 a b,
  read_many orc t1 = Ok a -> read_many orc t2 = Ok b -> boundary_safe t1 t2 = true ->
  read_many orc (t1 ++ t2) = Ok (a ++ b).
Proof.
  intros Hp t1 t2 a b E1 E2 B. apply andb_prop in B as [B1 B2].
  apply read_many_ok in E1. apply read_many_ok in E2.
  pose proof (rd_seq_acc orc _ None [] t2 b [] E2 (rev a)) as E2'. simpl app in E2'. rewrite rev_involutive in E2'.
  assert (Hr : match t2 with [] => True | d :: _ => stop d = true end) by (destruct t2; auto).
  destruct (top_ext orc Hp t2 Hr _ [] t1 a B1 E1 (read_fuel t2)) as [h Hh]; [rewrite E2'; discriminate|].
  rewrite E2' in Hh. eapply read_many_of_rd. exact Hh.
Qed.
