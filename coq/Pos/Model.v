(* C17: model of position propagation.

   - hy/models.py: a model may or may not carry position attributes; the
     properties start_line ... end_column default to 1 when unset;
     Object.replace / Sequence.replace(recursive=True) fill unset positions from
     another model, recursively (macro output inherits the call's position).
   - hy/compiler.py Asty._get_pos: a node's lineno is the source's start_line
     if the source is a model, else the source's own lineno (AST node, Result);
     the attribute pairing is the regenerated table Gen/PosTables.pos_attrs.
   - handlers: every node is positioned by the form, a sub-form or an already
     emitted node (the regenerated call-site table Gen/PosTables.asty_sites). *)
From HyV Require Import Base.Text Pos.Syntax.
Local Open Scope nat_scope.

Record pos := { start_line : nat; start_column : nat; end_line : nat; end_column : nat }.

(* a model tree with optional position attributes *)
Inductive form := Form (p : option pos) (kids : list form).

Definition fpos (f : form) : option pos := match f with Form p _ => p end.
Definition fkids (f : form) : list form := match f with Form _ k => k end.

(* names of the attributes, as texts *)
Definition a_lineno : text := [108;105;110;101;110;111]%N.
Definition a_col_offset : text := [99;111;108;95;111;102;102;115;101;116]%N.
Definition a_end_lineno : text := [101;110;100;95;108;105;110;101;110;111]%N.
Definition a_end_col_offset : text := [101;110;100;95;99;111;108;95;111;102;102;115;101;116]%N.
Definition a_start_line : text := [115;116;97;114;116;95;108;105;110;101]%N.
Definition a_start_column : text := [115;116;97;114;116;95;99;111;108;117;109;110]%N.
Definition a_end_line : text := [101;110;100;95;108;105;110;101]%N.
Definition a_end_column : text := [101;110;100;95;99;111;108;117;109;110]%N.

(* getattr(model, hy_attr): the property getters default to 1 *)
Definition model_attr (f : form) (attr : text) : option nat :=
  let get (sel : pos -> nat) := Some (match fpos f with Some p => sel p | None => 1 end) in
  if text_eqb attr a_start_line then get start_line
  else if text_eqb attr a_start_column then get start_column
  else if text_eqb attr a_end_line then get end_line
  else if text_eqb attr a_end_column then get end_column
  else None.

Fixpoint assoc (k : text) (l : list (text * text)) : option text :=
  match l with
  | [] => None
  | (a, b) :: r => if text_eqb k a then Some b else assoc k r
  end.

(* Asty._get_pos(model)[attr] = getattr(model, POS_ATTRS[attr], ...) *)
Definition get_pos_model (table : list (text * text)) (f : form) (attr : text) : option nat :=
  match assoc attr table with
  | Some hy_attr => model_attr f hy_attr
  | None => None
  end.

(* line span of a positioned model *)
Definition within (l : nat) (p : pos) : Prop := start_line p <= l /\ l <= end_line p.
Definition inside (q p : pos) : Prop := start_line p <= start_line q /\ start_line q <= end_line q /\ end_line q <= end_line p.

(* every node of the tree carries a position inside S *)
Fixpoint all_inside (S : pos) (f : form) : Prop :=
  match f with
  | Form p kids =>
      (match p with Some q => inside q S | None => False end)
      /\ (fix go (l : list form) : Prop := match l with [] => True | x :: r => all_inside S x /\ go r end) kids
  end.

(* every positioned node is inside S (unpositioned ones allowed): the shape of a macro's raw output *)
Fixpoint positioned_inside (S : pos) (f : form) : Prop :=
  match f with
  | Form p kids =>
      (match p with Some q => inside q S | None => True end)
      /\ (fix go (l : list form) : Prop := match l with [] => True | x :: r => positioned_inside S x /\ go r end) kids
  end.

(* the reader's output: children inside their parent, everything positioned *)
Fixpoint nested (f : form) : Prop :=
  match f with
  | Form p kids =>
      match p with
      | Some q => start_line q <= end_line q /\
          (fix go (l : list form) : Prop :=
             match l with
             | [] => True
             | x :: r => (match fpos x with Some c => inside c q | None => False end) /\ nested x /\ go r
             end) kids
      | None => False
      end
  end.

(* Sequence.replace(other, recursive=True) / Object.replace(other): fill unset positions *)
Fixpoint replace (other : option pos) (f : form) : form :=
  match f with
  | Form p kids =>
      Form (match p with Some q => Some q | None => other end) (map (replace other) kids)
  end.

(* descendants (including the form itself) *)
Inductive subform : form -> form -> Prop :=
| sub_refl : forall f, subform f f
| sub_kid : forall g p kids k, In k kids -> subform g k -> subform g (Form p kids).

(* The linenos a compilation of f can emit, given a position table and handlers
   that take positions only from the sources the call-site table allows. *)
Section Emit.
Variable table : list (text * text).

Inductive emits : form -> nat -> Prop :=
| emit_form : forall f l, get_pos_model table f a_lineno = Some l -> emits f l          (* asty.X(expr, ...) *)
| emit_sub : forall f g l, subform g f -> emits g l -> emits f l.                        (* asty.X(subform, ...) and the nodes
                                                                                          of sub-results, which the Result keeps;
                                                                                          asty.X(emitted node, ...) copies such a line *)
End Emit.

Definition allowed_source (s : psrc) : bool :=
  match s with SForm | SSub | SEmitted | SSubOrEmitted => true | SFresh | SNone => false end.
