(* C17: syntax of the position model. *)
From HyV Require Import Base.Text.

(* where an asty.X(source, ...) call takes the new node's position from *)
Inductive psrc :=
| SForm            (* the form being compiled *)
| SSub             (* one of its sub-forms (a component of the parse tree) *)
| SEmitted         (* a node / Result emitted earlier for the form or a sub-form *)
| SSubOrEmitted    (* `target if hasattr(target, "start_line") else result` *)
| SFresh           (* a model built on the spot and not given a position with .replace *)
| SNone.           (* the literal None *)

(* what happens to a model that a handler builds itself *)
Inductive synth :=
| Replaced          (* .replace(...) is applied to it directly *)
| ComparedOnly      (* only used as the right-hand side of == / != *)
| InsideReplaced    (* becomes a child of a model to which .replace is applied (recursive) *)
| NotCompiled       (* a placeholder that is never handed to the compiler *)
| Unreplaced.       (* compiled without ever getting a position: its nodes report line 1 *)
