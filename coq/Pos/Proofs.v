(* C17: every emitted line lies in the span; macro output gets the call's span. *)
From HyV Require Import Base.Text Pos.Syntax Pos.Model Gen.PosTables.
From Coq Require Import Lia.
Local Open Scope nat_scope.

Section FormInd.
Variable P : form -> Prop.
Hypothesis H : forall p kids, Forall P kids -> P (Form p kids).
Fixpoint form_ind' (f : form) : P f :=
  match f with
  | Form p kids =>
      H p kids ((fix go (l : list form) : Forall P l :=
                   match l with [] => Forall_nil P | x :: r => Forall_cons x (form_ind' x) (go r) end) kids)
  end.
End FormInd.

(* the list-level readings of the local fixpoints *)
Lemma all_inside_kids S p kids : all_inside S (Form p kids) <->
  (match p with Some q => inside q S | None => False end) /\ Forall (all_inside S) kids.
Proof.
  cbn [all_inside]. split; intros [A B]; (split; [exact A|]).
  - induction kids as [|x r IH]; [constructor|]. destruct B as [B1 B2]. constructor; [exact B1 | exact (IH B2)].
  - induction kids as [|x r IH]; [exact I|]. inversion B; subst. split; [assumption | apply IH; assumption].
Qed.

Lemma positioned_inside_kids S p kids : positioned_inside S (Form p kids) <->
  (match p with Some q => inside q S | None => True end) /\ Forall (positioned_inside S) kids.
Proof.
  cbn [positioned_inside]. split; intros [A B]; (split; [exact A|]).
  - induction kids as [|x r IH]; [constructor|]. destruct B as [B1 B2]. constructor; [exact B1 | exact (IH B2)].
  - induction kids as [|x r IH]; [exact I|]. inversion B; subst. split; [assumption | apply IH; assumption].
Qed.

Lemma nested_kids q kids : nested (Form (Some q) kids) <->
  start_line q <= end_line q /\
  Forall (fun x => (match fpos x with Some c => inside c q | None => False end) /\ nested x) kids.
Proof.
  cbn [nested]. split; intros [A B]; (split; [exact A|]).
  - induction kids as [|x r IH]; [constructor|]. destruct B as (B1 & B2 & B3). constructor; [tauto | exact (IH B3)].
  - induction kids as [|x r IH]; [exact I|]. inversion B; subst. destruct H1. repeat split; try assumption. apply IH; assumption.
Qed.

Lemma inside_trans a b c : inside a b -> inside b c -> inside a c.
Proof. unfold inside. lia. Qed.

Lemma inside_refl q : start_line q <= end_line q -> inside q q.
Proof. unfold inside. lia. Qed.

Lemma all_inside_weaken : forall f S T, inside S T -> all_inside S f -> all_inside T f.
Proof.
  induction f using form_ind'. intros S T HST A. apply all_inside_kids in A. destruct A as [A B]. apply all_inside_kids. split.
  - destruct p; [exact (inside_trans _ _ _ A HST) | exact A].
  - rewrite Forall_forall in *. intros x Hx. exact (H x Hx S T HST (B x Hx)).
Qed.

(* the reader's nesting puts the whole tree inside the root's span *)
Lemma nested_all_inside : forall f q, nested f -> fpos f = Some q -> all_inside q f.
Proof.
  induction f using form_ind'. intros q N E. cbn in E. subst p. apply nested_kids in N. destruct N as [W N].
  apply all_inside_kids. split; [exact (inside_refl q W)|].
  rewrite Forall_forall in *. intros x Hx. destruct (N x Hx) as [C Nx].
  destruct (fpos x) as [c|] eqn:Ex; [|contradiction].
  exact (all_inside_weaken x c q C (H x Hx c Nx Ex)).
Qed.

Lemma subform_all_inside : forall g f, subform g f -> forall S, all_inside S f -> all_inside S g.
Proof.
  induction 1; intros S A; [exact A|]. apply all_inside_kids in A. destruct A as [_ B].
  rewrite Forall_forall in B. exact (IHsubform S (B k H)).
Qed.

Lemma subform_nested : forall g f, subform g f -> nested f -> nested g.
Proof.
  induction 1; intros N; [exact N|]. destruct p as [q|]; [|contradiction]. apply nested_kids in N. destruct N as [_ N].
  rewrite Forall_forall in N. exact (IHsubform (proj2 (N k H))).
Qed.

(* ---------------------------------------------------------------- the regenerated tables *)

Definition is_line_attr (h : text) : bool := text_eqb h a_start_line || text_eqb h a_end_line.

(* lineno and end_lineno are taken from a line attribute of the model (not from a column) *)
Lemma pos_attrs_checked :
  match assoc a_lineno pos_attrs, assoc a_end_lineno pos_attrs with
  | Some h1, Some h2 => is_line_attr h1 && is_line_attr h2
  | _, _ => false
  end = true.
Proof. vm_compute. reflexivity. Qed.

(* every asty.X(source, ...) call takes its position from the form, a sub-form or an emitted node *)
Lemma asty_sites_checked : forallb (fun s => allowed_source (snd s)) asty_sites = true.
Proof. vm_compute. reflexivity. Qed.

Lemma lineno_of_model : forall f l, get_pos_model pos_attrs f a_lineno = Some l ->
  match fpos f with Some q => l = start_line q \/ l = end_line q | None => l = 1 end.
Proof.
  intros f l E. unfold get_pos_model in E. pose proof pos_attrs_checked as C.
  destruct (assoc a_lineno pos_attrs) as [h|]; [|discriminate].
  destruct (assoc a_end_lineno pos_attrs); [|discriminate].
  apply andb_true_iff in C. destruct C as [C _]. unfold is_line_attr in C. apply orb_true_iff in C.
  unfold model_attr in E. destruct C as [C|C].
  - rewrite C in E. inversion E. destruct (fpos f); [left|]; reflexivity.
  - destruct (text_eqb h a_start_line) eqn:C0.
    + inversion E. destruct (fpos f); [left|]; reflexivity.
    + destruct (text_eqb h a_start_column) eqn:C1.
      { apply text_eqb_eq in C1, C. subst. discriminate. }
      rewrite C in E. inversion E. destruct (fpos f); [right|]; reflexivity.
Qed.

(* ---------------------------------------------------------------- the theorems *)

Theorem emits_within : forall S f, all_inside S f -> forall l, emits pos_attrs f l -> within l S.
Proof.
  intros S f A l E. revert S A. induction E as [f l G | f g l Sub _ IH]; intros S A.
  - pose proof (lineno_of_model f l G) as L. destruct f as [p kids]. apply all_inside_kids in A. destruct A as [A _].
    cbn in L. destruct p as [q|]; [|contradiction]. unfold inside in A. unfold within. destruct L; subst; lia.
  - exact (IH S (subform_all_inside g f Sub S A)).
Qed.

(* reader output: the lines emitted for any sub-form lie in that sub-form's own span *)
Theorem emitted_lines_within_span : forall f g q, nested f -> subform g f -> fpos g = Some q ->
  forall l, emits pos_attrs g l -> within l q.
Proof.
  intros f g q N Sub E l Em. apply (emits_within q g); [|exact Em].
  apply nested_all_inside; [exact (subform_nested g f Sub N) | exact E].
Qed.

(* Sequence.replace: unset positions are filled with the call's, set ones are kept *)
Theorem replace_all_inside : forall S exp, start_line S <= end_line S -> positioned_inside S exp ->
  all_inside S (replace (Some S) exp).
Proof.
  intros S exp W. induction exp using form_ind'. intros A. apply positioned_inside_kids in A. destruct A as [A B].
  cbn [replace]. apply all_inside_kids. split.
  - destruct p; [exact A | exact (inside_refl S W)].
  - rewrite Forall_forall in *. intros x Hx. apply in_map_iff in Hx. destruct Hx as (y & <- & Hy). exact (H y Hy (B y Hy)).
Qed.

Theorem macro_expansion_positions : forall S exp l, start_line S <= end_line S -> positioned_inside S exp ->
  emits pos_attrs (replace (Some S) exp) l -> within l S.
Proof. intros S exp l W A E. exact (emits_within S _ (replace_all_inside S exp W A) l E). Qed.

(* replace keeps what is positioned and only fills what is not *)
Theorem replace_keeps_positions : forall o p kids q, p = Some q -> fpos (replace o (Form p kids)) = Some q.
Proof. intros o p kids q ->. reflexivity. Qed.

(* why the premise matters: a model that never got a position reports line 1 *)
Example unpositioned_model_reports_line_1 : emits pos_attrs (Form None []) 1.
Proof. apply emit_form. vm_compute. reflexivity. Qed.

(* a non-trivial object meeting the hypotheses: a call spanning lines 5-7 with an argument on line 6 *)
Definition ex_arg : form := Form (Some {| start_line := 6; start_column := 3; end_line := 6; end_column := 9 |}) [].
Definition ex_call : form := Form (Some {| start_line := 5; start_column := 1; end_line := 7; end_column := 2 |}) [ex_arg].
Example ex_nested : nested ex_call /\ subform ex_arg ex_call /\ emits pos_attrs ex_arg 6.
Proof.
  split; [cbn; unfold inside; cbn; lia|]. split.
  - eapply sub_kid; [left; reflexivity | apply sub_refl].
  - apply emit_form. vm_compute. reflexivity.
Qed.

(* ---------------------------------------------------------------- models the handlers build themselves *)
Definition is_unreplaced (k : synth) : bool := match k with Unreplaced => true | _ => false end.

(* Either every model a handler builds gets a position (directly, or below a replaced parent) or is never
   compiled; or some model is compiled without a position, and then (unpositioned_model_reports_line_1)
   its nodes report line 1 whatever the span of the form being compiled.  Which alternative holds is
   computed from the regenerated table. *)
Theorem synthesized_forms_status :
  forallb (fun s => negb (is_unreplaced (snd s))) synthesized = true
  \/ (exists s, In s synthesized /\ snd s = Unreplaced /\ emits pos_attrs (Form None []) 1).
Proof.
  first [ left; vm_compute; reflexivity
        | right; pose proof unpositioned_model_reports_line_1 as U;
          assert (E : existsb (fun s => is_unreplaced (snd s)) synthesized = true) by (vm_compute; reflexivity);
          apply existsb_exists in E; destruct E as [s [Hin Hs]]; exists s; split; [exact Hin|]; split;
          [destruct (snd s); try discriminate; reflexivity | exact U] ].
Qed.

(* ---------------------------------------------------------------- FComponent.replace *)
(* hy/models.py: FComponent.replace(other) calls super().replace(other, recursive) -- which for a Sequence builds
   and returns a positioned *copy* -- and then returns self.  When the regenerated flag says the copy is dropped,
   an unpositioned replacement field of a macro-built f-string stays unpositioned. *)
Definition fcomponent_replace (o : option pos) (f : form) : form :=
  if fcomponent_replace_discards then f else replace o f.

Theorem fcomponent_replace_status :
  fcomponent_replace_discards = false
  \/ (forall o, emits pos_attrs (fcomponent_replace o (Form None [])) 1).
Proof.
  first [ left; reflexivity
        | right; intros o; unfold fcomponent_replace; cbv beta iota delta [fcomponent_replace_discards];
          exact unpositioned_model_reports_line_1 ].
Qed.
