(* Order: a display (list/set/tuple) holds its argument forms in source order, not merely the same
   multiset of them; and the positional and keyword slots of a call each keep source order. *)
From HyV Require Import Collect.Model.

Lemma ovars_app a b : ovars (a ++ b) = ovars a ++ ovars b.
Proof. unfold ovars. apply flat_map_app. Qed.

Lemma collect_display_order : forall l es ks es' ks',
  collect false false l es ks = Ok (es', ks') -> ovars es' = ovars es ++ cvars l /\ ks' = ks.
Proof.
  induction l as [|a r IH]; intros es ks es' ks' H.
  - cbn in H. inversion H; subst. unfold cvars; cbn. rewrite app_nil_r. split; reflexivity.
  - destruct a as [n|n|n|k]; cbn [collect] in H.
    + apply IH in H. destruct H as [H1 H2]. rewrite ovars_app in H1. cbn in H1. rewrite <- app_assoc in H1. split; [exact H1|exact H2].
    + apply IH in H. destruct H as [H1 H2]. rewrite ovars_app in H1. cbn in H1. rewrite <- app_assoc in H1. split; [exact H1|exact H2].
    + discriminate H.
    + apply IH in H. destruct H as [H1 H2]. rewrite ovars_app in H1. cbn in H1. rewrite app_nil_r in H1. split; [exact H1|exact H2].
Qed.

Theorem display_keeps_source_order : forall l es, compile_display l = Ok es -> ovars es = cvars l.
Proof.
  intros l es H. unfold compile_display in H.
  destruct (collect false false l [] []) as [[es0 ks0]|] eqn:E; [|discriminate H].
  inversion H; subst. apply collect_display_order in E. destruct E as [E _]. exact E.
Qed.

Lemma collect_dict_order : forall l es ks es' ks',
  collect false true l es ks = Ok (es', ks') -> ovars es' = ovars es ++ cvars l /\ ks' = ks.
Proof.
  induction l as [|a r IH]; intros es ks es' ks' H.
  - cbn in H. inversion H; subst. unfold cvars; cbn. rewrite app_nil_r. split; reflexivity.
  - destruct a as [n|n|n|k]; cbn [collect] in H.
    + apply IH in H. destruct H as [H1 H2]. rewrite ovars_app in H1. cbn in H1. rewrite <- app_assoc in H1. split; [exact H1|exact H2].
    + apply IH in H. destruct H as [H1 H2]. rewrite ovars_app in H1. cbn in H1. rewrite <- app_assoc in H1. split; [exact H1|exact H2].
    + apply IH in H. destruct H as [H1 H2]. rewrite ovars_app in H1. cbn in H1. rewrite <- app_assoc in H1. split; [exact H1|exact H2].
    + apply IH in H. destruct H as [H1 H2]. rewrite ovars_app in H1. cbn in H1. rewrite app_nil_r in H1. split; [exact H1|exact H2].
Qed.

(* the dict node's keys and values are the even and odd slots of ONE slot sequence that holds the
   argument forms in source order (a #** form occupies a None key and its own value slot) *)
Theorem dict_keeps_source_order : forall l keys vals, compile_dict l = Ok (keys, vals) ->
  exists es, keys = evens es /\ vals = odds es /\ ovars es = cvars l.
Proof.
  intros l keys vals H. unfold compile_dict in H.
  destruct (collect false true l [] []) as [[es0 ks0]|] eqn:E; [|discriminate H].
  destruct (Nat.even (length es0)); [|discriminate H]. inversion H; subst.
  exists es0. split; [reflexivity|]. split; [reflexivity|].
  apply collect_dict_order in E. destruct E as [E _]. exact E.
Qed.
