(* Model of HyASTCompiler._compile_collect and the display/call handlers built
   on it (compile_list/set/tuple, compile_dict, compile_expression), for C11:
   which argument forms end up where in the compiled node. *)
From Coq Require Export List Bool Arith Lia.
Export ListNotations.

(* an argument form, identified by the variable it evaluates *)
Inductive carg :=
| CForm (n : nat)          (* an ordinary form *)
| CStar (n : nat)          (* #* form *)
| CDouble (n : nat)        (* #** form *)
| CKeyword (k : nat).      (* a keyword object :k *)

(* what a positional slot of the compiled node holds *)
Inductive oexpr := ONone | OLeaf (n : nat) | OStar (n : nat) | OKwObj (k : nat).
(* keyword slots: (Some k, v) is k=v, (None, v) is **v; the value of a keyword argument is whatever form
   follows the keyword (even a #* form or another keyword object) *)
Definition okw := (option nat * oexpr)%type.

Inductive res (A : Type) := Ok (a : A) | Err.
Arguments Ok {A} _. Arguments Err {A}.

(* _compile_collect(exprs, with_kwargs, dict_display) *)
Fixpoint collect (wk dd : bool) (l : list carg) (es : list oexpr) (ks : list okw) : res (list oexpr * list okw) :=
  match l with
  | [] => Ok (es, ks)
  | CDouble n :: r =>
      if dd then collect wk dd r (es ++ [ONone; OLeaf n]) ks
      else if wk then collect wk dd r es (ks ++ [(None, OLeaf n)])
      else Err                                   (* "can't unpack a mapping here" *)
  | CKeyword k :: r =>
      if wk then
        match r with
        | CForm n :: r' => collect wk dd r' es (ks ++ [(Some k, OLeaf n)])
        | CStar n :: r' => collect wk dd r' es (ks ++ [(Some k, OStar n)])
        | CKeyword k2 :: r' => collect wk dd r' es (ks ++ [(Some k, OKwObj k2)])
        | _ => Err                               (* needs a value; #** is not a value *)
        end
      else collect wk dd r (es ++ [OKwObj k]) ks
  | CForm n :: r => collect wk dd r (es ++ [OLeaf n]) ks
  | CStar n :: r => collect wk dd r (es ++ [OStar n]) ks
  end.

(* compile_list / compile_set / compile_tuple: the elements of the display *)
Definition compile_display (l : list carg) : res (list oexpr) :=
  match collect false false l [] [] with Ok (es, _) => Ok es | Err => Err end.

(* compile_expression: positional and keyword arguments of the call *)
Definition compile_call (l : list carg) : res (list oexpr * list okw) := collect true false l [] [].

(* compile_dict: keys = every other slot from 0, values = every other slot from 1; odd length is an error *)
Fixpoint evens {A} (l : list A) : list A := match l with [] => [] | x :: r => x :: odds r end
with odds {A} (l : list A) : list A := match l with [] => [] | _ :: r => evens r end.
Definition compile_dict (l : list carg) : res (list oexpr * list oexpr) :=
  match collect false true l [] [] with
  | Ok (es, _) => if Nat.even (length es) then Ok (evens es, odds es) else Err
  | Err => Err
  end.

(* the variables evaluated by arguments / held by slots, in order *)
Definition cvar (a : carg) : list nat := match a with CForm n | CStar n | CDouble n => [n] | CKeyword _ => [] end.
Definition ovar (o : oexpr) : list nat := match o with OLeaf n | OStar n => [n] | _ => [] end.
Definition cvars (l : list carg) : list nat := flat_map cvar l.
Definition ovars (l : list oexpr) : list nat := flat_map ovar l.
Definition kvars (l : list okw) : list nat := flat_map (fun kv => ovar (snd kv)) l.
