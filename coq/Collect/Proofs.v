From HyV Require Import Collect.Model.

(* counting occurrences: nothing is lost, nothing is duplicated *)
Definition occ (n : nat) (l : list nat) : nat := count_occ Nat.eq_dec l n.
Lemma occ_app n a b : occ n (a ++ b) = occ n a + occ n b.
Proof. apply count_occ_app. Qed.
Lemma occ_one n m : occ n [m] = if Nat.eq_dec m n then 1 else 0.
Proof. unfold occ. cbn. destruct (Nat.eq_dec m n); reflexivity. Qed.
Lemma occ_nil n : occ n [] = 0. Proof. reflexivity. Qed.

Lemma ovars_app a b : ovars (a ++ b) = ovars a ++ ovars b.
Proof. unfold ovars. apply flat_map_app. Qed.
Lemma kvars_app a b : kvars (a ++ b) = kvars a ++ kvars b.
Proof. unfold kvars. apply flat_map_app. Qed.
Lemma cvars_cons a r : cvars (a :: r) = cvar a ++ cvars r.
Proof. reflexivity. Qed.

(* every variable evaluated by the arguments is held by exactly as many slots of the result *)
Lemma collect_preserves wk dd : forall k l es ks es' ks', length l <= k ->
  collect wk dd l es ks = Ok (es', ks') ->
  forall n, occ n (ovars es') + occ n (kvars ks') = occ n (ovars es) + occ n (kvars ks) + occ n (cvars l).
Proof.
  induction k as [|k IH]; intros l es ks es' ks' Hk H n.
  - destruct l; [|cbn in Hk; lia]. cbn in H. inversion H; subst. cbn. lia.
  - destruct l as [|a r]; [cbn in H; inversion H; subst; cbn; lia|]. cbn [length] in Hk.
    rewrite cvars_cons, occ_app. destruct a as [m|m|m|kw]; cbn [collect] in H; cbn [cvar].
    + rewrite (IH r _ _ _ _ ltac:(lia) H n), ovars_app, occ_app. cbn [ovars flat_map ovar app]. lia.
    + rewrite (IH r _ _ _ _ ltac:(lia) H n), ovars_app, occ_app. cbn [ovars flat_map ovar app]. lia.
    + destruct dd.
      * rewrite (IH r _ _ _ _ ltac:(lia) H n), ovars_app, occ_app. cbn [ovars flat_map ovar app]. lia.
      * destruct wk; [|discriminate]. rewrite (IH r _ _ _ _ ltac:(lia) H n), kvars_app, occ_app. cbn [kvars flat_map snd ovar app]. lia.
    + destruct wk.
      * destruct r as [|[m|m|m|k2] r']; try discriminate; cbn [length] in Hk;
          rewrite (IH r' _ _ _ _ ltac:(lia) H n), kvars_app, occ_app, cvars_cons, occ_app; cbn [kvars flat_map snd ovar cvar app];
          rewrite ?occ_nil; lia.
      * rewrite (IH r _ _ _ _ ltac:(lia) H n), ovars_app, occ_app. cbn [ovars flat_map ovar app]. rewrite occ_nil. lia.
Qed.

Lemma collect_no_keywords dd : forall k l es ks es' ks', length l <= k -> collect false dd l es ks = Ok (es', ks') -> ks' = ks.
Proof.
  induction k as [|k IH]; intros l es ks es' ks' Hk H.
  - destruct l; [cbn in H; inversion H; reflexivity | cbn in Hk; lia].
  - destruct l as [|a r]; [cbn in H; inversion H; reflexivity|]. cbn [length] in Hk. cbn [collect] in H.
    destruct a; try (eapply IH; [|exact H]; lia). destruct dd; [eapply IH; [|exact H]; lia | discriminate].
Qed.

(* [1 2 #* xs]  #{...}  #(...) *)
Theorem display_keeps_every_argument l es : compile_display l = Ok es -> forall n, occ n (ovars es) = occ n (cvars l).
Proof.
  unfold compile_display. destruct (collect false false l [] []) as [[es' ks']|] eqn:E; [|discriminate].
  intros H n. inversion H; subst. pose proof (collect_preserves _ _ _ _ _ _ _ _ (Nat.le_refl _) E n) as P.
  rewrite (collect_no_keywords _ _ _ _ _ _ _ (Nat.le_refl _) E) in P. cbn in P. lia.
Qed.

(* (f a :k b #* xs #** kw) *)
Theorem call_keeps_every_argument l es ks : compile_call l = Ok (es, ks) ->
  forall n, occ n (ovars es) + occ n (kvars ks) = occ n (cvars l).
Proof. intros H n. pose proof (collect_preserves _ _ _ _ _ _ _ _ (Nat.le_refl _) H n) as P. cbn in P. lia. Qed.

Lemma ovars_evens_odds n : forall es, occ n (ovars (evens es)) + occ n (ovars (odds es)) = occ n (ovars es).
Proof.
  assert (G : forall k es, length es <= k -> occ n (ovars (evens es)) + occ n (ovars (odds es)) = occ n (ovars es)).
  { induction k as [|k IH]; intros es Hk.
    - destruct es; [reflexivity | cbn in Hk; lia].
    - destruct es as [|a [|b r]]; [reflexivity | cbn; unfold ovars; cbn; rewrite app_nil_r; lia |].
      cbn [evens odds]. cbn [length] in Hk. specialize (IH r ltac:(lia)).
      unfold ovars in *. cbn [flat_map]. rewrite !occ_app. lia. }
  intros es. apply (G (length es)). lia.
Qed.

(* {k1 v1 k2 v2 #** m} *)
Theorem dict_keeps_every_argument l keys vals : compile_dict l = Ok (keys, vals) ->
  forall n, occ n (ovars keys) + occ n (ovars vals) = occ n (cvars l).
Proof.
  unfold compile_dict. destruct (collect false true l [] []) as [[es ks]|] eqn:E; [|discriminate].
  destruct (Nat.even (length es)); [|discriminate]. intros H n. inversion H; subst.
  pose proof (collect_preserves _ _ _ _ _ _ _ _ (Nat.le_refl _) E n) as P.
  rewrite (collect_no_keywords _ _ _ _ _ _ _ (Nat.le_refl _) E) in P. cbn in P. rewrite ovars_evens_odds. lia.
Qed.

(* and when an argument cannot be placed, compilation fails rather than dropping it *)
Theorem display_rejects_mapping_unpack a n b : compile_display (a ++ CDouble n :: b) = Err.
Proof.
  unfold compile_display.
  assert (G : forall k a es ks, length a <= k -> collect false false (a ++ CDouble n :: b) es ks = Err).
  { induction k as [|k IH]; intros a0 es ks Hk.
    - destruct a0; [reflexivity | cbn in Hk; lia].
    - destruct a0 as [|x r]; [reflexivity|]. cbn [length] in Hk. cbn [app collect].
      destruct x; try (apply IH; lia). reflexivity. }
  rewrite (G (length a) a [] [] (Nat.le_refl _)). reflexivity.
Qed.

Theorem dict_rejects_odd l es ks : collect false true l [] [] = Ok (es, ks) -> Nat.even (length es) = false -> compile_dict l = Err.
Proof. intros E H. unfold compile_dict. rewrite E, H. reflexivity. Qed.
