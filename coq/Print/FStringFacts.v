(* f-strings: literal runs between replacement fields, as the reader scans and decodes them
   (read_chars_until in f-string mode, for the quote closing and the format-spec closing). *)
From HyV Require Import Print.Syntax Print.Names Print.Reader Print.ModelRepr Print.ReaderFacts Print.StringFacts
     Print.AtomFacts.
From Coq Require Import Lia.

Definition not_brace (c : N) : bool := negb (N.eqb c c_lc) && negb (N.eqb c c_rc).
Definition brace_free (t : text) : bool := forallb not_brace t.

Lemma not_brace_ne c : not_brace c = true -> c <> c_lc /\ c <> c_rc.
Proof. unfold not_brace. intros H. apply andb_prop in H as [A B]. apply negb_true_iff, N.eqb_neq in A, B. tauto. Qed.

(* the kept characters end with backslash N: a following brace would be taken for a named escape *)
Definition ends_bsN (K : text) : bool := starts_with [c_N; c_bs] (rev K).

Section Lit.
Variable W : oracle.

(* one literal item: source text, what read_chars_until keeps of it, the character it denotes *)
Inductive item : text -> text -> N -> Prop :=
| IShape c t : eshape false c t -> brace_free t = true -> item t t c
| IOpen : item [c_lc; c_lc] [c_lc] c_lc
| IClose : item [c_rc; c_rc] [c_rc] c_rc
| INamed name cp : ulookup W name = Some cp -> forallb inert name = true ->
                   item ([c_bs; c_N; c_lc] ++ name ++ [c_rc]) ([c_bs; c_N; c_lc] ++ name ++ [c_rc]) cp.

(* a run of items after the kept text K (K = what this chunk has kept so far) *)
Inductive run : text -> text -> text -> text -> Prop :=
| RNil K : run K [] [] []
| RCons K src kept v src' kept' v' :
    item src kept v -> (src = [c_lc; c_lc] -> ends_bsN K = false) ->
    run (K ++ kept) src' kept' v' -> run K (src ++ src') (kept ++ kept') (v :: v').

Notation cuq := (chars_until (CQuote false false) true false).

Lemma cu_unfold cl fm raw st nm acc c r :
  chars_until cl fm raw st nm acc (c :: r) =
  match close_step cl st c with
  | ClErr => CUErr ELex
  | ClClosed n => CUDone (rev (skipn n (c :: acc))) true r st
  | ClCont st' =>
      if fm && N.eqb c c_lc then
        if negb raw && starts_with [c_lc; c_N; c_bs] (c :: acc) then chars_until cl fm raw st' true (c :: acc) r
        else match r with
             | c2 :: r2 => if N.eqb c2 c_lc then chars_until cl fm raw st' nm (c :: acc) r2
                           else CUDone (rev acc) false r st'
             | [] => CUDone (rev acc) false r st'
             end
      else if fm && N.eqb c c_rc then
        if nm then chars_until cl fm raw st' false (c :: acc) r
        else match r with
             | c2 :: r2 => if N.eqb c2 c_rc then chars_until cl fm raw st' nm (c :: acc) r2 else CUErr ELex
             | [] => CUErr ELex
             end
      else chars_until cl fm raw st' nm (c :: acc) r
  end.
Proof. reflexivity. Qed.

Lemma cu_open st nm acc tail :
  close_step (CQuote false false) st c_lc = ClCont st -> starts_with [c_N; c_bs] acc = false ->
  cuq st nm acc (c_lc :: c_lc :: tail) = cuq st nm (c_lc :: acc) tail.
Proof.
  intros Hs Hn. rewrite cu_unfold, Hs. change (true && N.eqb c_lc c_lc) with true. cbv iota.
  change (starts_with [c_lc; c_N; c_bs] (c_lc :: acc)) with (starts_with [c_N; c_bs] acc). rewrite Hn.
  change (negb false && false) with false. cbv iota. change (N.eqb c_lc c_lc) with true. reflexivity.
Qed.

Lemma cu_close st acc tail :
  close_step (CQuote false false) st c_rc = ClCont st ->
  cuq st false acc (c_rc :: c_rc :: tail) = cuq st false (c_rc :: acc) tail.
Proof.
  intros Hs. rewrite cu_unfold, Hs. change (true && N.eqb c_rc c_lc) with false. change (true && N.eqb c_rc c_rc) with true.
  cbv iota. change (N.eqb c_rc c_rc) with true. reflexivity.
Qed.

(* the brace that opens a named escape, and the one that closes it *)
Lemma cu_named_open st acc tail :
  close_step (CQuote false false) st c_lc = ClCont st ->
  cuq st false (c_N :: c_bs :: acc) (c_lc :: tail) = cuq st true (c_lc :: c_N :: c_bs :: acc) tail.
Proof.
  intros Hs. rewrite cu_unfold, Hs. change (true && N.eqb c_lc c_lc) with true. cbv iota.
  change (negb false && starts_with [c_lc; c_N; c_bs] (c_lc :: c_N :: c_bs :: acc)) with true. reflexivity.
Qed.

Lemma cu_named_close st acc tail :
  close_step (CQuote false false) st c_rc = ClCont st ->
  cuq st true acc (c_rc :: tail) = cuq st false (c_rc :: acc) tail.
Proof.
  intros Hs. rewrite cu_unfold, Hs. change (true && N.eqb c_rc c_lc) with false. change (true && N.eqb c_rc c_rc) with true.
  reflexivity.
Qed.

Lemma item_scan src kept v : item src kept v -> forall K tail,
  (src = [c_lc; c_lc] -> ends_bsN K = false) ->
  cuq (StQuote false) false (rev K) (src ++ tail) = cuq (StQuote false) false (rev (K ++ kept)) tail.
Proof.
  intros Hi K tail Hsafe. destruct Hi as [c t Hs Hb| | |name cp Hl Hn].
  - (* an escape-shaped item without braces *)
    rewrite rev_app_distr.
    destruct Hs as [A B _ _|e He Hm|Hc|Hbb Hc|Hbb Hc].
    + cbn [brace_free forallb] in Hb. rewrite andb_true_r in Hb. destruct (not_brace_ne c Hb).
      cbn [app]. rewrite cu_step by (right; split; assumption). rewrite qstep_plain by assumption. reflexivity.
    + cbn [app]. rewrite cu_step by (right; split; discriminate). rewrite qstep_bs. cbn [negb].
      cbn [brace_free forallb] in Hb. apply andb_prop in Hb as [_ Hb]. rewrite andb_true_r in Hb.
      destruct (not_brace_ne e Hb). rewrite cu_step by (right; split; assumption).
      destruct (mem6 e Hm) as [->|[->|[->|[->|[->|[->|[->|[->|[->| ->]]]]]]]]]; reflexivity.
    + unfold esc_x. cbn [app]. rewrite cu_step by (right; split; discriminate). rewrite qstep_bs. cbn [negb].
      rewrite cu_step by (right; split; discriminate). rewrite qstep_esc by (try discriminate; reflexivity).
      rewrite scan_inert by apply hex_fixed_inert. cbn [rev app]. rewrite <- !app_assoc. reflexivity.
    + unfold esc_u. cbn [app]. rewrite cu_step by (right; split; discriminate). rewrite qstep_bs. cbn [negb].
      rewrite cu_step by (right; split; discriminate). rewrite qstep_esc by (try discriminate; reflexivity).
      rewrite scan_inert by apply hex_fixed_inert. cbn [rev app]. rewrite <- !app_assoc. reflexivity.
    + unfold esc_U. cbn [app]. rewrite cu_step by (right; split; discriminate). rewrite qstep_bs. cbn [negb].
      rewrite cu_step by (right; split; discriminate). rewrite qstep_esc by (try discriminate; reflexivity).
      rewrite scan_inert by apply hex_fixed_inert. cbn [rev app]. rewrite <- !app_assoc. reflexivity.
  - cbn [app]. rewrite cu_open; [|reflexivity|exact (Hsafe eq_refl)]. rewrite rev_app_distr. reflexivity.
  - cbn [app]. rewrite cu_close by reflexivity. rewrite rev_app_distr. reflexivity.
  - rewrite <- !app_assoc. cbn [app].
    rewrite cu_step by (right; split; discriminate). rewrite qstep_bs. cbn [negb].
    rewrite cu_step by (right; split; discriminate). rewrite qstep_esc by (try discriminate; reflexivity).
    rewrite cu_named_open by reflexivity.
    rewrite scan_inert by exact Hn.
    rewrite cu_named_close by reflexivity.
    rewrite !rev_app_distr. cbn [rev app]. rewrite <- !app_assoc. cbn [app]. rewrite rev_app_distr. reflexivity.
Qed.

Lemma run_scan K src kept v : run K src kept v -> forall tail,
  cuq (StQuote false) false (rev K) (src ++ tail) = cuq (StQuote false) false (rev (K ++ kept)) tail.
Proof.
  induction 1 as [K|K src kept v src' kept' v' Hi Hs _ IH]; intros tail.
  - rewrite app_nil_r. reflexivity.
  - rewrite <- app_assoc, (item_scan _ _ _ Hi K _ Hs), IH, app_assoc. reflexivity.
Qed.

(* decoding the kept text *)
Lemma item_no_cr src kept v : item src kept v -> no_cr kept = true.
Proof.
  intros Hi. destruct Hi as [c t Hs _| | |name cp _ Hn]; [apply (shape_no_cr _ _ _ Hs)|reflexivity|reflexivity|].
  unfold no_cr. cbn [app forallb]. rewrite forallb_app. fold (no_cr name). rewrite (inert_no_cr _ Hn). reflexivity.
Qed.

Lemma inert_span_rc name u : forallb inert name = true ->
  span (fun x => negb (N.eqb x c_rc)) (name ++ c_rc :: u) = (name, c_rc :: u).
Proof.
  intros H. apply span_app; [|reflexivity].
  induction name as [|c name IH]; [reflexivity|]. cbn [forallb] in *. apply andb_prop in H as [Hc H].
  destruct (inert_parts c Hc) as (_ & _ & _ & _ & _ & A). apply N.eqb_neq in A. rewrite A, IH by exact H. reflexivity.
Qed.

Lemma item_unescape src kept v : item src kept v -> forall f u,
  unescape W false (S f) (kept ++ u) = match unescape W false f u with Some x => Some (v :: x) | None => None end.
Proof.
  intros Hi f u. destruct Hi as [c t Hs _| | |name cp Hl Hn].
  - apply shape_unescape; exact Hs.
  - reflexivity.
  - reflexivity.
  - rewrite <- !app_assoc. cbn [app unescape]. change (N.eqb c_bs c_bs) with true. cbv iota.
    change (N.eqb c_N c_nl) with false. change (simple_escape c_N) with (@None N). change (octval c_N) with (@None N).
    change (N.eqb c_N 120) with false. change (negb false && N.eqb c_N 117) with false.
    change (negb false && N.eqb c_N 85) with false. change (negb false && N.eqb c_N c_N) with true. cbv iota.
    change (N.eqb c_lc c_lc) with true. cbv iota. rewrite inert_span_rc by exact Hn. rewrite Hl. reflexivity.
Qed.

Lemma run_no_cr K src kept v : run K src kept v -> no_cr kept = true.
Proof.
  induction 1 as [K|K src kept v src' kept' v' Hi _ _ IH]; [reflexivity|].
  unfold no_cr in *. rewrite forallb_app. fold (no_cr kept). rewrite (item_no_cr _ _ _ Hi), IH. reflexivity.
Qed.

Lemma run_unescape K src kept v : run K src kept v -> forall f u, (length v <= f)%nat ->
  unescape W false f (kept ++ u) = match unescape W false (f - length v) u with Some x => Some (v ++ x) | None => None end.
Proof.
  induction 1 as [K|K src kept v src' kept' v' Hi _ _ IH]; intros f u Hf.
  - cbn [app length]. rewrite Nat.sub_0_r. destruct (unescape W false f u); reflexivity.
  - cbn [length] in Hf. destruct f as [|f]; [lia|]. rewrite <- app_assoc, (item_unescape _ _ _ Hi).
    rewrite IH by lia. cbn [length Nat.sub]. destruct (unescape W false (f - length v') u); reflexivity.
Qed.

Lemma run_length K src kept v : run K src kept v -> (length v <= length kept)%nat.
Proof.
  induction 1 as [K|K src kept v src' kept' v' Hi _ _ IH]; [reflexivity|]. rewrite app_length. cbn [length].
  assert (kept <> []) by (destruct Hi as [c t Hs _| | |]; [apply (shape_nonempty _ _ _ Hs)|discriminate|discriminate|discriminate]).
  destruct kept; [congruence|]. cbn [length]. lia.
Qed.

(* the whole chunk decodes to its value *)
Lemma run_decode src kept v : run [] src kept v -> decode W false false kept = Some v.
Proof.
  intros H. unfold decode. cbn [andb].
  assert (Hn : norm_newlines kept = kept).
  { rewrite <- (app_nil_r kept) at 1. rewrite norm_newlines_app by (apply (run_no_cr _ _ _ _ H)). simpl. apply app_nil_r. }
  rewrite Hn. rewrite <- (app_nil_r kept) at 2.
  rewrite (run_unescape _ _ _ _ H) by (pose proof (run_length _ _ _ _ H); lia).
  destruct (S (length kept) - length v)%nat; cbn [unescape]; rewrite app_nil_r; reflexivity.
Qed.

End Lit.
