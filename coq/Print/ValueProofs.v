(* C27: the printed text of a value of the documented types is read back as a form
   that evaluates to the value. *)
From HyV Require Import Print.Syntax Print.Names Print.Reader Print.ModelRepr Print.ValueRepr Print.ReaderFacts
     Print.StringFacts Print.AtomFacts Print.RoundTrip.
From Coq Require Import Lia.

(* the names that printed values use as symbols *)
Definition value_names : list text :=
  [s_None; s_True; s_False; k_Fraction; k_range; k_slice; n_deque; n_OrderedDict; n_Counter; n_defaultdict;
   n_ChainMap; k_frozenset; k_bytearray].

Definition names_facts (W : oracle) : Prop := Forall (fun n => num W n = NotNum) value_names.

Definition is_vkw (v : value) : bool := match v with VKw _ => true | _ => false end.

Section VP.
Variable W : oracle.
Variable key_eq : value -> value -> bool.
Hypothesis NF : num_facts W.
Hypothesis NN : names_facts W.

(* keys that Python keeps apart *)
Fixpoint keys_distinct (l : list value) : Prop :=
  match l with
  | [] => True
  | x :: r => Forall (fun y => key_eq x y = false) r /\ keys_distinct r
  end.

Fixpoint evens {A} (l : list A) : list A :=
  match l with
  | a :: _ :: r => a :: evens r
  | _ => []
  end.

Definition shape_ok (k : vkind) (vs : list value) : Prop :=
  match k with
  | VkList | VkTuple | VkDeque => True
  | VkSet | VkFrozenset => keys_distinct vs
  | VkDict | VkOrderedDict | VkCounter | VkDefaultdict None => Nat.even (length vs) = true /\ keys_distinct (evens vs)
  | VkDefaultdict (Some _) => False
  | VkChainMap => vs <> [] /\ forallb is_mapping vs = true
  | VkSlice => length vs = 3%nat /\ forallb (fun v => negb (is_vkw v)) vs = true
  end.

Inductive wfv : value -> Prop :=
| WfNone : wfv VNone
| WfBool b : wfv (VBool b)
| WfInt z : wfv (VInt z)
| WfFloat f : wfv (VFloat f)
| WfComplex a b : wfv (VComplex a b)
| WfStr s : valid_text s -> wfv (VStr s)
| WfBytes b : valid_bytes b -> wfv (VBytes b)
| WfBytearray b : valid_bytes b -> wfv (VBytearray b)
| WfKw s : kw_ok s -> wfv (VKw s)
| WfFraction n d : (0 < d)%Z -> Z.gcd n d = 1%Z -> wfv (VFraction n d)
| WfRange a b c : c <> 0%Z -> wfv (VRange a b c)
| WfNode k vs : shape_ok k vs -> Forall wfv vs -> wfv (VNode k vs).

(* ---------------------------------------------------------------- small facts *)
Lemma name_sym_ok n : In n value_names -> sym_ok W n.
Proof.
  intros Hin. assert (Hn : num W n = NotNum) by (unfold names_facts in NN; rewrite Forall_forall in NN; auto).
  simpl in Hin.
  repeat (destruct Hin as [<-|Hin]; [split; [split; reflexivity|split; [exact Hn|left; reflexivity]]|]).
  destruct Hin.
Qed.

Lemma ctor_plain_gen n args :
  text_eqb n [ch_dot] = false -> all_dots_text n = false -> lookup_syntax n repr_syntax = None ->
  expr_plain (MSym n :: args) = true.
Proof.
  intros H1 H2 H3. unfold expr_plain, expr_dotted, expr_sugar. cbn [nth sym_is sym_text is_sym].
  rewrite H1, H2, H3, andb_false_r, orb_false_r, andb_false_r. cbn [negb andb].
  destruct (Nat.eqb (length (MSym n :: args)) 2 && true); reflexivity.
Qed.

Lemma ctor_plain n args : In n value_names -> expr_plain (MSym n :: args) = true.
Proof.
  intros Hin. simpl in Hin.
  repeat (destruct Hin as [<-|Hin]; [apply ctor_plain_gen; reflexivity|]).
  destruct Hin.
Qed.

Lemma pairs_of_map {A B} (f : A -> B) l : pairs_of (map f l) = map (fun p => (f (fst p), f (snd p))) (pairs_of l).
Proof.
  revert l. fix IH 1. intros [|a [|b l]]; [reflexivity|reflexivity|]. cbn [map pairs_of fst snd]. rewrite IH. reflexivity.
Qed.

Lemma map_vrepr vs : Forall (fun v => wfv v -> vrepr W v = mrepr W (vmodel v)) vs -> Forall wfv vs ->
  map (mrepr W) (map (vmodel) vs) = map (vrepr W) vs.
Proof.
  intros H1 H2. induction H2 as [|v vs Hv _ IH]; [reflexivity|]. inversion H1; subst. cbn [map].
  rewrite IH by assumption. f_equal. symmetry. auto.
Qed.

(* Dict spacing = the dict printer's spacing, for an even number of items *)
Definition pair_text (kv : text * text) : text := fst kv ++ [ch_space] ++ snd kv.

Lemma even_S_false i : Nat.even i = true -> Nat.even (S i) = false.
Proof. intros H. rewrite Nat.even_succ, <- Nat.negb_even, H. reflexivity. Qed.

Lemma dict_items_later : forall rs i, Nat.even (length rs) = true -> Nat.even i = true -> i <> O ->
  flat_map (fun y => [ch_space] ++ y) (dict_items i rs)
  = flat_map (fun y => [ch_space; ch_space] ++ y) (map pair_text (pairs_of rs)).
Proof.
  fix IH 1. intros [|a [|b l]] i Hl Hi Hn; [reflexivity|discriminate|].
  cbn [dict_items pairs_of map flat_map].
  rewrite (IH l (S (S i)) Hl Hi ltac:(discriminate)).
  rewrite (even_S_false i Hi), andb_false_r, Hi, andb_true_r.
  replace (Nat.eqb i 0) with false by (symmetry; apply Nat.eqb_neq; exact Hn).
  unfold pair_text. cbn [negb fst snd app]. rewrite <- !app_assoc. reflexivity.
Qed.

Lemma dict_body_pairs rs : Nat.even (length rs) = true ->
  dict_body rs = intersperse [ch_space; ch_space] (map pair_text (pairs_of rs)).
Proof.
  unfold dict_body. destruct rs as [|a [|b l]]; intros Hl; [reflexivity|discriminate|].
  cbn [dict_items pairs_of map]. rewrite !intersperse_flat. cbn [flat_map].
  rewrite (dict_items_later l 2 Hl eq_refl ltac:(discriminate)).
  unfold pair_text. cbn [negb andb Nat.eqb Nat.even fst snd app]. rewrite <- !app_assoc. reflexivity.
Qed.

(* ---------------------------------------------------------------- printed value = printed model *)
Ltac in_names := simpl; repeat (first [left; reflexivity | right]).

Lemma mrepr_call n args : In n value_names ->
  mrepr W (call n args) = [c_lp] ++ cat (n :: map (mrepr W) args) ++ [c_rp].
Proof.
  intros Hin. unfold call. cbn [mrepr node_repr map]. apply expr_plain_repr. apply ctor_plain; exact Hin.
Qed.

Lemma cat2 a b : cat [a; b] = a ++ [ch_space] ++ b. Proof. reflexivity. Qed.
Lemma cat3 a b c : cat [a; b; c] = a ++ [ch_space] ++ b ++ [ch_space] ++ c. Proof. reflexivity. Qed.
Lemma cat4 a b c d : cat [a; b; c; d] = a ++ [ch_space] ++ b ++ [ch_space] ++ c ++ [ch_space] ++ d. Proof. reflexivity. Qed.
Lemma cat_cons a l : l <> [] -> cat (a :: l) = a ++ [ch_space] ++ cat l.
Proof. destruct l; [congruence|reflexivity]. Qed.

Ltac norm_app := repeat (cbn [app]; rewrite <- app_assoc); cbn [app]; try reflexivity.

Lemma format_OrderedDict x : format fmt_OrderedDict [x] = [c_lp] ++ n_OrderedDict ++ [ch_space] ++ x ++ [c_rp].
Proof. reflexivity. Qed.
Lemma format_Counter x : format fmt_Counter [x] = [c_lp] ++ n_Counter ++ [ch_space] ++ x ++ [c_rp].
Proof. reflexivity. Qed.
Lemma format_defaultdict x y : format fmt_defaultdict [x; y] = [c_lp] ++ n_defaultdict ++ [ch_space] ++ x ++ [ch_space] ++ y ++ [c_rp].
Proof. reflexivity. Qed.
Lemma format_ChainMap x : format fmt_ChainMap [x] = [c_lp] ++ n_ChainMap ++ [ch_space] ++ x ++ [c_rp].
Proof. reflexivity. Qed.
Lemma fill_vlist body : fill_first fmt_vlist body = [c_lb] ++ body ++ [c_rb].
Proof. reflexivity. Qed.

Lemma map_pair_text_tuples (ms : list model) :
  map (mrepr W) (map (fun kv => MNode KTuple [fst kv; snd kv]) (pairs_of ms))
  = map (fun kv => vtuple_repr [fst kv; snd kv]) (pairs_of (map (mrepr W) ms)).
Proof.
  rewrite pairs_of_map, !map_map. apply map_ext. intros [k v]. reflexivity.
Qed.

Theorem vrepr_vmodel : forall v, wfv v -> vrepr W v = mrepr W (vmodel v).
Proof.
  apply (value_ind' (fun v => wfv v -> vrepr W v = mrepr W (vmodel v))); [intros v|intros k vs IH].
  { destruct v as [|b|z|f|a b|s|b|b|s|n d|a b c|k vs]; try exact I; intros Hwf; try reflexivity.
    - destruct b; reflexivity.
    - cbn [vrepr atom_repr vmodel]. rewrite mrepr_call by in_names. cbn [map mrepr]. rewrite cat3. norm_app.
    - cbn [vrepr atom_repr vmodel]. unfold range_like.
      destruct (Z.eqb c 1); [destruct (Z.eqb a 0)|]; rewrite mrepr_call by in_names; reflexivity. }
  intros Hwf. inversion Hwf as [| | | | | | | | | | |k' vs' Hshape HF]; subst.
  pose proof (map_vrepr vs IH HF) as Hmap.
  cbn [vrepr]. destruct k as [| | | | | | | |f| |]; cbn [vnode_repr vmodel].
  - (* list *) cbn [mrepr node_repr]. rewrite Hmap. reflexivity.
  - (* tuple *) cbn [mrepr node_repr]. rewrite Hmap. reflexivity.
  - (* set *) cbn [mrepr node_repr]. rewrite Hmap. reflexivity.
  - (* frozenset *) rewrite mrepr_call by in_names. cbn [map mrepr node_repr]. rewrite Hmap, cat2, fill_set.
    norm_app.
  - (* deque *) rewrite mrepr_call by in_names. cbn [map mrepr node_repr]. rewrite Hmap, cat2, fill_list. norm_app.
  - (* dict *) destruct Hshape as [He _]. cbn [mrepr node_repr]. rewrite Hmap. unfold vdict_repr.
    rewrite dict_body_pairs by (rewrite map_length; exact He). reflexivity.
  - (* OrderedDict *) rewrite mrepr_call by in_names. cbn [map mrepr node_repr].
    rewrite map_pair_text_tuples, Hmap, cat2, fill_list. unfold vlist_repr. rewrite format_OrderedDict, fill_vlist. norm_app.
  - (* Counter *) destruct Hshape as [He _]. rewrite mrepr_call by in_names. cbn [map mrepr node_repr].
    rewrite Hmap, cat2. unfold vdict_repr. rewrite dict_body_pairs by (rewrite map_length; exact He).
    rewrite format_Counter. norm_app.
  - (* defaultdict *) destruct f as [f|]; [destruct Hshape|]. destruct Hshape as [He _].
    rewrite mrepr_call by in_names. cbn [map mrepr node_repr factory_repr].
    rewrite Hmap, cat3. unfold vdict_repr. rewrite dict_body_pairs by (rewrite map_length; exact He).
    rewrite format_defaultdict. norm_app.
  - (* ChainMap *) destruct Hshape as [Hne _]. rewrite mrepr_call by in_names. rewrite Hmap.
    rewrite cat_cons by (destruct vs; [congruence|discriminate]). rewrite format_ChainMap. norm_app.
  - (* slice *) destruct Hshape as [Hlen _].
    destruct vs as [|a [|b [|c [|x vs]]]]; try discriminate. cbn [map nth].
    unfold range_like. cbn [map] in Hmap. injection Hmap as E1 E2 E3.
    destruct (is_none c); [destruct (is_none a)|]; rewrite mrepr_call by in_names; cbn [map nth];
      rewrite ?E1, ?E2, ?E3; reflexivity.
Qed.

(* ---------------------------------------------------------------- the denoted model is in the readable fragment *)
Lemma Forall_pairs {A} (P : A -> Prop) : forall l, Forall P l -> Forall (fun kv => P (fst kv) /\ P (snd kv)) (pairs_of l).
Proof.
  fix IH 1. intros [|a [|b l]] H; [constructor|constructor|]. inversion H as [|? ? Ha H1]; subst.
  inversion H1 as [|? ? Hb H2]; subst. cbn [pairs_of]. constructor; [split; assumption|apply IH; exact H2].
Qed.

Lemma ok_call n args : In n value_names -> Forall (ok W) args -> ok W (call n args).
Proof.
  intros Hin HF. unfold call. apply OkExpr; [apply ctor_plain; exact Hin|].
  constructor; [apply OkSym, name_sym_ok; exact Hin|exact HF].
Qed.

Theorem vmodel_ok : forall v, wfv v -> ok W (vmodel v).
Proof.
  apply (value_ind' (fun v => wfv v -> ok W (vmodel v))); [intros v|intros k vs IH].
  { destruct v as [|b|z|f|a b|s|b|b|s|n d|a b c|k vs]; try exact I; intros Hwf; inversion Hwf; subst; cbn [vmodel].
    - apply OkSym, name_sym_ok. in_names.
    - destruct b; apply OkSym, name_sym_ok; in_names.
    - constructor.
    - constructor.
    - constructor.
    - constructor; assumption.
    - constructor; assumption.
    - apply ok_call; [in_names|]. repeat constructor; assumption.
    - constructor; assumption.
    - apply ok_call; [in_names|]. repeat constructor.
    - apply ok_call; [in_names|]. destruct (Z.eqb c 1); [destruct (Z.eqb a 0)|]; repeat constructor. }
  intros Hwf. inversion Hwf as [| | | | | | | | | | |k' vs' Hshape HF]; subst.
  assert (Hms : Forall (ok W) (map vmodel vs)).
  { clear Hshape Hwf. induction HF as [|v vs Hv _ IHF]; [constructor|]. inversion IH; subst. constructor; auto. }
  cbn [vmodel]. destruct k as [| | | | | | | |f| |].
  - constructor; exact Hms.
  - constructor; exact Hms.
  - constructor; exact Hms.
  - apply ok_call; [in_names|]. repeat constructor. exact Hms.
  - apply ok_call; [in_names|]. repeat constructor. exact Hms.
  - constructor; exact Hms.
  - apply ok_call; [in_names|]. constructor; [|constructor]. apply OkList.
    apply Forall_pairs in Hms. induction Hms as [|[a b] l [Ha Hb] _ IHl]; [constructor|].
    constructor; [|exact IHl]. apply OkTuple. repeat constructor; assumption.
  - apply ok_call; [in_names|]. repeat constructor. exact Hms.
  - destruct f as [f|]; [destruct Hshape|]. apply ok_call; [in_names|].
    constructor; [apply OkSym, name_sym_ok; in_names|]. repeat constructor. exact Hms.
  - apply ok_call; [in_names|]. exact Hms.
  - destruct Hshape as [Hlen _]. destruct vs as [|a [|b [|c [|x vs]]]]; try discriminate.
    cbn [map nth] in *. inversion Hms as [|? ? Ha H1]; subst. inversion H1 as [|? ? Hb H2]; subst.
    inversion H2 as [|? ? Hc _]; subst.
    apply ok_call; [in_names|]. destruct (is_none c); [destruct (is_none a)|]; repeat constructor; assumption.
Qed.

(* ---------------------------------------------------------------- evaluation gives the value back *)
Notation ev := (eval key_eq).

Lemma keys_distinct_front acc v vs : keys_distinct (acc ++ v :: vs) ->
  Forall (fun x => key_eq x v = false) acc /\ keys_distinct ((acc ++ [v]) ++ vs).
Proof.
  rewrite <- app_assoc. cbn [app]. intros H. split; [|exact H].
  induction acc as [|x acc IH]; [constructor|]. cbn [app keys_distinct] in H. destruct H as [Hx H].
  constructor; [|apply IH; exact H]. rewrite Forall_forall in Hx. apply Hx. apply in_or_app. right. left. reflexivity.
Qed.

Lemma set_add_new acc v : Forall (fun x => key_eq x v = false) acc -> set_add key_eq acc v = acc ++ [v].
Proof.
  induction 1 as [|x acc Hx _ IH]; [reflexivity|]. cbn [set_add app]. rewrite Hx, IH. reflexivity.
Qed.

Lemma set_of_distinct_gen vs : forall acc, keys_distinct (acc ++ vs) -> fold_left (set_add key_eq) vs acc = acc ++ vs.
Proof.
  induction vs as [|v vs IH]; intros acc H; [rewrite app_nil_r; reflexivity|].
  destruct (keys_distinct_front acc v vs H) as [Hf Hd]. cbn [fold_left]. rewrite set_add_new by exact Hf.
  rewrite IH by exact Hd. rewrite <- app_assoc. reflexivity.
Qed.

Lemma set_of_distinct vs : keys_distinct vs -> set_of key_eq vs = vs.
Proof. intros H. unfold set_of. apply (set_of_distinct_gen vs [] H). Qed.

Definition flat (kvs : list (value * value)) : list value := flat_map (fun kv => [fst kv; snd kv]) kvs.

Lemma flat_pairs : forall vs, Nat.even (length vs) = true -> flat (pairs_of vs) = vs.
Proof.
  fix IH 1. intros [|a [|b l]] H; [reflexivity|discriminate|]. cbn [pairs_of flat flat_map fst snd app].
  f_equal. f_equal. apply IH. exact H.
Qed.

Lemma evens_flat kvs : evens (flat kvs) = map fst kvs.
Proof. induction kvs as [|[k v] l IH]; [reflexivity|]. cbn [flat flat_map fst snd app evens map]. f_equal. exact IH. Qed.

Lemma evens_app : forall (a b : list value), Nat.even (length a) = true -> evens (a ++ b) = evens a ++ evens b.
Proof.
  fix IH 1. intros [|x [|y l]] b H; [reflexivity|discriminate|]. cbn [app evens]. f_equal. apply IH. exact H.
Qed.

Lemma dict_put_new : forall acc k v, Nat.even (length acc) = true -> Forall (fun x => key_eq x k = false) (evens acc) ->
  dict_put key_eq acc k v = acc ++ [k; v].
Proof.
  fix IH 1. intros [|x [|y l]] k v He Hf; [reflexivity|discriminate|].
  cbn [evens] in Hf. inversion Hf as [|? ? Hx Hf']; subst. cbn [dict_put app]. rewrite Hx. f_equal. f_equal.
  apply IH; assumption.
Qed.

Lemma dict_of_distinct_gen kvs : forall acc, Nat.even (length acc) = true -> keys_distinct (evens acc ++ map fst kvs) ->
  fold_left (fun a kv => dict_put key_eq a (fst kv) (snd kv)) kvs acc = acc ++ flat kvs.
Proof.
  induction kvs as [|[k v] kvs IH]; intros acc He H; [rewrite app_nil_r; reflexivity|].
  cbn [map fst] in H. destruct (keys_distinct_front (evens acc) k (map fst kvs) H) as [Hf Hd].
  cbn [fold_left fst snd]. rewrite dict_put_new by assumption.
  rewrite IH.
  - rewrite <- app_assoc. reflexivity.
  - rewrite app_length. cbn [length]. rewrite Nat.add_comm. exact He.
  - rewrite evens_app by exact He. exact Hd.
Qed.

Lemma dict_of_pairs vs : Nat.even (length vs) = true -> keys_distinct (evens vs) -> dict_of key_eq (pairs_of vs) = vs.
Proof.
  intros He Hd. unfold dict_of. rewrite (dict_of_distinct_gen (pairs_of vs) [] eq_refl).
  - apply flat_pairs; exact He.
  - cbn [evens app]. rewrite <- evens_flat, flat_pairs by exact He. exact Hd.
Qed.

Lemma all_some_map vs : Forall (fun v => wfv v -> ev (vmodel v) = Some v) vs -> Forall wfv vs ->
  all_some_v (map ev (map vmodel vs)) = Some vs.
Proof.
  intros H1 H2. induction H2 as [|v vs Hv _ IH]; [reflexivity|]. inversion H1; subst. cbn [map all_some_v].
  rewrite (H2 Hv), IH by assumption. reflexivity.
Qed.

Lemma vmodel_not_kw v : is_vkw v = false -> match vmodel v with MKw _ => false | _ => true end = true.
Proof.
  destruct v as [|b|z|f|a b|s|b|b|s|n d|a b c|k vs]; try reflexivity; try discriminate.
  - destruct b; reflexivity.
  - intros _. cbn [vmodel]. destruct k; reflexivity.
Qed.

Definition is_mkw (a : model) : bool := match a with MKw _ => true | _ => false end.

Lemma ev_call n args :
  ev (call n args) = if existsb is_mkw args then None
                     else match all_some_v (map ev args) with Some vs => apply_ctor key_eq n vs | None => None end.
Proof. reflexivity. Qed.

Lemma ac_Fraction n d : apply_ctor key_eq k_Fraction [VInt n; VInt d] =
  if Z.eqb d 0 then None
  else Some (VFraction ((if Z.ltb d 0 then (-1)%Z else 1%Z) * (n / Z.gcd n d)) ((if Z.ltb d 0 then (-1)%Z else 1%Z) * (d / Z.gcd n d))).
Proof. reflexivity. Qed.
Lemma ac_range1 b : apply_ctor key_eq k_range [VInt b] = Some (VRange 0 b 1). Proof. reflexivity. Qed.
Lemma ac_range2 a b : apply_ctor key_eq k_range [VInt a; VInt b] = Some (VRange a b 1). Proof. reflexivity. Qed.
Lemma ac_range3 a b c : apply_ctor key_eq k_range [VInt a; VInt b; VInt c] = if Z.eqb c 0 then None else Some (VRange a b c).
Proof. reflexivity. Qed.
Lemma ac_slice1 b : apply_ctor key_eq k_slice [b] = Some (VNode VkSlice [VNone; b; VNone]). Proof. reflexivity. Qed.
Lemma ac_slice2 a b : apply_ctor key_eq k_slice [a; b] = Some (VNode VkSlice [a; b; VNone]). Proof. reflexivity. Qed.
Lemma ac_slice3 a b c : apply_ctor key_eq k_slice [a; b; c] = Some (VNode VkSlice [a; b; c]). Proof. reflexivity. Qed.
Lemma ac_deque l : apply_ctor key_eq n_deque [VNode VkList l] = Some (VNode VkDeque l). Proof. reflexivity. Qed.
Lemma ac_frozenset l : apply_ctor key_eq k_frozenset [VNode VkSet l] = Some (VNode VkFrozenset l). Proof. reflexivity. Qed.
Lemma ac_bytearray b : apply_ctor key_eq k_bytearray [VBytes b] = Some (VBytearray b). Proof. reflexivity. Qed.
Lemma ac_Counter l : apply_ctor key_eq n_Counter [VNode VkDict l] = Some (VNode VkCounter l). Proof. reflexivity. Qed.
Lemma ac_defaultdict l : apply_ctor key_eq n_defaultdict [VNone; VNode VkDict l] = Some (VNode (VkDefaultdict None) l).
Proof. reflexivity. Qed.
Lemma ac_OrderedDict l : apply_ctor key_eq n_OrderedDict [VNode VkList l] =
  match all_some_v (map tuple_pair l) with Some kvs => Some (VNode VkOrderedDict (dict_of key_eq kvs)) | None => None end.
Proof. reflexivity. Qed.
Lemma ac_ChainMap args : apply_ctor key_eq n_ChainMap args =
  if forallb is_mapping args then Some (VNode VkChainMap (match args with [] => [VNode VkDict []] | _ => args end)) else None.
Proof. reflexivity. Qed.

Lemma tuple_pairs_back kvs :
  all_some_v (map tuple_pair (map (fun kv : value * value => VNode VkTuple [fst kv; snd kv]) kvs)) = Some kvs.
Proof. induction kvs as [|[k v] l IH]; [reflexivity|]. cbn [map tuple_pair all_some_v fst snd]. rewrite IH. reflexivity. Qed.

Lemma ev_tuples : forall vs, all_some_v (map ev (map vmodel vs)) = Some vs ->
  all_some_v (map ev (map (fun kv => MNode KTuple [fst kv; snd kv]) (pairs_of (map vmodel vs))))
  = Some (map (fun kv => VNode VkTuple [fst kv; snd kv]) (pairs_of vs)).
Proof.
  fix IH 1. intros [|a [|b l]] H; [reflexivity|reflexivity|].
  cbn [map all_some_v] in H.
  destruct (ev (vmodel a)) as [a'|] eqn:Ea; [|discriminate].
  destruct (ev (vmodel b)) as [b'|] eqn:Eb; [|discriminate].
  destruct (all_some_v (map ev (map vmodel l))) as [l'|] eqn:El; [|discriminate].
  injection H as -> -> ->.
  cbn [map pairs_of fst snd all_some_v eval]. rewrite Ea, Eb. cbn [all_some_v]. rewrite (IH l El). reflexivity.
Qed.

Lemma no_kw_models vs : forallb (fun v => negb (is_vkw v)) vs = true -> existsb is_mkw (map vmodel vs) = false.
Proof.
  induction vs as [|v vs IH]; intros H; [reflexivity|]. cbn [forallb] in H. apply andb_prop in H as [Hv H].
  cbn [map existsb]. rewrite IH by exact H. apply negb_true_iff in Hv. pose proof (vmodel_not_kw v Hv) as Hk.
  unfold is_mkw. destruct (vmodel v); try reflexivity. discriminate.
Qed.

Lemma mapping_not_kw vs : forallb is_mapping vs = true -> existsb is_mkw (map vmodel vs) = false.
Proof.
  induction vs as [|v vs IH]; intros H; [reflexivity|]. cbn [forallb] in H. apply andb_prop in H as [Hv H].
  cbn [map existsb]. rewrite IH by exact H.
  destruct v as [| | | | | | | | | | |k l]; try discriminate. destruct k; try discriminate; reflexivity.
Qed.

Theorem eval_vmodel : forall v, wfv v -> ev (vmodel v) = Some v.
Proof.
  apply (value_ind' (fun v => wfv v -> ev (vmodel v) = Some v)); [intros v|intros k vs IH].
  { destruct v as [|b|z|f|a b|s|b|b|s|n d|a b c|k vs]; try exact I; intros Hwf; inversion Hwf; subst; try reflexivity.
    - destruct b; reflexivity.
    - cbn [vmodel]. rewrite ev_call. cbn [existsb is_mkw map eval all_some_v orb]. rewrite ac_Fraction.
      replace (Z.eqb d 0) with false by (symmetry; apply Z.eqb_neq; lia).
      replace (Z.ltb d 0) with false by (symmetry; apply Z.ltb_ge; lia).
      match goal with H : Z.gcd n d = 1%Z |- _ => rewrite H end.
      rewrite !Z.div_1_r, !Z.mul_1_l. reflexivity.
    - cbn [vmodel]. destruct (Z.eqb c 1) eqn:E1; [destruct (Z.eqb a 0) eqn:E2|]; rewrite ev_call;
        cbn [existsb is_mkw map eval all_some_v orb].
      + apply Z.eqb_eq in E1, E2. subst. apply ac_range1.
      + apply Z.eqb_eq in E1. subst. apply ac_range2.
      + rewrite ac_range3. replace (Z.eqb c 0) with false by (symmetry; apply Z.eqb_neq; assumption). reflexivity. }
  intros Hwf. inversion Hwf as [| | | | | | | | | | |k' vs' Hshape HF]; subst.
  pose proof (all_some_map vs IH HF) as Hev.
  cbn [vmodel]. destruct k as [| | | | | | | |f| |].
  - cbn [eval]. rewrite Hev. reflexivity.
  - cbn [eval]. rewrite Hev. reflexivity.
  - cbn [eval]. rewrite Hev. cbn [shape_ok] in Hshape. rewrite set_of_distinct by exact Hshape. reflexivity.
  - rewrite ev_call. cbn [existsb is_mkw map eval all_some_v orb]. rewrite Hev. cbn [shape_ok] in Hshape.
    rewrite set_of_distinct by exact Hshape. apply ac_frozenset.
  - rewrite ev_call. cbn [existsb is_mkw map eval all_some_v orb]. rewrite Hev. apply ac_deque.
  - destruct Hshape as [He Hd]. cbn [eval]. rewrite Hev, He. rewrite dict_of_pairs by assumption. reflexivity.
  - destruct Hshape as [He Hd]. rewrite ev_call. cbn [existsb is_mkw orb map].
    change (ev (MNode KList ?l)) with (match all_some_v (map ev l) with Some vs0 => Some (VNode VkList vs0) | None => None end).
    rewrite (ev_tuples vs Hev). cbn [all_some_v]. rewrite ac_OrderedDict, tuple_pairs_back.
    rewrite dict_of_pairs by assumption. reflexivity.
  - destruct Hshape as [He Hd]. rewrite ev_call. cbn [existsb is_mkw map eval all_some_v orb]. rewrite Hev, He.
    rewrite dict_of_pairs by assumption. apply ac_Counter.
  - destruct f as [f|]; [destruct Hshape|]. destruct Hshape as [He Hd]. rewrite ev_call.
    cbn [existsb is_mkw map eval all_some_v orb factory_repr]. rewrite Hev, He.
    rewrite dict_of_pairs by assumption. apply ac_defaultdict.
  - destruct Hshape as [Hne Hm]. rewrite ev_call. rewrite (mapping_not_kw vs Hm), Hev, ac_ChainMap, Hm.
    destruct vs; [congruence|reflexivity].
  - destruct Hshape as [Hlen Hk]. pose proof (no_kw_models vs Hk) as Hnk.
    destruct vs as [|a [|b [|c [|x vs]]]]; try discriminate. cbn [map nth] in *.
    destruct (ev (vmodel a)) as [a'|] eqn:Ea; [|discriminate].
    destruct (ev (vmodel b)) as [b'|] eqn:Eb; [|discriminate].
    destruct (ev (vmodel c)) as [c'|] eqn:Ec; [|discriminate].
    cbn [all_some_v] in Hev. injection Hev as -> -> ->.
    cbn [existsb] in Hnk. apply orb_false_elim in Hnk as [Ka Hnk]. apply orb_false_elim in Hnk as [Kb Hnk].
    apply orb_false_elim in Hnk as [Kc _].
    destruct (is_none c) eqn:Nc; [destruct (is_none a) eqn:Na|]; rewrite ev_call; cbn [existsb map all_some_v];
      rewrite ?Ka, ?Kb, ?Kc, ?Ea, ?Eb, ?Ec; cbn [orb].
    + destruct a; try discriminate. destruct c; try discriminate. apply ac_slice1.
    + destruct c; try discriminate. apply ac_slice2.
    + apply ac_slice3.
Qed.

(* C27, the round trip: the printed text is read as a form that evaluates to the value *)
Theorem value_roundtrip : forall v, wfv v ->
  exists m, reads W RdOne (vrepr W v) (ROne m []) /\ ev m = Some v.
Proof.
  intros v Hwf. exists (vmodel v). split; [|apply eval_vmodel; exact Hwf].
  rewrite vrepr_vmodel by exact Hwf. apply read_back; [exact NF|apply vmodel_ok; exact Hwf].
Qed.

Theorem value_printer_is_model_printer_ : forall v, wfv v -> vrepr W v = mrepr W (vmodel v) /\ ok W (vmodel v).
Proof. intros v H. split; [apply vrepr_vmodel|apply vmodel_ok]; exact H. Qed.

End VP.

Definition value_printer_is_model_printer W key_eq (NF : num_facts W) (NN : names_facts W) :=
  value_printer_is_model_printer_ W key_eq NN.
