(* C27: the printed text of a value of the documented types is read back as a form
   that evaluates to the value. *)
From HyV Require Import Print.Syntax Print.Names Print.Reader Print.ModelRepr Print.ValueRepr Print.ReaderFacts
     Print.StringFacts Print.AtomFacts Print.RoundTrip.
From Coq Require Import Lia.

(* the names that printed values use as symbols *)
Definition value_names : list text :=
  [s_None; s_True; s_False; k_Fraction; k_range; k_slice; n_deque; n_OrderedDict; n_Counter; n_defaultdict;
   n_ChainMap; k_frozenset; k_bytearray].

Definition names_facts (W : oracle) : Prop := Forall (fun n => num W n = NotNum) value_names.

Definition is_vkw (v : value) : bool := match v with VKw _ => true | _ => false end.

Section VP.
Variable W : oracle.
Variable key_eq : value -> value -> bool.
Hypothesis NF : num_facts W.
Hypothesis NN : names_facts W.

(* keys that Python keeps apart *)
Fixpoint keys_distinct (l : list value) : Prop :=
  match l with
  | [] => True
  | x :: r => Forall (fun y => key_eq x y = false) r /\ keys_distinct r
  end.

Fixpoint evens {A} (l : list A) : list A :=
  match l with
  | a :: _ :: r => a :: evens r
  | _ => []
  end.

Definition shape_ok (k : vkind) (vs : list value) : Prop :=
  match k with
  | VkList | VkTuple | VkDeque => True
  | VkSet | VkFrozenset => keys_distinct vs
  | VkDict | VkOrderedDict | VkCounter | VkDefaultdict None => Nat.even (length vs) = true /\ keys_distinct (evens vs)
  | VkDefaultdict (Some _) => False
  | VkChainMap => vs <> [] /\ forallb is_mapping vs = true
  | VkSlice => length vs = 3%nat /\ forallb (fun v => negb (is_vkw v)) vs = true
  end.

Inductive wfv : value -> Prop :=
| WfNone : wfv VNone
| WfBool b : wfv (VBool b)
| WfInt z : wfv (VInt z)
| WfFloat f : wfv (VFloat f)
| WfComplex a b : wfv (VComplex a b)
| WfStr s : valid_text s -> wfv (VStr s)
| WfBytes b : valid_bytes b -> wfv (VBytes b)
| WfBytearray b : valid_bytes b -> wfv (VBytearray b)
| WfKw s : kw_ok s -> wfv (VKw s)
| WfFraction n d : (0 < d)%Z -> Z.gcd n d = 1%Z -> wfv (VFraction n d)
| WfRange a b c : c <> 0%Z -> wfv (VRange a b c)
| WfNode k vs : shape_ok k vs -> Forall wfv vs -> wfv (VNode k vs).

(* ---------------------------------------------------------------- small facts *)
Lemma name_sym_ok n : In n value_names -> sym_ok W n.
Proof.
  intros Hin. assert (Hn : num W n = NotNum) by (unfold names_facts in NN; rewrite Forall_forall in NN; auto).
  simpl in Hin.
  repeat (destruct Hin as [<-|Hin]; [split; [split; reflexivity|split; [exact Hn|left; reflexivity]]|]).
  destruct Hin.
Qed.

Lemma ctor_plain n args : In n value_names -> expr_plain (MSym n :: args) = true.
Proof.
  intros Hin. unfold expr_plain, expr_dotted, expr_sugar. cbn [nth length].
  simpl in Hin.
  repeat (destruct Hin as [<-|Hin];
          [cbn [sym_is sym_text is_sym]; rewrite andb_false_r, orb_false_r; cbn [negb andb];
           match goal with |- context [text_eqb ?a ?b] => change (text_eqb a b) with false end;
           rewrite andb_false_r; cbn [negb andb]; destruct (Nat.eqb (length args) 1); reflexivity|]).
  destruct Hin.
Qed.

Lemma pairs_of_map {A B} (f : A -> B) l : pairs_of (map f l) = map (fun p => (f (fst p), f (snd p))) (pairs_of l).
Proof.
  revert l. fix IH 1. intros [|a [|b l]]; [reflexivity|reflexivity|]. cbn [map pairs_of fst snd]. rewrite IH. reflexivity.
Qed.

Lemma map_vrepr vs : Forall (fun v => wfv v -> vrepr W v = mrepr W (vmodel W v)) vs -> Forall wfv vs ->
  map (mrepr W) (map (vmodel W) vs) = map (vrepr W) vs.
Proof.
  intros H1 H2. induction H2 as [|v vs Hv _ IH]; [reflexivity|]. inversion H1; subst. cbn [map].
  rewrite IH by assumption. f_equal. symmetry. auto.
Qed.

(* Dict spacing = the dict printer's spacing, for an even number of items *)
Definition pair_text (kv : text * text) : text := fst kv ++ [ch_space] ++ snd kv.

Lemma even_S_false i : Nat.even i = true -> Nat.even (S i) = false.
Proof. intros H. rewrite Nat.even_succ, <- Nat.negb_even, H. reflexivity. Qed.

Lemma dict_items_later : forall rs i, Nat.even (length rs) = true -> Nat.even i = true -> i <> O ->
  flat_map (fun y => [ch_space] ++ y) (dict_items i rs)
  = flat_map (fun y => [ch_space; ch_space] ++ y) (map pair_text (pairs_of rs)).
Proof.
  fix IH 1. intros [|a [|b l]] i Hl Hi Hn; [reflexivity|discriminate|].
  cbn [dict_items pairs_of map flat_map].
  rewrite (IH l (S (S i)) Hl Hi ltac:(discriminate)).
  rewrite (even_S_false i Hi), andb_false_r, Hi, andb_true_r.
  replace (Nat.eqb i 0) with false by (symmetry; apply Nat.eqb_neq; exact Hn).
  unfold pair_text. cbn [negb fst snd app]. rewrite <- !app_assoc. reflexivity.
Qed.

Lemma dict_body_pairs rs : Nat.even (length rs) = true ->
  dict_body rs = intersperse [ch_space; ch_space] (map pair_text (pairs_of rs)).
Proof.
  unfold dict_body. destruct rs as [|a [|b l]]; intros Hl; [reflexivity|discriminate|].
  cbn [dict_items pairs_of map]. rewrite !intersperse_flat. cbn [flat_map].
  rewrite (dict_items_later l 2 Hl eq_refl ltac:(discriminate)).
  unfold pair_text. cbn [negb andb Nat.eqb Nat.even fst snd app]. rewrite <- !app_assoc. reflexivity.
Qed.

End VP.
