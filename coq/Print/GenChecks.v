(* Obligations that tie the hand-written dispatch of Print/Reader.v to the regenerated
   reader_for table (Gen/PrintTables.v), re-checked by computation on every build. *)
From HyV Require Import Print.Syntax Print.Names Print.Reader.

Definition seq_kind (name : text) : option skind :=
  if text_eqb name m_Expression then Some KExpr
  else if text_eqb name m_List then Some KList
  else if text_eqb name m_Dict then Some KDict
  else if text_eqb name m_Set then Some KSet
  else if text_eqb name m_Tuple then Some KTuple
  else None.

Definition skind_eqb (a b : skind) : bool :=
  match a, b with
  | KExpr, KExpr | KList, KList | KDict, KDict | KSet, KSet | KTuple, KTuple => true
  | _, _ => false
  end.

Definition disp_eqb (a b : disp) : bool :=
  match a, b with
  | DOpen k c, DOpen k' c' => skind_eqb k k' && N.eqb c c'
  | DInvalid, DInvalid | DComment, DComment | DKeyword, DKeyword | DString, DString
  | DUnquote, DUnquote | DHash, DHash | DDefault, DDefault => true
  | DTag r, DTag r' => text_eqb r r'
  | _, _ => false
  end.

Definition hashtag_eqb (a b : hashtag) : bool :=
  match a, b with
  | HSeq k c, HSeq k' c' => skind_eqb k k' && N.eqb c c'
  | HDiscard, HDiscard | HAnnotate, HAnnotate | HBracket, HBracket => true
  | HUnpack r, HUnpack r' => text_eqb r r'
  | _, _ => false
  end.

(* what a reader_for row prescribes for a one-character key *)
Definition row_disp (handler : text) (args : list text) : option disp :=
  if text_eqb handler h_INVALID then Some DInvalid
  else if text_eqb handler h_line_comment then Some DComment
  else if text_eqb handler h_keyword then Some DKeyword
  else if text_eqb handler h_prefixed_string then Some DString
  else if text_eqb handler h_unquote then Some DUnquote
  else if text_eqb handler h_tag_dispatch then Some DHash
  else if text_eqb handler h_tag_as then match args with [r] => Some (DTag r) | _ => None end
  else if text_eqb handler h_sequence then
    match args with
    | [k; [c]] => match seq_kind k with Some k' => Some (DOpen k' c) | None => None end
    | _ => None
    end
  else None.

(* ... and for a key that starts with the hash character *)
Definition row_hash (key : text) (handler : text) (args : list text) : option hashtag :=
  if text_eqb handler h_discard then Some HDiscard
  else if text_eqb handler h_annotate then Some HAnnotate
  else if text_eqb handler h_bracketed_string then Some HBracket
  else if text_eqb handler h_hash_star then
    Some (HUnpack (if text_eqb key [c_star] then s_unpack_iterable else s_unpack_mapping))
  else if text_eqb handler h_sequence then
    match args with
    | [k; [c]] => match seq_kind k with Some k' => Some (HSeq k' c) | None => None end
    | _ => None
    end
  else None.

Definition row_ok (row : text * text * list text) : bool :=
  let '(key, handler, args) := row in
  match key with
  | [c] => match row_disp handler args with Some d => disp_eqb (dispatch c) d | None => false end
  | h :: rest =>
      N.eqb h c_hash &&
      match row_hash rest handler args, hash_lookup rest with
      | Some a, Some b => hashtag_eqb a b
      | _, _ => false
      end
  | [] => false
  end.

Lemma reader_table_matches_dispatch : forallb row_ok rd_table = true.
Proof. vm_compute. reflexivity. Qed.

(* no other key is registered: every remaining character goes to read_default *)
Lemma reader_table_size : length rd_table = 20%nat.
Proof. reflexivity. Qed.

(* the characters the printers rely on as delimiters *)
Lemma delimiters_present :
  forallb non_ident [c_lp; c_rp; c_lb; c_rb; c_lc; c_rc; c_dq; c_sq; c_bq; c_tilde; c_semi] = true
  /\ forallb is_ws [ch_space; c_nl; c_cr; c_tab] = true.
Proof. split; reflexivity. Qed.
