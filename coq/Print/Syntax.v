(* Print family (C24 C25 C27): characters, the model-tree type of hy.models,
   the interpreter oracles.  Stdlib only. *)
From HyV Require Export Base.Text.
From HyV Require Export Gen.PrintTables.
From Coq Require Export ZArith.

(* ---------------------------------------------------------------- characters *)
Definition c_tab : N := 9.    Definition c_nl : N := 10.   Definition c_cr : N := 13.
Definition c_bang : N := 33.  Definition c_dq : N := 34.   Definition c_hash : N := 35.
Definition c_sq : N := 39.    Definition c_lp : N := 40.   Definition c_rp : N := 41.
Definition c_star : N := 42.  Definition c_plus : N := 43. Definition c_minus : N := 45.
Definition c_colon : N := 58. Definition c_semi : N := 59. Definition c_eq : N := 61.
Definition c_at : N := 64.    Definition c_lb : N := 91.   Definition c_bs : N := 92.
Definition c_rb : N := 93.    Definition c_caret : N := 94. Definition c_bq : N := 96.
Definition c_lc : N := 123.   Definition c_rc : N := 125.  Definition c_tilde : N := 126.
Definition c_N : N := 78.

(* hy/reader/reader.py _whitespace : space \t \n \r \f \v *)
Definition is_ws (c : N) : bool := mem c rd_whitespace.
(* HyReader.NON_IDENT : ( ) [ ] { } ; dquote quote backquote tilde *)
Definition non_ident (c : N) : bool := mem c rd_non_ident.
Definition ends_ident (c : N) : bool := is_ws c || non_ident c.

(* ---------------------------------------------------------------- floats *)
(* A Python float up to the equality the properties use: every NaN is one
   value, infinities by sign, finite doubles by their 64 bits (so -0.0 and 0.0 differ). *)
Inductive fl := FNaN | FInf (neg : bool) | FFin (bits : N).

Definition fl_eqb (a b : fl) : bool :=
  match a, b with
  | FNaN, FNaN => true
  | FInf x, FInf y => Bool.eqb x y
  | FFin x, FFin y => N.eqb x y
  | _, _ => false
  end.

(* what Integer(t) / Float(t) / Complex(t), tried in that order by as_identifier, give *)
Inductive numres := NInt (z : Z) | NFloat (f : fl) | NComplex (re im : fl) | NotNum.

(* ---------------------------------------------------------------- models *)
Inductive skind :=
| KExpr | KList | KDict | KSet | KTuple
| KFStr (brackets : option text) (is_tstring : bool)
| KFComp (conversion : option N) (is_tstring : bool).

(* hy.models.*; position attributes and FComponent.expression are not represented *)
Inductive model :=
| MSym (s : text)
| MKw (s : text)
| MInt (z : Z)
| MFloat (f : fl)
| MComplex (re im : fl)
| MStr (s : text) (brackets : option text)
| MBytes (b : text)
| MNode (k : skind) (ms : list model).

Section ModelInd.
  Variable P : model -> Prop.
  Hypothesis Hsym : forall s, P (MSym s).
  Hypothesis Hkw : forall s, P (MKw s).
  Hypothesis Hint : forall z, P (MInt z).
  Hypothesis Hfloat : forall f, P (MFloat f).
  Hypothesis Hcomplex : forall a b, P (MComplex a b).
  Hypothesis Hstr : forall s b, P (MStr s b).
  Hypothesis Hbytes : forall b, P (MBytes b).
  Hypothesis Hnode : forall k ms, Forall P ms -> P (MNode k ms).
  Fixpoint model_ind' (m : model) : P m :=
    match m with
    | MSym s => Hsym s | MKw s => Hkw s | MInt z => Hint z | MFloat f => Hfloat f
    | MComplex a b => Hcomplex a b | MStr s b => Hstr s b | MBytes b => Hbytes b
    | MNode k ms =>
        Hnode k ms ((fix go (l : list model) : Forall P l :=
                       match l with [] => Forall_nil _ | x :: r => Forall_cons x (model_ind' x) (go r) end) ms)
    end.
End ModelInd.

(* ---------------------------------------------------------------- oracles *)
(* Facts about CPython that the printers and the reader consult.  They are
   arguments of every function; theorems state the hypotheses they need. *)
Record oracle := {
  num : text -> numres;              (* hy.models.Integer / Float / Complex constructors on an identifier text *)
  float_repr : N -> text;            (* float.__repr__ of the finite double with these bits *)
  complex_repr : fl -> fl -> text;   (* complex.__repr__ *)
  isprintable : N -> bool;           (* str.isprintable of one code point >= 128 *)
  ulookup : text -> option N         (* unicodedata.lookup, None = KeyError *)
}.

(* ---------------------------------------------------------------- small text helpers *)
Fixpoint span (p : N -> bool) (s : text) : text * text :=
  match s with
  | c :: r => if p c then let '(a, b) := span p r in (c :: a, b) else ([], s)
  | [] => ([], [])
  end.

Fixpoint contains (p s : text) : bool :=
  match s with
  | [] => match p with [] => true | _ => false end
  | _ :: r => starts_with p s || contains p r
  end.

(* str.replace of a single character by a text *)
Definition replace_c (a : N) (b : text) (s : text) : text :=
  flat_map (fun c => if N.eqb c a then b else [c]) s.

Fixpoint intersperse (sep : text) (l : list text) : text :=
  match l with
  | [] => []
  | [x] => x
  | x :: r => x ++ sep ++ intersperse sep r
  end.

Definition hexd (d : N) : N := if d <? 10 then 48 + d else 87 + d.   (* lower-case hex digit *)
Definition hexval (c : N) : option N :=
  if (48 <=? c) && (c <=? 57) then Some (c - 48)
  else if (97 <=? c) && (c <=? 102) then Some (c - 87)
  else if (65 <=? c) && (c <=? 70) then Some (c - 55) else None.
Definition octval (c : N) : option N := if (48 <=? c) && (c <=? 55) then Some (c - 48) else None.

(* n as exactly k lower-case hex digits (k = 2, 4, 8) *)
Fixpoint hex_fixed (k : nat) (n : N) : text :=
  match k with
  | O => []
  | S k' => hex_fixed k' (n / 16) ++ [hexd (n mod 16)]
  end.

(* int.__repr__ *)
Fixpoint dec_pos_fuel (fuel : nat) (n : N) (acc : text) : text :=
  match fuel with
  | O => acc
  | S f => if n <? 10 then (48 + n) :: acc else dec_pos_fuel f (n / 10) ((48 + n mod 10) :: acc)
  end.
Definition dec_N (n : N) : text := dec_pos_fuel (S (N.to_nat (N.log2 n))) n [].
Definition dec_Z (z : Z) : text :=
  match z with
  | Z0 => [48]
  | Zpos p => dec_N (Npos p)
  | Zneg p => c_minus :: dec_N (Npos p)
  end.

Definition t_of (s : list nat) : text := map N.of_nat s.
