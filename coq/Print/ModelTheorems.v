(* C25: the statements about hy.repr on models, assembled from RoundTrip.v. *)
From HyV Require Import Print.Syntax Print.Names Print.Reader Print.ModelRepr Print.ReaderFacts
     Print.StringFacts Print.AtomFacts Print.SugarFacts Print.RoundTrip.

(* hy.eval of what hy.read returns for a printed model: a quoted model evaluates to the model, a keyword
   to itself (the compiler's quote is property C30's subject; here it is this two-line function) *)
Definition eval_quoted (r : model) : option model :=
  match r with
  | MNode KExpr [MSym q; m] => if text_eqb q s_quote then Some m else None
  | MKw s => Some (MKw s)
  | _ => None
  end.

Section MT.
Variable W : oracle.

(* every model the reader can produce *)
Definition readable (m : model) : Prop := exists s rest, reads W RdOne s (ROne m rest).

(* (hy.eval (hy.read (hy.repr m))) is m; printing it again then gives the same text *)
Definition repr_roundtrips (m : model) : Prop :=
  exists r, reads W RdOne (hy_repr_model W m) (ROne r []) /\ eval_quoted r = Some m.

Hypothesis NF : num_facts W.

Theorem repr_read_roundtrip m : ok W m -> repr_roundtrips m.
Proof.
  intros Hok. pose proof (read_back W NF m Hok) as Hrd. destruct m as [s|s|z|f|a b|s br|b|k ms].
  2: { exists (MKw s). split; [exact Hrd|reflexivity]. }
  all: eexists (mkexpr s_quote [_]); split; [|reflexivity];
       cbn [hy_repr_model]; apply reads_one_of_form, (read_tag W c_sq s_quote); [reflexivity|reflexivity|exact Hrd].
Qed.

Theorem inner_roundtrip m : ok W m ->
  forall rest, delim_start rest -> reads W RdForm (mrepr W m ++ rest) (RForm (Some m) rest).
Proof. intros H. exact (proj2 (ok_item W NF m H)). Qed.

(* a computed reading refutes the round trip *)
Lemma refute_by_reading m r0 :
  read_one W (hy_repr_model W m) = r0 -> r0 <> ROut ->
  (forall r, r0 = ROne r [] -> eval_quoted r <> Some m) -> ~ repr_roundtrips m.
Proof.
  intros Hr Hne Hbad [r [Hrd He]].
  assert (Hr0 : reads W RdOne (hy_repr_model W m) r0) by (apply (reads_intro W _ _ _ _ Hr Hne)).
  pose proof (reads_det W _ _ _ _ Hrd Hr0) as E. apply (Hbad r); [symmetry; exact E|exact He].
Qed.

Lemma readable_by_reading s m : read_one W s = ROne m [] -> readable m.
Proof. intros H. exists s, []. apply (reads_intro W _ _ _ _ H). discriminate. Qed.

End MT.
