(* Identifier-like tokens (symbols, keywords, numbers) are read back as what they print. *)
From HyV Require Import Print.Syntax Print.Names Print.Reader Print.ModelRepr Print.ReaderFacts.
From Coq Require Import Lia.

(* a text the reader takes as one identifier through read_default *)
Definition token_ok (t : text) : Prop :=
  match t with
  | [] => False
  | c :: _ => forallb ident_char t = true /\ dispatch c = DDefault
  end.

Lemma ident_char_not_ws c : ident_char c = true -> is_ws c = false.
Proof. unfold ident_char, ends_ident. intros H. apply negb_true_iff, orb_false_elim in H. tauto. Qed.

Lemma ident_char_not_closer c : ident_char c = true -> closer_char c = false.
Proof.
  unfold ident_char, ends_ident, closer_char. intros H. apply negb_true_iff, orb_false_elim in H as [_ H].
  destruct (N.eqb c c_rp) eqn:E1; [apply N.eqb_eq in E1; subst; discriminate|].
  destruct (N.eqb c c_rb) eqn:E2; [apply N.eqb_eq in E2; subst; discriminate|].
  destruct (N.eqb c c_rc) eqn:E3; [apply N.eqb_eq in E3; subst; discriminate|]. reflexivity.
Qed.

Lemma delim_start_not_dq rest : delim_start rest -> match rest with q :: _ => N.eqb q c_dq = false | [] => True end.
Proof.
  destruct rest as [|q r]; simpl; [trivial|]. intros [H|H]; apply N.eqb_neq; intros ->; discriminate.
Qed.

Section Atoms.
Variable W : oracle.

(* read_default on an identifier that is followed by a delimiter *)
Lemma read_token rec t rest : token_ok t -> delim_start rest ->
  form_body W rec (t ++ rest) = match as_identifier W t with Some m => RForm (Some m) rest | None => RErr ELex end.
Proof.
  destruct t as [|c t]; [intros []|]. intros [Hid Hd] Hrest. simpl in Hid. apply andb_prop in Hid as [Hc Hid].
  unfold form_body. cbn [app]. rewrite skip_ws_nonws by (apply ident_char_not_ws; exact Hc).
  rewrite Hd. unfold default_body. rewrite span_ident_app by assumption.
  pose proof (delim_start_not_dq rest Hrest) as Hq. destruct rest as [|q r]; [reflexivity|]. rewrite Hq. reflexivity.
Qed.

Lemma read_numeric rec t m rest : token_ok t -> numeric_model (num W t) = Some m -> delim_start rest ->
  form_body W rec (t ++ rest) = RForm (Some m) rest.
Proof.
  intros Ht Hn Hr. rewrite read_token by assumption. unfold as_identifier. rewrite Hn. reflexivity.
Qed.

(* symbols the reader can produce at top level and that are printed by str *)
Definition sym_ok (s : text) : Prop :=
  token_ok s /\ num W s = NotNum /\ (mem ch_dot s = false \/ all_dots s = true).

Lemma read_symbol rec s rest : sym_ok s -> delim_start rest ->
  form_body W rec (s ++ rest) = RForm (Some (MSym s)) rest.
Proof.
  intros (Ht & Hn & Hd) Hr. rewrite read_token by assumption. unfold as_identifier. rewrite Hn. cbn [numeric_model].
  destruct Hd as [Hd|Hd]; [rewrite Hd; reflexivity|].
  destruct (mem ch_dot s); [rewrite Hd|]; reflexivity.
Qed.

Definition kw_ok (s : text) : Prop := forallb ident_char s = true /\ mem ch_dot s = false.

Lemma read_keyword rec s rest : kw_ok s -> delim_start rest ->
  form_body W rec ((c_colon :: s) ++ rest) = RForm (Some (MKw s)) rest.
Proof.
  intros [Hs Hd] Hr. unfold form_body. cbn [app]. rewrite skip_ws_nonws by reflexivity.
  change (dispatch c_colon) with DKeyword. cbv iota. rewrite span_ident_app by assumption. rewrite Hd. reflexivity.
Qed.

End Atoms.

(* ---------------------------------------------------------------- int.__repr__ gives a token *)
Definition is_digit (c : N) : bool := (48 <=? c) && (c <=? 57).

Lemma digit_facts c : is_digit c = true -> ident_char c = true /\ dispatch c = DDefault.
Proof.
  unfold is_digit. intros H. apply andb_prop in H as [H1 H2]. apply N.leb_le in H1, H2.
  assert (Hc : c = 48 \/ c = 49 \/ c = 50 \/ c = 51 \/ c = 52 \/ c = 53 \/ c = 54 \/ c = 55 \/ c = 56 \/ c = 57) by lia.
  repeat (destruct Hc as [->|Hc]; [split; reflexivity|]). subst. split; reflexivity.
Qed.

Lemma dec_pos_fuel_digits fuel : forall n acc, forallb is_digit acc = true ->
  forallb is_digit (dec_pos_fuel fuel n acc) = true.
Proof.
  induction fuel as [|f IH]; intros n acc Ha; [exact Ha|]. cbn [dec_pos_fuel].
  destruct (n <? 10) eqn:E.
  - apply N.ltb_lt in E. cbn [forallb]. rewrite Ha, andb_true_r. unfold is_digit.
    apply andb_true_intro; split; apply N.leb_le; lia.
  - apply IH. cbn [forallb]. rewrite Ha, andb_true_r. unfold is_digit.
    pose proof (N.mod_lt n 10 ltac:(discriminate)) as Hm. remember (n mod 10) as d.
    apply andb_true_intro; split; apply N.leb_le; lia.
Qed.

Lemma dec_pos_fuel_nonempty fuel n acc : fuel <> O -> dec_pos_fuel fuel n acc <> [].
Proof.
  revert n acc. induction fuel as [|f IH]; intros n acc H; [congruence|]. cbn [dec_pos_fuel].
  destruct (n <? 10); [discriminate|]. destruct f as [|f']; [discriminate|]. apply IH. discriminate.
Qed.

Lemma dec_N_digits n : forallb is_digit (dec_N n) = true /\ dec_N n <> [].
Proof.
  unfold dec_N. split; [apply dec_pos_fuel_digits; reflexivity|apply dec_pos_fuel_nonempty; discriminate].
Qed.

Lemma digits_ident l : forallb is_digit l = true -> forallb ident_char l = true.
Proof.
  induction l as [|x l IH]; intros H; [reflexivity|]. cbn [forallb] in *. apply andb_prop in H as [Hx H].
  destruct (digit_facts x Hx) as [A _]. rewrite A, IH by exact H. reflexivity.
Qed.

Lemma digits_token t : t <> [] -> forallb is_digit t = true -> token_ok t.
Proof.
  destruct t as [|c t]; [congruence|]. intros _ H. unfold token_ok. split.
  - apply digits_ident; exact H.
  - cbn [forallb] in H. apply andb_prop in H as [Hc _]. apply digit_facts; exact Hc.
Qed.

Lemma dec_Z_token z : token_ok (dec_Z z).
Proof.
  destruct z as [|p|p]; cbn [dec_Z].
  - split; reflexivity.
  - destruct (dec_N_digits (Npos p)). apply digits_token; assumption.
  - destruct (dec_N_digits (Npos p)) as [Hd Hn]. pose proof (digits_token _ Hn Hd) as Ht.
    destruct (dec_N (N.pos p)) as [|c t] eqn:E; [congruence|]. unfold token_ok in *. destruct Ht as [Ht _].
    split; [|reflexivity]. cbn [forallb] in *. change (ident_char c_minus) with true. exact Ht.
Qed.
