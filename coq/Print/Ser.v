(* Canonical text serialisation of models, values and reader results, used only by the
   correspondence runs (the harness produces the same format from the implementation's objects). *)
From HyV Require Import Print.Syntax Print.Names Print.Reader Print.ModelRepr Print.ValueRepr Print.TableOracle.

Definition sep : N := 1114112.

Definition ser_text (s : text) : text := [c_lb] ++ intersperse [44] (map dec_N s) ++ [c_rb].
Definition ser_fl (f : fl) : text :=
  match f with
  | FNaN => [110]                     (* n *)
  | FInf false => [105]               (* i *)
  | FInf true => [c_minus; 105]
  | FFin b => dec_N b
  end.
Definition ser_opt_text (o : option text) : text := match o with None => [c_minus] | Some t => ser_text t end.
Definition ser_bool (b : bool) : text := if b then [49] else [48].

Definition ser_kind (k : skind) : text :=
  match k with
  | KExpr => [69] | KList => [76] | KDict => [68] | KSet => [88] | KTuple => [85]
  | KFStr br ts => [102] ++ ser_opt_text br ++ ser_bool ts
  | KFComp cv ts => [99] ++ (match cv with None => [c_minus] | Some c => dec_N c end) ++ [124] ++ ser_bool ts
  end.

Fixpoint ser_model (m : model) : text :=
  match m with
  | MSym s => 83 :: ser_text s
  | MKw s => 75 :: ser_text s
  | MInt z => 73 :: dec_Z z
  | MFloat f => 70 :: ser_fl f
  | MComplex a b => 67 :: ser_fl a ++ [47] ++ ser_fl b
  | MStr s br => 84 :: ser_text s ++ ser_opt_text br
  | MBytes b => 89 :: ser_text b
  | MNode k ms => 78 :: ser_kind k ++ [c_lp] ++ intersperse [ch_space] (map ser_model ms) ++ [c_rp]
  end.

Definition ser_vkind (k : vkind) : text :=
  match k with
  | VkList => [76] | VkTuple => [85] | VkSet => [88] | VkFrozenset => [90] | VkDeque => [81]
  | VkDict => [68] | VkOrderedDict => [79] | VkCounter => [67]
  | VkDefaultdict f => [70] ++ ser_opt_text f
  | VkChainMap => [77] | VkSlice => [83]
  end.

Fixpoint ser_value (v : value) : text :=
  match v with
  | VNone => [110]
  | VBool b => 98 :: ser_bool b
  | VInt z => 105 :: dec_Z z
  | VFloat f => 102 :: ser_fl f
  | VComplex a b => 99 :: ser_fl a ++ [47] ++ ser_fl b
  | VStr s => 115 :: ser_text s
  | VBytes b => 121 :: ser_text b
  | VBytearray b => 97 :: ser_text b
  | VKw s => 107 :: ser_text s
  | VFraction n d => 113 :: dec_Z n ++ [47] ++ dec_Z d
  | VRange a b c => 114 :: dec_Z a ++ [47] ++ dec_Z b ++ [47] ++ dec_Z c
  | VNode k vs => 78 :: ser_vkind k ++ [c_lp] ++ intersperse [ch_space] (map ser_value vs) ++ [c_rp]
  end.

Definition ser_res (r : res) : text :=
  match r with
  | ROne m rest => 79 :: ser_model m ++ [124] ++ dec_N (N.of_nat (length rest))
  | RErr ELex => [76; 69; 88]
  | RErr EPremature => [80; 82; 69]
  | ROut => [79; 85; 84]
  | _ => [63]
  end.

(* structural equality, the key equality of the correspondence runs (generated keys are pairwise unequal in Python) *)
Fixpoint veqb (a b : value) : bool :=
  match a, b with
  | VNone, VNone => true
  | VBool x, VBool y => Bool.eqb x y
  | VInt x, VInt y => Z.eqb x y
  | VFloat x, VFloat y => fl_eqb x y
  | VComplex x1 x2, VComplex y1 y2 => fl_eqb x1 y1 && fl_eqb x2 y2
  | VStr x, VStr y | VBytes x, VBytes y | VBytearray x, VBytearray y | VKw x, VKw y => text_eqb x y
  | VFraction a1 a2, VFraction b1 b2 => Z.eqb a1 b1 && Z.eqb a2 b2
  | VRange a1 a2 a3, VRange b1 b2 b3 => Z.eqb a1 b1 && Z.eqb a2 b2 && Z.eqb a3 b3
  | VNode k vs, VNode k' vs' =>
      text_eqb (ser_vkind k) (ser_vkind k') &&
      (fix go (l l' : list value) : bool :=
         match l, l' with
         | [], [] => true
         | x :: r, y :: r' => veqb x y && go r r'
         | _, _ => false
         end) vs vs'
  | _, _ => false
  end.

(* one C27 case: printed text, what the reader makes of it, what that evaluates to *)
Definition c27_case (W : oracle) (v : value) : text :=
  let t := vrepr W v in
  let r := read_one W t in
  t ++ [sep] ++ ser_res r ++ [sep]
    ++ match r with
       | ROne m _ => match eval veqb m with Some v' => ser_value v' | None => [63] end
       | _ => [63]
       end.

Definition heap_case (W : oracle) (h : heap) (x : hv) : text :=
  match hrepr W (S (length h)) h [] x with
  | HOk t => 79 :: t
  | HDangling => [68]
  | HOut => [84]
  end.

(* one C25 case: printed text, what the reader makes of it, the text printed again *)
Definition c25_case (W : oracle) (m : model) : text :=
  let t := hy_repr_model W m in
  let r := read_one W t in
  t ++ [sep] ++ ser_res r.

Definition read_case (W : oracle) (t : text) : text := ser_res (read_one W t).
