(* Scripted printers for the C28 correspondence runs: the behaviour a script denotes, and the serialised results
   of a history under the state machine of ReprState.v. *)
From HyV Require Import Print.Syntax Print.Names Print.ReprState.

Inductive action :=
| AEmit (t : text)                          (* add a text to the output *)
| ALook                                     (* add what the printer sees of the state *)
| ACall (o : nat) (inner : list action)     (* call hy-repr on object o, whose printer runs [inner]; add its text *)
| ATry (o : nat) (inner : list action) (fallback : text)   (* the same inside try/except: on failure add [fallback] *)
| ARaise.                                   (* raise *)

Section Script.
Variable n : nat.                           (* the scripted objects are 0 .. n-1 *)

(* the state as a printer reports it: the flag, and which scripted objects are in _seen *)
Definition enc_state (st : rstate) : text :=
  [60; 113] ++ [if quoting st then 49 else 48] ++ [32; 115]
  ++ map (fun i => if existsb (Nat.eqb i) (seen st) then 49 else 48) (seq 0 n) ++ [62].

Fixpoint compile_a (a : action) (k : text -> beh) (acc : text) : beh :=
  match a with
  | AEmit t => k (acc ++ t)
  | ALook => Look (fun st => k (acc ++ enc_state st))
  | ACall o inner =>
      Call o ((fix go (l : list action) (acc0 : text) : beh :=
                 match l with
                 | [] => Done false (fun _ => acc0)
                 | a' :: r => compile_a a' (fun acc1 => go r acc1) acc0
                 end) inner [])
           (fun t => k (acc ++ t))
  | ATry o inner fb =>
      CallCatch o ((fix go (l : list action) (acc0 : text) : beh :=
                      match l with
                      | [] => Done false (fun _ => acc0)
                      | a' :: r => compile_a a' (fun acc1 => go r acc1) acc0
                      end) inner [])
                (fun r => k (acc ++ match r with Some t => t | None => fb end))
  | ARaise => Done true (fun _ => [])
  end.

Fixpoint compile (l : list action) (acc : text) : beh :=
  match l with
  | [] => Done false (fun _ => acc)
  | a :: r => compile_a a (fun acc1 => compile r acc1) acc
  end.

Definition sepc : N := 1114112.

Definition ser_result (r : option text) : text := match r with Some t => 84 :: t | None => [82] end.

(* a history of top-level calls on scripted objects: the results one after the other, then the state at the end *)
Fixpoint run_all (ismodel : nat -> bool) (ph : nat -> text) (h : list (nat * list action)) (st : rstate) : text :=
  match h with
  | [] => enc_state st
  | (o, s) :: r =>
      let '(t, st') := hy_repr_call ismodel ph hy_repr_body o (compile s []) st in
      ser_result t ++ [sepc] ++ run_all ismodel ph r st'
  end.

End Script.

Definition c28_case (n : nat) (models : list nat) (phs : list (nat * text)) (h : list (nat * list action)) : text :=
  run_all n (fun i => existsb (Nat.eqb i) models)
          (fun i => match find (fun p => Nat.eqb (fst p) i) phs with Some p => snd p | None => [46; 46; 46] end)
          h idle.
