(* Serialisation of f-string trees and JoinedStr trees for the C24 correspondence runs. *)
From HyV Require Import Print.Syntax Print.Names Print.Reader Print.ModelRepr Print.ValueRepr Print.TableOracle Print.Ser
     Print.FStringFacts Print.FString Print.FStringRead Print.FStringAst Print.FStringTheorems.

Fixpoint ser_jnode (j : jnode) : text :=
  match j with
  | JConst s => 75 :: ser_text s
  | JFormatted e conv spec =>
      86 :: ser_model e ++ [c_bang] ++ (match conv with Some c => dec_N c | None => [c_minus] end)
      ++ (match spec with
          | None => [c_tilde]
          | Some l => [c_lp] ++ intersperse [ch_space] (map ser_jnode l) ++ [c_rp]
          end)
  end.
Definition ser_jnodes (l : list jnode) : text := [c_lb] ++ intersperse [ch_space] (map ser_jnode l) ++ [c_rb].

(* source text, what the reader makes of it, its compilation, Python's tree *)
Definition c24_case (W : oracle) (ps : list fpart) : text :=
  let t := hy_fstring_text ps in
  let r := read_one W t in
  t ++ [sep] ++ ser_res r ++ [sep]
    ++ (match r with
        | ROne m _ => match compile_fstring m with Some js => ser_jnodes js | None => [63] end
        | _ => [63]
        end)
    ++ [sep] ++ ser_jnodes (py_ast ps).

(* reading and compiling an arbitrary (possibly malformed) source text *)
Definition c24_text_case (W : oracle) (t : text) : text :=
  let r := read_one W t in
  ser_res r ++ [sep]
    ++ (match r with
        | ROne m _ => match compile_fstring m with Some js => ser_jnodes js | None => [63] end
        | _ => [63]
        end).
