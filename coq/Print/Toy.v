(* The oracle hypotheses of C25/C27 are satisfiable: a concrete oracle that meets num_facts and names_facts. *)
From HyV Require Import Print.Syntax Print.Names Print.Reader Print.ModelRepr Print.ValueRepr Print.ReaderFacts
     Print.StringFacts Print.AtomFacts Print.RoundTrip Print.ValueProofs.
From Coq Require Import Lia.

(* ---------------------------------------------------------------- decimal numerals read back *)
Definition dstep (a : N) (c : N) : N := a * 10 + (c - 48).
Definition parse_dec (s : text) : N := fold_left dstep s 0.

Lemma dec_pos_fuel_parse f : forall n acc a0, n < 2 ^ N.of_nat f ->
  exists k, fold_left dstep (dec_pos_fuel f n acc) a0 = fold_left dstep acc (a0 * 10 ^ k + n).
Proof.
  induction f as [|f IH]; intros n acc a0 Hn.
  - simpl in Hn. assert (n = 0) by lia. subst. exists 0. cbn [dec_pos_fuel]. f_equal. lia.
  - cbn [dec_pos_fuel]. destruct (n <? 10) eqn:E.
    + apply N.ltb_lt in E. exists 1. cbn [fold_left]. unfold dstep at 2. f_equal. lia.
    + apply N.ltb_ge in E.
      assert (Hf : N.of_nat (S f) = N.succ (N.of_nat f)) by lia. rewrite Hf, N.pow_succ_r' in Hn.
      assert (Hd : n / 10 < 2 ^ N.of_nat f) by (apply N.div_lt_upper_bound; lia).
      destruct (IH (n / 10) ((48 + n mod 10) :: acc) a0 Hd) as [k Hk]. exists (N.succ k). rewrite Hk.
      cbn [fold_left]. unfold dstep at 2. f_equal. rewrite N.pow_succ_r'.
      pose proof (N.div_mod n 10 ltac:(discriminate)). pose proof (N.mod_lt n 10 ltac:(discriminate)).
      remember (n mod 10) as r. remember (n / 10) as q. remember (10 ^ k) as p. nia.
Qed.

Lemma parse_dec_N n : parse_dec (dec_N n) = n.
Proof.
  unfold parse_dec, dec_N.
  assert (Hn : n < 2 ^ N.of_nat (S (N.to_nat (N.log2 n)))).
  { rewrite Nat2N.inj_succ, N2Nat.id. destruct n as [|p]; [reflexivity|]. apply N.log2_spec. lia. }
  destruct (dec_pos_fuel_parse _ n [] 0 Hn) as [k Hk]. rewrite Hk. cbn [fold_left]. lia.
Qed.

(* ---------------------------------------------------------------- a toy oracle *)
Definition nonempty (s : text) : bool := match s with [] => false | _ => true end.
Definition all_digits (s : text) : bool := nonempty s && forallb is_digit s.

Definition enc (f : fl) : text :=
  match f with FNaN => [110] | FInf false => [112] | FInf true => [109] | FFin b => dec_N b end.

Definition dec_fl (s : text) : option fl :=
  if text_eqb s [110] then Some FNaN
  else if text_eqb s [112] then Some (FInf false)
  else if text_eqb s [109] then Some (FInf true)
  else if all_digits s then Some (FFin (parse_dec s)) else None.

Definition toy_num (t : text) : numres :=
  if all_digits t then NInt (Z.of_N (parse_dec t))
  else match t with
       | 45 :: r => if all_digits r then NInt (- Z.of_N (parse_dec r))
                    else if text_eqb t s_NegInf then NFloat (FInf true) else NotNum
       | 48 :: 102 :: r => if all_digits r then NFloat (FFin (parse_dec r)) else NotNum
       | 48 :: 99 :: r =>
           let '(a, rest) := span (fun c => negb (N.eqb c 99)) r in
           match rest with
           | _ :: b => match dec_fl a, dec_fl b with Some x, Some y => NComplex x y | _, _ => NotNum end
           | [] => NotNum
           end
       | _ => if text_eqb t s_NaN then NFloat FNaN else if text_eqb t s_Inf then NFloat (FInf false) else NotNum
       end.

Definition W_toy : oracle :=
  {| num := toy_num;
     float_repr := fun b => 48 :: 102 :: dec_N b;
     complex_repr := fun a b => 48 :: 99 :: enc a ++ 99 :: enc b;
     isprintable := fun _ => false;
     ulookup := fun _ => None |}.

Lemma dec_N_all_digits n : all_digits (dec_N n) = true.
Proof.
  destruct (dec_N_digits n) as [A B]. unfold all_digits. rewrite A. destruct (dec_N n); [congruence|reflexivity].
Qed.

Lemma text_eqb_refl s : text_eqb s s = true.
Proof. apply text_eqb_eq. reflexivity. Qed.

Lemma digits_not_letter s c : all_digits s = true -> is_digit c = false -> text_eqb s [c] = false.
Proof.
  intros H Hc. apply not_true_iff_false. intros E. apply text_eqb_eq in E. subst s.
  unfold all_digits in H. cbn in H. rewrite Hc in H. discriminate.
Qed.

Lemma dec_fl_enc f : dec_fl (enc f) = Some f.
Proof.
  destruct f as [|[|]|b]; try reflexivity. cbn [enc]. unfold dec_fl.
  rewrite !(digits_not_letter (dec_N b)) by (try apply dec_N_all_digits; reflexivity).
  rewrite dec_N_all_digits, parse_dec_N. reflexivity.
Qed.

Definition enc_char (c : N) : bool := is_digit c || N.eqb c 110 || N.eqb c 112 || N.eqb c 109.

Lemma enc_chars f : forallb enc_char (enc f) = true.
Proof.
  destruct f as [|[|]|b]; try reflexivity. cbn [enc]. destruct (dec_N_digits b) as [A _].
  induction (dec_N b) as [|c l IH]; [reflexivity|]. cbn [forallb] in *. apply andb_prop in A as [Ac A].
  unfold enc_char at 1. rewrite Ac, IH by exact A. reflexivity.
Qed.

Lemma enc_char_facts c : enc_char c = true ->
  ident_char c = true /\ N.eqb c 99 = false /\ N.eqb c 105 = false /\ N.eqb c 97 = false /\ is_paren c = false.
Proof.
  unfold enc_char. intros H. apply orb_prop in H as [H|H]; [apply orb_prop in H as [H|H]; [apply orb_prop in H as [H|H]|]|].
  - destruct (digit_facts c H) as [A _]. unfold is_digit in H. apply andb_prop in H as [H1 H2]. apply N.leb_le in H1, H2.
    repeat split; try exact A; try (apply N.eqb_neq; lia).
    unfold is_paren. apply orb_false_intro; apply N.eqb_neq; unfold c_lp, c_rp; lia.
  - apply N.eqb_eq in H. subst. repeat split; reflexivity.
  - apply N.eqb_eq in H. subst. repeat split; reflexivity.
  - apply N.eqb_eq in H. subst. repeat split; reflexivity.
Qed.

Lemma enc_nonempty f : enc f <> [].
Proof. destruct f as [|[|]|b]; try discriminate. cbn [enc]. apply dec_N_digits. Qed.

(* the text of a toy complex number *)
Definition ctext (a b : fl) : text := 48 :: 99 :: enc a ++ 99 :: enc b.

Lemma replace_sub_absent x a b : In x a -> forall s fuel, mem x s = false -> replace_sub fuel a b s = s.
Proof.
  intros Hx. induction s as [|c s IH]; intros fuel Hm; [destruct fuel; reflexivity|].
  destruct fuel as [|f]; [reflexivity|]. cbn [replace_sub].
  destruct (starts_with a (c :: s)) eqn:E.
  - apply starts_with_spec in E as [r Er]. exfalso.
    assert (Hin : In x (c :: s)) by (rewrite Er; apply in_or_app; left; exact Hx).
    apply mem_In in Hin. congruence.
  - f_equal. apply IH. unfold mem in *. cbn [existsb] in Hm. apply orb_false_elim in Hm as [_ Hm]. exact Hm.
Qed.

Lemma ctext_chars a b : forallb (fun c => enc_char c || N.eqb c 99 || N.eqb c 48) (ctext a b) = true.
Proof.
  unfold ctext. cbn [forallb]. rewrite forallb_app. cbn [forallb].
  assert (G : forall f, forallb (fun c => enc_char c || N.eqb c 99 || N.eqb c 48) (enc f) = true).
  { intros f. pose proof (enc_chars f) as H. induction (enc f) as [|c l IH]; [reflexivity|]. cbn [forallb] in *.
    apply andb_prop in H as [Hc H]. rewrite Hc, IH by exact H. reflexivity. }
  rewrite !G. reflexivity.
Qed.

Lemma ctext_absent a b x : enc_char x = false -> N.eqb x 99 = false -> N.eqb x 48 = false -> mem x (ctext a b) = false.
Proof.
  intros H1 H2 H3. pose proof (ctext_chars a b) as H. induction (ctext a b) as [|c l IH]; [reflexivity|].
  cbn [forallb] in H. apply andb_prop in H as [Hc H]. unfold mem in *. cbn [existsb]. rewrite IH by exact H.
  rewrite orb_false_r. apply N.eqb_neq. intros ->. rewrite H1, H2, H3 in Hc. discriminate.
Qed.

Lemma strip_parens_id s : (match s with c :: _ => is_paren c = false | [] => True end) ->
  (match rev s with c :: _ => is_paren c = false | [] => True end) -> strip_parens s = s.
Proof.
  intros H1 H2. unfold strip_parens.
  assert (D : forall l, (match l with c :: _ => is_paren c = false | [] => True end) -> dropwhile is_paren l = l).
  { intros [|c l] H; [reflexivity|]. cbn [dropwhile]. rewrite H. reflexivity. }
  rewrite (D s H1), (D (rev s) H2). apply rev_involutive.
Qed.

Lemma hy_complex_toy a b : hy_complex W_toy a b = ctext a b.
Proof.
  unfold hy_complex, hy_complex_text. cbn [complex_repr W_toy]. fold (ctext a b).
  assert (Hs : strip_parens (ctext a b) = ctext a b).
  { apply strip_parens_id; [reflexivity|]. unfold ctext.
    change (48 :: 99 :: enc a ++ 99 :: enc b) with ([48; 99] ++ enc a ++ [99] ++ enc b).
    rewrite !rev_app_distr. pose proof (enc_chars b) as Hb. pose proof (enc_nonempty b) as Hn.
    destruct (enc b) as [|c l] eqn:E using rev_ind; [congruence|]. rewrite rev_app_distr. cbn [rev app].
    rewrite forallb_app in Hb. apply andb_prop in Hb as [_ Hb]. cbn [forallb] in Hb. rewrite andb_true_r in Hb.
    apply enc_char_facts in Hb. tauto. }
  rewrite Hs.
  rewrite (replace_sub_absent 105 s_inf s_Inf ltac:(left; reflexivity)) by (apply ctext_absent; reflexivity).
  rewrite (replace_sub_absent 97 s_nan s_NaN ltac:(right; left; reflexivity)) by (apply ctext_absent; reflexivity).
  reflexivity.
Qed.

Lemma enc_no_c f : forallb (fun c => negb (N.eqb c 99)) (enc f) = true.
Proof.
  pose proof (enc_chars f) as H. induction (enc f) as [|c l IH]; [reflexivity|].
  cbn [forallb] in *. apply andb_prop in H as [Hc H]. apply enc_char_facts in Hc as (_ & Hc & _).
  rewrite Hc, IH by exact H. reflexivity.
Qed.

Lemma toy_facts : num_facts W_toy.
Proof.
  constructor.
  - (* ints *)
    intros z. cbn [num W_toy]. unfold toy_num. destruct z as [|p|p]; cbn [dec_Z].
    + reflexivity.
    + rewrite dec_N_all_digits, parse_dec_N. reflexivity.
    + assert (E : all_digits (c_minus :: dec_N (N.pos p)) = false) by reflexivity. rewrite E.
      change c_minus with 45. rewrite dec_N_all_digits, parse_dec_N. reflexivity.
  - (* floats *)
    intros b. cbn [float_repr num W_toy]. split.
    + split; [|reflexivity]. cbn [forallb]. change (ident_char 48) with true. change (ident_char 102) with true. cbn [andb].
      apply digits_ident. apply dec_N_digits.
    + unfold toy_num. assert (E : all_digits (48 :: 102 :: dec_N b) = false) by (unfold all_digits; cbn [nonempty forallb]; reflexivity).
      rewrite E, dec_N_all_digits, parse_dec_N. reflexivity.
  - reflexivity.
  - reflexivity.
  - reflexivity.
  - (* complex *)
    intros a b. rewrite hy_complex_toy. split.
    + split; [|reflexivity]. pose proof (ctext_chars a b) as H. induction (ctext a b) as [|c l IH]; [reflexivity|].
      cbn [forallb] in *. apply andb_prop in H as [Hc H]. rewrite IH by exact H. rewrite andb_true_r.
      apply orb_prop in Hc as [Hc|Hc]; [apply orb_prop in Hc as [Hc|Hc]|].
      * apply enc_char_facts in Hc. tauto.
      * apply N.eqb_eq in Hc. subst. reflexivity.
      * apply N.eqb_eq in Hc. subst. reflexivity.
    + cbn [num W_toy]. unfold toy_num, ctext.
      assert (E : all_digits (48 :: 99 :: enc a ++ 99 :: enc b) = false) by (unfold all_digits; cbn [nonempty forallb]; reflexivity).
      rewrite E.
      assert (Hsp : span (fun c => negb (N.eqb c 99)) (enc a ++ 99 :: enc b) = (enc a, 99 :: enc b)).
      { apply span_app; [apply enc_no_c|reflexivity]. }
      rewrite Hsp, !dec_fl_enc. reflexivity.
Qed.

Lemma toy_names : names_facts W_toy.
Proof. unfold names_facts, value_names. repeat constructor. Qed.

Theorem facts_satisfiable : exists W, num_facts W /\ names_facts W.
Proof. exists W_toy. split; [exact toy_facts|exact toy_names]. Qed.
