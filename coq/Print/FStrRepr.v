(* C25, f-strings: the literal text that hy-repr prints inside an f-string is a literal run in the sense of
   FStringFacts (so the reader keeps and decodes it back to the content). *)
From HyV Require Import Print.Syntax Print.Names Print.Reader Print.ModelRepr Print.ReaderFacts Print.StringFacts
     Print.AtomFacts Print.FStringFacts Print.FString Print.FStringRead.
From Coq Require Import Lia.

Definition bsNlc : text := [c_bs; c_N; c_lc].

Lemma contains_app_r p a b : contains p b = true -> contains p (a ++ b) = true.
Proof.
  intros H. induction a as [|x a IH]; [exact H|]. cbn [app contains]. rewrite IH. apply orb_true_r.
Qed.

Lemma contains_here p b : p <> [] -> contains p (p ++ b) = true.
Proof.
  intros Hp. destruct p as [|x p]; [congruence|].
  change ((x :: p) ++ b) with (x :: (p ++ b)). cbn [contains].
  change (x :: p ++ b) with ((x :: p) ++ b). rewrite starts_with_app. reflexivity.
Qed.

(* if the kept text goes on with an opening brace and nowhere holds backslash-N-brace, it did not end with backslash-N *)
Lemma ends_bsN_contains P R : contains bsNlc (P ++ c_lc :: R) = false -> ends_bsN P = false.
Proof.
  intros H. destruct (ends_bsN P) eqn:E; [|reflexivity]. exfalso.
  unfold ends_bsN in E. apply starts_with_spec in E as [r Er].
  assert (HP : P = rev r ++ [c_bs; c_N]).
  { rewrite <- (rev_involutive P), Er. cbn [app rev]. rewrite <- app_assoc. reflexivity. }
  rewrite HP in H. rewrite <- app_assoc in H. cbn [app] in H.
  rewrite contains_app_r in H; [discriminate|]. apply (contains_here bsNlc R). discriminate.
Qed.

Lemma inert_not_brace l : forallb inert l = true -> forallb not_brace l = true.
Proof.
  induction l as [|x l IH]; intros H; [reflexivity|]. cbn [forallb] in *. apply andb_prop in H as [Hx H].
  rewrite IH by exact H. destruct (inert_parts x Hx) as (_ & _ & _ & _ & A & B).
  unfold not_brace. apply N.eqb_neq in A, B. rewrite A, B. reflexivity.
Qed.

Section Lit.
Variable W : oracle.

(* one character of a String component as printed inside an f-string: braces doubled *)
Definition fesc (q c : N) : text :=
  if N.eqb c c_lc then [c_lc; c_lc] else if N.eqb c c_rc then [c_rc; c_rc] else hy_esc W q c.

Lemma shape_brace_free c t : eshape false c t -> c <> c_lc -> c <> c_rc -> brace_free t = true.
Proof.
  intros Hs H1 H2. destruct Hs as [_ _ _ _|e He Hm|Hc|Hb Hc|Hb Hc].
  - cbn [brace_free forallb]. unfold not_brace. apply N.eqb_neq in H1, H2. rewrite H1, H2. reflexivity.
  - destruct (mem6 e Hm) as [->|[->|[->|[->|[->|[->|[->|[->|[->| ->]]]]]]]]]; reflexivity.
  - unfold esc_x, brace_free. cbn [forallb]. change (not_brace c_bs) with true. change (not_brace 120) with true. cbn [andb].
    apply inert_not_brace, hex_fixed_inert.
  - unfold esc_u, brace_free. cbn [forallb]. change (not_brace c_bs) with true. change (not_brace 117) with true. cbn [andb].
    apply inert_not_brace, hex_fixed_inert.
  - unfold esc_U, brace_free. cbn [forallb]. change (not_brace c_bs) with true. change (not_brace 85) with true. cbn [andb].
    apply inert_not_brace, hex_fixed_inert.
Qed.

Lemma hy_esc_brace q c : (c = c_lc \/ c = c_rc) -> (q = c_sq \/ q = c_dq) -> hy_esc W q c = [c].
Proof. intros [->| ->] [->| ->]; reflexivity. Qed.

(* the printed literal is a run: source = doubled-brace text, kept = the text without doubling, value = s *)
Lemma str_run q : (q = c_sq \/ q = c_dq) -> forall s K,
  Forall (fun c => c < 1114112 /\ (q = c_dq -> c <> c_dq)) s ->
  contains bsNlc (K ++ flat_map (hy_esc W q) s) = false ->
  run W K (flat_map (fesc q) s) (flat_map (hy_esc W q) s) s.
Proof.
  intros Hq. induction s as [|c s IH]; intros K HF Hc; [constructor|].
  inversion HF as [|? ? [Hv Hd] HF']; subst. cbn [flat_map].
  assert (Hside : q = c_sq \/ (q = c_dq /\ c <> c_dq)) by (destruct Hq as [->| ->]; [left; reflexivity|right; split; [reflexivity|apply Hd; reflexivity]]).
  cbn [flat_map] in Hc.
  assert (Hnext : contains bsNlc ((K ++ hy_esc W q c) ++ flat_map (hy_esc W q) s) = false) by (rewrite <- app_assoc; exact Hc).
  unfold fesc at 1. destruct (N.eqb c c_lc) eqn:E1.
  - apply N.eqb_eq in E1. subst c. rewrite (hy_esc_brace q c_lc (or_introl eq_refl) Hq) in *.
    apply (RCons W K [c_lc; c_lc] [c_lc] c_lc); [apply IOpen| |apply IH; assumption].
    intros _. apply (ends_bsN_contains K (flat_map (hy_esc W q) s)). exact Hc.
  - destruct (N.eqb c c_rc) eqn:E2.
    + apply N.eqb_eq in E2. subst c. rewrite (hy_esc_brace q c_rc (or_intror eq_refl) Hq) in *.
      apply (RCons W K [c_rc; c_rc] [c_rc] c_rc); [apply IClose|discriminate|apply IH; assumption].
    + apply N.eqb_neq in E1, E2. pose proof (hy_esc_shape W q c Hv Hside) as Hs.
      apply (RCons W K (hy_esc W q c) (hy_esc W q c) c).
      * apply IShape; [exact Hs|apply (shape_brace_free c); assumption].
      * intros E. rewrite E in Hs. pose proof (shape_brace_free c _ Hs E1 E2) as B. discriminate B.
      * apply IH; assumption.
Qed.

(* what hy-repr prints for a String component of a non-bracket f-string *)
Lemma replace_c_id_on a b t : forallb (fun c => negb (N.eqb c a)) t = true -> replace_c a b t = t.
Proof. apply replace_c_none. Qed.

Lemma double_braces_esc q c : (q = c_sq \/ q = c_dq) -> c < 1114112 -> (q = c_dq -> c <> c_dq) ->
  double_braces (hy_esc W q c) = fesc q c.
Proof.
  intros Hq Hv Hd. unfold fesc. destruct (N.eqb c c_lc) eqn:E1.
  - apply N.eqb_eq in E1. subst c. rewrite (hy_esc_brace q c_lc (or_introl eq_refl) Hq). reflexivity.
  - destruct (N.eqb c c_rc) eqn:E2.
    + apply N.eqb_eq in E2. subst c. rewrite (hy_esc_brace q c_rc (or_intror eq_refl) Hq). reflexivity.
    + apply N.eqb_neq in E1, E2.
      assert (Hside : q = c_sq \/ (q = c_dq /\ c <> c_dq)) by (destruct Hq as [->| ->]; [left; reflexivity|right; split; [reflexivity|apply Hd; reflexivity]]).
      pose proof (shape_brace_free c _ (hy_esc_shape W q c Hv Hside) E1 E2) as B.
      unfold double_braces. unfold brace_free in B.
      assert (B1 : forallb (fun x => negb (N.eqb x c_lc)) (hy_esc W q c) = true).
      { clear - B. induction (hy_esc W q c) as [|x l IH]; [reflexivity|]. cbn [forallb] in *. apply andb_prop in B as [Bx B].
        unfold not_brace in Bx. apply andb_prop in Bx as [X _]. rewrite X, IH by exact B. reflexivity. }
      assert (B2 : forallb (fun x => negb (N.eqb x c_rc)) (hy_esc W q c) = true).
      { clear - B. induction (hy_esc W q c) as [|x l IH]; [reflexivity|]. cbn [forallb] in *. apply andb_prop in B as [Bx B].
        unfold not_brace in Bx. apply andb_prop in Bx as [_ X]. rewrite X, IH by exact B. reflexivity. }
      rewrite (replace_c_none c_lc _ _ B1), (replace_c_none c_rc _ _ B2). reflexivity.
Qed.

Lemma quote_sides s : (py_quote s = c_sq \/ py_quote s = c_dq)
  /\ Forall (fun c => py_quote s = c_dq -> c <> c_dq) s.
Proof.
  split; [destruct (py_quote_cases s) as [E|[E _]]; auto|].
  apply Forall_forall. intros c Hin Hq. destruct (quote_side s c Hin) as [E|[_ Hn]]; [rewrite E in Hq; discriminate|exact Hn].
Qed.

Lemma fstr_literal_text s : valid_text s ->
  double_braces (cut_1_m1 (hy_str W s)) = flat_map (fesc (py_quote s)) s.
Proof.
  intros Hv. rewrite hy_str_eq. unfold cut_1_m1. cbn [tl]. rewrite removelast_last.
  unfold double_braces. destruct (quote_sides s) as [Hq Hd].
  assert (G : forall l, Forall (fun c => c < 1114112) l -> Forall (fun c => py_quote s = c_dq -> c <> c_dq) l ->
              replace_c c_rc [c_rc; c_rc] (replace_c c_lc [c_lc; c_lc] (flat_map (hy_esc W (py_quote s)) l))
              = flat_map (fesc (py_quote s)) l).
  { induction l as [|c l IH]; intros H1 H2; [reflexivity|]. inversion H1; inversion H2; subst.
    cbn [flat_map]. unfold replace_c in *. rewrite !flat_map_app, IH by assumption. f_equal.
    apply (double_braces_esc (py_quote s) c Hq); assumption. }
  apply G; assumption.
Qed.

End Lit.

(* ---------------------------------------------------------------- components of an FString model as f-string parts *)
Section Parts.
Variable W : oracle.

Definition lit_part (s : text) : fpart :=
  PLit (flat_map (fesc W (py_quote s)) s) (flat_map (hy_esc W (py_quote s)) s) s.

Definition is_nil {A} (l : list A) : bool := match l with [] => true | _ => false end.

(* the f-string part that hy-repr's text for a component denotes; [insp]: the component stands in a format spec,
   where a String is printed as it is *)
Fixpoint part_of (insp : bool) (m : model) : fpart :=
  match m with
  | MNode (KFComp conv _) (x0 :: specl) =>
      let hs := negb (is_nil specl) in
      let t := mrepr W x0 in
      PField (if starts_with [c_lc] t then [ch_space] else []) x0 t
             (match conv with Some _ => [ch_space] | None => if hs then [ch_space] else [] end)
             None
             (match conv with Some c => Some (c, if hs then [ch_space] else []) | None => None end)
             hs
             (map (part_of true) specl)
  | MStr s _ => if insp then PLit s s s else lit_part s
  | _ => PLit [] [] []
  end.

Definition clear_ts (m : model) : model :=
  match m with MNode (KFComp conv _) items => MNode (KFComp conv false) items | x => x end.

(* no two adjacent strings; a string directly before a field does not end, as printed, with backslash N *)
Fixpoint fseq_ok (comps : list model) : Prop :=
  match comps with
  | [] => True
  | MStr s _ :: r =>
      match r with
      | MStr _ _ :: _ => False
      | [] => True
      | _ => ends_bsN (flat_map (hy_esc W (py_quote s)) s) = false /\ fseq_ok r
      end
  | _ :: r => fseq_ok r
  end.

Lemma join_strs_id comps : fseq_ok comps ->
  Forall (fun c => match c with MStr _ br => br = None | _ => True end) comps -> join_strs comps = comps.
Proof.
  induction comps as [|c comps IH]; intros Hs HF; [reflexivity|]. inversion HF as [|? ? Hc HF']; subst.
  destruct c as [s|s|z|f|a b|s br|b|k ms]; cbn [join_strs]; try (rewrite IH; [reflexivity|exact Hs|exact HF']).
  subst br. cbn [fseq_ok] in Hs. destruct comps as [|d ds]; [reflexivity|].
  destruct d as [s'|s'|z'|f'|a' b'|s' br'|b'|k' ms']; try destruct Hs as [_ Hs]; try (rewrite IH by assumption; reflexivity).
  destruct Hs.
Qed.

End Parts.
