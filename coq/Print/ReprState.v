(* The state of hy-repr (_quoting, _seen) and the text of a call.  The body of hy-repr, regenerated from
   hy_repr.hy as a sequence of steps (Gen/PrintTables.v: hy_repr_body), is run against every behaviour of the
   registered printers: returning a text, raising at any depth, reading the state, calling hy-repr again on any
   objects -- also on ones that are being printed. *)
From HyV Require Import Print.Syntax.
From Coq Require Import Lia.

Record rstate := { quoting : bool; seen : list nat }.

(* what a registered printer does: finish (returning a text that may depend on the state it sees, or raising),
   look at the state, or call hy-repr on an object -- whose printer behaves as [inner] -- and go on as [cont]
   with the text of that call if it returns; an exception from it propagates *)
Inductive beh :=
| Done (raises : bool) (t : rstate -> text)
| Look (k : rstate -> beh)
| Call (o : nat) (inner : beh) (cont : text -> beh)
(* the same call inside try/except: the printer goes on with the text, or with None when the call raised *)
| CallCatch (o : nat) (inner : beh) (cont : option text -> beh).

Inductive exit := Normal | Returned | Raised.

Section Run.
Variable ismodel : nat -> bool.       (* the object is a model other than a keyword *)
Variable ph : nat -> text.            (* the placeholder registered for the object's type *)
Variable body : rbody.

Definition remove_id (o : nat) (l : list nat) : list nat := filter (fun x => negb (Nat.eqb x o)) l.

(* one step; [started] is the local started-quoting, [out] the value to be returned, [p] the printer *)
Definition do_step (p : rstate -> option text * rstate) (o : nat) (s : rstep) (started : bool) (out : text) (st : rstate)
  : exit * bool * text * rstate :=
  match s with
  | StartQuoting =>
      if negb (quoting st) && ismodel o
      then (Normal, true, out, {| quoting := true; seen := seen st |})
      else (Normal, started, out, st)
  | ReturnIfSeen => if existsb (Nat.eqb o) (seen st) then (Returned, started, ph o, st) else (Normal, started, out, st)
  | AddSeen => (Normal, started, out, {| quoting := quoting st; seen := o :: seen st |})
  | CallPrinter =>
      let '(r, st') := p st in
      match r with
      | Some t => (Normal, started, (if started then [c_sq] else []) ++ t, st')
      | None => (Raised, started, out, st')
      end
  | DiscardSeen => (Normal, started, out, {| quoting := quoting st; seen := remove_id o (seen st) |})
  | ResetQuoting => (Normal, started, out, if started then {| quoting := false; seen := seen st |} else st)
  end.

Fixpoint do_steps (p : rstate -> option text * rstate) (o : nat) (l : list rstep) (started : bool) (out : text) (st : rstate)
  : exit * bool * text * rstate :=
  match l with
  | [] => (Normal, started, out, st)
  | s :: r =>
      match do_step p o s started out st with
      | (Normal, started', out', st') => do_steps p o r started' out' st'
      | other => other
      end
  end.

(* one call of hy-repr on object o: (the text, or None when it raised; the state it leaves) *)
Definition call_with (p : rstate -> option text * rstate) (o : nat) (st : rstate) : option text * rstate :=
  match body with
  | Straight l =>
      let '(e, _, out, st') := do_steps p o l false [] st in
      ((match e with Raised => None | _ => Some out end), st')
  | TryFinally pre tr fin =>
      match do_steps p o pre false [] st with
      | (Normal, started, out, st1) =>
          let '(e, started2, out2, st2) := do_steps p o tr started out st1 in
          (* the finally clause runs whatever happened in the try body (none of the steps it can hold returns or raises) *)
          let '(e2, _, _, st3) := do_steps p o fin started2 out2 st2 in
          ((match e, e2 with Raised, _ => None | _, Raised => None | _, _ => Some out2 end), st3)
      | (e, _, out, st1) => ((match e with Raised => None | _ => Some out end), st1)
      end
  end.

Fixpoint printer (b : beh) (st : rstate) : option text * rstate :=
  match b with
  | Done r t => (if r then None else Some (t st), st)
  | Look k => printer (k st) st
  | Call o inner cont =>
      let '(r, st1) := call_with (printer inner) o st in
      match r with
      | None => (None, st1)
      | Some t => printer (cont t) st1
      end
  | CallCatch o inner cont =>
      let '(r, st1) := call_with (printer inner) o st in printer (cont r) st1
  end.

Definition hy_repr_call (o : nat) (b : beh) (st : rstate) : option text * rstate := call_with (printer b) o st.

End Run.

(* ---------------------------------------------------------------- the regenerated body is the protected one *)
Definition protected_body : rbody :=
  TryFinally [StartQuoting; ReturnIfSeen; AddSeen] [CallPrinter] [DiscardSeen; ResetQuoting].

Lemma hy_repr_body_is_protected : hy_repr_body = protected_body.
Proof. reflexivity. Qed.

Definition idle : rstate := {| quoting := false; seen := [] |}.

Section Restore.
Variable ismodel : nat -> bool.
Variable ph : nat -> text.

(* while a model (not a keyword) is being printed, _quoting is set *)
Definition inv (st : rstate) : Prop := forall i, In i (seen st) -> ismodel i = true -> quoting st = true.

Lemma remove_id_fresh o l : existsb (Nat.eqb o) l = false -> remove_id o (o :: l) = l.
Proof.
  intros H. unfold remove_id. cbn [filter]. rewrite Nat.eqb_refl. cbn [negb].
  induction l as [|x l IH]; [reflexivity|]. cbn [existsb] in H. apply orb_false_elim in H as [Hx H].
  cbn [filter]. rewrite Nat.eqb_sym, Hx. cbn [negb]. f_equal. apply IH. exact H.
Qed.

Lemma existsb_in o l : existsb (Nat.eqb o) l = true -> In o l.
Proof. intros H. apply existsb_exists in H as [x [Hx E]]. apply Nat.eqb_eq in E. subst. exact Hx. Qed.

(* the state in which the printer of o runs: o is in _seen, _quoting is set if o is a model *)
Definition enter (o : nat) (st : rstate) : rstate :=
  {| quoting := quoting st || ismodel o; seen := o :: seen st |}.

(* What a call of hy-repr does, exactly (for a printer that gives back the state it was given):
   on an object that is being printed it returns the placeholder and touches nothing; otherwise the printer runs
   in the state [enter o st] -- the enclosing objects stay in _seen -- its text gets the quote prefix exactly when
   o is a model and no enclosing call had set _quoting, and the state on exit is the state on entry. *)
Lemma call_spec p o st :
  (forall s, inv s -> snd (p s) = s) -> inv st ->
  call_with ismodel ph protected_body p o st
  = if existsb (Nat.eqb o) (seen st) then (Some (ph o), st)
    else (match fst (p (enter o st)) with
          | Some t => Some ((if negb (quoting st) && ismodel o then [c_sq] else []) ++ t)
          | None => None
          end, st).
Proof.
  intros Hp Hinv. destruct st as [q sn]. unfold call_with, protected_body, enter.
  cbn [do_steps]. unfold do_step at 1. cbn [quoting seen].
  destruct (negb q && ismodel o) eqn:Es.
  - apply andb_prop in Es as [Hq Hm]. apply negb_true_iff in Hq. subst q.
    unfold do_step at 1. cbn [quoting seen]. destruct (existsb (Nat.eqb o) sn) eqn:Eseen.
    + exfalso. specialize (Hinv o (existsb_in _ _ Eseen) Hm). cbn in Hinv. discriminate.
    + unfold do_step at 1. cbn [quoting seen orb]. rewrite Hm.
      assert (Hi : inv {| quoting := true; seen := o :: sn |}) by (intros i _ _; reflexivity).
      pose proof (Hp _ Hi) as E. unfold do_step at 1.
      destruct (p {| quoting := true; seen := o :: sn |}) as [r st']. cbn [snd fst] in E |- *. subst st'.
      destruct r; cbn [do_steps do_step quoting seen]; rewrite remove_id_fresh by exact Eseen; reflexivity.
  - unfold do_step at 1. cbn [quoting seen]. destruct (existsb (Nat.eqb o) sn) eqn:Eseen; [reflexivity|].
    unfold do_step at 1. cbn [quoting seen].
    assert (Eq : q || ismodel o = q).
    { destruct q; [reflexivity|]. cbn in Es |- *. exact Es. }
    rewrite Eq.
    assert (Hi : inv {| quoting := q; seen := o :: sn |}).
    { intros i [<-|Hin] Hm; cbn [quoting].
      - rewrite Hm, andb_true_r in Es. apply negb_false_iff in Es. exact Es.
      - apply (Hinv i Hin Hm). }
    pose proof (Hp _ Hi) as E. unfold do_step at 1.
    destruct (p {| quoting := q; seen := o :: sn |}) as [r st']. cbn [snd fst] in E |- *. subst st'.
    destruct r; cbn [do_steps do_step quoting seen app]; rewrite remove_id_fresh by exact Eseen; reflexivity.
Qed.

Lemma call_restores p o st :
  (forall s, inv s -> snd (p s) = s) -> inv st -> snd (call_with ismodel ph protected_body p o st) = st.
Proof.
  intros Hp Hinv. rewrite call_spec by assumption. destruct (existsb (Nat.eqb o) (seen st)); reflexivity.
Qed.

Lemma printer_restores b : forall st, inv st -> snd (printer ismodel ph protected_body b st) = st.
Proof.
  induction b as [r t|k IHk|o inner IHi cont IHc|o inner IHi cont IHc]; intros st Hinv; [destruct r; reflexivity| | |].
  - cbn [printer]. apply IHk. exact Hinv.
  - cbn [printer]. pose proof (call_restores (printer ismodel ph protected_body inner) o st IHi Hinv) as E.
    destruct (call_with ismodel ph protected_body (printer ismodel ph protected_body inner) o st) as [r st1].
    cbn [snd] in E. subst st1. destruct r; [|reflexivity]. apply IHc. exact Hinv.
  - cbn [printer]. pose proof (call_restores (printer ismodel ph protected_body inner) o st IHi Hinv) as E.
    destruct (call_with ismodel ph protected_body (printer ismodel ph protected_body inner) o st) as [r st1].
    cbn [snd] in E. subst st1. apply IHc. exact Hinv.
Qed.

(* a printer that catches the exception of a nested call goes on in the state it had before that call: every nested
   call restores the state on its own exit, whether or not anything further out would have cleaned up *)
Lemma catcher_sees_clean_state o inner cont st : inv st ->
  printer ismodel ph protected_body (CallCatch o inner cont) st
  = printer ismodel ph protected_body (cont (fst (hy_repr_call ismodel ph protected_body o inner st))) st.
Proof.
  intros Hinv. cbn [printer]. unfold hy_repr_call.
  pose proof (call_restores (printer ismodel ph protected_body inner) o st (printer_restores inner) Hinv) as E.
  destruct (call_with ismodel ph protected_body (printer ismodel ph protected_body inner) o st) as [r st1].
  cbn [snd fst] in E |- *. subst st1. reflexivity.
Qed.

(* (1) every call of hy-repr, whatever the printers do, leaves _quoting and _seen as it found them *)
Theorem repr_state_restored o b st : inv st ->
  snd (hy_repr_call ismodel ph hy_repr_body o b st) = st.
Proof. rewrite hy_repr_body_is_protected. intros H. apply call_restores; [apply printer_restores|exact H]. Qed.

Lemma inv_idle : inv idle.
Proof. intros i []. Qed.

Corollary repr_idle_after_any_call o b : snd (hy_repr_call ismodel ph hy_repr_body o b idle) = idle.
Proof. apply repr_state_restored, inv_idle. Qed.

(* (3) what a call made from inside a printer sees *)
Theorem nested_call_sees o b st : inv st ->
  hy_repr_call ismodel ph hy_repr_body o b st
  = if existsb (Nat.eqb o) (seen st) then (Some (ph o), st)
    else (match fst (printer ismodel ph protected_body b (enter o st)) with
          | Some t => Some ((if negb (quoting st) && ismodel o then [c_sq] else []) ++ t)
          | None => None
          end, st).
Proof.
  intros H. unfold hy_repr_call. rewrite hy_repr_body_is_protected. apply call_spec; [apply printer_restores|exact H].
Qed.

(* the state a printer runs in meets the invariant again, so the statement applies at every depth *)
Lemma inv_enter o st : inv st -> inv (enter o st).
Proof.
  intros H i [<-|Hin] Hm; cbn [enter quoting]; [rewrite Hm; apply orb_true_r|].
  rewrite (H i Hin Hm). reflexivity.
Qed.

(* ---------------------------------------------------------------- (2) histories of top-level calls *)
(* the results of a history of calls made one after the other, starting in state st *)
Fixpoint run_history (h : list (nat * beh)) (st : rstate) : list (option text) :=
  match h with
  | [] => []
  | (o, b) :: r =>
      let '(t, st') := hy_repr_call ismodel ph hy_repr_body o b st in
      t :: run_history r st'
  end.

(* each call of the history, made alone in a fresh (idle) state *)
Definition fresh_results (h : list (nat * beh)) : list (option text) :=
  map (fun ob => fst (hy_repr_call ismodel ph hy_repr_body (fst ob) (snd ob) idle)) h.

Theorem history_independence h : run_history h idle = fresh_results h.
Proof.
  unfold fresh_results. induction h as [|[o b] h IH]; [reflexivity|].
  cbn [run_history map fst snd]. pose proof (repr_idle_after_any_call o b) as E.
  destruct (hy_repr_call ismodel ph hy_repr_body o b idle) as [t st']. cbn [snd fst] in E |- *. subst st'.
  rewrite IH. reflexivity.
Qed.

End Restore.

(* without the protection the state leaks: the same steps in a straight line, a printer that raises; the next
   print of the same (acyclic) object then shows the placeholder *)
Definition straight_body : rbody := Straight [StartQuoting; ReturnIfSeen; AddSeen; CallPrinter; DiscardSeen; ResetQuoting].

Example straight_line_leaks :
  snd (hy_repr_call (fun _ => true) (fun _ => [46; 46; 46]) straight_body 7%nat (Done true (fun _ => [])) idle)
  = {| quoting := true; seen := [7%nat] |}.
Proof. reflexivity. Qed.

(* the early return of hy-repr comes after the step that may set _quoting: in a state that breaks the invariant
   (a model in _seen while _quoting is clear -- no sequence of calls produces it, by inv_enter) the flag would leak *)
Example early_return_needs_the_invariant :
  snd (hy_repr_call (fun _ => true) (fun _ => [46; 46; 46]) protected_body 7%nat (Done false (fun _ => []))
                    {| quoting := false; seen := [7%nat] |})
  = {| quoting := true; seen := [7%nat] |}.
Proof. reflexivity. Qed.
