(* The state of hy-repr (_quoting, _seen) is restored on every exit: the body of hy-repr, regenerated from
   hy_repr.hy as a sequence of steps (Gen/PrintTables.v: hy_repr_body), is run against every behaviour of the
   registered printers -- returning, raising at any depth, calling hy-repr again on any objects, also on ones
   that are being printed -- and leaves the state as it found it. *)
From HyV Require Import Print.Syntax.
From Coq Require Import Lia.

Record rstate := { quoting : bool; seen : list nat }.

(* what a registered printer does: return, raise, or call hy-repr on an object (whose printer behaves as
   [inner]) and go on as [cont] if that call returns -- an exception from it propagates *)
Inductive beh := Done (raises : bool) | Call (o : nat) (inner : beh) (cont : beh).

Inductive exit := Normal | Returned | Raised.

Section Run.
Variable ismodel : nat -> bool.       (* the object is a model other than a keyword *)
Variable body : rbody.

Definition remove_id (o : nat) (l : list nat) : list nat := filter (fun x => negb (Nat.eqb x o)) l.

(* one step; [started] is the local started-quoting, [p] what calling the printer does to the state *)
Definition do_step (p : rstate -> bool * rstate) (o : nat) (s : rstep) (started : bool) (st : rstate)
  : exit * bool * rstate :=
  match s with
  | StartQuoting =>
      if negb (quoting st) && ismodel o
      then (Normal, true, {| quoting := true; seen := seen st |})
      else (Normal, started, st)
  | ReturnIfSeen => if existsb (Nat.eqb o) (seen st) then (Returned, started, st) else (Normal, started, st)
  | AddSeen => (Normal, started, {| quoting := quoting st; seen := o :: seen st |})
  | CallPrinter => let '(r, st') := p st in (if r then Raised else Normal, started, st')
  | DiscardSeen => (Normal, started, {| quoting := quoting st; seen := remove_id o (seen st) |})
  | ResetQuoting => (Normal, started, if started then {| quoting := false; seen := seen st |} else st)
  end.

Fixpoint do_steps (p : rstate -> bool * rstate) (o : nat) (l : list rstep) (started : bool) (st : rstate)
  : exit * bool * rstate :=
  match l with
  | [] => (Normal, started, st)
  | s :: r =>
      match do_step p o s started st with
      | (Normal, started', st') => do_steps p o r started' st'
      | other => other
      end
  end.

(* one call of hy-repr on object o: (did it raise, the state it leaves) *)
Definition call_with (p : rstate -> bool * rstate) (o : nat) (st : rstate) : bool * rstate :=
  match body with
  | Straight l =>
      let '(e, _, st') := do_steps p o l false st in ((match e with Raised => true | _ => false end), st')
  | TryFinally pre tr fin =>
      match do_steps p o pre false st with
      | (Normal, started, st1) =>
          let '(e, started2, st2) := do_steps p o tr started st1 in
          (* the finally clause runs whatever happened in the try body; an early return or an exception in it
             would replace the pending exit (none of the steps it can hold returns or raises) *)
          let '(e2, _, st3) := do_steps p o fin started2 st2 in
          ((match e, e2 with Raised, Normal => true | _, Raised => true | _, _ => false end), st3)
      | (e, _, st1) => ((match e with Raised => true | _ => false end), st1)
      end
  end.

Fixpoint printer (b : beh) (st : rstate) : bool * rstate :=
  match b with
  | Done r => (r, st)
  | Call o inner cont =>
      let '(r, st1) := call_with (printer inner) o st in
      if r then (true, st1) else printer cont st1
  end.

Definition hy_repr_call (o : nat) (b : beh) (st : rstate) : bool * rstate := call_with (printer b) o st.

End Run.

(* ---------------------------------------------------------------- the regenerated body is the protected one *)
Definition protected_body : rbody :=
  TryFinally [StartQuoting; ReturnIfSeen; AddSeen] [CallPrinter] [DiscardSeen; ResetQuoting].

Lemma hy_repr_body_is_protected : hy_repr_body = protected_body.
Proof. reflexivity. Qed.

Section Restore.
Variable ismodel : nat -> bool.

(* while a model (not a keyword) is being printed, _quoting is set *)
Definition inv (st : rstate) : Prop := forall i, In i (seen st) -> ismodel i = true -> quoting st = true.

Lemma remove_id_fresh o l : existsb (Nat.eqb o) l = false -> remove_id o (o :: l) = l.
Proof.
  intros H. unfold remove_id. cbn [filter]. rewrite Nat.eqb_refl. cbn [negb].
  induction l as [|x l IH]; [reflexivity|]. cbn [existsb] in H. apply orb_false_elim in H as [Hx H].
  cbn [filter]. rewrite Nat.eqb_sym, Hx. cbn [negb]. f_equal. apply IH. exact H.
Qed.

Lemma existsb_in o l : existsb (Nat.eqb o) l = true -> In o l.
Proof. intros H. apply existsb_exists in H as [x [Hx E]]. apply Nat.eqb_eq in E. subst. exact Hx. Qed.

(* if the printer leaves every state that meets the invariant as it found it, so does a call of hy-repr *)
Lemma call_restores p o st :
  (forall s, inv s -> snd (p s) = s) -> inv st -> snd (call_with ismodel protected_body p o st) = st.
Proof.
  intros Hp Hinv. destruct st as [q sn]. unfold call_with, protected_body.
  cbn [do_steps]. unfold do_step at 1. cbn [quoting seen].
  destruct (negb q && ismodel o) eqn:Es.
  - (* this call sets _quoting *)
    apply andb_prop in Es as [Hq Hm]. apply negb_true_iff in Hq. subst q.
    unfold do_step at 1. cbn [quoting seen]. destruct (existsb (Nat.eqb o) sn) eqn:Eseen.
    + (* o is being printed and is a model: then _quoting was set already *)
      exfalso. specialize (Hinv o (existsb_in _ _ Eseen) Hm). cbn in Hinv. discriminate.
    + unfold do_step at 1. cbn [quoting seen].
      assert (Hi : inv {| quoting := true; seen := o :: sn |}) by (intros i _ _; reflexivity).
      pose proof (Hp _ Hi) as E. unfold do_step at 1.
      destruct (p {| quoting := true; seen := o :: sn |}) as [r st']. cbn [snd] in E. subst st'.
      destruct r; cbn [do_steps do_step quoting seen snd]; rewrite remove_id_fresh by exact Eseen; reflexivity.
  - unfold do_step at 1. cbn [quoting seen]. destruct (existsb (Nat.eqb o) sn) eqn:Eseen; [reflexivity|].
    unfold do_step at 1. cbn [quoting seen].
    assert (Hi : inv {| quoting := q; seen := o :: sn |}).
    { intros i [<-|Hin] Hm; cbn [quoting].
      - rewrite Hm, andb_true_r in Es. apply negb_false_iff in Es. exact Es.
      - apply (Hinv i Hin Hm). }
    pose proof (Hp _ Hi) as E. unfold do_step at 1.
    destruct (p {| quoting := q; seen := o :: sn |}) as [r st']. cbn [snd] in E. subst st'.
    destruct r; cbn [do_steps do_step quoting seen snd]; rewrite remove_id_fresh by exact Eseen; reflexivity.
Qed.

Lemma printer_restores b : forall st, inv st -> snd (printer ismodel protected_body b st) = st.
Proof.
  induction b as [r|o inner IHi cont IHc]; intros st Hinv; [reflexivity|].
  cbn [printer]. pose proof (call_restores (printer ismodel protected_body inner) o st IHi Hinv) as E.
  destruct (call_with ismodel protected_body (printer ismodel protected_body inner) o st) as [r st1]. cbn [snd] in E. subst st1.
  destruct r; [reflexivity|]. apply IHc. exact Hinv.
Qed.

(* every call of hy-repr, whatever the printers do (return or raise at any depth, re-enter on any object),
   leaves _quoting and _seen as it found them; in particular a call from the idle state ends in the idle state *)
Theorem repr_state_restored o b st : inv st ->
  snd (hy_repr_call ismodel hy_repr_body o b st) = st.
Proof. rewrite hy_repr_body_is_protected. intros H. apply call_restores; [apply printer_restores|exact H]. Qed.

Corollary repr_idle_after_any_call o b :
  snd (hy_repr_call ismodel hy_repr_body o b {| quoting := false; seen := [] |}) = {| quoting := false; seen := [] |}.
Proof. apply repr_state_restored. intros i []. Qed.

(* without the protection the state leaks: the same steps in a straight line, a printer that raises *)
Example straight_line_leaks :
  snd (hy_repr_call (fun _ => true) (Straight [StartQuoting; ReturnIfSeen; AddSeen; CallPrinter; DiscardSeen; ResetQuoting])
                    7%nat (Done true) {| quoting := false; seen := [] |})
  = {| quoting := true; seen := [7%nat] |}.
Proof. reflexivity. Qed.

End Restore.
