(* C24: an f-string tree that meets the hypotheses of the theorems: f"a{{{x = !r :>{w}}" *)
From HyV Require Import Print.Syntax Print.Names Print.Reader Print.ModelRepr Print.ReaderFacts Print.StringFacts
     Print.AtomFacts Print.FStringFacts Print.FString Print.FStringRead Print.FStringAst Print.FStringTheorems.

Lemma field_tail_delim tail : field_tail tail -> delim_start tail.
Proof. destruct tail as [|c r]; [intros []|]. cbn. intros [H| ->]; [left; exact H|right; reflexivity]. Qed.

(* any symbol the reader reads back is a legitimate field expression *)
Lemma sym_expr_reads W s : sym_ok W s -> expr_reads W (MSym s) s.
Proof.
  intros Hs tail Ht. apply reads_one_of_form. apply (reads_intro W 1); [|discriminate]. rewrite rd_S. cbn [mode_rect].
  apply read_symbol; [exact Hs|apply field_tail_delim; exact Ht].
Qed.

Definition ps_example : list fpart :=
  [PLit [97; 123; 123] [97; 123] [97; 123];
   PField [] (MSym [120]) [120] [32] (Some [32]) (Some (114, [32])) true
          [PLit [62] [62] [62]; PField [] (MSym [119]) [119] [] None None false []]].

Lemma sym1_ok W c : num W [c] = NotNum -> ident_char c = true -> dispatch c = DDefault -> c <> ch_dot -> sym_ok W [c].
Proof.
  intros Hn Hi Hd Hne. split; [split; [cbn [forallb]; rewrite Hi; reflexivity|exact Hd]|].
  split; [exact Hn|left]. unfold mem. cbn [existsb]. rewrite orb_false_r. apply N.eqb_neq. congruence.
Qed.

Lemma example_parts_ok W : num W [120] = NotNum -> num W [119] = NotNum ->
  parts_ok W false [] ps_example /\ forallb convs_ok ps_example = true.
Proof.
  intros Hx Hw. split; [|reflexivity]. unfold ps_example. cbn [parts_ok]. split; [|split; [reflexivity|split; [|exact I]]].
  - cbn [lit_ok]. change [97; 123; 123] with ([97] ++ [123; 123] ++ []).
    change [97; 123] with ([97] ++ [123] ++ []) at 1. change [97; 123] with (97 :: 123 :: []).
    apply (RCons W [] [97] [97] 97).
    + apply (IShape W 97 [97]); [apply ShPlain; discriminate|reflexivity].
    + discriminate.
    + apply (RCons W ([] ++ [97]) [123; 123] [123] 123 [] [] []); [apply IOpen|reflexivity|apply RNil].
  - assert (Sx : expr_reads W (MSym [120]) [120])
      by (apply sym_expr_reads, sym1_ok; try assumption; try reflexivity; discriminate).
    assert (Sw : expr_reads W (MSym [119]) [119])
      by (apply sym_expr_reads, sym1_ok; try assumption; try reflexivity; discriminate).
    apply part_ok_field.
    refine (conj eq_refl (conj eq_refl (conj eq_refl (conj eq_refl (conj eq_refl (conj eq_refl (conj Sx (conj _ (conj _ _))))))))).
    + discriminate.
    + discriminate.
    + cbn [parts_ok lit_ok]. refine (conj (conj eq_refl (conj eq_refl eq_refl)) (conj eq_refl (conj _ I))).
      apply part_ok_field.
      refine (conj eq_refl (conj eq_refl (conj I (conj I (conj eq_refl (conj eq_refl (conj Sw (conj _ (conj _ I))))))))).
      * intros _. repeat split.
      * reflexivity.
Qed.
