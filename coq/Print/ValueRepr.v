(* Model of hy/core/hy_repr.hy on Python values of the documented types
   (property C27): finite trees [value], the printers registered for them,
   the same printers on a heap of objects with the _seen set (cycles), the model
   that a printed value denotes, and evaluation of such a model. *)
From HyV Require Import Print.Syntax Print.Names Print.ModelRepr.

Inductive vkind :=
| VkList | VkTuple | VkSet | VkFrozenset | VkDeque
| VkDict | VkOrderedDict | VkCounter            (* items: k1 v1 k2 v2 ... *)
| VkDefaultdict (factory : option text)         (* None, or the __name__ of a builtin class *)
| VkChainMap                                    (* items: the maps *)
| VkSlice.                                      (* items: start stop step *)

Inductive value :=
| VNone
| VBool (b : bool)
| VInt (z : Z)
| VFloat (f : fl)
| VComplex (re im : fl)
| VStr (s : text)
| VBytes (b : text)
| VBytearray (b : text)
| VKw (name : text)
| VFraction (n d : Z)
| VRange (start stop step : Z)
| VNode (k : vkind) (vs : list value).

Section ValueInd.
  Variable P : value -> Prop.
  Hypothesis Hatom : forall v, match v with VNode _ _ => True | _ => P v end.
  Hypothesis Hnode : forall k vs, Forall P vs -> P (VNode k vs).
  Fixpoint value_ind' (v : value) : P v :=
    match v as v0 return P v0 with
    | VNode k vs =>
        Hnode k vs ((fix go (l : list value) : Forall P l :=
                       match l with [] => Forall_nil _ | x :: r => Forall_cons x (value_ind' x) (go r) end) vs)
    | VNone => Hatom VNone | VBool b => Hatom (VBool b) | VInt z => Hatom (VInt z) | VFloat f => Hatom (VFloat f)
    | VComplex a b => Hatom (VComplex a b) | VStr s => Hatom (VStr s) | VBytes b => Hatom (VBytes b)
    | VBytearray b => Hatom (VBytearray b) | VKw s => Hatom (VKw s) | VFraction n d => Hatom (VFraction n d)
    | VRange a b c => Hatom (VRange a b c)
    end.
End ValueInd.

(* ---------------------------------------------------------------- formats (Gen) *)
Definition fmt_vlist : text := Eval vm_compute in lookup_text k_list repr_seq_formats.
Definition fmt_vset : text := Eval vm_compute in lookup_text k_set repr_seq_formats.
Definition fmt_frozenset : text := Eval vm_compute in lookup_text k_frozenset repr_seq_formats.
Definition fmt_deque : text := Eval vm_compute in lookup_text k_deque repr_seq_formats.
Definition fmt_ChainMap : text := Eval vm_compute in lookup_text k_ChainMap repr_formats.
Definition fmt_Counter : text := Eval vm_compute in lookup_text k_Counter repr_formats.
Definition fmt_OrderedDict : text := Eval vm_compute in lookup_text k_OrderedDict repr_formats.
Definition fmt_defaultdict : text := Eval vm_compute in lookup_text k_defaultdict repr_formats.
Definition fmt_Fraction : text := Eval vm_compute in lookup_text k_Fraction repr_formats.
Definition fmt_bytearray : text := Eval vm_compute in lookup_text k_bytearray repr_formats.

Fixpoint lookup_placeholder (k : text) (l : list (text * option text)) : text :=
  match l with
  | [] => dots3
  | (k', v) :: r => if text_eqb k k' then match v with Some p => p | None => dots3 end else lookup_placeholder k r
  end.

Definition type_key (k : vkind) : text :=
  match k with
  | VkList => k_list | VkTuple => k_tuple | VkSet => k_set | VkFrozenset => k_frozenset | VkDeque => k_deque
  | VkDict => k_dict | VkOrderedDict => k_OrderedDict | VkCounter => k_Counter | VkDefaultdict _ => k_defaultdict
  | VkChainMap => k_ChainMap | VkSlice => k_slice
  end.

(* what hy-repr returns for an object that is already being printed *)
Definition placeholder (k : vkind) : text := lookup_placeholder (type_key k) repr_registered.

(* ---------------------------------------------------------------- printers *)
Fixpoint pairs_of {A} (l : list A) : list (A * A) :=
  match l with
  | a :: b :: r => (a, b) :: pairs_of r
  | _ => []
  end.

Definition vdict_repr (rs : list text) : text :=
  [c_lc] ++ intersperse [ch_space; ch_space] (map (fun kv => fst kv ++ [ch_space] ++ snd kv) (pairs_of rs)) ++ [c_rc].

Definition vlist_repr (rs : list text) : text := fill_first fmt_vlist (cat rs).
Definition vtuple_repr (rs : list text) : text := [c_hash; c_lp] ++ cat rs ++ [c_rp].

Definition class_repr (name : text) : text := tx_class_open ++ name ++ tx_class_close.
Definition factory_repr (f : option text) : text := match f with None => s_None | Some n => class_repr n end.

(* the printer registered for range and slice, given the printed attributes and the two tests *)
Definition range_like (name : text) (step_default start_default : bool) (start stop step : text) : text :=
  [c_lp] ++ cat (name :: (if step_default then (if start_default then [stop] else [start; stop])
                          else [start; stop; step])) ++ [c_rp].

(* [nones]: which items are None (only the slice printer looks) *)
Definition vnode_repr (k : vkind) (nones : list bool) (rs : list text) : text :=
  match k with
  | VkList => vlist_repr rs
  | VkTuple => vtuple_repr rs
  | VkSet => fill_first fmt_vset (cat rs)
  | VkFrozenset => fill_first fmt_frozenset (cat rs)
  | VkDeque => fill_first fmt_deque (cat rs)
  | VkDict => vdict_repr rs
  | VkOrderedDict => format fmt_OrderedDict [vlist_repr (map (fun kv => vtuple_repr [fst kv; snd kv]) (pairs_of rs))]
  | VkCounter => format fmt_Counter [vdict_repr rs]
  | VkDefaultdict f => format fmt_defaultdict [factory_repr f; vdict_repr rs]
  | VkChainMap => format fmt_ChainMap [cat rs]
  | VkSlice => range_like k_slice (nth 2 nones false) (nth 0 nones false) (nth 0 rs []) (nth 1 rs []) (nth 2 rs [])
  end.

Definition is_none (v : value) : bool := match v with VNone => true | _ => false end.

Section VPrinter.
Variable W : oracle.

Definition atom_repr (v : value) : text :=
  match v with
  | VNone => s_None
  | VBool true => s_True
  | VBool false => s_False
  | VInt z => dec_Z z
  | VFloat f => hy_float W f
  | VComplex a b => hy_complex W a b
  | VStr s => hy_str W s
  | VBytes b => hy_bytes b
  | VBytearray b => format fmt_bytearray [hy_bytes b]
  | VKw s => c_colon :: s
  | VFraction n d => format fmt_Fraction [dec_Z n; dec_Z d]
  | VRange a b c => range_like k_range (Z.eqb c 1) (Z.eqb a 0) (dec_Z a) (dec_Z b) (dec_Z c)
  | VNode _ _ => []
  end.

Fixpoint vrepr (v : value) : text :=
  match v with
  | VNode k vs => vnode_repr k (map is_none vs) (map vrepr vs)
  | a => atom_repr a
  end.

(* ---------------------------------------------------------------- the same on a heap of objects *)
Inductive hv := HAtom (v : value) | HRef (i : nat).
Record cell := { ckind : vkind; citems : list hv }.
Definition heap := list cell.

Inductive hres := HOk (t : text) | HDangling | HOut.

Definition hv_is_none (x : hv) : bool := match x with HAtom VNone => true | _ => false end.

Fixpoint all_ok (l : list hres) : hres + list text :=
  match l with
  | [] => inr []
  | HOk t :: r => match all_ok r with inr ts => inr (t :: ts) | inl e => inl e end
  | e :: _ => inl e
  end.

(* hy-repr with its _seen set: [seen] = ids of the objects being printed *)
Fixpoint hrepr (fuel : nat) (h : heap) (seen : list nat) (x : hv) : hres :=
  match x with
  | HAtom v => HOk (atom_repr v)
  | HRef i =>
      match nth_error h i with
      | None => HDangling
      | Some c =>
          if existsb (Nat.eqb i) seen then HOk (placeholder (ckind c))
          else match fuel with
               | O => HOut
               | S f =>
                   match all_ok (map (hrepr f h (i :: seen)) (citems c)) with
                   | inr rs => HOk (vnode_repr (ckind c) (map hv_is_none (citems c)) rs)
                   | inl e => e
                   end
               end
      end
  end.

(* ---------------------------------------------------------------- the model a printed value denotes *)
Definition call (name : text) (args : list model) : model := MNode KExpr (MSym name :: args).

Fixpoint vmodel (v : value) : model :=
  match v with
  | VNone => MSym s_None
  | VBool true => MSym s_True
  | VBool false => MSym s_False
  | VInt z => MInt z
  | VFloat f => MFloat f
  | VComplex a b => MComplex a b
  | VStr s => MStr s None
  | VBytes b => MBytes b
  | VBytearray b => call k_bytearray [MBytes b]
  | VKw s => MKw s
  | VFraction n d => call k_Fraction [MInt n; MInt d]
  | VRange a b c =>
      call k_range (if Z.eqb c 1 then (if Z.eqb a 0 then [MInt b] else [MInt a; MInt b]) else [MInt a; MInt b; MInt c])
  | VNode k vs =>
      let ms := map vmodel vs in
      match k with
      | VkList => MNode KList ms
      | VkTuple => MNode KTuple ms
      | VkSet => MNode KSet ms
      | VkFrozenset => call k_frozenset [MNode KSet ms]
      | VkDeque => call n_deque [MNode KList ms]
      | VkDict => MNode KDict ms
      | VkOrderedDict => call n_OrderedDict [MNode KList (map (fun kv => MNode KTuple [fst kv; snd kv]) (pairs_of ms))]
      | VkCounter => call n_Counter [MNode KDict ms]
      | VkDefaultdict f =>
          call n_defaultdict [MSym (factory_repr f); MNode KDict ms]     (* only meaningful for factory None *)
      | VkChainMap => call n_ChainMap ms
      | VkSlice =>
          call k_slice (if nth 2 (map is_none vs) false
                        then (if nth 0 (map is_none vs) false then [nth 1 ms (MSym [])] else [nth 0 ms (MSym []); nth 1 ms (MSym [])])
                        else ms)
      end
  end.

End VPrinter.

(* ---------------------------------------------------------------- evaluation of a read-back form *)
(* hy.eval of a literal display or of a constructor call, in an environment that
   binds the constructor names to the classes.  Python's equality on keys is a parameter. *)
Section Eval.
Variable key_eq : value -> value -> bool.

Fixpoint set_add (acc : list value) (v : value) : list value :=
  match acc with
  | [] => [v]
  | x :: r => if key_eq x v then acc else x :: set_add r v
  end.
Definition set_of (vs : list value) : list value := fold_left set_add vs [].

(* flat k v list *)
Fixpoint dict_put (acc : list value) (k v : value) : list value :=
  match acc with
  | k' :: v' :: r => if key_eq k' k then k' :: v :: r else k' :: v' :: dict_put r k v
  | _ => [k; v]
  end.
Definition dict_of (kvs : list (value * value)) : list value :=
  fold_left (fun acc kv => dict_put acc (fst kv) (snd kv)) kvs [].

Definition is_mapping (v : value) : bool :=
  match v with
  | VNode VkDict _ | VNode VkOrderedDict _ | VNode VkCounter _ | VNode (VkDefaultdict _) _ | VNode VkChainMap _ => true
  | _ => false
  end.

Definition tuple_pair (v : value) : option (value * value) :=
  match v with VNode VkTuple [a; b] => Some (a, b) | _ => None end.

Fixpoint all_some_v {A} (l : list (option A)) : option (list A) :=
  match l with
  | [] => Some []
  | Some x :: r => match all_some_v r with Some t => Some (x :: t) | None => None end
  | None :: _ => None
  end.

Definition apply_ctor (name : text) (args : list value) : option value :=
  if text_eqb name k_Fraction then
    match args with
    | [VInt n; VInt d] =>
        if Z.eqb d 0 then None
        else let g := Z.gcd n d in
             let s := if Z.ltb d 0 then (-1)%Z else 1%Z in
             Some (VFraction (s * (n / g)) (s * (d / g)))
    | _ => None
    end
  else if text_eqb name k_range then
    match args with
    | [VInt b] => Some (VRange 0 b 1)
    | [VInt a; VInt b] => Some (VRange a b 1)
    | [VInt a; VInt b; VInt c] => if Z.eqb c 0 then None else Some (VRange a b c)
    | _ => None
    end
  else if text_eqb name k_slice then
    match args with
    | [b] => Some (VNode VkSlice [VNone; b; VNone])
    | [a; b] => Some (VNode VkSlice [a; b; VNone])
    | [a; b; c] => Some (VNode VkSlice [a; b; c])
    | _ => None
    end
  else if text_eqb name n_deque then
    match args with [VNode VkList l] => Some (VNode VkDeque l) | _ => None end
  else if text_eqb name k_frozenset then
    match args with [VNode VkSet l] => Some (VNode VkFrozenset l) | _ => None end
  else if text_eqb name k_bytearray then
    match args with [VBytes b] => Some (VBytearray b) | _ => None end
  else if text_eqb name n_OrderedDict then
    match args with
    | [VNode VkList l] => match all_some_v (map tuple_pair l) with
                          | Some kvs => Some (VNode VkOrderedDict (dict_of kvs))
                          | None => None
                          end
    | _ => None
    end
  else if text_eqb name n_Counter then
    match args with [VNode VkDict l] => Some (VNode VkCounter l) | _ => None end
  else if text_eqb name n_defaultdict then
    match args with [VNone; VNode VkDict l] => Some (VNode (VkDefaultdict None) l) | _ => None end
  else if text_eqb name n_ChainMap then
    if forallb is_mapping args
    then Some (VNode VkChainMap (match args with [] => [VNode VkDict []] | _ => args end))
    else None
  else None.

Fixpoint eval (m : model) : option value :=
  match m with
  | MSym s => if text_eqb s s_None then Some VNone
              else if text_eqb s s_True then Some (VBool true)
              else if text_eqb s s_False then Some (VBool false)
              else None
  | MKw s => Some (VKw s)
  | MInt z => Some (VInt z)
  | MFloat f => Some (VFloat f)
  | MComplex a b => Some (VComplex a b)
  | MStr s _ => Some (VStr s)
  | MBytes b => Some (VBytes b)
  | MNode k ms =>
      match k with
      | KList => match all_some_v (map eval ms) with Some vs => Some (VNode VkList vs) | None => None end
      | KTuple => match all_some_v (map eval ms) with Some vs => Some (VNode VkTuple vs) | None => None end
      | KSet => match all_some_v (map eval ms) with Some vs => Some (VNode VkSet (set_of vs)) | None => None end
      | KDict => match all_some_v (map eval ms) with
                 | Some vs => if Nat.even (length vs) then Some (VNode VkDict (dict_of (pairs_of vs))) else None
                 | None => None
                 end
      | KExpr => match ms with
                 | MSym f :: args =>
                     (* a keyword among the arguments of a call is a keyword-argument marker; none of the
                        constructors takes keyword arguments *)
                     if existsb (fun a => match a with MKw _ => true | _ => false end) args then None
                     else match all_some_v (map eval args) with
                                     | Some vs => apply_ctor f vs
                                     | None => None
                                     end
                 | _ => None
                 end
      | _ => None
      end
  end.

End Eval.
