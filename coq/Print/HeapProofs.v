(* C27 on object graphs: hy-repr with its _seen set terminates on every finite heap,
   prints the registered placeholder for an object that is already being printed, and
   agrees with the tree printer on objects that do not reach themselves. *)
From HyV Require Import Print.Syntax Print.Names Print.ModelRepr Print.ValueRepr.
From Coq Require Import Lia.

Section Heap.
Variable W : oracle.

Lemma all_ok_inl l e : all_ok l = inl e -> In e l /\ (forall t, e <> HOk t).
Proof.
  induction l as [|x l IH]; [discriminate|]. cbn [all_ok]. destruct x as [t| |].
  - destruct (all_ok l) as [e'|ts] eqn:E; [|discriminate]. intros H. injection H as ->.
    destruct (IH eq_refl) as [A B]. split; [right; exact A|exact B].
  - intros H. injection H as <-. split; [left; reflexivity|discriminate].
  - intros H. injection H as <-. split; [left; reflexivity|discriminate].
Qed.

Lemma seen_bound (seen : list nat) n : NoDup seen -> (forall i, In i seen -> (i < n)%nat) -> (length seen <= n)%nat.
Proof.
  intros Hnd Hb. rewrite <- (seq_length n 0). apply NoDup_incl_length; [exact Hnd|].
  intros i Hi. apply in_seq. specialize (Hb i Hi). lia.
Qed.

Lemma existsb_eqb_In i l : existsb (Nat.eqb i) l = true <-> In i l.
Proof.
  rewrite existsb_exists. split.
  - intros [x [Hx E]]. apply Nat.eqb_eq in E. subst. exact Hx.
  - intros H. exists i. split; [exact H|apply Nat.eqb_refl].
Qed.

(* every object is entered at most once along a path: the _seen set strictly grows, so
   as much fuel as there are objects not yet being printed, plus one, is enough *)
Theorem hrepr_terminates (h : heap) : forall fuel seen x,
  NoDup seen -> (forall i, In i seen -> (i < length h)%nat) ->
  (length h < fuel + length seen)%nat ->
  hrepr W fuel h seen x <> HOut.
Proof.
  induction fuel as [|f IH]; intros seen x Hnd Hb Hf.
  - destruct x as [v|i]; cbn [hrepr]; [discriminate|].
    destruct (nth_error h i) as [c|] eqn:E; [|discriminate].
    destruct (existsb (Nat.eqb i) seen) eqn:Es; [discriminate|].
    exfalso.
    assert (Hi : (i < length h)%nat) by (apply nth_error_Some; congruence).
    assert (Hnot : ~ In i seen) by (intros Hin; apply existsb_eqb_In in Hin; congruence).
    pose proof (seen_bound (i :: seen) (length h) (NoDup_cons i Hnot Hnd)) as Hl.
    cbn [length] in Hl. assert (S (length seen) <= length h)%nat; [|lia].
    apply Hl. intros j [<-|Hj]; [exact Hi|apply Hb; exact Hj].
  - destruct x as [v|i]; cbn [hrepr]; [discriminate|].
    destruct (nth_error h i) as [c|] eqn:E; [|discriminate].
    destruct (existsb (Nat.eqb i) seen) eqn:Es; [discriminate|].
    assert (Hi : (i < length h)%nat) by (apply nth_error_Some; congruence).
    assert (Hnot : ~ In i seen) by (intros Hin; apply existsb_eqb_In in Hin; congruence).
    destruct (all_ok (map (hrepr W f h (i :: seen)) (citems c))) as [e|rs] eqn:Ea; [|discriminate].
    destruct (all_ok_inl _ _ Ea) as [Hin _]. apply in_map_iff in Hin as [y [Hy _]]. rewrite <- Hy.
    apply IH.
    + apply NoDup_cons; assumption.
    + intros j [<-|Hj]; [exact Hi|apply Hb; exact Hj].
    + cbn [length]. lia.
Qed.

Corollary hy_repr_terminates h x : hrepr W (S (length h)) h [] x <> HOut.
Proof. apply hrepr_terminates; [constructor|intros i []|cbn [length]; lia]. Qed.

(* an object that is already being printed is replaced by the placeholder registered for its type *)
Theorem hrepr_placeholder h fuel seen i c :
  nth_error h i = Some c -> In i seen -> hrepr W fuel h seen (HRef i) = HOk (placeholder (ckind c)).
Proof.
  intros E Hin. apply existsb_eqb_In in Hin. destruct fuel; cbn [hrepr]; rewrite E, Hin; reflexivity.
Qed.

(* ---------------------------------------------------------------- objects that do not reach themselves *)
Definition is_atom (v : value) : Prop := match v with VNode _ _ => False | _ => True end.

(* x, met while the objects [seen] are being printed, unfolds to the finite tree v without meeting any of them *)
Inductive unfolds (h : heap) : list nat -> hv -> value -> Prop :=
| UAtom seen v : is_atom v -> unfolds h seen (HAtom v) v
| URef seen i c vs :
    nth_error h i = Some c -> ~ In i seen ->
    Forall2 (unfolds h (i :: seen)) (citems c) vs ->
    unfolds h seen (HRef i) (VNode (ckind c) vs).

Fixpoint depth (v : value) : nat :=
  match v with
  | VNode _ vs => S (fold_right (fun x a => Nat.max (depth x) a) O vs)
  | _ => O
  end.

Lemma depth_child vs v : In v vs -> (depth v <= fold_right (fun x a => Nat.max (depth x) a) O vs)%nat.
Proof.
  induction vs as [|y vs IH]; [intros []|]. intros [->|Hin]; cbn [fold_right]; [lia|]. specialize (IH Hin). lia.
Qed.

Lemma unfolds_none h seen x v : unfolds h seen x v -> hv_is_none x = is_none v.
Proof. intros H. destruct H as [seen v Ha|]; [destruct v; try reflexivity; destruct Ha|reflexivity]. Qed.

Lemma unfolds_node_inv h seen x k vs : unfolds h seen x (VNode k vs) ->
  exists i c, x = HRef i /\ nth_error h i = Some c /\ ~ In i seen /\ k = ckind c
              /\ Forall2 (unfolds h (i :: seen)) (citems c) vs.
Proof.
  intros H. inversion H; subst.
  - match goal with A : is_atom _ |- _ => destruct A end.
  - eexists _, _. repeat split; try eassumption; reflexivity.
Qed.

Theorem hrepr_tree h : forall v seen x, unfolds h seen x v ->
  forall fuel, (depth v <= fuel)%nat -> hrepr W fuel h seen x = HOk (vrepr W v).
Proof.
  apply (value_ind' (fun v => forall seen x, unfolds h seen x v ->
                               forall fuel, (depth v <= fuel)%nat -> hrepr W fuel h seen x = HOk (vrepr W v))).
  - intros v. destruct v; try exact I; intros seen x Hu fuel _; inversion Hu; subst; destruct fuel; reflexivity.
  - intros k vs IH seen x Hu fuel Hd.
    destruct (unfolds_node_inv _ _ _ _ _ Hu) as (i & c & -> & E & Hnot & -> & HF).
    cbn [depth] in Hd. destruct fuel as [|f]; [lia|]. cbn [hrepr]. rewrite E.
    replace (existsb (Nat.eqb i) seen) with false
      by (symmetry; apply not_true_iff_false; intros Hx; apply existsb_eqb_In in Hx; contradiction).
    assert (Hmap : map (hrepr W f h (i :: seen)) (citems c) = map (fun v => HOk (vrepr W v)) vs
                   /\ map hv_is_none (citems c) = map is_none vs).
    { assert (Hdep : forall v, In v vs -> (depth v <= f)%nat).
      { intros v Hin. pose proof (depth_child vs v Hin). lia. }
      clear Hd Hu E. induction HF as [|y v items vs0 Hy _ IHF]; [split; reflexivity|].
      inversion IH as [|? ? IHv IHvs]; subst.
      destruct (IHF IHvs (fun v0 H0 => Hdep v0 (or_intror H0))) as [A B].
      cbn [map]. rewrite A, B, (IHv _ _ Hy f (Hdep v (or_introl eq_refl))), (unfolds_none _ _ _ _ Hy).
      split; reflexivity. }
    destruct Hmap as [A B]. rewrite A, B.
    assert (Hall : forall l : list value, all_ok (map (fun v => HOk (vrepr W v)) l) = inr (map (vrepr W) l)).
    { induction l as [|y l IHl]; [reflexivity|]. cbn [map all_ok]. rewrite IHl. reflexivity. }
    rewrite Hall. reflexivity.
Qed.

End Heap.
