(* C27: concrete witnesses -- refutations of the full statement and an object meeting the hypotheses. *)
From HyV Require Import Print.Syntax Print.Names Print.Reader Print.ModelRepr Print.ValueRepr Print.TableOracle
     Print.ReaderFacts Print.StringFacts Print.AtomFacts Print.RoundTrip Print.ValueProofs Print.Ser.
From Coq Require Import Lia.

(* an oracle under which no token is a number; the witnesses below contain no numeric token *)
Definition W_plain : oracle := table_oracle [] [] [] [] [].

Definition v_defaultdict : value := VNode (VkDefaultdict (Some k_list)) [].
Definition v_slice_kw : value := VNode VkSlice [VKw [97]; VNone; VNone].

Lemma defaultdict_refuted :
  exists m, read_one W_plain (vrepr W_plain v_defaultdict) = ROne m [] /\ eval veqb m = None.
Proof. eexists. split; vm_compute; reflexivity. Qed.

Lemma slice_keyword_refuted :
  exists m, read_one W_plain (vrepr W_plain v_slice_kw) = ROne m [] /\ eval veqb m = None.
Proof. eexists. split; vm_compute; reflexivity. Qed.

Definition v_example : value :=
  VNode VkDict [VInt 1; VNode VkList [VStr [97; 34; 39]; VFloat FNaN];
                VStr [97]; VNode VkFrozenset [VFraction (-1) 2]].

Lemma example_wfv key_eq : key_eq (VInt 1) (VStr [97]) = false -> wfv key_eq v_example.
Proof.
  intros H. apply WfNode.
  - split; [reflexivity|]. cbn [evens keys_distinct]. repeat split; repeat constructor. exact H.
  - constructor; [constructor|]. constructor.
    { apply WfNode; [exact I|]. constructor; [|constructor; [constructor|constructor]].
      apply WfStr. repeat constructor. }
    constructor; [apply WfStr; repeat constructor|].
    constructor; [|constructor].
    apply WfNode; [cbn [shape_ok keys_distinct]; repeat split; constructor|].
    constructor; [|constructor]. apply WfFraction; [lia|reflexivity].
Qed.
