(* String and bytes literals: what hy-repr prints between the double quotes is read
   back (read_chars_until with quote_closing, then the unescaping) as the original content. *)
From HyV Require Import Print.Syntax Print.Names Print.Reader Print.ModelRepr Print.ReaderFacts.
From Coq Require Import Lia.

(* ---------------------------------------------------------------- hex digits *)
Lemma hexval_hexd d : d < 16 -> hexval (hexd d) = Some d.
Proof.
  intros H. unfold hexd, hexval. destruct (d <? 10) eqn:E.
  - apply N.ltb_lt in E.
    replace (48 <=? 48 + d) with true by (symmetry; apply N.leb_le; lia).
    replace (48 + d <=? 57) with true by (symmetry; apply N.leb_le; lia).
    cbn [andb]. f_equal. lia.
  - apply N.ltb_ge in E.
    replace (87 + d <=? 57) with false by (symmetry; apply N.leb_gt; lia).
    rewrite andb_false_r.
    replace (97 <=? 87 + d) with true by (symmetry; apply N.leb_le; lia).
    replace (87 + d <=? 102) with true by (symmetry; apply N.leb_le; lia).
    cbn [andb]. f_equal. lia.
Qed.

(* a character that neither closes nor escapes, is not a carriage return, and is ASCII *)
Definition inert (c : N) : bool := negb (N.eqb c c_bs) && negb (N.eqb c c_dq) && negb (N.eqb c c_cr) && (c <? 128)
                                   && negb (N.eqb c c_lc) && negb (N.eqb c c_rc).

Lemma hexd_inert d : d < 16 -> inert (hexd d) = true.
Proof.
  intros H. unfold hexd, inert. destruct (d <? 10) eqn:E; [apply N.ltb_lt in E|apply N.ltb_ge in E].
  - repeat (apply andb_true_intro; split); try (apply negb_true_iff, N.eqb_neq; unfold c_bs, c_dq, c_cr, c_lc, c_rc; lia).
    apply N.ltb_lt; lia.
  - repeat (apply andb_true_intro; split); try (apply negb_true_iff, N.eqb_neq; unfold c_bs, c_dq, c_cr, c_lc, c_rc; lia).
    apply N.ltb_lt; lia.
Qed.

Lemma hex_fixed_inert k n : forallb inert (hex_fixed k n) = true.
Proof.
  revert n. induction k as [|k IH]; intros n; [reflexivity|]. cbn [hex_fixed].
  rewrite forallb_app, IH. simpl. rewrite hexd_inert; [reflexivity|]. apply N.mod_lt. discriminate.
Qed.

Lemma take_hex_app k : forall j n t acc, n < 16 ^ N.of_nat k ->
  take_hex (k + j) (hex_fixed k n ++ t) acc = take_hex j t (acc * 16 ^ N.of_nat k + n).
Proof.
  induction k as [|k IH]; intros j n t acc H.
  - simpl in *. assert (n = 0) by lia. subst. f_equal. lia.
  - cbn [hex_fixed]. rewrite <- app_assoc.
    assert (Hk : N.of_nat (S k) = N.succ (N.of_nat k)) by lia. rewrite Hk in *. rewrite N.pow_succ_r' in *.
    replace (S k + j)%nat with (k + S j)%nat by lia.
    assert (Hd : n / 16 < 16 ^ N.of_nat k) by (apply N.div_lt_upper_bound; lia).
    rewrite IH by exact Hd. cbn [take_hex app].
    rewrite hexval_hexd by (apply N.mod_lt; discriminate).
    f_equal. pose proof (N.div_mod n 16 ltac:(discriminate)). lia.
Qed.

Lemma take_hex_fixed k n t : n < 16 ^ N.of_nat k -> take_hex k (hex_fixed k n ++ t) 0 = Some (n, t).
Proof.
  intros H. replace k with (k + 0)%nat at 1 by lia. rewrite take_hex_app by exact H. rewrite N.mul_0_l, N.add_0_l. reflexivity.
Qed.

(* ---------------------------------------------------------------- the scanning loop *)
Lemma cu_step cl fm raw st nm acc c r :
  (fm = false \/ (c <> c_lc /\ c <> c_rc)) ->
  chars_until cl fm raw st nm acc (c :: r) =
  match close_step cl st c with
  | ClErr => CUErr ELex
  | ClClosed n => CUDone (rev (skipn n (c :: acc))) true r st
  | ClCont st' => chars_until cl fm raw st' nm (c :: acc) r
  end.
Proof.
  intros H. cbn [chars_until]. destruct (close_step cl st c); try reflexivity.
  destruct H as [->|[H1 H2]]; [reflexivity|].
  apply N.eqb_neq in H1, H2. rewrite H1, H2, !andb_false_r. reflexivity.
Qed.

Lemma inert_parts c : inert c = true ->
  c <> c_bs /\ c <> c_dq /\ c <> c_cr /\ c < 128 /\ c <> c_lc /\ c <> c_rc.
Proof.
  unfold inert. intros H.
  apply andb_prop in H as [H H6]. apply andb_prop in H as [H H5]. apply andb_prop in H as [H H4].
  apply andb_prop in H as [H H3]. apply andb_prop in H as [H1 H2].
  apply negb_true_iff, N.eqb_neq in H1, H2, H3, H5, H6. apply N.ltb_lt in H4. tauto.
Qed.

Lemma qstep_plain raw bytes c : c <> c_bs -> c <> c_dq ->
  close_step (CQuote raw bytes) (StQuote false) c = ClCont (StQuote false).
Proof.
  intros H1 H2. apply N.eqb_neq in H1, H2. unfold close_step. rewrite H1, H2. reflexivity.
Qed.

Lemma qstep_bs raw bytes e : close_step (CQuote raw bytes) (StQuote e) c_bs = ClCont (StQuote (negb e)).
Proof. reflexivity. Qed.

Lemma qstep_esc bytes c : c <> c_bs -> escape_ok bytes c = true ->
  close_step (CQuote false bytes) (StQuote true) c = ClCont (StQuote false).
Proof.
  intros H1 H2. apply N.eqb_neq in H1. unfold close_step. rewrite H1, H2, andb_false_r. reflexivity.
Qed.

Lemma scan_inert raw bytes fm nm t : forall acc tail, forallb inert t = true ->
  chars_until (CQuote raw bytes) fm raw (StQuote false) nm acc (t ++ tail)
  = chars_until (CQuote raw bytes) fm raw (StQuote false) nm (rev t ++ acc) tail.
Proof.
  induction t as [|c t IH]; intros acc tail H; [reflexivity|].
  simpl in H. apply andb_prop in H as [Hc H]. destruct (inert_parts c Hc) as (A & B & _ & _ & C & D).
  cbn [app]. rewrite cu_step by (right; split; assumption). rewrite qstep_plain by assumption.
  rewrite IH by exact H. cbn [rev]. rewrite <- app_assoc. reflexivity.
Qed.

(* ---------------------------------------------------------------- shapes of one printed character *)
Inductive eshape (bytes : bool) (c : N) : text -> Prop :=
| ShPlain : c <> c_bs -> c <> c_dq -> c <> c_cr -> (bytes = true -> c < 128) -> eshape bytes c [c]
| ShSimple e : simple_escape e = Some c -> mem e [92; 39; 34; 116; 110; 114; 97; 98; 102; 118] = true -> eshape bytes c [c_bs; e]
| ShX : c < 256 -> eshape bytes c (esc_x c)
| ShU : bytes = false -> c < 65536 -> eshape bytes c (esc_u c)
| ShUU : bytes = false -> c < 1114112 -> eshape bytes c (esc_U c).

Lemma mem6 e : mem e [92; 39; 34; 116; 110; 114; 97; 98; 102; 118] = true ->
  e = 92 \/ e = 39 \/ e = 34 \/ e = 116 \/ e = 110 \/ e = 114 \/ e = 97 \/ e = 98 \/ e = 102 \/ e = 118.
Proof.
  intros H. apply mem_In in H. simpl in H. intuition.
Qed.

Section Str.
Variable W : oracle.

Lemma shape_scan bytes c t nm : eshape bytes c t -> forall acc tail,
  chars_until (CQuote false bytes) false false (StQuote false) nm acc (t ++ tail)
  = chars_until (CQuote false bytes) false false (StQuote false) nm (rev t ++ acc) tail.
Proof.
  intros Hs acc tail. destruct Hs as [A B _ _|e He Hm|Hc|Hb Hc|Hb Hc].
  - cbn [app]. rewrite cu_step by (left; reflexivity). rewrite qstep_plain by assumption. reflexivity.
  - cbn [app]. rewrite cu_step by (left; reflexivity). rewrite qstep_bs. cbn [negb].
    rewrite cu_step by (left; reflexivity).
    destruct (mem6 e Hm) as [->|[->|[->|[->|[->|[->|[->|[->|[->| ->]]]]]]]]]; destruct bytes; reflexivity.
  - unfold esc_x. cbn [app]. rewrite cu_step by (left; reflexivity). rewrite qstep_bs. cbn [negb].
    rewrite cu_step by (left; reflexivity). rewrite qstep_esc by (try discriminate; destruct bytes; reflexivity).
    rewrite scan_inert by apply hex_fixed_inert. cbn [rev app]. rewrite <- !app_assoc. reflexivity.
  - subst. unfold esc_u. cbn [app]. rewrite cu_step by (left; reflexivity). rewrite qstep_bs. cbn [negb].
    rewrite cu_step by (left; reflexivity). rewrite qstep_esc by (try discriminate; reflexivity).
    rewrite scan_inert by apply hex_fixed_inert. cbn [rev app]. rewrite <- !app_assoc. reflexivity.
  - subst. unfold esc_U. cbn [app]. rewrite cu_step by (left; reflexivity). rewrite qstep_bs. cbn [negb].
    rewrite cu_step by (left; reflexivity). rewrite qstep_esc by (try discriminate; reflexivity).
    rewrite scan_inert by apply hex_fixed_inert. cbn [rev app]. rewrite <- !app_assoc. reflexivity.
Qed.

End Str.

Section Str2.
Variable W : oracle.

Lemma shape_nonempty bytes c t : eshape bytes c t -> t <> [].
Proof. intros H. destruct H; discriminate. Qed.

(* no carriage return is printed raw, so newline normalisation leaves the text alone *)
Definition no_cr (t : text) : bool := forallb (fun c => negb (N.eqb c c_cr)) t.

Lemma norm_newlines_app t u : no_cr t = true -> norm_newlines (t ++ u) = t ++ norm_newlines u.
Proof.
  induction t as [|c t IH]; intros H; [reflexivity|]. simpl in H. apply andb_prop in H as [Hc H].
  apply negb_true_iff in Hc. cbn [app norm_newlines]. rewrite Hc, IH by exact H. reflexivity.
Qed.

Lemma inert_no_cr t : forallb inert t = true -> no_cr t = true.
Proof.
  induction t as [|c t IH]; intros H; [reflexivity|]. simpl in *. apply andb_prop in H as [Hc H].
  destruct (inert_parts c Hc) as (_ & _ & A & _). apply N.eqb_neq in A. rewrite A, IH by exact H. reflexivity.
Qed.

Lemma shape_no_cr bytes c t : eshape bytes c t -> no_cr t = true.
Proof.
  intros H. destruct H as [_ _ A _|e He Hm|Hc|Hb Hc|Hb Hc].
  - simpl. apply N.eqb_neq in A. rewrite A. reflexivity.
  - destruct (mem6 e Hm) as [->|[->|[->|[->|[->|[->|[->|[->|[->| ->]]]]]]]]]; reflexivity.
  - unfold esc_x. cbn [no_cr forallb]. fold (no_cr (hex_fixed 2 c)). rewrite inert_no_cr by apply hex_fixed_inert. reflexivity.
  - unfold esc_u. cbn [no_cr forallb]. fold (no_cr (hex_fixed 4 c)). rewrite inert_no_cr by apply hex_fixed_inert. reflexivity.
  - unfold esc_U. cbn [no_cr forallb]. fold (no_cr (hex_fixed 8 c)). rewrite inert_no_cr by apply hex_fixed_inert. reflexivity.
Qed.

Definition asciib (t : text) : bool := forallb (fun c => c <? 128) t.

Lemma inert_ascii t : forallb inert t = true -> asciib t = true.
Proof.
  induction t as [|c t IH]; intros H; [reflexivity|]. simpl in *. apply andb_prop in H as [Hc H].
  destruct (inert_parts c Hc) as (_ & _ & _ & A & _). apply N.ltb_lt in A. rewrite A, IH by exact H. reflexivity.
Qed.

Lemma shape_ascii c t : eshape true c t -> asciib t = true.
Proof.
  intros H. destruct H as [_ _ _ A|e He Hm|Hc|Hb Hc|Hb Hc]; try discriminate.
  - simpl. specialize (A eq_refl). apply N.ltb_lt in A. rewrite A. reflexivity.
  - destruct (mem6 e Hm) as [->|[->|[->|[->|[->|[->|[->|[->|[->| ->]]]]]]]]]; reflexivity.
  - unfold esc_x. cbn [asciib forallb]. fold (asciib (hex_fixed 2 c)). rewrite inert_ascii by apply hex_fixed_inert. reflexivity.
Qed.

(* one printed character is unescaped to the character *)
Lemma shape_unescape bytes c t : eshape bytes c t -> forall f u,
  unescape W bytes (S f) (t ++ u) = match unescape W bytes f u with Some x => Some (c :: x) | None => None end.
Proof.
  intros H f u. destruct H as [A _ _ _|e He Hm|Hc|Hb Hc|Hb Hc].
  - apply N.eqb_neq in A. cbn [app unescape]. rewrite A. reflexivity.
  - cbn [app unescape]. change (N.eqb c_bs c_bs) with true. cbv iota.
    destruct (mem6 e Hm) as [->|[->|[->|[->|[->|[->|[->|[->|[->| ->]]]]]]]]]; cbv in He; inversion He; subst; reflexivity.
  - unfold esc_x. cbn [app unescape]. change (N.eqb c_bs c_bs) with true. cbv iota.
    change (N.eqb 120 c_nl) with false. change (simple_escape 120) with (@None N). change (octval 120) with (@None N).
    change (N.eqb 120 120) with true. cbv iota.
    rewrite take_hex_fixed by (simpl; lia). reflexivity.
  - subst. unfold esc_u. cbn [app unescape]. change (N.eqb c_bs c_bs) with true. cbv iota.
    change (N.eqb 117 c_nl) with false. change (simple_escape 117) with (@None N). change (octval 117) with (@None N).
    change (N.eqb 117 120) with false. change (negb false && N.eqb 117 117) with true. cbv iota.
    rewrite take_hex_fixed by (simpl; lia). reflexivity.
  - subst. unfold esc_U. cbn [app unescape]. change (N.eqb c_bs c_bs) with true. cbv iota.
    change (N.eqb 85 c_nl) with false. change (simple_escape 85) with (@None N). change (octval 85) with (@None N).
    change (N.eqb 85 120) with false. change (negb false && N.eqb 85 117) with false.
    change (negb false && N.eqb 85 85) with true. cbv iota.
    rewrite take_hex_fixed by (simpl; lia). apply N.ltb_lt in Hc. rewrite Hc. reflexivity.
Qed.

(* ---------------------------------------------------------------- a whole body *)
Variable bytes : bool.
Variable esc : N -> text.

Lemma body_scan s : Forall (fun c => eshape bytes c (esc c)) s -> forall nm acc tail,
  chars_until (CQuote false bytes) false false (StQuote false) nm acc (flat_map esc s ++ tail)
  = chars_until (CQuote false bytes) false false (StQuote false) nm (rev (flat_map esc s) ++ acc) tail.
Proof.
  induction 1 as [|c s Hc _ IH]; intros nm acc tail; [reflexivity|].
  cbn [flat_map]. rewrite <- app_assoc, (shape_scan bytes c _ nm Hc), IH, rev_app_distr, <- app_assoc. reflexivity.
Qed.

Lemma body_no_cr s : Forall (fun c => eshape bytes c (esc c)) s -> no_cr (flat_map esc s) = true.
Proof.
  induction 1 as [|c s Hc _ IH]; [reflexivity|]. cbn [flat_map]. unfold no_cr. rewrite forallb_app.
  fold (no_cr (esc c)). fold (no_cr (flat_map esc s)). rewrite IH, (shape_no_cr _ _ _ Hc). reflexivity.
Qed.

Lemma body_unescape s : Forall (fun c => eshape bytes c (esc c)) s -> forall f, (length s <= f)%nat ->
  unescape W bytes f (flat_map esc s) = Some s.
Proof.
  induction 1 as [|c s Hc _ IH]; intros f Hf.
  - destruct f; reflexivity.
  - destruct f as [|f]; [simpl in Hf; lia|]. cbn [flat_map].
    rewrite (shape_unescape _ _ _ Hc), IH by (simpl in Hf; lia). reflexivity.
Qed.

Lemma body_length s : Forall (fun c => eshape bytes c (esc c)) s -> (length s <= length (flat_map esc s))%nat.
Proof.
  induction 1 as [|c s Hc _ IH]; [reflexivity|]. cbn [flat_map]. rewrite app_length.
  pose proof (shape_nonempty _ _ _ Hc). destruct (esc c); [congruence|]. simpl. lia.
Qed.

End Str2.

Lemma body_ascii esc s : Forall (fun c => eshape true c (esc c)) s -> asciib (flat_map esc s) = true.
Proof.
  induction 1 as [|c s Hc _ IH]; [reflexivity|]. cbn [flat_map]. unfold asciib. rewrite forallb_app.
  fold (asciib (esc c)). fold (asciib (flat_map esc s)). rewrite IH, (shape_ascii _ _ Hc). reflexivity.
Qed.

(* ---------------------------------------------------------------- what hy-repr prints for str and bytes *)
Lemma replace_c_none a b t : forallb (fun c => negb (N.eqb c a)) t = true -> replace_c a b t = t.
Proof.
  induction t as [|c t IH]; intros H; [reflexivity|]. simpl in H. apply andb_prop in H as [Hc H].
  apply negb_true_iff in Hc. unfold replace_c in *. cbn [flat_map]. rewrite Hc, IH by exact H. reflexivity.
Qed.

Lemma replace_c_flat_map a b (f : N -> text) s :
  replace_c a b (flat_map f s) = flat_map (fun c => replace_c a b (f c)) s.
Proof.
  induction s as [|c s IH]; [reflexivity|]. cbn [flat_map]. unfold replace_c in *. rewrite flat_map_app, IH. reflexivity.
Qed.

Lemma inert_no_dq t : forallb inert t = true -> forallb (fun c => negb (N.eqb c c_dq)) t = true.
Proof.
  induction t as [|c t IH]; intros H; [reflexivity|]. simpl in *. apply andb_prop in H as [Hc H].
  destruct (inert_parts c Hc) as (_ & A & _). apply N.eqb_neq in A. rewrite A, IH by exact H. reflexivity.
Qed.

Lemma esc_x_no_dq c : replace_c c_dq [c_bs; c_dq] (esc_x c) = esc_x c.
Proof. apply replace_c_none. unfold esc_x. cbn [forallb]. rewrite inert_no_dq by apply hex_fixed_inert. reflexivity. Qed.
Lemma esc_u_no_dq c : replace_c c_dq [c_bs; c_dq] (esc_u c) = esc_u c.
Proof. apply replace_c_none. unfold esc_u. cbn [forallb]. rewrite inert_no_dq by apply hex_fixed_inert. reflexivity. Qed.
Lemma esc_U_no_dq c : replace_c c_dq [c_bs; c_dq] (esc_U c) = esc_U c.
Proof. apply replace_c_none. unfold esc_U. cbn [forallb]. rewrite inert_no_dq by apply hex_fixed_inert. reflexivity. Qed.

Section HyStr.
Variable W : oracle.

(* one character of the text between the double quotes *)
Definition hy_esc (q c : N) : text := replace_c c_dq [c_bs; c_dq] (py_esc_str W q c).
Definition hy_esc_b (q c : N) : text := replace_c c_dq [c_bs; c_dq] (py_esc_bytes q c).

Lemma py_quote_cases s : (py_quote s = c_sq) \/ (py_quote s = c_dq /\ mem c_dq s = false).
Proof.
  unfold py_quote. destruct (mem c_sq s); simpl; [|left; reflexivity].
  destruct (mem c_dq s); simpl; [left; reflexivity|right; split; reflexivity].
Qed.

Lemma single_dq_or_not c : replace_c c_dq [c_bs; c_dq] [c] = if N.eqb c c_dq then [c_bs; c_dq] else [c].
Proof. unfold replace_c. simpl. destruct (N.eqb c c_dq); reflexivity. Qed.

Lemma hy_esc_shape q c : c < 1114112 -> (q = c_sq \/ (q = c_dq /\ c <> c_dq)) -> eshape false c (hy_esc q c).
Proof.
  intros Hv Hq. unfold hy_esc, py_esc_str.
  destruct (N.eqb c q || N.eqb c c_bs) eqn:E1.
  { (* the quote character or the backslash *)
    assert (Hc : c = c_sq \/ c = c_bs).
    { apply orb_prop in E1 as [E|E]; apply N.eqb_eq in E; [|right; exact E].
      destruct Hq as [->|[-> Hn]]; [left; exact E|congruence]. }
    destruct Hc as [->| ->]; apply (ShSimple false _ _); reflexivity. }
  apply orb_false_elim in E1 as [E1 E2]. apply N.eqb_neq in E1, E2.
  destruct (N.eqb c 9) eqn:E3; [apply N.eqb_eq in E3; subst; apply (ShSimple false 9 116); reflexivity|].
  destruct (N.eqb c 10) eqn:E4; [apply N.eqb_eq in E4; subst; apply (ShSimple false 10 110); reflexivity|].
  destruct (N.eqb c 13) eqn:E5; [apply N.eqb_eq in E5; subst; apply (ShSimple false 13 114); reflexivity|].
  apply N.eqb_neq in E3, E4, E5.
  destruct ((c <? 32) || N.eqb c 127) eqn:E6.
  { rewrite esc_x_no_dq. apply ShX. apply orb_prop in E6 as [E|E]; [apply N.ltb_lt in E|apply N.eqb_eq in E]; lia. }
  apply orb_false_elim in E6 as [E6 E7]. apply N.ltb_ge in E6. apply N.eqb_neq in E7.
  destruct (c <? 127) eqn:E8.
  { rewrite single_dq_or_not. destruct (N.eqb c c_dq) eqn:E9.
    - apply N.eqb_eq in E9. subst. apply (ShSimple false _ 34); reflexivity.
    - apply N.eqb_neq in E9. apply ShPlain; try assumption; try (unfold c_cr; lia); discriminate. }
  apply N.ltb_ge in E8.
  destruct (isprintable W c).
  { rewrite single_dq_or_not. replace (N.eqb c c_dq) with false by (symmetry; apply N.eqb_neq; unfold c_dq; lia).
    apply ShPlain; unfold c_bs, c_dq, c_cr; try lia; discriminate. }
  destruct (c <? 256) eqn:E10; [apply N.ltb_lt in E10; rewrite esc_x_no_dq; apply ShX; exact E10|].
  destruct (c <? 65536) eqn:E11; [apply N.ltb_lt in E11; rewrite esc_u_no_dq; apply ShU; [reflexivity|exact E11]|].
  rewrite esc_U_no_dq. apply ShUU; [reflexivity|exact Hv].
Qed.

Lemma hy_esc_b_shape q c : c < 256 -> (q = c_sq \/ (q = c_dq /\ c <> c_dq)) -> eshape true c (hy_esc_b q c).
Proof.
  intros Hv Hq. unfold hy_esc_b, py_esc_bytes.
  destruct (N.eqb c q || N.eqb c c_bs) eqn:E1.
  { assert (Hc : c = c_sq \/ c = c_bs).
    { apply orb_prop in E1 as [E|E]; apply N.eqb_eq in E; [|right; exact E].
      destruct Hq as [->|[-> Hn]]; [left; exact E|congruence]. }
    destruct Hc as [->| ->]; apply (ShSimple true _ _); reflexivity. }
  apply orb_false_elim in E1 as [E1 E2]. apply N.eqb_neq in E1, E2.
  destruct (N.eqb c 9) eqn:E3; [apply N.eqb_eq in E3; subst; apply (ShSimple true 9 116); reflexivity|].
  destruct (N.eqb c 10) eqn:E4; [apply N.eqb_eq in E4; subst; apply (ShSimple true 10 110); reflexivity|].
  destruct (N.eqb c 13) eqn:E5; [apply N.eqb_eq in E5; subst; apply (ShSimple true 13 114); reflexivity|].
  apply N.eqb_neq in E3, E4, E5.
  destruct ((c <? 32) || (127 <=? c)) eqn:E6.
  { rewrite esc_x_no_dq. apply ShX. exact Hv. }
  apply orb_false_elim in E6 as [E6 E7]. apply N.ltb_ge in E6. apply N.leb_gt in E7.
  rewrite single_dq_or_not. destruct (N.eqb c c_dq) eqn:E9.
  - apply N.eqb_eq in E9. subst. apply (ShSimple true _ 34); reflexivity.
  - apply N.eqb_neq in E9. apply ShPlain; try assumption; try (unfold c_cr; lia); intros _; lia.
Qed.

End HyStr.

Section ReadStr.
Variable W : oracle.

Definition valid_text (s : text) : Prop := Forall (fun c => c < 1114112) s.
Definition valid_bytes (s : text) : Prop := Forall (fun c => c < 256) s.

Lemma starts_with_long (r : text) c : (2 <= length r)%nat -> starts_with r [c] = false.
Proof.
  destruct r as [|a [|b r]]; simpl; intros H; try lia. all: try (destruct (N.eqb a c); reflexivity).
Qed.

Lemma hy_str_eq s : hy_str W s = c_dq :: flat_map (hy_esc W (py_quote s)) s ++ [c_dq].
Proof.
  unfold hy_str, hy_quoted, py_str_repr. set (q := py_quote s). set (X := flat_map (py_esc_str W q) s).
  assert (Hl : lstrip_ub (q :: X ++ [q]) = q :: X ++ [q]).
  { destruct (py_quote_cases s) as [E|[E _]]; fold q in E; rewrite E; reflexivity. }
  rewrite Hl. rewrite starts_with_long by (simpl; rewrite app_length; simpl; lia).
  unfold cut_1_m1. cbn [tl app]. rewrite removelast_last. unfold X. rewrite replace_c_flat_map. reflexivity.
Qed.

Lemma hy_bytes_eq b : hy_bytes b = 98 :: c_dq :: flat_map (hy_esc_b (py_quote b)) b ++ [c_dq].
Proof.
  unfold hy_bytes, hy_quoted, py_bytes_repr. set (q := py_quote b). set (X := flat_map (py_esc_bytes q) b).
  assert (Hl : lstrip_ub (98 :: q :: X ++ [q]) = q :: X ++ [q]).
  { destruct (py_quote_cases b) as [E|[E _]]; fold q in E; rewrite E; reflexivity. }
  rewrite Hl. rewrite starts_with_long by (simpl; rewrite app_length; simpl; lia).
  unfold cut_1_m1. cbn [tl app]. rewrite removelast_last. unfold X. rewrite replace_c_flat_map. reflexivity.
Qed.

Lemma quote_side s c : In c s -> py_quote s = c_sq \/ (py_quote s = c_dq /\ c <> c_dq).
Proof.
  intros Hin. destruct (py_quote_cases s) as [E|[E Hn]]; [left; exact E|right]. split; [exact E|].
  intros ->. apply mem_In in Hin. congruence.
Qed.

Lemma str_shapes s : valid_text s -> Forall (fun c => eshape false c (hy_esc W (py_quote s) c)) s.
Proof.
  intros Hv. apply Forall_forall. intros c Hin. apply hy_esc_shape.
  - unfold valid_text in Hv. rewrite Forall_forall in Hv. apply Hv; exact Hin.
  - apply quote_side; exact Hin.
Qed.

Lemma bytes_shapes b : valid_bytes b -> Forall (fun c => eshape true c (hy_esc_b (py_quote b) c)) b.
Proof.
  intros Hv. apply Forall_forall. intros c Hin. apply hy_esc_b_shape.
  - unfold valid_bytes in Hv. rewrite Forall_forall in Hv. apply Hv; exact Hin.
  - apply quote_side; exact Hin.
Qed.

(* the quoted body is scanned up to the closing quote and decoded to the content *)
Lemma read_quoted rec bytes esc s rest :
  Forall (fun c => eshape bytes c (esc c)) s ->
  read_string_body W rec (CQuote false bytes) false bytes FmNone None (flat_map esc s ++ c_dq :: rest)
  = RForm (Some (if bytes then MBytes s else MStr s None)) rest.
Proof.
  intros Hs. unfold read_string_body. cbn [init_state].
  rewrite (body_scan bytes esc s Hs), app_nil_r.
  rewrite cu_step by (left; reflexivity). change (close_step (CQuote false bytes) (StQuote false) c_dq) with (ClClosed 1).
  cbn [skipn]. rewrite rev_involutive.
  unfold decode.
  assert (Hn : norm_newlines (flat_map esc s) = flat_map esc s).
  { rewrite <- (app_nil_r (flat_map esc s)) at 1. rewrite norm_newlines_app by (apply (body_no_cr bytes); exact Hs).
    simpl. apply app_nil_r. }
  rewrite Hn.
  assert (Ha : (bytes && negb (forallb (fun c => c <? 128) (flat_map esc s))) = false).
  { destruct bytes; [|reflexivity]. pose proof (body_ascii esc s Hs) as A. unfold asciib in A. rewrite A. reflexivity. }
  rewrite Ha. cbv iota.
  rewrite (body_unescape W bytes esc s Hs) by (pose proof (body_length bytes esc s Hs); lia).
  destruct bytes; reflexivity.
Qed.

Lemma dq_not_ws : is_ws c_dq = false. Proof. reflexivity. Qed.

Lemma read_hy_str rec s rest : valid_text s ->
  form_body W rec (hy_str W s ++ rest) = RForm (Some (MStr s None)) rest.
Proof.
  intros Hv. rewrite hy_str_eq. unfold form_body. cbn [app]. rewrite skip_ws_nonws by reflexivity.
  change (dispatch c_dq) with DString. rewrite <- app_assoc. cbn [app].
  apply (read_quoted rec false). apply str_shapes; exact Hv.
Qed.

Lemma read_hy_bytes rec b rest : valid_bytes b ->
  form_body W rec (hy_bytes b ++ rest) = RForm (Some (MBytes b)) rest.
Proof.
  intros Hv. rewrite hy_bytes_eq. unfold form_body. cbn [app]. rewrite skip_ws_nonws by reflexivity.
  change (dispatch 98) with DDefault. unfold default_body. unfold span_ident. rewrite span_none by reflexivity.
  change (N.eqb c_dq c_dq) with true. cbv iota.
  change (prefix_flags [98]) with (Some (false, true, FmNone)). cbv iota beta.
  rewrite <- app_assoc. cbn [app].
  apply (read_quoted rec true). apply bytes_shapes; exact Hv.
Qed.

End ReadStr.
