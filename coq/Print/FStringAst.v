(* C24: the JoinedStr tree that Hy builds for an f-string (reader, FString.__new__, compile_fstring /
   compile_fcomponent) and the one Python's rules prescribe for the same f-string tree; they format to the
   same string for every assignment of values and every formatting function. *)
From HyV Require Import Print.Syntax Print.Names Print.Reader Print.ModelRepr Print.ReaderFacts Print.StringFacts
     Print.AtomFacts Print.FStringFacts Print.FString Print.FStringRead.
From Coq Require Import Lia.

(* ast.JoinedStr values: Constant | FormattedValue(value, conversion, format_spec).  The embedded
   expression is kept as the Hy form it was written as. *)
Inductive jnode :=
| JConst (s : text)
| JFormatted (e : model) (conv : option N) (spec : option (list jnode)).

Definition conv_valid (c : option N) : bool :=
  match c with None => true | Some x => N.eqb x 115 || N.eqb x 114 || N.eqb x 97 end.     (* s r a *)

(* compile_fstring / compile_fcomponent on the components of an FString model; None = a Hy syntax error
   (invalid conversion character) or a component that is neither a String nor an FComponent *)
Fixpoint compile_comp (m : model) : option jnode :=
  match m with
  | MStr s _ => Some (JConst s)
  | MNode (KFComp conv _) (x0 :: rest) =>
      if conv_valid conv then
        match all_some (map compile_comp rest) with
        | Some els => Some (JFormatted x0 conv (match els with [] => None | _ => Some els end))
        | None => None
        end
      else None
  | _ => None
  end.

Definition compile_comps (cs : list model) : option (list jnode) := all_some (map compile_comp cs).

Definition compile_fstring (m : model) : option (list jnode) :=
  match m with
  | MNode (KFStr _ false) comps => compile_comps comps
  | _ => None
  end.

(* Python's rules for the same tree: literal text gives a Constant; a field gives a FormattedValue, preceded by
   the Constant of its text when it has the debugging =, which also makes the conversion r unless a conversion
   or a format spec is written; a written format spec is a JoinedStr even when empty *)
Fixpoint py_part (p : fpart) : list jnode :=
  match p with
  | PLit _ _ v => [JConst v]
  | PField ws1 m t ws2 dbg conv hs spec =>
      (match dbg with Some ws3 => [JConst (ws1 ++ t ++ ws2 ++ [c_eq] ++ ws3)] | None => [] end)
      ++ [JFormatted m (field_conv dbg conv hs) (if hs then Some (flat_map py_part spec) else None)]
  end.
Definition py_ast (ps : list fpart) : list jnode := flat_map py_part ps.

(* formatting: an arbitrary function of the value of the expression, the conversion and the formatted spec *)
Section Eval.
Variable val : Type.
Variable env : model -> val.
Variable fmt : val -> option N -> text -> text.

Fixpoint jeval1 (j : jnode) : text :=
  match j with
  | JConst s => s
  | JFormatted e conv spec =>
      fmt (env e) conv (match spec with Some l => concat (map jeval1 l) | None => [] end)
  end.
Definition jeval (l : list jnode) : text := concat (map jeval1 l).

Lemma jeval_app a b : jeval (a ++ b) = jeval a ++ jeval b.
Proof. unfold jeval. rewrite map_app, concat_app. reflexivity. Qed.

Lemma jeval_cons j l : jeval (j :: l) = jeval1 j ++ jeval l.
Proof. reflexivity. Qed.

Lemma compile_cons x l :
  compile_comps (x :: l) = match compile_comp x, compile_comps l with
                           | Some j, Some js => Some (j :: js)
                           | _, _ => None
                           end.
Proof. unfold compile_comps. cbn [map all_some]. destruct (compile_comp x); reflexivity. Qed.

(* FString.__new__ joins adjacent strings: no effect on the formatted result *)
Lemma compile_join cs : forall js, compile_comps cs = Some js ->
  exists js', compile_comps (join_strs cs) = Some js' /\ jeval js' = jeval js.
Proof.
  induction cs as [|c cs IH]; intros js H; [exists js; split; [exact H|reflexivity]|].
  rewrite compile_cons in H. destruct (compile_comp c) as [j|] eqn:Ec; [|discriminate].
  destruct (compile_comps cs) as [js0|] eqn:Ecs; [|discriminate]. injection H as <-.
  destruct (IH js0 eq_refl) as (js1 & H1 & E1).
  destruct c as [s|s|z|f|a b|s br|b|k ms]; try discriminate.
  - (* a string: joined with a following string, if any *)
    cbn [compile_comp] in Ec. injection Ec as <-. cbn [join_strs].
    destruct (join_strs cs) as [|d ds] eqn:Ej.
    + injection H1 as <-. exists [JConst s]. split; [reflexivity|]. rewrite !jeval_cons, <- E1. reflexivity.
    + rewrite compile_cons in H1. destruct (compile_comp d) as [jd|] eqn:Ed; [|discriminate].
      destruct (compile_comps ds) as [jds|] eqn:Eds; [|discriminate]. injection H1 as <-.
      destruct d as [s'|s'|z'|f'|a' b'|s' br'|b'|k' ms']; try discriminate.
      * cbn [compile_comp] in Ed. injection Ed as <-. exists (JConst (s ++ s') :: jds). split.
        { rewrite compile_cons, Eds. reflexivity. }
        { rewrite !jeval_cons, <- E1, jeval_cons. cbn [jeval1]. rewrite app_assoc. reflexivity. }
      * exists (JConst s :: jd :: jds). split.
        { rewrite !compile_cons, Ed, Eds. reflexivity. }
        { rewrite !jeval_cons, <- E1, !jeval_cons. reflexivity. }
  - (* a field *)
    cbn [join_strs]. exists (j :: js1). split; [rewrite compile_cons, Ec, H1; reflexivity|].
    rewrite !jeval_cons, E1. reflexivity.
Qed.

End Eval.

(* ---------------------------------------------------------------- the Hy components compile to Python's tree *)
Fixpoint convs_ok (p : fpart) : bool :=
  match p with
  | PLit _ _ _ => true
  | PField _ _ _ _ dbg conv hs spec => conv_valid (field_conv dbg conv hs) && forallb convs_ok spec
  end.

Section Agree.
Variable val : Type.
Variable env : model -> val.
Variable fmt : val -> option N -> text -> text.
Notation ev := (jeval val env fmt).

Lemma flush_compile V : exists js, compile_comps (flush V) = Some js /\ ev js = V.
Proof.
  unfold flush. destruct V as [|c V]; cbn [is_str_empty]; eexists; (split; [reflexivity|]); [reflexivity|].
  unfold jeval. cbn [map concat jeval1]. apply app_nil_r.
Qed.

Lemma compile_app a b ja jb : compile_comps a = Some ja -> compile_comps b = Some jb -> compile_comps (a ++ b) = Some (ja ++ jb).
Proof.
  unfold compile_comps. revert ja. induction a as [|x a IH]; intros ja Ha Hb.
  - injection Ha as <-. exact Hb.
  - cbn [map all_some app] in *. destruct (compile_comp x); [|discriminate].
    destruct (all_some (map compile_comp a)) eqn:E; [|discriminate]. injection Ha as <-.
    rewrite (IH l eq_refl Hb). reflexivity.
Qed.

Definition part_agrees (p : fpart) : Prop :=
  match p with
  | PLit _ _ _ => True
  | _ => convs_ok p = true -> exists js, compile_comps (part_comps p) = Some js /\ ev js = ev (py_part p)
  end.

Lemma parts_agree ps : Forall part_agrees ps -> forallb convs_ok ps = true ->
  forall V, exists js, compile_comps (comps_from V ps) = Some js /\ ev js = V ++ ev (py_ast ps).
Proof.
  induction ps as [|p ps IH]; intros HF Hc V.
  - rewrite comps_from_nil. destruct (flush_compile V) as (js & A & B). exists js. split; [exact A|].
    rewrite B. cbn. rewrite app_nil_r. reflexivity.
  - inversion HF as [|? ? Hp HF']; subst. cbn [forallb] in Hc. apply andb_prop in Hc as [Hcp Hc].
    destruct p as [src kept v|ws1 m t ws2 dbg conv hs spec].
    + rewrite comps_from_lit. destruct (IH HF' Hc (V ++ v)) as (js & A & B). exists js. split; [exact A|].
      rewrite B. unfold py_ast. cbn [flat_map py_part]. rewrite jeval_app, <- app_assoc.
      unfold jeval at 2. cbn. rewrite app_nil_r. reflexivity.
    + rewrite comps_from_field. destruct (flush_compile V) as (j1 & A1 & B1).
      destruct (Hp Hcp) as (j2 & A2 & B2). destruct (IH HF' Hc []) as (j3 & A3 & B3).
      exists (j1 ++ j2 ++ j3). split; [apply compile_app; [exact A1|apply compile_app; assumption]|].
      rewrite !jeval_app, B1, B2, B3. unfold py_ast. cbn [flat_map]. rewrite jeval_app. reflexivity.
Qed.

Theorem all_parts_agree : forall p, part_agrees p.
Proof.
  apply fpart_ind'; [intros a b c; exact I|].
  intros ws1 m t ws2 dbg conv hs spec HF Hc. cbn [convs_ok] in Hc. apply andb_prop in Hc as [Hcv Hcs].
  rewrite part_comps_field.
  assert (Hd : exists jd, compile_comps (dbg_comp ws1 t ws2 dbg) = Some jd
                          /\ jd = match dbg with Some ws3 => [JConst (ws1 ++ t ++ ws2 ++ [c_eq] ++ ws3)] | None => [] end).
  { destruct dbg; eexists; split; reflexivity. }
  destruct Hd as (jd & Ad & Bd).
  destruct hs.
  - destruct (parts_agree spec HF Hcs []) as (js & A & B).
    exists (jd ++ [JFormatted m (field_conv dbg conv true) (match js with [] => None | _ => Some js end)]).
    split.
    + apply compile_app; [exact Ad|]. unfold compile_comps in *. cbn [map all_some compile_comp]. rewrite Hcv, A. reflexivity.
    + subst jd. cbn [py_part]. rewrite !jeval_app. f_equal. unfold jeval. cbn [map concat jeval1]. rewrite !app_nil_r.
      f_equal. fold (jeval val env fmt (flat_map py_part spec)). fold (py_ast spec).
      cbn [app] in B. rewrite <- B. destruct js; reflexivity.
  - exists (jd ++ [JFormatted m (field_conv dbg conv false) None]). split.
    + apply compile_app; [exact Ad|]. unfold compile_comps. cbn [map all_some compile_comp]. rewrite Hcv. reflexivity.
    + subst jd. cbn [py_part]. reflexivity.
Qed.

End Agree.
