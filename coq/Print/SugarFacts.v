(* Reader sugar, dotted identifiers and bracket strings: what the printers emit for them is read back. *)
From HyV Require Import Print.Syntax Print.Names Print.Reader Print.ModelRepr Print.ReaderFacts Print.AtomFacts.
From Coq Require Import Lia.

Section Sugar.
Variable W : oracle.

(* ---------------------------------------------------------------- one-form prefixes *)
Lemma read_tag c root t x rest :
  dispatch c = DTag root -> is_ws c = false ->
  reads W RdOne t (ROne x rest) -> reads W RdForm (c :: t) (RForm (Some (mkexpr root [x])) rest).
Proof.
  intros Hd Hw [_ [n H]]. apply (reads_intro W (S n)); [|discriminate]. rewrite rd_S. unfold form_body.
  rewrite skip_ws_nonws by exact Hw. rewrite Hd, H. reflexivity.
Qed.

Lemma read_unquote t x rest :
  match t with c :: _ => N.eqb c c_at = false | [] => True end ->
  reads W RdOne t (ROne x rest) -> reads W RdForm (c_tilde :: t) (RForm (Some (mkexpr s_unquote [x])) rest).
Proof.
  intros Ht [_ [n H]]. apply (reads_intro W (S n)); [|discriminate]. rewrite rd_S. unfold form_body.
  rewrite skip_ws_nonws by reflexivity. change (dispatch c_tilde) with DUnquote. cbv iota.
  destruct t as [|c r]; [rewrite H; reflexivity|]. rewrite Ht, H. reflexivity.
Qed.

Lemma read_unquote_splice t x rest :
  reads W RdOne t (ROne x rest) ->
  reads W RdForm (c_tilde :: c_at :: t) (RForm (Some (mkexpr s_unquote_splice [x])) rest).
Proof.
  intros [_ [n H]]. apply (reads_intro W (S n)); [|discriminate]. rewrite rd_S. unfold form_body.
  rewrite skip_ws_nonws by reflexivity. change (dispatch c_tilde) with DUnquote. cbv iota.
  change (N.eqb c_at c_at) with true. cbv iota. rewrite H. reflexivity.
Qed.

Lemma read_unpack stars root t x rest :
  (stars = [c_star] \/ stars = [c_star; c_star]) -> hash_lookup stars = Some (HUnpack root) ->
  reads W RdOne t (ROne x rest) ->
  reads W RdForm (c_hash :: stars ++ ch_space :: t) (RForm (Some (mkexpr root [x])) rest).
Proof.
  intros Hs Hl [_ [n H]]. apply (reads_intro W (S n)); [|discriminate]. rewrite rd_S. unfold form_body.
  rewrite skip_ws_nonws by reflexivity. change (dispatch c_hash) with DHash. cbv iota. unfold hash_body.
  assert (Hspan : span_ident (stars ++ ch_space :: t) = (stars, ch_space :: t)).
  { apply span_ident_app; [destruct Hs as [->| ->]; reflexivity|left; reflexivity]. }
  rewrite Hspan. destruct Hs as [->| ->]; cbn [app]; change (is_pyspace c_star) with false; cbv iota; rewrite Hl;
    change (ch_space :: t) with ([ch_space] ++ t); rewrite rd_one_ws by reflexivity; rewrite H; reflexivity.
Qed.

(* the keys of the regenerated syntax table *)
Lemma lookup_syntax_cases s p : lookup_syntax s repr_syntax = Some p ->
  (s = s_quote /\ p = [c_sq]) \/ (s = s_quasiquote /\ p = [c_bq]) \/ (s = s_unquote /\ p = [c_tilde])
  \/ (s = s_unquote_splice /\ p = [c_tilde; c_at]) \/ (s = s_unpack_iterable /\ p = [c_hash; c_star; ch_space])
  \/ (s = s_unpack_mapping /\ p = [c_hash; c_star; c_star; ch_space]).
Proof.
  unfold repr_syntax. cbn [lookup_syntax].
  repeat match goal with
         | |- context [text_eqb s ?k] =>
             let E := fresh "E" in destruct (text_eqb s k) eqn:E;
             [apply text_eqb_eq in E; intros H; injection H as <-; subst; tauto|]
         end.
  discriminate.
Qed.

(* ---------------------------------------------------------------- dotted identifiers *)
Definition dpart_ok (p : text) : Prop :=
  p <> [] /\ forallb ident_char p = true /\ mem ch_dot p = false /\ num W p = NotNum.

Fixpoint join_dot (l : list text) : text :=
  match l with
  | [] => []
  | [x] => x
  | x :: r => x ++ ch_dot :: join_dot r
  end.

Lemma join_dot_intersperse l : join_dot l = intersperse [ch_dot] l.
Proof. induction l as [|x [|y l] IH]; [reflexivity|reflexivity|]. cbn [join_dot intersperse] in *. rewrite IH. reflexivity. Qed.

Lemma mem_app c a b : mem c (a ++ b) = mem c a || mem c b.
Proof. unfold mem. apply existsb_app. Qed.

Lemma split_on_join : forall parts cur, parts <> [] -> Forall (fun p => mem ch_dot p = false) parts ->
  mem ch_dot cur = false ->
  split_on ch_dot (join_dot parts) cur
  = match parts with p :: r => (rev cur ++ p) :: r | [] => [] end.
Proof.
  assert (G : forall p cur tail, mem ch_dot p = false ->
              split_on ch_dot (p ++ tail) cur = split_on ch_dot tail (rev p ++ cur)).
  { induction p as [|c p IH]; intros cur tail H; [reflexivity|].
    cbn [mem existsb] in H. unfold mem in H. cbn [existsb] in H. apply orb_false_elim in H as [Hc H].
    cbn [app split_on]. rewrite N.eqb_sym, Hc. rewrite IH by exact H. cbn [rev]. rewrite <- app_assoc. reflexivity. }
  induction parts as [|p parts IH]; intros cur Hne HF Hc; [congruence|].
  inversion HF as [|? ? Hp HF']; subst. destruct parts as [|q parts].
  - cbn [join_dot]. rewrite <- (app_nil_r p) at 1. rewrite G by exact Hp. cbn [split_on].
    rewrite rev_app_distr, rev_involutive. reflexivity.
  - change (join_dot (p :: q :: parts)) with (p ++ ch_dot :: join_dot (q :: parts)).
    rewrite G by exact Hp.
    change (split_on ch_dot (ch_dot :: join_dot (q :: parts)) (rev p ++ cur))
      with (if N.eqb ch_dot ch_dot then rev (rev p ++ cur) :: split_on ch_dot (join_dot (q :: parts)) []
            else split_on ch_dot (join_dot (q :: parts)) (ch_dot :: rev p ++ cur)).
    rewrite N.eqb_refl.
    rewrite (IH [] ltac:(discriminate) HF' eq_refl). cbn [rev app].
    rewrite rev_app_distr, rev_involutive. reflexivity.
Qed.

Lemma join_dot_head parts p r : parts = p :: r -> p <> [] -> exists c t, join_dot parts = c :: t /\ hd 0 p = c.
Proof.
  intros -> Hp. destruct p as [|c p]; [congruence|]. destruct r; cbn [join_dot app]; eexists _, _; split; reflexivity.
Qed.

Lemma last_app_ne {A} (a b : list A) d : b <> [] -> last (a ++ b) d = last b d.
Proof.
  intros Hb. induction a as [|x a IH]; [reflexivity|]. cbn [app]. destruct (a ++ b) eqn:E.
  - apply app_eq_nil in E as [_ E]. congruence.
  - rewrite <- IH. reflexivity.
Qed.

(* no two dots in a row, and no dot at the end *)
Lemma join_dot_shape parts : parts <> [] -> Forall (fun p => p <> [] /\ mem ch_dot p = false) parts ->
  contains [ch_dot; ch_dot] (join_dot parts) = false /\ N.eqb (last (join_dot parts) 0) ch_dot = false
  /\ N.eqb (hd 0 (join_dot parts)) ch_dot = false.
Proof.
  (* a text that holds no dot: nothing to find, and its ends are not dots *)
  assert (P1 : forall p tail, mem ch_dot p = false ->
               contains [ch_dot; ch_dot] (p ++ ch_dot :: tail) = contains [ch_dot; ch_dot] (ch_dot :: tail)).
  { induction p as [|c p IH]; intros tail H; [reflexivity|].
    unfold mem in H. cbn [existsb] in H. apply orb_false_elim in H as [Hc H]. rewrite N.eqb_sym in Hc.
    cbn [app]. cbn [contains starts_with]. rewrite N.eqb_sym, Hc. cbn [andb orb]. apply IH. exact H. }
  assert (P2 : forall p, mem ch_dot p = false -> contains [ch_dot; ch_dot] p = false).
  { induction p as [|c p IH]; intros H; [reflexivity|].
    unfold mem in H. cbn [existsb] in H. apply orb_false_elim in H as [Hc H]. rewrite N.eqb_sym in Hc.
    cbn [contains starts_with]. rewrite N.eqb_sym, Hc. cbn [andb orb]. apply IH. exact H. }
  assert (P3 : forall p, p <> [] -> mem ch_dot p = false ->
               N.eqb (last p 0) ch_dot = false /\ N.eqb (hd 0 p) ch_dot = false).
  { intros p Hne H. split.
    - assert (Hin : In (last p 0) p) by (destruct p; [congruence|]; apply (@exists_last _ (n :: p)) in Hne as [l [a ->]];
        rewrite last_last; apply in_or_app; right; left; reflexivity).
      apply N.eqb_neq. intros E. rewrite E in Hin. apply mem_In in Hin. congruence.
    - destruct p as [|c p]; [congruence|]. unfold mem in H. cbn [existsb hd] in *. apply orb_false_elim in H as [Hc _].
      rewrite N.eqb_sym. exact Hc. }
  induction parts as [|p parts IH]; intros Hne HF; [congruence|].
  inversion HF as [|? ? [Hp1 Hp2] HF']; subst. destruct parts as [|q parts].
  - cbn [join_dot]. destruct (P3 p Hp1 Hp2). rewrite P2 by exact Hp2. auto.
  - destruct (IH ltac:(discriminate) HF') as (A & B & C).
    change (join_dot (p :: q :: parts)) with (p ++ ch_dot :: join_dot (q :: parts)).
    set (J := join_dot (q :: parts)) in *.
    assert (HJ : J <> []).
    { unfold J. inversion HF' as [|? ? [Hq _] _]; subst. destruct q; [congruence|]. destruct parts; discriminate. }
    split; [|split].
    + rewrite P1 by exact Hp2. destruct J as [|j J']; [congruence|]. cbn [contains starts_with].
      cbn [hd] in C. rewrite N.eqb_refl. cbn [andb]. rewrite N.eqb_sym, C. cbn [andb orb].
      cbn [contains starts_with] in A. rewrite N.eqb_sym, C in A. cbn [andb orb] in A. exact A.
    + replace (last (p ++ ch_dot :: J) 0) with (last J 0); [exact B|].
      rewrite last_app_ne by discriminate. destruct J; [congruence|]. reflexivity.
    + destruct p as [|c p]; [congruence|]. cbn [app hd]. destruct (P3 (c :: p) Hp1 Hp2) as [_ X]. exact X.
Qed.

Lemma all_some_parts parts : Forall dpart_ok parts -> all_some (map (part_symbol W) parts) = Some (map MSym parts).
Proof.
  induction 1 as [|p parts (_ & _ & _ & Hn) _ IH]; [reflexivity|]. cbn [map all_some]. unfold part_symbol at 1.
  rewrite Hn, IH. reflexivity.
Qed.

Lemma dropwhile_dots dots body :
  forallb (N.eqb ch_dot) dots = true -> N.eqb (hd 0 body) ch_dot = false -> body <> [] ->
  lstrip_dots (dots ++ body) = body.
Proof.
  intros Hd Hb Hne. unfold lstrip_dots. induction dots as [|c dots IH].
  - destruct body as [|b body]; [congruence|]. cbn [app dropwhile hd] in *. rewrite N.eqb_sym, Hb. reflexivity.
  - cbn [forallb] in Hd. apply andb_prop in Hd as [Hc Hd]. cbn [app dropwhile]. rewrite Hc. apply IH; exact Hd.
Qed.

Lemma dotted_read dots parts :
  forallb (N.eqb ch_dot) dots = true -> parts <> [] -> Forall dpart_ok parts ->
  (dots = [] -> (2 <= length parts)%nat) ->
  num W (dots ++ join_dot parts) = NotNum ->
  as_identifier W (dots ++ join_dot parts)
  = Some (MNode KExpr (match dots with
                       | [] => MSym [ch_dot] :: map MSym parts
                       | _ => MSym dots :: MSym s_None :: map MSym parts
                       end)).
Proof.
  intros Hdots Hne HF Hlen Hnum.
  assert (HF2 : Forall (fun p => p <> [] /\ mem ch_dot p = false) parts).
  { eapply Forall_impl; [|exact HF]. intros p (A & _ & B & _). split; assumption. }
  assert (HF3 : Forall (fun p => mem ch_dot p = false) parts).
  { eapply Forall_impl; [|exact HF]. intros p (_ & _ & B & _). exact B. }
  destruct (join_dot_shape parts Hne HF2) as (Hdd & Hlast & Hhd).
  set (J := join_dot parts) in *.
  assert (HJ : J <> []).
  { unfold J. destruct parts as [|p r]; [congruence|]. inversion HF2 as [|? ? [Hp _] _]; subst.
    destruct p; [congruence|]. destruct r; discriminate. }
  unfold as_identifier. rewrite Hnum. cbn [numeric_model].
  assert (Hmem : mem ch_dot (dots ++ J) = true).
  { rewrite mem_app. destruct dots as [|d dots].
    - specialize (Hlen eq_refl). unfold J. destruct parts as [|p [|q r]]; cbn [length] in Hlen; try lia.
      change (join_dot (p :: q :: r)) with (p ++ ch_dot :: join_dot (q :: r)). rewrite mem_app.
      cbn [mem existsb orb]. unfold mem. cbn [existsb]. rewrite N.eqb_refl. cbn [orb]. rewrite orb_true_r. reflexivity.
    - cbn [forallb] in Hdots. apply andb_prop in Hdots as [Hd _]. apply N.eqb_eq in Hd. subst d.
      unfold mem. cbn [existsb]. rewrite N.eqb_refl. reflexivity. }
  rewrite Hmem.
  assert (Hall : all_dots (dots ++ J) = false).
  { unfold all_dots. rewrite forallb_app. destruct J as [|j J']; [congruence|]. cbn [forallb hd] in *.
    rewrite N.eqb_sym, Hhd. cbn [andb]. apply andb_false_r. }
  rewrite Hall. rewrite dropwhile_dots by assumption.
  assert (Hfd : find_dd_pos J = false).
  { unfold find_dd_pos. destruct J as [|j J']; [reflexivity|]. cbn [contains] in Hdd. apply orb_false_elim in Hdd as [_ X]. exact X. }
  rewrite Hfd. rewrite last_app_ne by exact HJ. rewrite Hlast.
  rewrite app_length, Nat.add_sub. rewrite firstn_app, firstn_all, Nat.sub_diag. cbn [firstn]. rewrite app_nil_r.
  unfold J. rewrite (split_on_join parts [] Hne HF3 eq_refl).
  destruct parts as [|p r]; [congruence|]. cbn [rev app].
  rewrite all_some_parts by exact HF. destruct dots; reflexivity.
Qed.

(* ---------------------------------------------------------------- bracket strings *)
(* the scan does not look past the closing delimiter *)
Lemma chars_until_extend cl raw : forall x st nm acc c st' rest,
  chars_until cl false raw st nm acc x = CUDone c true [] st' ->
  chars_until cl false raw st nm acc (x ++ rest) = CUDone c true rest st'.
Proof.
  induction x as [|a x IH]; intros st nm acc c st' rest H; [discriminate|].
  cbn [app chars_until] in *. destruct (close_step cl st a) as [n|st2|].
  - injection H as <- -> <-. reflexivity.
  - cbn [andb] in *. apply IH. exact H.
  - discriminate.
Qed.

(* the closing-delimiter automaton of bracketed_string, run over the content followed by ]delim], fires exactly at the end *)
Definition delim_closes (d s : text) : bool :=
  match chars_until (CDelim d) false true (StDelim None) false [] (s ++ closing_delim_text d) with
  | CUDone c true [] _ => text_eqb c s
  | _ => false
  end.

Definition is_fstring_delim (d : text) : bool := text_eqb d [102] || starts_with [102; c_minus] d.

Definition bracket_ok (d s : text) : Prop :=
  forallb (fun x => negb (N.eqb x c_lb || N.eqb x c_rb)) d = true
  /\ is_fstring_delim d = false
  /\ forallb (fun c => negb (N.eqb c c_cr)) s = true
  /\ contains (closing_delim_text d) s = false
  /\ delim_closes d s = true.

Lemma norm_newlines_id s : forallb (fun c => negb (N.eqb c c_cr)) s = true -> norm_newlines s = s.
Proof.
  induction s as [|c s IH]; intros H; [reflexivity|]. cbn [forallb] in H. apply andb_prop in H as [Hc H].
  apply negb_true_iff in Hc. cbn [norm_newlines]. rewrite Hc, IH by exact H. reflexivity.
Qed.

Lemma read_bracket_string rec d s rest : bracket_ok d s ->
  form_body W rec (hy_bracket_str d s ++ rest) = RForm (Some (MStr s (Some d))) rest.
Proof.
  intros (Hd & Hf & Hcr & Hcont & Hcl).
  unfold hy_bracket_str, form_body. cbn [app]. rewrite skip_ws_nonws by reflexivity.
  change (dispatch c_hash) with DHash. cbv iota. unfold hash_body.
  change (is_pyspace c_lb) with false. cbv iota. unfold span_ident. rewrite span_none by reflexivity.
  change (hash_lookup [c_lb]) with (Some HBracket). cbv iota. unfold bracket_body.
  rewrite <- !app_assoc. cbn [app].
  rewrite (span_app _ d) by (try exact Hd; reflexivity).
  change (N.eqb c_lb c_rb) with false. cbv iota. fold (is_fstring_delim d). rewrite Hf.
  set (body := (s ++ c_rb :: d ++ [c_rb]) ++ rest).
  (* after the optional carriage return and the optional newline are dropped, the content follows *)
  assert (Hdrop : forall pre,
            pre = lead_nl s ->
            (let r4 := pre ++ body in
             let r5 := match r4 with x :: t => if N.eqb x c_cr then t else r4 | [] => r4 end in
             match r5 with x :: t => if N.eqb x c_nl then t else r5 | [] => r5 end) = body).
  { intros pre ->. unfold lead_nl, body. destruct s as [|x s']; [reflexivity|].
    cbn [forallb] in Hcr. apply andb_prop in Hcr as [Hx _]. apply negb_true_iff in Hx.
    cbn [starts_with]. destruct (N.eqb c_nl x) eqn:E.
    - apply N.eqb_eq in E. subst x. cbn [andb app]. change (N.eqb c_nl c_cr) with false. cbv iota.
      change (N.eqb c_nl c_nl) with true. reflexivity.
    - cbn [andb app]. rewrite Hx. cbv iota. rewrite N.eqb_sym, E. reflexivity. }
  specialize (Hdrop (lead_nl s) eq_refl). cbv zeta in Hdrop.
  replace ((lead_nl s ++ s ++ c_rb :: d ++ [c_rb]) ++ rest) with (lead_nl s ++ body)
    by (unfold body; rewrite <- !app_assoc; reflexivity).
  rewrite Hdrop. unfold read_string_body. cbn [init_state].
  unfold delim_closes in Hcl.
  destruct (chars_until (CDelim d) false true (StDelim None) false [] (s ++ closing_delim_text d)) as [c [|] [|] st|] eqn:E;
    try discriminate.
  apply text_eqb_eq in Hcl. subst c.
  assert (Hbody : body = (s ++ closing_delim_text d) ++ rest) by reflexivity.
  rewrite Hbody, (chars_until_extend _ _ _ _ _ _ _ _ rest E).
  unfold decode. cbn [andb]. rewrite norm_newlines_id by exact Hcr.
  unfold mk_string. rewrite Hcont. reflexivity.
Qed.

End Sugar.
