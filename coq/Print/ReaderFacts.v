(* Generic facts about the reader model: character scanning, fuel, sequences of forms. *)
From HyV Require Import Print.Syntax Print.Names Print.Reader.
From Coq Require Import Lia.

(* ---------------------------------------------------------------- scanning *)
(* what may follow a printed form: the end of the text, whitespace or a closing delimiter *)
Definition closer_char (c : N) : bool := N.eqb c c_rp || N.eqb c c_rb || N.eqb c c_rc.
Definition delim_start (rest : text) : Prop :=
  match rest with [] => True | c :: _ => is_ws c = true \/ closer_char c = true end.

Lemma span_app p t rest :
  forallb p t = true ->
  match rest with [] => True | c :: _ => p c = false end ->
  span p (t ++ rest) = (t, rest).
Proof.
  induction t as [|c t IH]; simpl; intros Ht Hr.
  - destruct rest as [|c r]; simpl; [reflexivity|]. rewrite Hr. reflexivity.
  - apply andb_prop in Ht as [Hc Ht]. rewrite Hc, (IH Ht Hr). reflexivity.
Qed.

Lemma span_none p s : match s with [] => True | c :: _ => p c = false end -> span p s = ([], s).
Proof. destruct s as [|c r]; simpl; intros H; [reflexivity|]. rewrite H. reflexivity. Qed.

Definition ident_char (c : N) : bool := negb (ends_ident c).

Lemma delim_start_ends rest : delim_start rest -> match rest with [] => True | c :: _ => ident_char c = false end.
Proof.
  destruct rest as [|c r]; simpl; [trivial|]. unfold ident_char, ends_ident, closer_char.
  intros [H|H].
  - rewrite H. reflexivity.
  - apply negb_false_iff. apply orb_true_iff. right.
    apply orb_prop in H as [H|H]; [apply orb_prop in H as [H|H]|]; apply N.eqb_eq in H; subst; reflexivity.
Qed.

Lemma span_ident_app t rest :
  forallb ident_char t = true -> delim_start rest -> span_ident (t ++ rest) = (t, rest).
Proof. intros Ht Hr. apply span_app; [exact Ht|]. apply delim_start_ends; exact Hr. Qed.

Lemma skip_ws_nonws c r : is_ws c = false -> skip_ws (c :: r) = c :: r.
Proof. unfold skip_ws. simpl. intros ->. reflexivity. Qed.

Lemma skip_ws_ws c r : is_ws c = true -> skip_ws (c :: r) = skip_ws r.
Proof. unfold skip_ws. simpl. intros ->. destruct (span is_ws r). reflexivity. Qed.

Lemma skip_ws_app sp s : forallb is_ws sp = true -> skip_ws (sp ++ s) = skip_ws s.
Proof.
  induction sp as [|c sp IH]; simpl; intros H; [reflexivity|].
  apply andb_prop in H as [Hc H]. rewrite skip_ws_ws by exact Hc. apply IH; exact H.
Qed.

Lemma skip_ws_idem s : skip_ws (skip_ws s) = skip_ws s.
Proof.
  induction s as [|c r IH]; [reflexivity|]. destruct (is_ws c) eqn:E.
  - rewrite skip_ws_ws by exact E. exact IH.
  - rewrite skip_ws_nonws by exact E. apply skip_ws_nonws; exact E.
Qed.

(* ---------------------------------------------------------------- fuel *)
Section Fuel.
Variable W : oracle.

Lemma rd_S f md s :
  rd W (S f) md s =
  match md with
  | RdForm => form_body W (rd W f) s
  | RdOne => one_body (rd W f) s
  | RdSeq closer acc => seq_body (rd W f) closer acc s
  | RdFComps cl st raw acc => fcomps_body W (rd W f) cl st raw acc s
  | RdFComp raw ts => fcomp_body (rd W f) raw ts s
  end.
Proof. reflexivity. Qed.

(* more fuel never changes a result other than ROut *)
Definition mono (rec rec' : mode -> text -> res) : Prop :=
  forall md s r, rec md s = r -> r <> ROut -> rec' md s = r.

Ltac mono_step Hm :=
  match goal with
  | H : context [match ?X with _ => _ end] |- _ =>
      lazymatch X with
      | ?f ?m ?x =>
          lazymatch type of f with
          | mode -> text -> res =>
              let E := fresh "E" in
              destruct X eqn:E; try (subst; congruence);
              try (rewrite (Hm _ _ _ E) by discriminate)
          | _ => destruct X eqn:?
          end
      | _ => destruct X eqn:?
      end
  end.

Ltac mono_all Hm := repeat (first [ progress (subst; try congruence) | mono_step Hm ]); try congruence.

Section Mono.
Variables rec rec' : mode -> text -> res.
Hypothesis Hm : mono rec rec'.

Lemma one_body_mono s r : one_body rec s = r -> r <> ROut -> one_body rec' s = r.
Proof. unfold one_body. intros H Hr. mono_all Hm. all: apply Hm; congruence. Qed.

Lemma seq_body_mono cl acc s r : seq_body rec cl acc s = r -> r <> ROut -> seq_body rec' cl acc s = r.
Proof. unfold seq_body. intros H Hr. mono_all Hm. all: apply Hm; congruence. Qed.

Lemma fcomps_body_mono cl st raw acc s r :
  fcomps_body W rec cl st raw acc s = r -> r <> ROut -> fcomps_body W rec' cl st raw acc s = r.
Proof. unfold fcomps_body. intros H Hr. mono_all Hm. all: apply Hm; congruence. Qed.

Lemma fcomp_body_mono raw ts s r : fcomp_body rec raw ts s = r -> r <> ROut -> fcomp_body rec' raw ts s = r.
Proof. unfold fcomp_body. intros H Hr. mono_all Hm. Qed.

Lemma read_string_body_mono cl raw bytes fm br s r :
  read_string_body W rec cl raw bytes fm br s = r -> r <> ROut -> read_string_body W rec' cl raw bytes fm br s = r.
Proof. unfold read_string_body. intros H Hr. mono_all Hm. Qed.

Lemma bracket_body_mono s r : bracket_body W rec s = r -> r <> ROut -> bracket_body W rec' s = r.
Proof.
  unfold bracket_body. intros H Hr.
  destruct (span (fun x => negb (N.eqb x c_lb || N.eqb x c_rb)) s) as [d r3].
  destruct r3 as [|c3 r4]; [exact H|]. destruct (N.eqb c3 c_rb); [exact H|].
  eapply read_string_body_mono; eassumption.
Qed.

Lemma hash_body_mono s r : hash_body W rec s = r -> r <> ROut -> hash_body W rec' s = r.
Proof.
  unfold hash_body. intros H Hr.
  destruct s as [|c2 r2]; [exact H|]. destruct (is_pyspace c2); [exact H|].
  destruct (span_ident (c2 :: r2)) as [id0 r0].
  destruct (match id0 with [] => ([c2], r2) | _ :: _ => (id0, r0) end) as [ident r1].
  destruct (hash_lookup ident) as [[k closer| |root| |]|]; try exact H.
  - mono_all Hm.
  - mono_all Hm.
  - mono_all Hm.
  - mono_all Hm.
  - eapply bracket_body_mono; eassumption.
Qed.

Lemma default_body_mono c s r : default_body W rec c s = r -> r <> ROut -> default_body W rec' c s = r.
Proof.
  unfold default_body. intros H Hr. destruct (span_ident s) as [idt r'].
  destruct r' as [|q body]; [exact H|]. destruct (N.eqb q c_dq); [|exact H].
  destruct (prefix_flags (c :: idt)) as [[[raw bytes] fm]|]; [|exact H].
  eapply read_string_body_mono; eassumption.
Qed.

Lemma form_body_mono s r : form_body W rec s = r -> r <> ROut -> form_body W rec' s = r.
Proof.
  unfold form_body. intros H Hr. destruct (skip_ws s) as [|c t]; [exact H|].
  destruct (dispatch c) as [k closer| | | | |root| | |]; try exact H.
  - mono_all Hm.
  - mono_all Hm.
  - destruct (match t with
              | [] => (s_unquote, t)
              | c2 :: r2 => if N.eqb c2 c_at then (s_unquote_splice, r2) else (s_unquote, t)
              end) as [root r1]. mono_all Hm.
  - eapply hash_body_mono; eassumption.
  - eapply default_body_mono; eassumption.
Qed.
End Mono.

Lemma rd_mono n : forall md s r, rd W n md s = r -> r <> ROut -> rd W (S n) md s = r.
Proof.
  induction n as [|n IH]; intros md s r H Hr; [simpl in H; congruence|].
  rewrite rd_S in H. rewrite rd_S. destruct md.
  - eapply form_body_mono; eassumption.
  - eapply one_body_mono; eassumption.
  - eapply seq_body_mono; eassumption.
  - eapply fcomps_body_mono; eassumption.
  - eapply fcomp_body_mono; eassumption.
Qed.

Lemma rd_ge n m md s r : (n <= m)%nat -> rd W n md s = r -> r <> ROut -> rd W m md s = r.
Proof.
  intros Hle H Hr. induction Hle as [|m Hle IH]; [exact H|]. apply rd_mono; assumption.
Qed.

Lemma reads_det md s r1 r2 : reads W md s r1 -> reads W md s r2 -> r1 = r2.
Proof.
  intros [N1 [n1 H1]] [N2 [n2 H2]].
  rewrite <- (rd_ge n1 (max n1 n2) md s r1), <- (rd_ge n2 (max n1 n2) md s r2); auto; lia.
Qed.

Lemma reads_intro n md s r : rd W n md s = r -> r <> ROut -> reads W md s r.
Proof. intros H Hr. split; [exact Hr|]. exists n. exact H. Qed.

(* two results at a common fuel *)
Lemma reads_common md1 s1 r1 md2 s2 r2 :
  reads W md1 s1 r1 -> reads W md2 s2 r2 -> exists n, rd W n md1 s1 = r1 /\ rd W n md2 s2 = r2.
Proof.
  intros [N1 [n1 H1]] [N2 [n2 H2]]. exists (max n1 n2). split; eapply rd_ge; try eassumption; lia.
Qed.

(* leading whitespace is invisible to the form readers *)
Lemma rd_form_ws n sp s : forallb is_ws sp = true -> rd W n RdForm (sp ++ s) = rd W n RdForm s.
Proof.
  intros Hsp. destruct n as [|f]; [reflexivity|]. rewrite !rd_S. unfold form_body.
  rewrite skip_ws_app by exact Hsp. reflexivity.
Qed.

Lemma rd_one_ws n sp s : forallb is_ws sp = true -> rd W n RdOne (sp ++ s) = rd W n RdOne s.
Proof.
  intros Hsp. destruct n as [|f]; [reflexivity|]. rewrite !rd_S. unfold one_body.
  rewrite rd_form_ws by exact Hsp. reflexivity.
Qed.

Lemma rd_seq_ws n cl acc sp s : forallb is_ws sp = true -> rd W n (RdSeq cl acc) (sp ++ s) = rd W n (RdSeq cl acc) s.
Proof.
  intros Hsp. destruct n as [|f]; [reflexivity|]. rewrite !rd_S. unfold seq_body.
  rewrite skip_ws_app by exact Hsp. reflexivity.
Qed.

Lemma reads_one_ws sp s R : forallb is_ws sp = true -> reads W RdOne s R -> reads W RdOne (sp ++ s) R.
Proof. intros Hsp [HR [n H]]. split; [exact HR|]. exists n. rewrite rd_one_ws by exact Hsp. exact H. Qed.

(* parse_one_form from try_parse_one_form *)
Lemma reads_one_of_form s m r : reads W RdForm s (RForm (Some m) r) -> reads W RdOne s (ROne m r).
Proof.
  intros [_ [n H]]. apply (reads_intro (S n)); [|discriminate]. rewrite rd_S. unfold one_body. rewrite H. reflexivity.
Qed.

Lemma closer_not_ws c : closer_char c = true -> is_ws c = false.
Proof.
  unfold closer_char. intros H.
  apply orb_prop in H as [H|H]; [apply orb_prop in H as [H|H]|]; apply N.eqb_eq in H; subst; reflexivity.
Qed.

(* ---------------------------------------------------------------- a sequence of printed items up to its closer *)
Section Items.
Variable pr : model -> text.

(* m is printed as a text that starts with neither whitespace nor a closing delimiter and that reads back as m *)
Definition item_ok (m : model) : Prop :=
  (exists c t, pr m = c :: t /\ is_ws c = false /\ closer_char c = false) /\
  forall rest, delim_start rest -> reads W RdForm (pr m ++ rest) (RForm (Some m) rest).

Definition items_text (l : list (text * model)) : text := flat_map (fun p => fst p ++ pr (snd p)) l.

Lemma read_items closer : closer_char closer = true -> forall l acc rest,
  Forall (fun p => forallb is_ws (fst p) = true /\ fst p <> [] /\ item_ok (snd p)) l ->
  reads W (RdSeq (Some closer) acc) (items_text l ++ closer :: rest) (RSeq (rev acc ++ map snd l) rest).
Proof.
  intros Hcl. induction l as [|[sp m] l IH]; intros acc rest HF.
  - apply (reads_intro 1); [|discriminate]. rewrite rd_S. unfold seq_body. cbn [items_text flat_map app].
    rewrite skip_ws_nonws by (apply closer_not_ws; exact Hcl). rewrite N.eqb_refl, app_nil_r. reflexivity.
  - inversion HF as [|? ? [Hsp [Hne [[c [t [Hpr [Hc1 Hc2]]]] Hrd]]] HF']; subst. cbn [fst snd] in *.
    set (tail := items_text l ++ closer :: rest).
    assert (Htail : delim_start tail).
    { unfold tail. destruct l as [|[sp' m'] l'].
      - simpl. right. exact Hcl.
      - inversion HF' as [|? ? [Hsp' [Hne' _]] _]; subst. cbn [fst] in *.
        destruct sp' as [|x sp']; [congruence|]. simpl. left. simpl in Hsp'. apply andb_prop in Hsp' as [Hx _]. exact Hx. }
    destruct (reads_common _ _ _ _ _ _ (Hrd tail Htail) (IH (m :: acc) rest HF')) as [n [H1 H2]].
    fold tail in H2.
    apply (reads_intro (S n)); [|discriminate]. rewrite rd_S. unfold seq_body.
    cbn [items_text flat_map fst snd]. fold (items_text l). rewrite <- !app_assoc. fold tail.
    rewrite skip_ws_app by exact Hsp. rewrite Hpr. cbn [app]. rewrite skip_ws_nonws by exact Hc1.
    assert (Hne2 : N.eqb c closer = false).
    { apply N.eqb_neq. intros ->. congruence. }
    rewrite Hne2. change (c :: t ++ tail) with ((c :: t) ++ tail). rewrite <- Hpr, H1, H2.
    cbn [rev map snd]. rewrite <- app_assoc. reflexivity.
Qed.

(* items joined by single spaces *)
Lemma intersperse_cons sep m ms :
  intersperse sep (map pr (m :: ms)) = pr m ++ flat_map (fun x => sep ++ pr x) ms.
Proof.
  revert m. induction ms as [|m2 ms IH]; intros m.
  - simpl. rewrite app_nil_r. reflexivity.
  - change (intersperse sep (map pr (m :: m2 :: ms))) with (pr m ++ sep ++ intersperse sep (map pr (m2 :: ms))).
    rewrite IH. cbn [flat_map]. rewrite <- !app_assoc. reflexivity.
Qed.

Lemma items_text_const sep ms : items_text (map (fun m => (sep, m)) ms) = flat_map (fun x => sep ++ pr x) ms.
Proof. induction ms as [|m ms IH]; [reflexivity|]. cbn [map items_text flat_map fst snd]. fold (items_text (map (fun m => (sep, m)) ms)). rewrite IH. reflexivity. Qed.

Lemma cat_items ms : match ms with
                     | [] => intersperse [ch_space] (map pr ms) = []
                     | _ => [ch_space] ++ intersperse [ch_space] (map pr ms) = items_text (map (fun m => ([ch_space], m)) ms)
                     end.
Proof.
  destruct ms as [|m ms]; [reflexivity|]. rewrite intersperse_cons, items_text_const.
  cbn [flat_map]. rewrite <- app_assoc. reflexivity.
Qed.

Lemma read_cat closer : closer_char closer = true -> forall ms acc rest,
  Forall item_ok ms ->
  reads W (RdSeq (Some closer) acc) (intersperse [ch_space] (map pr ms) ++ closer :: rest) (RSeq (rev acc ++ ms) rest).
Proof.
  intros Hcl ms acc rest HF.
  assert (HF' : Forall (fun p => forallb is_ws (fst p) = true /\ fst p <> [] /\ item_ok (snd p))
                       (map (fun m => ([ch_space], m)) ms)).
  { induction HF; constructor; [|assumption]. cbn [fst snd]. split; [reflexivity|split; [discriminate|assumption]]. }
  pose proof (read_items closer Hcl _ acc rest HF') as [HR [n H]].
  rewrite map_map in H. cbn [snd] in H. rewrite map_id in H.
  pose proof (cat_items ms) as Hc. destruct ms as [|m ms].
  - rewrite Hc. split; [discriminate|]. exists n. exact H.
  - rewrite <- Hc in H. split; [discriminate|]. exists n. rewrite <- app_assoc in H.
    rewrite rd_seq_ws in H by reflexivity. exact H.
Qed.

End Items.

End Fuel.
