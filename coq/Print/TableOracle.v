(* Oracles given by finite tables: what the harness passes to the model for one batch of cases. *)
From HyV Require Import Print.Syntax.

Fixpoint assoc_text {A} (k : text) (l : list (text * A)) : option A :=
  match l with
  | [] => None
  | (k', v) :: r => if text_eqb k k' then Some v else assoc_text k r
  end.

Fixpoint assoc_N {A} (k : N) (l : list (N * A)) : option A :=
  match l with
  | [] => None
  | (k', v) :: r => if N.eqb k k' then Some v else assoc_N k r
  end.

Fixpoint assoc_fl2 {A} (a b : fl) (l : list (fl * fl * A)) : option A :=
  match l with
  | [] => None
  | (a', b', v) :: r => if fl_eqb a a' && fl_eqb b b' then Some v else assoc_fl2 a b r
  end.

Definition table_oracle (numtab : list (text * numres)) (ftab : list (N * text))
           (ctab : list (fl * fl * text)) (printable : list N) (names : list (text * N)) : oracle :=
  {| num := fun t => match assoc_text t numtab with Some r => r | None => NotNum end;
     float_repr := fun b => match assoc_N b ftab with Some t => t | None => [] end;
     complex_repr := fun a b => match assoc_fl2 a b ctab with Some t => t | None => [] end;
     isprintable := fun c => mem c printable;
     ulookup := fun t => assoc_text t names |}.
