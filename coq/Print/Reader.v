(* Model of hy/reader/hy_reader.py (HyReader with the default reader table) and
   the parts of hy/reader/reader.py it uses, on a text of code points.
   One fuelled function [rd] whose mode selects try_parse_one_form /
   parse_one_form / parse_forms_until / read_fcomponents_until / read_fcomponent.
   Source positions, FComponent.expression and user reader macros are not modelled. *)
From HyV Require Import Print.Syntax Print.Names.

Inductive rerr := ELex | EPremature.

Inductive res :=
| RForm (m : option model) (rest : text)   (* try_parse_one_form: a handler may yield no model *)
| ROne (m : model) (rest : text)           (* parse_one_form *)
| RSeq (ms : list model) (rest : text)     (* parse_forms_until, read_fcomponents_until, read_fcomponent *)
| RErr (e : rerr)
| ROut.                                    (* fuel exhausted; never a result of the real reader *)

(* ---------------------------------------------------------------- character streaming *)
Definition skip_ws (s : text) : text := snd (span is_ws s).              (* slurp_space, result dropped *)
Definition span_ident (s : text) : text * text := span (fun c => negb (ends_ident c)) s.   (* read_ident *)

Fixpoint drop_line (s : text) : text :=                                    (* line_comment *)
  match s with c :: r => if N.eqb c c_nl then r else drop_line r | [] => [] end.

(* ---------------------------------------------------------------- as_identifier *)
Fixpoint split_on (d : N) (s cur : text) : list text :=
  match s with
  | [] => [rev cur]
  | c :: r => if N.eqb c d then rev cur :: split_on d r [] else split_on d r (c :: cur)
  end.

Definition all_dots (s : text) : bool := forallb (N.eqb ch_dot) s.
Definition lstrip_dots (s : text) : text := dropwhile (N.eqb ch_dot) s.

(* s.find of two dots is positive *)
Definition find_dd_pos (s : text) : bool :=
  match s with
  | _ :: r => contains [ch_dot; ch_dot] r
  | [] => false
  end.

Definition numeric_model (r : numres) : option model :=
  match r with
  | NInt z => Some (MInt z)
  | NFloat f => Some (MFloat f)
  | NComplex a b => Some (MComplex a b)
  | NotNum => None
  end.

Section Reader.
Variable W : oracle.

(* a dot-free piece of a dotted identifier: must come out as a symbol *)
Definition part_symbol (p : text) : option model :=
  match num W p with NotNum => Some (MSym p) | _ => None end.

Fixpoint all_some {A} (l : list (option A)) : option (list A) :=
  match l with
  | [] => Some []
  | Some x :: r => match all_some r with Some t => Some (x :: t) | None => None end
  | None :: _ => None
  end.

Definition as_identifier (id : text) : option model :=    (* None = LexException *)
  match numeric_model (num W id) with
  | Some m => Some m
  | None =>
    if mem ch_dot id then
      if all_dots id then Some (MSym id)
      else
        let body := lstrip_dots id in
        if find_dd_pos body then None
        else if N.eqb (last id 0) ch_dot then None
        else
          let head := firstn (length id - length body) id in
          match all_some (map part_symbol (split_on ch_dot body [])) with
          | None => None
          | Some args =>
              Some (MNode KExpr (match head with
                                 | [] => MSym [ch_dot] :: args
                                 | _ => MSym head :: MSym s_None :: args
                                 end))
          end
    else Some (MSym id)
  end.

(* ---------------------------------------------------------------- string bodies *)
(* the three `closing` callbacks of read_chars_until, with their captured state made explicit *)
Inductive closing :=
| CQuote (raw bytes : bool)      (* prefixed_string.quote_closing *)
| CDelim (delim : text)          (* bracketed_string.delim_closing *)
| CBrace.                        (* read_fcomponent.component_closing *)

Inductive cstate := StQuote (escaping : bool) | StDelim (index : option nat) | StNone.

Inductive cstep := ClClosed (n : nat) | ClCont (st : cstate) | ClErr.

Definition escape_ok (bytes : bool) (c : N) : bool :=
  mem c (rd_escapes ++ (if bytes then rd_escapes_bytes_extra else rd_escapes_str_extra)).

Definition close_step (cl : closing) (st : cstate) (c : N) : cstep :=
  match cl, st with
  | CQuote raw bytes, StQuote esc =>
      if N.eqb c c_bs then ClCont (StQuote (negb esc))
      else if N.eqb c c_dq && negb esc then ClClosed 1
      else if esc && negb raw && negb (escape_ok bytes c) then ClErr
      else ClCont (StQuote false)
  | CDelim d, StDelim idx =>
      if N.eqb c c_rb then
        match idx with
        | Some i => if Nat.eqb i (length d) then ClClosed (length d + 2) else ClCont (StDelim (Some O))
        | None => ClCont (StDelim (Some O))
        end
      else
        match idx with
        | Some i => if Nat.ltb i (length d) && N.eqb c (nth i d 0) then ClCont (StDelim (Some (S i)))
                    else ClCont (StDelim None)
        | None => ClCont (StDelim None)
        end
  | CBrace, _ => if N.eqb c c_rc then ClClosed 1 else ClCont st
  | _, _ => ClErr
  end.

Definition init_state (cl : closing) : cstate :=
  match cl with CQuote _ _ => StQuote false | CDelim _ => StDelim None | CBrace => StNone end.

Inductive cures :=
| CUDone (content : text) (closed : bool) (rest : text) (st : cstate)
| CUErr (e : rerr).

(* the for-loop of read_chars_until.  [acc] is the list `s`, reversed; [fm] = fstring_mode is non-empty *)
Fixpoint chars_until (cl : closing) (fm raw : bool) (st : cstate) (named : bool) (acc : text) (s : text) : cures :=
  match s with
  | [] => CUErr EPremature
  | c :: r =>
      let acc' := c :: acc in
      match close_step cl st c with
      | ClErr => CUErr ELex
      | ClClosed n => CUDone (rev (skipn n acc')) true r st
      | ClCont st' =>
          if fm && N.eqb c c_lc then
            if negb raw && starts_with [c_lc; c_N; c_bs] acc' then chars_until cl fm raw st' true acc' r
            else match r with
                 | c2 :: r2 => if N.eqb c2 c_lc then chars_until cl fm raw st' named acc' r2
                               else CUDone (rev acc) false r st'
                 | [] => CUDone (rev acc) false r st'
                 end
          else if fm && N.eqb c c_rc then
            if named then chars_until cl fm raw st' false acc' r
            else match r with
                 | c2 :: r2 => if N.eqb c2 c_rc then chars_until cl fm raw st' named acc' r2 else CUErr ELex
                 | [] => CUErr ELex
                 end
          else chars_until cl fm raw st' named acc' r
      end
  end.

(* the two str.replace calls: CR LF to LF, then CR to LF *)
Fixpoint norm_newlines (s : text) : text :=
  match s with
  | [] => []
  | c :: r =>
      if N.eqb c c_cr then
        match r with
        | c2 :: r2 => if N.eqb c2 c_nl then c_nl :: norm_newlines r2 else c_nl :: norm_newlines r
        | [] => [c_nl]
        end
      else c :: norm_newlines r
  end.

(* value of k hex digits at the head of s *)
Fixpoint take_hex (k : nat) (s : text) (acc : N) : option (N * text) :=
  match k with
  | O => Some (acc, s)
  | S k' => match s with
            | c :: r => match hexval c with Some d => take_hex k' r (acc * 16 + d) | None => None end
            | [] => None
            end
  end.

Fixpoint take_oct (k : nat) (s : text) (acc : N) : N * text :=
  match k with
  | O => (acc, s)
  | S k' => match s with
            | c :: r => match octval c with Some d => take_oct k' r (acc * 8 + d) | None => (acc, s) end
            | [] => (acc, s)
            end
  end.

Definition simple_escape (c : N) : option N :=
  if N.eqb c 92 then Some 92 else if N.eqb c 39 then Some 39 else if N.eqb c 34 then Some 34
  else if N.eqb c 97 then Some 7 else if N.eqb c 98 then Some 8 else if N.eqb c 102 then Some 12
  else if N.eqb c 110 then Some 10 else if N.eqb c 114 then Some 13 else if N.eqb c 116 then Some 9
  else if N.eqb c 118 then Some 11 else None.

(* net effect of  res.encode('ISO-8859-1', 'backslashreplace').decode('unicode_escape')  (bytes = false)
   and of codecs.escape_decode (bytes = true): None = the codec raises *)
Fixpoint unescape (bytes : bool) (fuel : nat) (s : text) : option text :=
  match fuel with
  | O => Some []
  | S f =>
    match s with
    | [] => Some []
    | c :: r =>
      if N.eqb c c_bs then
        match r with
        | [] => None
        | e :: r2 =>
            let cons_ x t := match unescape bytes f t with Some u => Some (x :: u) | None => None end in
            if N.eqb e c_nl then unescape bytes f r2
            else match simple_escape e with
            | Some v => cons_ v r2
            | None =>
              match octval e with
              | Some _ => let '(v, r3) := take_oct 3 r 0 in cons_ (if bytes then v mod 256 else v) r3
              | None =>
                if N.eqb e 120 then
                  match take_hex 2 r2 0 with Some (v, r3) => cons_ v r3 | None => None end
                else if negb bytes && N.eqb e 117 then
                  match take_hex 4 r2 0 with Some (v, r3) => cons_ v r3 | None => None end
                else if negb bytes && N.eqb e 85 then
                  match take_hex 8 r2 0 with
                  | Some (v, r3) => if v <? 1114112 then cons_ v r3 else None
                  | None => None
                  end
                else if negb bytes && N.eqb e c_N then
                  match r2 with
                  | o :: r3 =>
                      if N.eqb o c_lc then
                        let '(nm, r4) := span (fun x => negb (N.eqb x c_rc)) r3 in
                        match r4 with
                        | _ :: r5 => match ulookup W nm with Some v => cons_ v r5 | None => None end
                        | [] => None
                        end
                      else None
                  | [] => None
                  end
                else match unescape bytes f r2 with Some u => Some (c :: e :: u) | None => None end
              end
            end
        end
      else match unescape bytes f r with Some u => Some (c :: u) | None => None end
    end
  end.

(* the tail of read_chars_until after the loop *)
Definition decode (raw bytes : bool) (content : text) : option text :=
  let res := norm_newlines content in
  if bytes && negb (forallb (fun c => c <? 128) res) then None
  else if raw then Some res
  else unescape bytes (S (length res)) res.

(* String(s, brackets=...) / FString(..., brackets=...) reject a content holding the closing delimiter *)
Definition closing_delim_text (b : text) : text := c_rb :: b ++ [c_rb].

Fixpoint string_in_node_fuel (fuel : nat) (p : text) (m : model) : bool :=
  match fuel with
  | O => false
  | S f =>
    match m with
    | MStr s _ => contains p s
    | MNode (KFStr _ _) ms | MNode (KFComp _ _) ms => existsb (string_in_node_fuel f p) ms
    | _ => false
    end
  end.

Fixpoint model_depth (m : model) : nat :=
  match m with
  | MNode _ ms => S (fold_right (fun x a => Nat.max (model_depth x) a) O ms)
  | _ => 1%nat
  end.

Definition string_in_node (p : text) (m : model) : bool := string_in_node_fuel (model_depth m) p m.

(* FString.__new__: adjacent String components are joined *)
Fixpoint join_strs (ms : list model) : list model :=
  match ms with
  | MStr a _ :: r =>
      match join_strs r with
      | MStr b _ :: r' => MStr (a ++ b) None :: r'
      | r' => MStr a None :: r'
      end
  | m :: r => m :: join_strs r
  | [] => []
  end.

Definition mk_fstring (comps : list model) (br : option text) (ts : bool) : option model :=
  let cs := join_strs comps in
  match br with
  | Some b => if existsb (string_in_node (closing_delim_text b)) cs then None else Some (MNode (KFStr br ts) cs)
  | None => Some (MNode (KFStr br ts) cs)
  end.

Definition mk_string (bytes : bool) (s : text) (br : option text) : option model :=
  if bytes then Some (MBytes s)
  else match br with
       | Some b => if contains (closing_delim_text b) s then None else Some (MStr s br)
       | None => Some (MStr s None)
       end.

(* prefixed_string's validation of the prefix; result: (raw, bytes, fstring mode) *)
Inductive fmode := FmNone | FmF | FmT.
Definition count_c (c : N) (s : text) : nat := length (filter (N.eqb c) s).
Definition prefix_flags (p : text) : option (bool * bool * fmode) :=
  let has c := mem c p in
  let r := has 114 in let b := has 98 in let f := has 102 in let t := has 116 in
  let distinct := forallb (fun c => Nat.eqb (count_c c p) 1) p in
  let subset := forallb (fun c => mem c rd_prefix_alphabet) p in
  let proper := negb (r && b && f && t) in
  let others := ((if b then 1 else 0) + (if f then 1 else 0) + (if t then 1 else 0))%nat in
  if distinct && subset && proper && Nat.leb others 1
  then Some (r, b, if f then FmF else if t then FmT else FmNone)
  else None.

Definition is_pyspace (c : N) : bool :=     (* characters str.strip() removes *)
  is_ws c || ((28 <=? c) && (c <=? 31)) || mem c [133; 160; 5760; 8232; 8233; 8239; 8287; 12288]
  || ((8192 <=? c) && (c <=? 8202)).

(* ---------------------------------------------------------------- dispatch *)
Inductive disp :=
| DOpen (k : skind) (closer : N)   (* ( [ {           sequence *)
| DInvalid                          (* ) ] }           INVALID *)
| DComment                          (* ;               line_comment *)
| DKeyword                          (* :               keyword *)
| DString                           (* dquote          prefixed_string with no prefix *)
| DTag (root : text)                (* quote backquote tag_as *)
| DUnquote                          (* ~               unquote *)
| DHash                             (* #               tag_dispatch *)
| DDefault.                         (* anything else   read_default *)

Definition dispatch (c : N) : disp :=
  if N.eqb c c_lp then DOpen KExpr c_rp
  else if N.eqb c c_lb then DOpen KList c_rb
  else if N.eqb c c_lc then DOpen KDict c_rc
  else if N.eqb c c_rp || N.eqb c c_rb || N.eqb c c_rc then DInvalid
  else if N.eqb c c_semi then DComment
  else if N.eqb c c_colon then DKeyword
  else if N.eqb c c_dq then DString
  else if N.eqb c c_sq then DTag s_quote
  else if N.eqb c c_bq then DTag s_quasiquote
  else if N.eqb c c_tilde then DUnquote
  else if N.eqb c c_hash then DHash
  else DDefault.

(* the reader macros registered with reader_for("#...") *)
Inductive hashtag :=
| HSeq (k : skind) (closer : N)     (* #{  #( *)
| HDiscard                          (* #_ *)
| HUnpack (root : text)             (* #*  #** *)
| HAnnotate                         (* #^ *)
| HBracket.                         (* #[ *)

Definition hash_lookup (ident : text) : option hashtag :=
  if text_eqb ident [c_lc] then Some (HSeq KSet c_rc)
  else if text_eqb ident [c_lp] then Some (HSeq KTuple c_rp)
  else if text_eqb ident [ch_us] then Some HDiscard
  else if text_eqb ident [c_star] then Some (HUnpack s_unpack_iterable)
  else if text_eqb ident [c_star; c_star] then Some (HUnpack s_unpack_mapping)
  else if text_eqb ident [c_caret] then Some HAnnotate
  else if text_eqb ident [c_lb] then Some HBracket
  else None.

Inductive mode :=
| RdForm                                     (* try_parse_one_form *)
| RdOne                                      (* parse_one_form *)
| RdSeq (closer : option N) (acc : list model)   (* parse_forms_until; acc reversed; None = end of input *)
| RdFComps (cl : closing) (st : cstate) (raw : bool) (acc : list model)   (* read_fcomponents_until *)
| RdFComp (raw : bool) (ts : bool).          (* read_fcomponent(prefix, fstring_mode) *)

Definition mkexpr (root : text) (args : list model) : model := MNode KExpr (MSym root :: args).

Definition is_str_empty (s : text) : bool := match s with [] => true | _ => false end.

Definition set_tstring (m : model) : model :=
  match m with
  | MNode (KFComp cv _) ms => MNode (KFComp cv true) ms
  | x => x
  end.

(* the debugging = of a replacement field: the text kept for it, and the rest *)
Definition take_dbg (before : text) (s3 : text) : option text * text :=
  match s3 with
  | e :: t => if N.eqb e c_eq
              then let '(sp3, t') := span is_ws t in (Some (before ++ [c_eq] ++ sp3), t')
              else (None, s3)
  | [] => (None, s3)
  end.

(* the conversion of a replacement field.  A bang at the very end of input makes conversion empty,
   and the field then ends prematurely for want of a closing brace. *)
Definition take_conv (s4 : text) : option N * text :=
  match s4 with
  | b :: t => if N.eqb b c_bang
              then match t with
                   | cv :: t' => (Some cv, t')
                   | [] => (None, t)
                   end
              else (None, s4)
  | [] => (None, s4)
  end.

(* The bodies of the reader's methods, with the recursive calls abstracted as [rec]. *)
Section Bodies.
Variable rec : mode -> text -> res.

(* read_string_until, after the opening delimiter *)
Definition read_string_body (cl : closing) (raw bytes : bool) (fm : fmode) (br : option text) (body : text) : res :=
  match fm with
  | FmNone =>
      match chars_until cl false raw (init_state cl) false [] body with
      | CUErr e => RErr e
      | CUDone content _ rest _ =>
          match decode raw bytes content with
          | None => RErr ELex
          | Some v => match mk_string bytes v br with
                      | Some m => RForm (Some m) rest
                      | None => RErr ELex
                      end
          end
      end
  | _ =>
      match rec (RdFComps cl (init_state cl) raw []) body with
      | RSeq comps rest =>
          let ts := match fm with FmT => true | _ => false end in
          let comps' := if ts then map set_tstring comps else comps in
          match mk_fstring comps' br ts with
          | Some m => RForm (Some m) rest
          | None => RErr ELex
          end
      | x => x
      end
  end.

(* bracketed_string, after the two characters that select it *)
Definition bracket_body (r1 : text) : res :=
  let '(delim, r3) := span (fun x => negb (N.eqb x c_lb || N.eqb x c_rb)) r1 in
  match r3 with
  | [] => RErr EPremature
  | c3 :: r4 =>
    if N.eqb c3 c_rb then RErr ELex
    else
      let fm := if text_eqb delim [102] || starts_with [102; c_minus] delim then FmF else FmNone in
      let r5 := match r4 with x :: t => if N.eqb x c_cr then t else r4 | [] => r4 end in
      let r6 := match r5 with x :: t => if N.eqb x c_nl then t else r5 | [] => r5 end in
      read_string_body (CDelim delim) true false fm (Some delim) r6
  end.

(* tag_dispatch, after the hash character *)
Definition hash_body (r : text) : res :=
  match r with
  | [] => RErr EPremature
  | c2 :: r2 =>
    if is_pyspace c2 then RErr EPremature
    else
      let '(id0, r0) := span_ident r in
      let '(ident, r1) := match id0 with [] => ([c2], r2) | _ => (id0, r0) end in
      match hash_lookup ident with
      | None => RErr ELex
      | Some (HSeq k closer) =>
          match rec (RdSeq (Some closer) []) r1 with
          | RSeq ms r' => RForm (Some (MNode k ms)) r'
          | x => x
          end
      | Some HDiscard =>
          match rec RdOne r1 with
          | ROne _ r' => RForm None r'
          | x => x
          end
      | Some (HUnpack root) =>
          match rec RdOne r1 with
          | ROne m r' => RForm (Some (mkexpr root [m])) r'
          | x => x
          end
      | Some HAnnotate =>
          match rec RdOne r1 with
          | ROne typ r' =>
              match rec RdOne r' with
              | ROne target r'' => RForm (Some (mkexpr s_annotate [target; typ])) r''
              | x => x
              end
          | x => x
          end
      | Some HBracket => bracket_body r1
      end
  end.

(* read_default *)
Definition default_body (c : N) (r : text) : res :=
  let '(idt, r') := span_ident r in
  let id := c :: idt in
  match r' with
  | q :: body =>
      if N.eqb q c_dq then
        match prefix_flags id with
        | None => RErr ELex
        | Some (raw, bytes, fm) => read_string_body (CQuote raw bytes) raw bytes fm None body
        end
      else match as_identifier id with Some m => RForm (Some m) r' | None => RErr ELex end
  | [] => match as_identifier id with Some m => RForm (Some m) r' | None => RErr ELex end
  end.

(* try_parse_one_form *)
Definition form_body (s : text) : res :=
  match skip_ws s with
  | [] => RErr EPremature
  | c :: r =>
    match dispatch c with
    | DOpen k closer =>
        match rec (RdSeq (Some closer) []) r with
        | RSeq ms r' => RForm (Some (MNode k ms)) r'
        | x => x
        end
    | DInvalid => RErr ELex
    | DComment => RForm None (drop_line r)
    | DKeyword =>
        let '(id, r') := span_ident r in
        if mem ch_dot id then RErr ELex else RForm (Some (MKw id)) r'
    | DString => read_string_body (CQuote false false) false false FmNone None r
    | DTag root =>
        match rec RdOne r with
        | ROne m r' => RForm (Some (mkexpr root [m])) r'
        | x => x
        end
    | DUnquote =>
        let '(root, r1) := match r with
                           | c2 :: r2 => if N.eqb c2 c_at then (s_unquote_splice, r2) else (s_unquote, r)
                           | [] => (s_unquote, r)
                           end in
        match rec RdOne r1 with
        | ROne m r' => RForm (Some (mkexpr root [m])) r'
        | x => x
        end
    | DHash => hash_body r
    | DDefault => default_body c r
    end
  end.

(* parse_one_form *)
Definition one_body (s : text) : res :=
  match rec RdForm s with
  | RForm (Some m) r => ROne m r
  | RForm None r => rec RdOne r
  | x => x
  end.

(* parse_forms_until *)
Definition seq_body (closer : option N) (acc : list model) (s : text) : res :=
  match skip_ws s, closer with
  | [], None => RSeq (rev acc) []
  | [], Some _ => RErr EPremature
  | c :: r, _ =>
      if match closer with Some k => N.eqb c k | None => false end then RSeq (rev acc) r
      else match rec RdForm (c :: r) with
           | RForm (Some m) r' => rec (RdSeq closer (m :: acc)) r'
           | RForm None r' => rec (RdSeq closer acc) r'
           | x => x
           end
  end.

(* read_fcomponents_until *)
Definition fcomps_body (cl : closing) (st : cstate) (raw : bool) (acc : list model) (s : text) : res :=
  match chars_until cl true raw st false [] s with
  | CUErr e => RErr e
  | CUDone content closed rest st' =>
      match decode raw false content with
      | None => RErr ELex
      | Some v =>
          let acc' := if is_str_empty v then acc else MStr v None :: acc in
          if closed then RSeq (rev acc') rest
          else match rec (RdFComp raw false) rest with
               | RSeq cs rest' => rec (RdFComps cl st' raw (rev cs ++ acc')) rest'
               | x => x
               end
      end
  end.

(* read_fcomponent *)
Definition fcomp_body (raw ts : bool) (s : text) : res :=
  let '(sp1, s1) := span is_ws s in
  match rec RdOne s1 with
  | ROne m s2 =>
      let form_text := firstn (length s1 - length s2) s1 in
      let '(sp2, s3) := span is_ws s2 in
      let '(dbg, s4) := take_dbg (sp1 ++ form_text ++ sp2) s3 in
      let '(conv, s5) := take_conv s4 in
      let s6 := skip_ws s5 in
      let pre := match dbg with Some d => [MStr d None] | None => [] end in
      match s6 with
      | k :: t =>
          if N.eqb k c_colon then
            match rec (RdFComps CBrace StNone raw []) t with
            | RSeq spec rest => RSeq (pre ++ [MNode (KFComp conv ts) (m :: spec)]) rest
            | x => x
            end
          else if N.eqb k c_rc then
            let cv := match conv, dbg with
                      | None, Some _ => Some 114      (* has_debug and conversion is None: r *)
                      | _, _ => conv
                      end in
            RSeq (pre ++ [MNode (KFComp cv ts) [m]]) t
          else RErr ELex
      | [] => RErr EPremature       (* the input ends where the closing brace of the field should be *)
      end
  | x => x
  end.

End Bodies.

Fixpoint rd (fuel : nat) (md : mode) (s : text) {struct fuel} : res :=
  match fuel with
  | O => ROut
  | S f =>
    match md with
    | RdForm => form_body (rd f) s
    | RdOne => one_body (rd f) s
    | RdSeq closer acc => seq_body (rd f) closer acc s
    | RdFComps cl st raw acc => fcomps_body (rd f) cl st raw acc s
    | RdFComp raw ts => fcomp_body (rd f) raw ts s
    end
  end.

(* hy.read: the first form of the text *)
Definition read_fuel (s : text) : nat := (2 * length s + 4)%nat.
Definition read_one (s : text) : res := rd (read_fuel s) RdOne s.

(* the reader returns r: with some amount of fuel, hence (ReaderFacts.rd_ge) with any larger amount *)
Definition reads (md : mode) (s : text) (r : res) : Prop := r <> ROut /\ exists n, rd n md s = r.

End Reader.
