(* Model of hy/core/hy_repr.hy on models (property C25), and of the CPython
   reprs it builds on.  [mrepr] is the text produced while _quoting is already
   set; [hy_repr_model] adds the quote prefix that the outermost call emits. *)
From HyV Require Import Print.Syntax Print.Names.

(* ---------------------------------------------------------------- formats of hy_repr.hy (Gen) *)
Fixpoint lookup_text (k : text) (l : list (text * text)) : text :=
  match l with
  | [] => []
  | (k', v) :: r => if text_eqb k k' then v else lookup_text k r
  end.

Definition dots3 : text := [46; 46; 46].

(* fmt.replace(three dots, body, 1) *)
Fixpoint fill_first (fmt body : text) : text :=
  match fmt with
  | [] => []
  | c :: r => if starts_with dots3 fmt then body ++ skipn 3 fmt else c :: fill_first r body
  end.

(* str.format / f-string with positional or expression fields: every brace group takes the next argument *)
Fixpoint drop_field (s : text) : text :=
  match s with
  | [] => []
  | c :: r => if N.eqb c c_rc then r else drop_field r
  end.

Fixpoint fill_fields (fuel : nat) (fmt : text) (args : list text) : text :=
  match fuel with
  | O => []
  | S f =>
    match fmt with
    | [] => []
    | c :: r =>
        if N.eqb c c_lc then
          match args with
          | a :: args' => a ++ fill_fields f (drop_field r) args'
          | [] => fill_fields f (drop_field r) []
          end
        else c :: fill_fields f r args
    end
  end.
Definition format (fmt : text) (args : list text) : text := fill_fields (S (length fmt)) fmt args.

Definition fmt_list : text := Eval vm_compute in lookup_text k_models_List repr_seq_formats.
Definition fmt_set : text := Eval vm_compute in lookup_text k_models_Set repr_seq_formats.

Definition cat (rs : list text) : text := intersperse [ch_space] rs.    (* _cat *)
Definition all_dots_text (s : text) : bool := forallb (N.eqb ch_dot) s.

(* ---------------------------------------------------------------- CPython reprs *)
Section Printer.
Variable W : oracle.

Definition py_quote (s : text) : N := if mem c_sq s && negb (mem c_dq s) then c_dq else c_sq.

Definition esc_x (c : N) : text := c_bs :: 120 :: hex_fixed 2 c.
Definition esc_u (c : N) : text := c_bs :: 117 :: hex_fixed 4 c.
Definition esc_U (c : N) : text := c_bs :: 85 :: hex_fixed 8 c.

(* unicode_repr: one character *)
Definition py_esc_str (q c : N) : text :=
  if N.eqb c q || N.eqb c c_bs then [c_bs; c]
  else if N.eqb c 9 then [c_bs; 116]
  else if N.eqb c 10 then [c_bs; 110]
  else if N.eqb c 13 then [c_bs; 114]
  else if (c <? 32) || N.eqb c 127 then esc_x c
  else if c <? 127 then [c]
  else if isprintable W c then [c]
  else if c <? 256 then esc_x c
  else if c <? 65536 then esc_u c
  else esc_U c.

Definition py_str_repr (s : text) : text :=
  let q := py_quote s in q :: flat_map (py_esc_str q) s ++ [q].

(* bytes_repr: one byte *)
Definition py_esc_bytes (q c : N) : text :=
  if N.eqb c q || N.eqb c c_bs then [c_bs; c]
  else if N.eqb c 9 then [c_bs; 116]
  else if N.eqb c 10 then [c_bs; 110]
  else if N.eqb c 13 then [c_bs; 114]
  else if (c <? 32) || (127 <=? c) then esc_x c
  else [c].

Definition py_bytes_repr (b : text) : text :=
  let q := py_quote b in 98 :: q :: flat_map (py_esc_bytes q) b ++ [q].

(* ---------------------------------------------------------------- hy_repr.hy, atoms *)
(* the printer registered for String str Bytes bytes, on the text given by _base-repr *)
Definition lstrip_ub (r : text) : text := dropwhile (fun c => N.eqb c 117 || N.eqb c 98) r.
Definition cut_1_m1 (r : text) : text := removelast (tl r).

Definition hy_quoted (is_bytes : bool) (base : text) : text :=
  let r := lstrip_ub base in
  (if is_bytes then [98] else []) ++
  (* the test is written (.startswith dquote r), that is: the one-character string starts with r *)
  (if starts_with r [c_dq] then r
   else c_dq :: replace_c c_dq [c_bs; c_dq] (cut_1_m1 r) ++ [c_dq]).

Definition hy_str (s : text) : text := hy_quoted false (py_str_repr s).
Definition hy_bytes (b : text) : text := hy_quoted true (py_bytes_repr b).

(* the reader drops a newline right after the opening delimiter, so a leading newline is printed twice *)
Definition lead_nl (s : text) : text := if starts_with [c_nl] s then [c_nl] else [].
Definition hy_bracket_str (br s : text) : text :=
  [c_hash; c_lb] ++ br ++ [c_lb] ++ lead_nl s ++ s ++ [c_rb] ++ br ++ [c_rb].

Definition hy_float (f : fl) : text :=
  match f with
  | FNaN => s_NaN
  | FInf false => s_Inf
  | FInf true => s_NegInf
  | FFin b => float_repr W b
  end.

(* str.replace for a non-empty pattern *)
Fixpoint replace_sub (fuel : nat) (a b s : text) : text :=
  match fuel with
  | O => s
  | S f =>
    match s with
    | [] => []
    | c :: r => if starts_with a s then b ++ replace_sub f a b (skipn (length a) s) else c :: replace_sub f a b r
    end
  end.
Definition is_paren (c : N) : bool := N.eqb c c_lp || N.eqb c c_rp.
Definition strip_parens (s : text) : text := rev (dropwhile is_paren (rev (dropwhile is_paren s))).
Definition hy_complex_text (r : text) : text :=
  let a := strip_parens r in
  let b := replace_sub (S (length a)) s_inf s_Inf a in
  replace_sub (S (length b)) s_nan s_NaN b.
Definition hy_complex (re im : fl) : text := hy_complex_text (complex_repr W re im).

(* ---------------------------------------------------------------- hy_repr.hy, compound models *)
Definition is_sym (m : model) : bool := match m with MSym _ => true | _ => false end.
Definition is_mstr (m : model) : bool := match m with MStr _ _ => true | _ => false end.
Definition sym_is (m : model) (t : text) : bool := match m with MSym s => text_eqb s t | _ => false end.
Definition sym_text (m : model) : text := match m with MSym s => s | _ => [] end.

(* Dict: items joined by one space, with one more before every even-indexed item but the first *)
Fixpoint dict_items (i : nat) (rs : list text) : list text :=
  match rs with
  | [] => []
  | r :: t => ((if negb (Nat.eqb i 0) && Nat.even i then [ch_space] else []) ++ r) :: dict_items (S i) t
  end.
Definition dict_body (rs : list text) : text := intersperse [ch_space] (dict_items 0 rs).

Fixpoint lookup_syntax (s : text) (l : list (text * text)) : option text :=
  match l with
  | [] => None
  | (k, v) :: r => if text_eqb s k then Some v else lookup_syntax s r
  end.

(* first branch of the Expression printer's cond: a dotted identifier *)
Definition expr_dotted (ms : list model) : bool :=
  let x0 := nth 0 ms (MNode KExpr []) in
  let x1 := nth 1 ms (MNode KExpr []) in
  Nat.leb 3 (length ms) && forallb is_sym ms
  && (sym_is x0 [ch_dot] || (sym_is x1 s_None && all_dots_text (sym_text x0))).

(* second branch: a two-element form whose head is a key of the syntax dict *)
Definition expr_sugar (ms : list model) : option text :=
  let x0 := nth 0 ms (MNode KExpr []) in
  if Nat.eqb (length ms) 2 && is_sym x0 then lookup_syntax (sym_text x0) repr_syntax else None.

Definition expr_repr (ms : list model) (rs : list text) : text :=
  let x0 := nth 0 ms (MNode KExpr []) in
  let x1 := nth 1 ms (MNode KExpr []) in
  let x1_none := sym_is x1 s_None in
  if expr_dotted ms
  then (if x1_none then sym_text x0 else []) ++ intersperse [ch_dot] (skipn (if x1_none then 2 else 1) rs)
  else
    match expr_sugar ms with
    | Some prefix =>
        if sym_is x0 s_unquote && is_sym x1 && starts_with [c_at] (sym_text x1)
        then [c_tilde; ch_space] ++ nth 1 rs []
        else prefix ++ nth 1 rs []
    | None => [c_lp] ++ cat rs ++ [c_rp]
    end.

Definition double_braces (s : text) : text :=
  replace_c c_rc [c_rc; c_rc] (replace_c c_lc [c_lc; c_lc] s).

(* the text of a format spec: String components as they are, the others as hy-repr prints them *)
Definition spec_text (ms : list model) (rs : list text) : text :=
  concat (map (fun mr => match fst mr with MStr s _ => s | _ => snd mr end) (combine ms rs)).

Definition fcomp_repr (conv : option N) (ms : list model) (rs : list text) : text :=
  let form := nth 0 rs [] in
  [c_lc] ++ (if starts_with [c_lc] form then [ch_space] else []) ++ form
  ++ (match conv with Some c => [ch_space; c_bang; c] | None => [] end)
  ++ (match ms with
      | _ :: _ :: _ => [ch_space; c_colon] ++ spec_text (tl ms) (tl rs)
      | _ => []
      end)
  ++ [c_rc].

Definition fstr_repr (br : option text) (ts : bool) (ms : list model) (rs : list text) : text :=
  match br with
  | Some b =>
      [c_hash; c_lb] ++ b ++ [c_lb]
      ++ (match ms with MStr s0 _ :: _ => lead_nl s0 | _ => [] end)
      ++ concat (map (fun mr => match fst mr with
                                | MStr s _ => double_braces s
                                | _ => snd mr
                                end) (combine ms rs))
      ++ [c_rb] ++ b ++ [c_rb]
  | None =>
      [if ts then 116 else 102; c_dq]
      ++ concat (map (fun mr => if is_mstr (fst mr) then double_braces (cut_1_m1 (snd mr)) else snd mr)
                     (combine ms rs))
      ++ [c_dq]
  end.

Definition node_repr (k : skind) (ms : list model) (rs : list text) : text :=
  match k with
  | KTuple => [c_hash; c_lp] ++ cat rs ++ [c_rp]
  | KList => fill_first fmt_list (cat rs)
  | KSet => fill_first fmt_set (cat rs)
  | KDict => [c_lc] ++ dict_body rs ++ [c_rc]
  | KExpr => expr_repr ms rs
  | KFComp conv _ => fcomp_repr conv ms rs
  | KFStr br ts => fstr_repr br ts ms rs
  end.

Fixpoint mrepr (m : model) : text :=
  match m with
  | MSym s => s
  | MKw s => c_colon :: s
  | MInt z => dec_Z z
  | MFloat f => hy_float f
  | MComplex a b => hy_complex a b
  | MStr s None => hy_str s
  | MStr s (Some br) => hy_bracket_str br s
  | MBytes b => hy_bytes b
  | MNode k ms => node_repr k ms (map mrepr ms)
  end.

(* hy-repr called from outside: the quote prefix goes before every model but a keyword *)
Definition hy_repr_model (m : model) : text :=
  match m with
  | MKw _ => mrepr m
  | _ => c_sq :: mrepr m
  end.

End Printer.
