(* Text constants (symbol names and fixed strings) used by the reader and printer models. *)
From HyV Require Import Print.Syntax.
From Coq Require Import String Ascii.

Definition tx (s : string) : text := List.map N_of_ascii (list_ascii_of_string s).

Definition s_quote : text := Eval compute in tx "quote".
Definition s_quasiquote : text := Eval compute in tx "quasiquote".
Definition s_unquote : text := Eval compute in tx "unquote".
Definition s_unquote_splice : text := Eval compute in tx "unquote-splice".
Definition s_unpack_iterable : text := Eval compute in tx "unpack-iterable".
Definition s_unpack_mapping : text := Eval compute in tx "unpack-mapping".
Definition s_annotate : text := Eval compute in tx "annotate".
Definition s_None : text := Eval compute in tx "None".
Definition s_True : text := Eval compute in tx "True".
Definition s_False : text := Eval compute in tx "False".
Definition s_NaN : text := Eval compute in tx "NaN".
Definition s_Inf : text := Eval compute in tx "Inf".
Definition s_NegInf : text := Eval compute in tx "-Inf".
Definition s_inf : text := Eval compute in tx "inf".
Definition s_nan : text := Eval compute in tx "nan".

(* keys of the Gen tables *)
Definition k_models_List : text := Eval compute in tx "hy.models.List".
Definition k_models_Set : text := Eval compute in tx "hy.models.Set".
Definition k_list : text := Eval compute in tx "list".
Definition k_set : text := Eval compute in tx "set".
Definition k_frozenset : text := Eval compute in tx "frozenset".
Definition k_deque : text := Eval compute in tx "collections.deque".
Definition k_ChainMap : text := Eval compute in tx "collections.ChainMap".
Definition k_Counter : text := Eval compute in tx "collections.Counter".
Definition k_OrderedDict : text := Eval compute in tx "collections.OrderedDict".
Definition k_defaultdict : text := Eval compute in tx "collections.defaultdict".
Definition k_Fraction : text := Eval compute in tx "Fraction".
Definition k_bytearray : text := Eval compute in tx "bytearray".
Definition k_dict : text := Eval compute in tx "dict".
Definition k_tuple : text := Eval compute in tx "tuple".
Definition k_range : text := Eval compute in tx "range".
Definition k_slice : text := Eval compute in tx "slice".

(* constructor names as they appear in printed values *)
Definition n_deque : text := Eval compute in tx "deque".
Definition n_OrderedDict : text := Eval compute in tx "OrderedDict".
Definition n_Counter : text := Eval compute in tx "Counter".
Definition n_defaultdict : text := Eval compute in tx "defaultdict".
Definition n_ChainMap : text := Eval compute in tx "ChainMap".
Definition tx_class_open : text := Eval compute in tx "<class '".
Definition tx_class_close : text := Eval compute in tx "'>".

(* handler names of the reader_for table *)
Definition h_INVALID : text := Eval compute in tx "INVALID".
Definition h_line_comment : text := Eval compute in tx "line_comment".
Definition h_keyword : text := Eval compute in tx "keyword".
Definition h_prefixed_string : text := Eval compute in tx "prefixed_string".
Definition h_tag_as : text := Eval compute in tx "tag_as".
Definition h_unquote : text := Eval compute in tx "unquote".
Definition h_sequence : text := Eval compute in tx "sequence".
Definition h_tag_dispatch : text := Eval compute in tx "tag_dispatch".
Definition h_discard : text := Eval compute in tx "discard".
Definition h_hash_star : text := Eval compute in tx "hash_star".
Definition h_annotate : text := Eval compute in tx "annotate".
Definition h_bracketed_string : text := Eval compute in tx "bracketed_string".
Definition m_Expression : text := Eval compute in tx "Expression".
Definition m_List : text := Eval compute in tx "List".
Definition m_Dict : text := Eval compute in tx "Dict".
Definition m_Set : text := Eval compute in tx "Set".
Definition m_Tuple : text := Eval compute in tx "Tuple".
