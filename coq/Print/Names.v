(* Text constants (symbol names and fixed strings) used by the reader and printer models. *)
From HyV Require Import Print.Syntax.
From Coq Require Import String Ascii.

Definition tx (s : string) : text := List.map N_of_ascii (list_ascii_of_string s).

Definition s_quote : text := Eval compute in tx "quote".
Definition s_quasiquote : text := Eval compute in tx "quasiquote".
Definition s_unquote : text := Eval compute in tx "unquote".
Definition s_unquote_splice : text := Eval compute in tx "unquote-splice".
Definition s_unpack_iterable : text := Eval compute in tx "unpack-iterable".
Definition s_unpack_mapping : text := Eval compute in tx "unpack-mapping".
Definition s_annotate : text := Eval compute in tx "annotate".
Definition s_None : text := Eval compute in tx "None".
Definition s_True : text := Eval compute in tx "True".
Definition s_False : text := Eval compute in tx "False".
Definition s_NaN : text := Eval compute in tx "NaN".
Definition s_Inf : text := Eval compute in tx "Inf".
Definition s_NegInf : text := Eval compute in tx "-Inf".
Definition s_inf : text := Eval compute in tx "inf".
Definition s_nan : text := Eval compute in tx "nan".
