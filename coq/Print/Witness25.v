(* C25: witnesses.  Each is a model the reader produces from the given source text and whose printed
   form does not read back to it.  W_plain is an oracle under which no token is a number; the texts
   contain no numeric token. *)
From HyV Require Import Print.Syntax Print.Names Print.Reader Print.ModelRepr Print.TableOracle Print.ReaderFacts
     Print.StringFacts Print.AtomFacts Print.SugarFacts Print.FStringFacts Print.FString Print.FStringRead Print.FStrRepr
     Print.RoundTrip Print.ModelTheorems.
From Coq Require Import String.

Definition W_plain : oracle := table_oracle [] [] [] [] [].

Definition model_of (src : string) : model :=
  match read_one W_plain (tx src) with ROne m _ => m | _ => MSym [] end.

Ltac refute src :=
  exists (model_of src); split;
  [ apply (readable_by_reading W_plain (tx src)); vm_compute; reflexivity
  | eapply (refute_by_reading W_plain); [vm_compute; reflexivity|discriminate|];
    let r := fresh in let E := fresh in let H := fresh in
    intros r E H; first [discriminate E | (injection E as <-; vm_compute in H; discriminate)] ].




(* f"{x :a{y = }}" : two String components side by side in a format spec (the second is the text kept for the
   debugging =) are printed as one run of text *)
Lemma spec_adjacent_strings : exists m, readable W_plain m /\ ~ repr_roundtrips W_plain m.
Proof. refute "f""{x :a{y = }}"""%string. Qed.

(* (. a ... b) : printed as a dotted identifier that is not one *)
Lemma dotted_form_parts : exists m, readable W_plain m /\ ~ repr_roundtrips W_plain m.
Proof. refute "(. a ... b)"%string. Qed.

(* f"{a :{{}" : the text of a format spec is printed without escaping *)
Lemma spec_text_unescaped : exists m, readable W_plain m /\ ~ repr_roundtrips W_plain m.
Proof. refute "f""{a :{{}"""%string. Qed.

(* rf"\N{{x}}" : the literal text \N{ inside an f-string is printed so that it reads as a named escape *)
Lemma named_escape_text : exists m, readable W_plain m /\ ~ repr_roundtrips W_plain m.
Proof. refute "rf""\N{{x}}"""%string. Qed.

(* (unquote @a.b) : printed as ~@a.b, which is an unquote-splice *)
Lemma unquote_dotted_at : exists m, readable W_plain m /\ ~ repr_roundtrips W_plain m.
Proof. refute "(unquote @a.b)"%string. Qed.

(* #[f[{a CR = }]f] : the text kept for the debugging = holds a carriage return, which a bracket f-string prints raw *)
Lemma bracket_fstring_cr : exists m, readable W_plain m /\ ~ repr_roundtrips W_plain m.
Proof.
  set (src := tx "#[f[{a" ++ [c_cr] ++ tx "= }]f]").
  exists (match read_one W_plain src with ROne m _ => m | _ => MSym [] end). split.
  - apply (readable_by_reading W_plain src). vm_compute. reflexivity.
  - eapply (refute_by_reading W_plain); [vm_compute; reflexivity|discriminate|].
    intros r E H. first [discriminate E | (injection E as <-; vm_compute in H; discriminate)].
Qed.

(* an object that meets the hypotheses of the round trip: '(a 'b #[x[hi]x] x.y) for any oracle under which
   a, b, x, y and x.y are not numbers *)
Definition m_example : model :=
  MNode KExpr [MSym [97]; MNode KExpr [MSym s_quote; MSym [98]]; MStr [104; 105] (Some [120]);
               MNode KExpr [MSym [ch_dot]; MSym [120]; MSym [121]]].

Lemma example_ok W :
  num W [97] = NotNum -> num W [98] = NotNum -> num W [120] = NotNum -> num W [121] = NotNum ->
  num W [120; 46; 121] = NotNum -> ok W m_example.
Proof.
  intros Ha Hb Hx Hy Hxy. unfold m_example.
  assert (S1 : forall c, num W [c] = NotNum -> ident_char c = true -> dispatch c = DDefault -> c <> ch_dot -> sym_ok W [c]).
  { intros c Hn Hi Hd Hne. split; [split; [cbn [forallb]; rewrite Hi; reflexivity|exact Hd]|].
    split; [exact Hn|left]. unfold mem. cbn [existsb]. rewrite orb_false_r. apply N.eqb_neq. congruence. }
  apply OkExpr; [reflexivity|].
  apply Forall_cons; [apply OkSym, S1; try assumption; try reflexivity; discriminate|].
  apply Forall_cons.
  { apply (OkSugar W s_quote [c_sq]); [reflexivity|discriminate|].
    apply OkSym, S1; try assumption; try reflexivity; discriminate. }
  apply Forall_cons; [apply OkBracket; repeat split; reflexivity|].
  apply Forall_cons; [|constructor].
  apply (OkDotted W [] [[120]; [121]]); try reflexivity; try discriminate.
  - apply Forall_cons; [|apply Forall_cons; [|constructor]]; (split; [discriminate|split; [reflexivity|split; [reflexivity|assumption]]]).
  - intros _. split; [cbn; auto|split; [discriminate|reflexivity]].
  - exact Hxy.
Qed.

(* ... and by the f-string  f"a{x !r :{w}}"  (a conversion and a nested format spec) *)
Definition m_fexample : model :=
  MNode (KFStr None false)
        [MStr [97] None; MNode (KFComp (Some 114) false) [MSym [120]; MNode (KFComp None false) [MSym [119]]]].

Lemma sym1 W c : num W [c] = NotNum -> ident_char c = true -> dispatch c = DDefault -> c <> ch_dot -> sym_ok W [c].
Proof.
  intros Hn Hi Hd Hne. split; [split; [cbn [forallb]; rewrite Hi; reflexivity|exact Hd]|].
  split; [exact Hn|left]. unfold mem. cbn [existsb]. rewrite orb_false_r. apply N.eqb_neq. congruence.
Qed.

Lemma example_fstr_ok W : num W [120] = NotNum -> num W [119] = NotNum -> ok W m_fexample.
Proof.
  intros Hx Hw. unfold m_fexample. apply OkFStr.
  - apply Forall_cons; [apply FcStr; [discriminate|repeat constructor|reflexivity]|].
    apply Forall_cons; [|constructor].
    apply FcField; [apply OkSym, sym1; try assumption; try reflexivity; discriminate|].
    apply SpField; [|apply SpNil].
    apply FcField; [apply OkSym, sym1; try assumption; try reflexivity; discriminate|apply SpNil].
  - cbn [fseq_ok]. split; [reflexivity|exact I].
Qed.

(* The former failing inputs, now inside the fragment of the round-trip theorem:
   the bracket string  #[[ NL NL x]]  (content starts with a newline) ... *)
Definition m_bracket_nl : model := MStr [c_nl; 120] (Some []).
Lemma bracket_nl_ok W : ok W m_bracket_nl.
Proof. apply OkBracket. repeat split; reflexivity. Qed.

(* ... and  f"{ {a b} :>{w}<}"  (the form of the field is a dict; the format spec has three components) *)
Definition m_dict_spec : model :=
  MNode (KFStr None false)
        [MNode (KFComp None false)
               [MNode KDict [MSym [97]; MSym [98]]; MStr [62] None; MNode (KFComp None false) [MSym [119]]; MStr [60] None]].

Lemma dict_spec_ok W : num W [97] = NotNum -> num W [98] = NotNum -> num W [119] = NotNum -> ok W m_dict_spec.
Proof.
  intros Ha Hb Hw. unfold m_dict_spec. apply OkFStr; [|exact I].
  apply Forall_cons; [|constructor]. apply FcField.
  - apply OkDict. apply Forall_cons; [apply OkSym, sym1; try assumption; try reflexivity; discriminate|].
    apply Forall_cons; [apply OkSym, sym1; try assumption; try reflexivity; discriminate|constructor].
  - apply SpStr; [discriminate|reflexivity| |exact I].
    apply SpField; [apply FcField; [apply OkSym, sym1; try assumption; try reflexivity; discriminate|apply SpNil]|].
    apply SpStr; [discriminate|reflexivity|apply SpNil|exact I].
Qed.
