(* f-string syntax as a tree (literal runs and replacement fields, format specs nested to any depth),
   its Hy rendering, the components the reader builds from it, and the proof that the reader
   (read_fcomponents_until / read_fcomponent) builds exactly those from the rendered text. *)
From HyV Require Import Print.Syntax Print.Names Print.Reader Print.ModelRepr Print.ReaderFacts Print.StringFacts
     Print.AtomFacts Print.FStringFacts.
From Coq Require Import Lia.

Inductive fpart :=
| PLit (src kept v : text)            (* source text, what the reader keeps of it, the characters it denotes *)
| PField (ws1 : text) (m : model) (t : text) (ws2 : text)      (* { ws1 form-text ws2 *)
         (dbg : option text)                                      (* = ws3 *)
         (conv : option (N * text))                               (* ! c ws4 *)
         (has_spec : bool) (spec : list fpart).                   (* : spec } *)

Section FpartInd.
  Variable P : fpart -> Prop.
  Hypothesis Hlit : forall a b c, P (PLit a b c).
  Hypothesis Hfield : forall ws1 m t ws2 dbg conv hs spec, Forall P spec -> P (PField ws1 m t ws2 dbg conv hs spec).
  Fixpoint fpart_ind' (p : fpart) : P p :=
    match p with
    | PLit a b c => Hlit a b c
    | PField ws1 m t ws2 dbg conv hs spec =>
        Hfield ws1 m t ws2 dbg conv hs spec
          ((fix go (l : list fpart) : Forall P l :=
              match l with [] => Forall_nil _ | x :: r => Forall_cons x (fpart_ind' x) (go r) end) spec)
    end.
End FpartInd.

Definition dbg_text (dbg : option text) : text := match dbg with Some ws3 => c_eq :: ws3 | None => [] end.
Definition conv_text (conv : option (N * text)) : text := match conv with Some (c, ws4) => c_bang :: c :: ws4 | None => [] end.

(* the text of a part as written in Hy source (inside the quotes) *)
Fixpoint render (p : fpart) : text :=
  match p with
  | PLit src _ _ => src
  | PField ws1 _ t ws2 dbg conv hs spec =>
      [c_lc] ++ ws1 ++ t ++ ws2 ++ dbg_text dbg ++ conv_text conv
      ++ (if hs then [c_colon] ++ concat (map render spec) ++ [c_rc] else [c_rc])
  end.
Definition render_all (ps : list fpart) : text := concat (map render ps).

Definition field_text ws1 t ws2 dbg conv (hs : bool) (spec : list fpart) : text :=
  ws1 ++ t ++ ws2 ++ dbg_text dbg ++ conv_text conv
  ++ (if hs then [c_colon] ++ render_all spec ++ [c_rc] else [c_rc]).

Definition conv_char (conv : option (N * text)) : option N := match conv with Some (c, _) => Some c | None => None end.

Definition flush (V : text) : list model := if is_str_empty V then [] else [MStr V None].

(* the components read_fcomponents_until returns (adjacent strings not yet joined).
   [assemble_from V l]: V = value of the literal text pending since the last field; every part comes with
   the components it contributes when it is a field. *)
Fixpoint assemble_from (V : text) (l : list (fpart * list model)) : list model :=
  match l with
  | [] => flush V
  | (PLit _ _ v, _) :: r => assemble_from (V ++ v) r
  | (PField _ _ _ _ _ _ _ _, cs) :: r => flush V ++ cs ++ assemble_from [] r
  end.

Definition field_conv (dbg : option text) (conv : option (N * text)) (hs : bool) : option N :=
  if hs then conv_char conv
  else match conv_char conv, dbg with
       | None, Some _ => Some 114          (* has_debug and no conversion and no spec: r *)
       | cv, _ => cv
       end.

Definition dbg_comp ws1 t ws2 (dbg : option text) : list model :=
  match dbg with Some ws3 => [MStr (ws1 ++ t ++ ws2 ++ [c_eq] ++ ws3) None] | None => [] end.

(* what read_fcomponent returns for a field *)
Fixpoint part_comps (p : fpart) : list model :=
  match p with
  | PLit _ _ _ => []
  | PField ws1 m t ws2 dbg conv hs spec =>
      dbg_comp ws1 t ws2 dbg
      ++ [MNode (KFComp (field_conv dbg conv hs) false)
                (m :: (if hs then assemble_from [] (map (fun q => (q, part_comps q)) spec) else []))]
  end.

Definition comps_from (V : text) (ps : list fpart) : list model :=
  assemble_from V (map (fun q => (q, part_comps q)) ps).

Lemma comps_from_nil V : comps_from V [] = flush V. Proof. reflexivity. Qed.
Lemma comps_from_lit V a b v r : comps_from V (PLit a b v :: r) = comps_from (V ++ v) r. Proof. reflexivity. Qed.
Lemma comps_from_field V ws1 m t ws2 dbg conv hs spec r :
  comps_from V (PField ws1 m t ws2 dbg conv hs spec :: r)
  = flush V ++ part_comps (PField ws1 m t ws2 dbg conv hs spec) ++ comps_from [] r.
Proof. reflexivity. Qed.
Lemma part_comps_field ws1 m t ws2 dbg conv hs spec :
  part_comps (PField ws1 m t ws2 dbg conv hs spec)
  = dbg_comp ws1 t ws2 dbg
    ++ [MNode (KFComp (field_conv dbg conv hs) false) (m :: (if hs then comps_from [] spec else []))].
Proof. reflexivity. Qed.
