(* C24: from the Hy source text of an f-string to the formatted string, against Python's rules. *)
From HyV Require Import Print.Syntax Print.Names Print.Reader Print.ModelRepr Print.ReaderFacts Print.StringFacts
     Print.AtomFacts Print.FStringFacts Print.FString Print.FStringRead Print.FStringAst.
From Coq Require Import Lia.

Section T.
Variable W : oracle.

(* the source text f"..." *)
Definition hy_fstring_text (ps : list fpart) : text := [102; c_dq] ++ render_all ps ++ [c_dq].

(* hy.read of the f-string gives an FString model ... *)
Theorem fstring_read ps rest : parts_ok W false [] ps ->
  reads W RdForm (hy_fstring_text ps ++ rest)
        (RForm (Some (MNode (KFStr None false) (join_strs (comps_from [] ps)))) rest).
Proof.
  intros Hok. destruct (read_rendered W false ps [] rest Hok) as [_ [n Hn]].
  apply (reads_intro W (S n)); [|discriminate]. rewrite rd_S. cbn [mode_rect]. unfold form_body, hy_fstring_text.
  cbn [app]. rewrite skip_ws_nonws by reflexivity. change (dispatch 102) with DDefault. cbv iota.
  unfold default_body. unfold span_ident. rewrite span_none by reflexivity.
  change (N.eqb c_dq c_dq) with true. cbv iota. change (prefix_flags [102]) with (Some (false, false, FmF)). cbv iota beta.
  unfold read_string_body. cbn [init_state]. rewrite <- app_assoc. cbn [app].
  cbn [cl_of st_of closer_of rev app] in Hn. rewrite Hn. reflexivity.
Qed.

(* ... whose compilation formats like the tree Python's rules give, for every assignment of values to the
   embedded expressions and every formatting function *)
Theorem fstring_agrees ps rest : parts_ok W false [] ps -> forallb convs_ok ps = true ->
  exists m js,
    reads W RdForm (hy_fstring_text ps ++ rest) (RForm (Some m) rest)
    /\ compile_fstring m = Some js
    /\ forall (val : Type) (env : model -> val) (fmt : val -> option N -> text -> text),
         jeval val env fmt js = jeval val env fmt (py_ast ps).
Proof.
  intros Hok Hc.
  assert (HF : forall val env fmt, Forall (part_agrees val env fmt) ps)
    by (intros; apply Forall_forall; intros p _; apply all_parts_agree).
  destruct (parts_agree unit (fun _ => tt) (fun _ _ s => s) ps (HF _ _ _) Hc []) as (js0 & A0 & _).
  destruct (compile_join unit (fun _ => tt) (fun _ _ s => s) _ _ A0) as (js & A & _).
  exists (MNode (KFStr None false) (join_strs (comps_from [] ps))), js.
  split; [apply fstring_read; exact Hok|]. split; [exact A|].
  intros val env fmt.
  destruct (parts_agree val env fmt ps (HF _ _ _) Hc []) as (js0' & A0' & B0').
  assert (js0' = js0) by congruence. subst js0'.
  destruct (compile_join val env fmt _ _ A0) as (js' & A' & B').
  assert (js' = js) by (cbn [compile_fstring] in A; congruence). subst js'.
  rewrite B', B0'. reflexivity.
Qed.

(* ---------------------------------------------------------------- malformed fields and conversions *)
(* a single closing brace in the literal text *)
Lemma single_close_brace_is_lex rec c rest acc :
  N.eqb c c_rc = false ->
  fcomps_body W rec (CQuote false false) (StQuote false) false acc (c_rc :: c :: rest) = RErr ELex.
Proof.
  intros H. unfold fcomps_body. rewrite cu_unfold.
  change (close_step (CQuote false false) (StQuote false) c_rc) with (ClCont (StQuote false)).
  change (true && N.eqb c_rc c_lc) with false. change (true && N.eqb c_rc c_rc) with true. cbv iota. rewrite H. reflexivity.
Qed.

(* an empty replacement field *)
Lemma empty_field_is_lex n raw ts sp rest :
  forallb is_ws sp = true -> rd W (S (S (S n))) (RdFComp raw ts) (sp ++ c_rc :: rest) = RErr ELex.
Proof.
  intros Hsp. rewrite rd_S. cbn [mode_rect]. unfold fcomp_body.
  rewrite (span_app is_ws sp (c_rc :: rest) Hsp) by reflexivity.
  rewrite rd_S. cbn [mode_rect]. unfold one_body. rewrite rd_S. cbn [mode_rect]. unfold form_body.
  rewrite skip_ws_nonws by reflexivity. reflexivity.
Qed.

(* something other than = ! : } after the form of a field *)
Lemma trailing_junk_is_lex rec raw ts m t x rest :
  rec RdOne (t ++ x :: rest) = ROne m (x :: rest) ->
  (match t with c :: _ => is_ws c = false | [] => False end) ->
  is_ws x = false -> N.eqb x c_eq = false -> N.eqb x c_bang = false -> N.eqb x c_colon = false -> N.eqb x c_rc = false ->
  fcomp_body rec raw ts (t ++ x :: rest) = RErr ELex.
Proof.
  intros Hr Ht Hw He Hb Hc Hrc. unfold fcomp_body.
  assert (Hs : span is_ws (t ++ x :: rest) = ([], t ++ x :: rest)).
  { destruct t as [|c t']; [destruct Ht|]. cbn [app span]. rewrite Ht. reflexivity. }
  rewrite Hs, Hr. cbn [span]. rewrite Hw. cbn [take_dbg]. rewrite He. cbn [take_conv]. rewrite Hb.
  rewrite skip_ws_nonws by exact Hw. rewrite Hc, Hrc. reflexivity.
Qed.

(* a conversion other than s r a: the reader accepts the field, compile_fcomponent rejects it *)
Lemma bad_conversion_is_syntax_error x0 c ts rest :
  conv_valid (Some c) = false -> compile_comp (MNode (KFComp (Some c) ts) (x0 :: rest)) = None.
Proof. intros H. cbn [compile_comp]. rewrite H. reflexivity. Qed.

End T.
