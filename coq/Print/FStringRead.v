(* The reader on a rendered f-string: read_fcomponents_until returns exactly the components of the tree,
   for fields and format specs nested to any depth. *)
From HyV Require Import Print.Syntax Print.Names Print.Reader Print.ModelRepr Print.ReaderFacts Print.StringFacts
     Print.AtomFacts Print.FStringFacts Print.FString.
From Coq Require Import Lia.

Definition all_ws (s : text) : Prop := forallb is_ws s = true.
Definition plain_char (c : N) : bool :=
  negb (N.eqb c c_bs) && negb (N.eqb c c_dq) && negb (N.eqb c c_cr) && not_brace c.

(* what follows the form of a field: whitespace or the closing brace *)
Definition field_tail (tail : text) : Prop :=
  match tail with c :: _ => is_ws c = true \/ c = c_rc | [] => False end.

Section Read.
Variable W : oracle.

Definition expr_reads (m : model) (t : text) : Prop :=
  forall tail, field_tail tail -> reads W RdOne (t ++ tail) (ROne m tail).

(* a literal run, in the text of the string (sm = false) or in a format spec (sm = true: plain characters only) *)
Definition lit_ok (sm : bool) (K src kept v : text) : Prop :=
  if sm then forallb plain_char src = true /\ kept = src /\ v = src else run W K src kept v.

Fixpoint part_ok (p : fpart) : Prop :=
  match p with
  | PLit _ _ _ => True
  | PField ws1 m t ws2 dbg conv hs spec =>
      all_ws ws1 /\ all_ws ws2
      /\ (match dbg with Some w => all_ws w | None => True end)
      /\ (match conv with Some (_, w) => all_ws w | None => True end)
      /\ (match t with c :: _ => is_ws c = false | [] => False end)
      /\ N.eqb (hd 0 (ws1 ++ t)) c_lc = false
      /\ expr_reads m t
      /\ (ws2 = [] -> dbg = None /\ conv = None /\ hs = false)
      /\ (hs = false -> spec = [])
      /\ (fix go (K : text) (l : list fpart) : Prop :=
            match l with
            | [] => True
            | PLit s k v :: r => lit_ok true K s k v /\ go (K ++ k) r
            | (PField _ _ _ _ _ _ _ _ as q) :: r => ends_bsN K = false /\ part_ok q /\ go [] r
            end) [] spec
  end.

(* K = the text kept since the last field *)
Fixpoint parts_ok (sm : bool) (K : text) (l : list fpart) : Prop :=
  match l with
  | [] => True
  | PLit s k v :: r => lit_ok sm K s k v /\ parts_ok sm (K ++ k) r
  | (PField _ _ _ _ _ _ _ _ as q) :: r => ends_bsN K = false /\ part_ok q /\ parts_ok sm [] r
  end.

Lemma part_ok_field ws1 m t ws2 dbg conv hs spec :
  part_ok (PField ws1 m t ws2 dbg conv hs spec) <->
  (all_ws ws1 /\ all_ws ws2
   /\ (match dbg with Some w => all_ws w | None => True end)
   /\ (match conv with Some (_, w) => all_ws w | None => True end)
   /\ (match t with c :: _ => is_ws c = false | [] => False end)
   /\ N.eqb (hd 0 (ws1 ++ t)) c_lc = false
   /\ expr_reads m t
   /\ (ws2 = [] -> dbg = None /\ conv = None /\ hs = false)
   /\ (hs = false -> spec = [])
   /\ parts_ok true [] spec).
Proof.
  cbn [part_ok].
  assert (E : forall l K, (fix go (K : text) (l : list fpart) : Prop :=
            match l with
            | [] => True
            | PLit s k v :: r => lit_ok true K s k v /\ go (K ++ k) r
            | (PField _ _ _ _ _ _ _ _ as q) :: r => ends_bsN K = false /\ part_ok q /\ go [] r
            end) K l <-> parts_ok true K l).
  { induction l as [|[s k v|a b c d e f g h] r IH]; intros K; cbn [parts_ok]; [tauto| |]; rewrite IH; tauto. }
  rewrite E. tauto.
Qed.

(* ---------------------------------------------------------------- the two scanning modes *)
Definition cl_of (sm : bool) : closing := if sm then CBrace else CQuote false false.
Definition st_of (sm : bool) : cstate := if sm then StNone else StQuote false.
Definition closer_of (sm : bool) : N := if sm then c_rc else c_dq.

Lemma plain_parts c : plain_char c = true -> c <> c_bs /\ c <> c_dq /\ c <> c_cr /\ c <> c_lc /\ c <> c_rc.
Proof.
  unfold plain_char. intros H. apply andb_prop in H as [H H4]. apply andb_prop in H as [H H3]. apply andb_prop in H as [H1 H2].
  apply negb_true_iff, N.eqb_neq in H1, H2, H3. destruct (not_brace_ne c H4). tauto.
Qed.

Lemma plain_run K s : forallb plain_char s = true -> run W K s s s.
Proof.
  revert K. induction s as [|c s IH]; intros K H; [constructor|]. cbn [forallb] in H. apply andb_prop in H as [Hc H].
  destruct (plain_parts c Hc) as (A & B & C & D & E).
  change (c :: s) with ([c] ++ s). apply (RCons W K [c] [c] c s s s).
  - apply (IShape W c [c]); [apply ShPlain; try assumption; discriminate|].
    cbn [brace_free forallb]. unfold not_brace. apply N.eqb_neq in D, E. rewrite D, E. reflexivity.
  - discriminate.
  - apply IH. exact H.
Qed.

Lemma lit_run sm K src kept v : lit_ok sm K src kept v -> run W K src kept v.
Proof. destruct sm; cbn [lit_ok]; [intros (H & -> & ->); apply plain_run; exact H|auto]. Qed.

Lemma lit_scan sm K src kept v tail : lit_ok sm K src kept v ->
  chars_until (cl_of sm) true false (st_of sm) false (rev K) (src ++ tail)
  = chars_until (cl_of sm) true false (st_of sm) false (rev (K ++ kept)) tail.
Proof.
  destruct sm; cbn [lit_ok cl_of st_of].
  - intros (H & -> & ->). revert K. induction src as [|c s IH]; intros K; [rewrite app_nil_r; reflexivity|].
    cbn [forallb] in H. apply andb_prop in H as [Hc H]. destruct (plain_parts c Hc) as (_ & _ & _ & D & E).
    cbn [app]. rewrite cu_step by (right; split; assumption).
    cbn [close_step]. replace (N.eqb c c_rc) with false by (symmetry; apply N.eqb_neq; exact E).
    change (c :: rev K) with (rev [c] ++ rev K). rewrite <- rev_app_distr. rewrite (IH H (K ++ [c])).
    rewrite <- app_assoc. reflexivity.
  - intros H. apply (run_scan W _ _ _ _ H).
Qed.

Lemma run_app K s1 k1 v1 : run W K s1 k1 v1 -> forall s2 k2 v2, run W (K ++ k1) s2 k2 v2 ->
  run W K (s1 ++ s2) (k1 ++ k2) (v1 ++ v2).
Proof.
  induction 1 as [K|K src kept v src' kept' v' Hi Hs _ IH]; intros s2 k2 v2 H2.
  - rewrite app_nil_r in H2. exact H2.
  - rewrite <- !app_assoc. cbn [app]. apply RCons; [exact Hi|exact Hs|]. apply IH. rewrite <- app_assoc. exact H2.
Qed.

(* ---------------------------------------------------------------- the loop of read_fcomponents_until *)
Definition fcomps_from (rec : mode -> text -> res) (cl : closing) (st : cstate) (acc : list model) (K s : text) : res :=
  match chars_until cl true false st false (rev K) s with
  | CUErr e => RErr e
  | CUDone content closed rest st' =>
      match decode W false false content with
      | None => RErr ELex
      | Some v =>
          let acc' := if is_str_empty v then acc else MStr v None :: acc in
          if closed then RSeq (rev acc') rest
          else match rec (RdFComp false false) rest with
               | RSeq cs rest' => rec (RdFComps cl st' false (rev cs ++ acc')) rest'
               | x => x
               end
      end
  end.

Lemma fcomps_body_from rec cl st acc s : fcomps_body W rec cl st false acc s = fcomps_from rec cl st acc [] s.
Proof. reflexivity. Qed.

Lemma rev_flush acc V : rev (if is_str_empty V then acc else MStr V None :: acc) = rev acc ++ flush V.
Proof. unfold flush. destruct V; cbn [is_str_empty rev]; [rewrite app_nil_r|]; reflexivity. Qed.

(* the text of a field after its opening brace *)
Definition ftext (p : fpart) : text :=
  match p with
  | PLit _ _ _ => []
  | PField ws1 _ t ws2 dbg conv hs spec => field_text ws1 t ws2 dbg conv hs spec
  end.

Lemma render_field p : match p with PLit _ _ _ => True | _ => render p = c_lc :: ftext p end.
Proof. destruct p; [exact I|]. reflexivity. Qed.

(* what is claimed of a field: read_fcomponent returns its components *)
Definition field_reads (p : fpart) : Prop :=
  match p with
  | PLit _ _ _ => True
  | _ => part_ok p -> forall rest, exists n, rd W n (RdFComp false false) (ftext p ++ rest) = RSeq (part_comps p) rest
  end.

Lemma ftext_head ws1 m t ws2 dbg conv hs spec : part_ok (PField ws1 m t ws2 dbg conv hs spec) ->
  exists x r, field_text ws1 t ws2 dbg conv hs spec = x :: r /\ N.eqb x c_lc = false.
Proof.
  intros H. apply part_ok_field in H as (_ & _ & _ & _ & Ht & Hh & _).
  unfold field_text. destruct (ws1 ++ t) as [|x r] eqn:E.
  - destruct t; [destruct Ht|]. destruct ws1; discriminate.
  - exists x. rewrite app_assoc, E. cbn [app hd] in *. eexists. split; [reflexivity|exact Hh].
Qed.

Theorem read_parts : forall ps, Forall field_reads ps ->
  forall sm K Ksrc V acc rest, parts_ok sm K ps -> run W [] Ksrc K V ->
  exists n, fcomps_from (rd W n) (cl_of sm) (st_of sm) acc K (render_all ps ++ closer_of sm :: rest)
            = RSeq (rev acc ++ comps_from V ps) rest.
Proof.
  induction ps as [|p ps IH]; intros HF sm K Ksrc V acc rest Hok Hrun.
  - exists O. unfold fcomps_from. cbn [render_all map concat app].
    rewrite cu_unfold.
    assert (Hc : close_step (cl_of sm) (st_of sm) (closer_of sm) = ClClosed 1) by (destruct sm; reflexivity).
    rewrite Hc. cbn [skipn]. rewrite rev_involutive, (run_decode W _ _ _ Hrun). cbv iota beta.
    rewrite rev_flush. reflexivity.
  - inversion HF as [|? ? Hp HF']; subst. destruct p as [src kept v|ws1 m t ws2 dbg conv hs spec].
    + destruct Hok as [Hl Hok]. unfold render_all. cbn [map concat render]. fold (render_all ps).
      destruct (IH HF' sm (K ++ kept) (Ksrc ++ src) (V ++ v) acc rest Hok) as [n Hn].
      { apply (run_app _ _ _ _ Hrun). rewrite app_nil_l. apply lit_run with (sm := sm). exact Hl. }
      exists n. unfold fcomps_from in *. rewrite <- app_assoc, (lit_scan sm K src kept v _ Hl). exact Hn.
    + destruct Hok as (Hk & Hq & Hok).
      destruct (ftext_head _ _ _ _ _ _ _ _ Hq) as (x & r & Ex & Hx).
      set (R := render_all ps ++ closer_of sm :: rest).
      destruct (Hp Hq R) as [n1 H1].
      destruct (IH HF' sm [] [] [] (rev (part_comps (PField ws1 m t ws2 dbg conv hs spec))
                                     ++ (if is_str_empty V then acc else MStr V None :: acc)) rest Hok (RNil W []))
        as [n2 H2].
      exists (Nat.max n1 (S n2)). unfold fcomps_from at 1.
      unfold render_all. cbn [map concat]. fold (render_all ps).
      change (render (PField ws1 m t ws2 dbg conv hs spec)) with (c_lc :: field_text ws1 t ws2 dbg conv hs spec).
      rewrite Ex. rewrite <- app_assoc. cbn [app]. fold R.
      rewrite cu_unfold.
      assert (Hc : close_step (cl_of sm) (st_of sm) c_lc = ClCont (st_of sm)) by (destruct sm; reflexivity).
      rewrite Hc. change (true && N.eqb c_lc c_lc) with true. cbv iota.
      change (starts_with [c_lc; c_N; c_bs] (c_lc :: rev K)) with (ends_bsN K). rewrite Hk.
      change (negb false && false) with false. cbv iota. cbn [app]. rewrite Hx.
      rewrite rev_involutive, (run_decode W _ _ _ Hrun). cbv iota beta.
      change (x :: r ++ R) with ((x :: r) ++ R). rewrite <- Ex.
      rewrite (rd_ge W n1 _ _ _ _ (Nat.le_max_l _ _) H1) by discriminate.
      match goal with |- context [rd W (Nat.max n1 (S n2)) (RdFComps ?cl ?st ?raw ?a) R] =>
        assert (H2' : rd W (Nat.max n1 (S n2)) (RdFComps cl st raw a) R
                      = RSeq (rev a ++ comps_from [] ps) rest)
          by (apply (rd_ge W (S n2)); [apply Nat.le_max_r|rewrite rd_S; cbn [mode_rect]; rewrite fcomps_body_from; exact H2|discriminate])
      end.
      rewrite H2'.
      rewrite comps_from_field, rev_app_distr, rev_involutive, rev_flush, <- !app_assoc. reflexivity.
Qed.

(* ---------------------------------------------------------------- read_fcomponent *)
Definition ending (hs : bool) (spec : list fpart) (rest : text) : text :=
  if hs then c_colon :: render_all spec ++ c_rc :: rest else c_rc :: rest.

Definition head_in (s : text) (l : list N) : Prop := match s with c :: _ => In c l | [] => False end.

Lemma ending_head hs spec rest : head_in (ending hs spec rest) [c_colon; c_rc].
Proof. destruct hs; cbn; auto. Qed.

Lemma head_in_app_l a b l : head_in a l -> head_in (a ++ b) l.
Proof. destruct a; [intros []|]. exact (fun H => H). Qed.

Lemma conv_ending_head conv hs spec rest : head_in (conv_text conv ++ ending hs spec rest) [c_bang; c_colon; c_rc].
Proof.
  destruct conv as [[c w]|]; cbn [conv_text app]; [left; reflexivity|].
  pose proof (ending_head hs spec rest) as H. destruct (ending hs spec rest); [destruct H|].
  cbn in *. tauto.
Qed.

Lemma span_ws_head w s l : all_ws w -> head_in s l -> forallb (fun c => negb (is_ws c)) l = true ->
  span is_ws (w ++ s) = (w, s).
Proof.
  intros Hw Hs Hl. apply span_app; [exact Hw|]. destruct s as [|c s]; [exact I|].
  cbn [head_in] in Hs. rewrite forallb_forall in Hl. apply negb_true_iff. apply Hl. exact Hs.
Qed.

Lemma take_dbg_ok before dbg s4 :
  (match dbg with Some w => all_ws w | None => True end) -> head_in s4 [c_bang; c_colon; c_rc] ->
  take_dbg before (dbg_text dbg ++ s4)
  = (match dbg with Some w => Some (before ++ [c_eq] ++ w) | None => None end, s4).
Proof.
  intros Hw Hs. destruct dbg as [w|]; cbn [dbg_text app take_dbg].
  - change (N.eqb c_eq c_eq) with true. cbv iota. rewrite (span_ws_head w s4 _ Hw Hs) by reflexivity. reflexivity.
  - destruct s4 as [|c s]; [destruct Hs|]. cbn [head_in] in Hs.
    assert (E : N.eqb c c_eq = false) by (destruct Hs as [<-|[<-|[<-|[]]]]; reflexivity).
    cbn [take_dbg]. rewrite E. reflexivity.
Qed.

Lemma take_conv_ok conv s5 :
  head_in s5 [c_colon; c_rc] ->
  take_conv (conv_text conv ++ s5) = (conv_char conv, match conv with Some (_, w) => w ++ s5 | None => s5 end).
Proof.
  intros Hs. destruct conv as [[c w]|]; cbn [conv_text app take_conv conv_char].
  - change (N.eqb c_bang c_bang) with true. reflexivity.
  - destruct s5 as [|c s]; [destruct Hs|]. cbn [head_in] in Hs.
    assert (E : N.eqb c c_bang = false) by (destruct Hs as [<-|[<-|[]]]; reflexivity).
    cbn [take_conv]. rewrite E. reflexivity.
Qed.

Lemma skip_ws_head w s : all_ws w -> head_in s [c_colon; c_rc] -> skip_ws (w ++ s) = s.
Proof.
  intros Hw Hs. rewrite skip_ws_app by exact Hw. destruct s as [|c s]; [destruct Hs|]. cbn [head_in] in Hs.
  apply skip_ws_nonws. destruct Hs as [<-|[<-|[]]]; reflexivity.
Qed.

Lemma read_field ws1 m t ws2 dbg conv hs spec :
  Forall field_reads spec -> field_reads (PField ws1 m t ws2 dbg conv hs spec).
Proof.
  intros HF Hok rest. pose proof Hok as Hok0.
  apply part_ok_field in Hok as (Hw1 & Hw2 & Hwd & Hwc & Ht & Hh & He & H2 & Hs0 & Hspec).
  cbn [ftext part_comps]. unfold field_text.
  set (E := ending hs spec rest).
  set (tail := ws2 ++ dbg_text dbg ++ conv_text conv ++ E).
  assert (Etxt : (ws1 ++ t ++ ws2 ++ dbg_text dbg ++ conv_text conv
                  ++ (if hs then [c_colon] ++ render_all spec ++ [c_rc] else [c_rc])) ++ rest = ws1 ++ t ++ tail).
  { unfold tail, E, ending. rewrite <- !app_assoc. destruct hs; cbn [app]; rewrite <- ?app_assoc; reflexivity. }
  rewrite Etxt.
  assert (Htail : field_tail tail).
  { unfold tail. destruct ws2 as [|c w].
    - destruct (H2 eq_refl) as (-> & -> & ->). cbn. right. reflexivity.
    - cbn [app field_tail]. left. unfold all_ws in Hw2. cbn [forallb] in Hw2. apply andb_prop in Hw2 as [Hc _]. exact Hc. }
  destruct (He tail Htail) as [_ [n1 H1]].
  (* the spec, when there is one *)
  assert (Hsp : hs = true -> exists n2, rd W n2 (RdFComps CBrace StNone false []) (render_all spec ++ c_rc :: rest)
                                        = RSeq (comps_from [] spec) rest).
  { intros _. destruct (read_parts spec HF true [] [] [] [] rest Hspec (RNil W [])) as [n2 Hn2].
    exists (S n2). rewrite rd_S. cbn [mode_rect]. rewrite fcomps_body_from. exact Hn2. }
  assert (Hn : exists n2, hs = true -> rd W n2 (RdFComps CBrace StNone false []) (render_all spec ++ c_rc :: rest)
                                       = RSeq (comps_from [] spec) rest).
  { destruct hs; [destruct (Hsp eq_refl) as [n2 Hn2]; exists n2; auto|exists O; discriminate]. }
  destruct Hn as [n2 Hn2].
  exists (S (Nat.max n1 n2)). rewrite rd_S. cbn [mode_rect]. unfold fcomp_body.
  assert (Ht' : head_in t (match t with c :: _ => [c] | [] => [] end)) by (destruct t; [destruct Ht|left; reflexivity]).
  assert (Hsp1 : span is_ws (ws1 ++ t ++ tail) = (ws1, t ++ tail)).
  { apply span_app; [exact Hw1|]. destruct t as [|c t']; [destruct Ht|]. cbn [app]. exact Ht. }
  rewrite Hsp1.
  rewrite (rd_ge W n1 _ _ _ _ (Nat.le_max_l _ _) H1) by discriminate.
  assert (Hft : firstn (length (t ++ tail) - length tail) (t ++ tail) = t).
  { rewrite app_length, Nat.add_sub. rewrite firstn_app, firstn_all, Nat.sub_diag. cbn [firstn]. apply app_nil_r. }
  rewrite Hft.
  assert (Hce : head_in (conv_text conv ++ E) [c_bang; c_colon; c_rc]) by apply conv_ending_head.
  assert (Hde : head_in (dbg_text dbg ++ conv_text conv ++ E) [c_eq; c_bang; c_colon; c_rc]).
  { destruct dbg; cbn [dbg_text app]; [left; reflexivity|].
    destruct (conv_text conv ++ E); [destruct Hce|]. cbn in *. tauto. }
  unfold tail at 1. rewrite (span_ws_head ws2 _ _ Hw2 Hde) by reflexivity.
  rewrite (take_dbg_ok _ dbg _ Hwd Hce).
  rewrite (take_conv_ok conv E (ending_head hs spec rest)).
  assert (Hs6 : forall X, skip_ws X = E ->
                match skip_ws X with [] => RErr ELex | k :: t0 => RErr ELex end = RErr ELex) by (intros; destruct (skip_ws X); reflexivity).
  clear Hs6.
  assert (HE : head_in E [c_colon; c_rc]) by apply ending_head.
  destruct conv as [[cc w]|]; cbn [conv_char].
  1: rewrite (skip_ws_head w E Hwc HE).
  2: change (skip_ws E) with (skip_ws ([] ++ E)); rewrite (skip_ws_head [] E eq_refl HE).
  all: unfold E, ending; destruct hs.
  1,3: change (N.eqb c_colon c_colon) with true; cbv iota;
       rewrite (rd_ge W n2 _ _ _ _ (Nat.le_max_r _ _) (Hn2 eq_refl)) by discriminate;
       unfold dbg_comp, field_conv; cbn [conv_char]; destruct dbg; rewrite <- ?app_assoc; reflexivity.
  all: change (N.eqb c_rc c_colon) with false; change (N.eqb c_rc c_rc) with true; cbv iota;
       unfold dbg_comp, field_conv; cbn [conv_char]; destruct dbg; rewrite <- ?app_assoc; reflexivity.
Qed.

Theorem all_fields : forall p, field_reads p.
Proof. apply fpart_ind'; [intros; exact I|]. intros. apply read_field. assumption. Qed.

(* read_fcomponents_until on the rendered parts, in the string (sm = false) or in a spec (sm = true) *)
Theorem read_rendered sm ps acc rest : parts_ok sm [] ps ->
  reads W (RdFComps (cl_of sm) (st_of sm) false acc) (render_all ps ++ closer_of sm :: rest)
        (RSeq (rev acc ++ comps_from [] ps) rest).
Proof.
  intros Hok.
  assert (HF : Forall field_reads ps) by (apply Forall_forall; intros p _; apply all_fields).
  destruct (read_parts ps HF sm [] [] [] acc rest Hok (RNil W [])) as [n Hn].
  apply (reads_intro W (S n)); [|discriminate]. rewrite rd_S. cbn [mode_rect]. rewrite fcomps_body_from. exact Hn.
Qed.

End Read.
