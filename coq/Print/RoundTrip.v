(* The printed text of a model is read back as that model: the fragment without
   reader sugar, dotted identifiers, bracket strings and f-strings (enough for every
   printed value of C27; ModelRoundTrip.v extends it for C25). *)
From HyV Require Import Print.Syntax Print.Names Print.Reader Print.ModelRepr Print.ReaderFacts
     Print.StringFacts Print.AtomFacts Print.SugarFacts Print.FStringFacts Print.FString Print.FStringRead Print.FStrRepr.
From Coq Require Import Lia.

(* what the theorems assume about the numeric oracles *)
Record num_facts (W : oracle) : Prop := {
  nf_int : forall z, num W (dec_Z z) = NInt z;
  nf_float : forall b, token_ok (float_repr W b) /\ num W (float_repr W b) = NFloat (FFin b);
  nf_nan : num W s_NaN = NFloat FNaN;
  nf_inf : num W s_Inf = NFloat (FInf false);
  nf_ninf : num W s_NegInf = NFloat (FInf true);
  nf_complex : forall a b, token_ok (hy_complex W a b) /\ num W (hy_complex W a b) = NComplex a b
}.

Definition expr_plain (ms : list model) : bool :=
  negb (expr_dotted ms) && match expr_sugar ms with None => true | Some _ => false end.

Lemma expr_plain_repr ms rs : expr_plain ms = true -> expr_repr ms rs = [c_lp] ++ cat rs ++ [c_rp].
Proof.
  unfold expr_plain, expr_repr. intros H. apply andb_prop in H as [H1 H2]. apply negb_true_iff in H1.
  rewrite H1. destruct (expr_sugar ms); [discriminate|reflexivity].
Qed.

Section RT.
Variable W : oracle.
Hypothesis NF : num_facts W.

Inductive ok : model -> Prop :=
| OkSym s : sym_ok W s -> ok (MSym s)
| OkKw s : kw_ok s -> ok (MKw s)
| OkInt z : ok (MInt z)
| OkFloat f : ok (MFloat f)
| OkComplex a b : ok (MComplex a b)
| OkStr s : valid_text s -> ok (MStr s None)
| OkBytes b : valid_bytes b -> ok (MBytes b)
| OkList ms : Forall ok ms -> ok (MNode KList ms)
| OkTuple ms : Forall ok ms -> ok (MNode KTuple ms)
| OkSet ms : Forall ok ms -> ok (MNode KSet ms)
| OkDict ms : Forall ok ms -> ok (MNode KDict ms)
| OkExpr ms : expr_plain ms = true -> Forall ok ms -> ok (MNode KExpr ms)
(* reader sugar: a two-element form whose head is a key of the syntax table *)
| OkSugar name p x :
    lookup_syntax name repr_syntax = Some p ->
    (name = s_unquote -> is_sym x = true \/ N.eqb (hd 0 (mrepr W x)) c_at = false) ->
    ok x -> ok (MNode KExpr [MSym name; x])
(* a form printed as a dotted identifier: leading dots (then the second element is None) and dot-free parts *)
| OkDotted dots parts :
    forallb (N.eqb ch_dot) dots = true -> parts <> [] -> Forall (dpart_ok W) parts ->
    (dots = [] -> (2 <= length parts)%nat /\ hd [] parts <> s_None /\ dispatch (hd 0 (hd [] parts)) = DDefault) ->
    num W (dots ++ join_dot parts) = NotNum ->
    ok (MNode KExpr (match dots with
                     | [] => MSym [ch_dot] :: map MSym parts
                     | _ :: _ => MSym dots :: MSym s_None :: map MSym parts
                     end))
| OkBracket d s : bracket_ok d s -> ok (MStr s (Some d))
(* an f-string or t-string written with quotes: String components and replacement fields *)
| OkFStr ts comps : Forall (fc_ok ts) comps -> fseq_ok W comps -> ok (MNode (KFStr None ts) comps)
with fc_ok : bool -> model -> Prop :=
| FcStr ts s :
    s <> [] -> valid_text s -> contains bsNlc (flat_map (hy_esc W (py_quote s)) s) = false -> fc_ok ts (MStr s None)
| FcField ts conv x0 spec :
    ok x0 -> spec_ok spec -> fc_ok ts (MNode (KFComp conv ts) (x0 :: spec))
(* a format spec: plain text and nested fields in any number, no two strings side by side *)
with spec_ok : list model -> Prop :=
| SpNil : spec_ok []
| SpStr sp rest :
    sp <> [] -> forallb plain_char sp = true -> spec_ok rest ->
    match rest with MStr _ _ :: _ => False | _ => True end -> spec_ok (MStr sp None :: rest)
| SpField conv x0 spec rest :
    fc_ok false (MNode (KFComp conv false) (x0 :: spec)) -> spec_ok rest ->
    spec_ok (MNode (KFComp conv false) (x0 :: spec) :: rest).

Notation item := (item_ok W (mrepr W)).

Lemma item_of_form m c t :
  mrepr W m = c :: t -> is_ws c = false -> closer_char c = false ->
  (forall rec rest, delim_start rest -> form_body W rec (mrepr W m ++ rest) = RForm (Some m) rest) ->
  item m.
Proof.
  intros Hp H1 H2 Hf. split; [exists c, t; auto|]. intros rest Hr.
  apply (reads_intro W 1); [|discriminate]. rewrite rd_S. apply Hf; exact Hr.
Qed.

Lemma token_head t : token_ok t -> exists c r, t = c :: r /\ is_ws c = false /\ closer_char c = false.
Proof.
  destruct t as [|c r]; [intros []|]. intros [H _]. cbn [forallb] in H. apply andb_prop in H as [Hc _].
  exists c, r. split; [reflexivity|]. split; [apply ident_char_not_ws|apply ident_char_not_closer]; exact Hc.
Qed.

Lemma hy_float_token f : token_ok (hy_float W f) /\ num W (hy_float W f) = NFloat f.
Proof.
  destruct f as [|[|]|b]; cbn [hy_float].
  - split; [split; reflexivity|apply (nf_nan W NF)].
  - split; [split; reflexivity|apply (nf_ninf W NF)].
  - split; [split; reflexivity|apply (nf_inf W NF)].
  - apply (nf_float W NF).
Qed.

Lemma item_numeric t m : token_ok t -> numeric_model (num W t) = Some m -> mrepr W m = t -> item m.
Proof.
  intros Ht Hn Hp. destruct (token_head t Ht) as (c & r & E & H1 & H2).
  apply (item_of_form m c r); [congruence|exact H1|exact H2|].
  intros rec rest Hr. rewrite Hp. apply read_numeric; assumption.
Qed.

(* ---------------------------------------------------------------- sequences *)
Lemma fill_list body : fill_first fmt_list body = [c_lb] ++ body ++ [c_rb].
Proof. reflexivity. Qed.
Lemma fill_set body : fill_first fmt_set body = [c_hash; c_lc] ++ body ++ [c_rc].
Proof. reflexivity. Qed.

(* an opening delimiter, items joined by spaces, the closer *)
Lemma read_open_seq k closer c ms rest :
  dispatch c = DOpen k closer -> is_ws c = false -> closer_char closer = true ->
  Forall item ms ->
  reads W RdForm (c :: cat (map (mrepr W) ms) ++ closer :: rest) (RForm (Some (MNode k ms)) rest).
Proof.
  intros Hd Hw Hc HF.
  destruct (read_cat W (mrepr W) closer Hc ms [] rest HF) as [_ [n H]].
  apply (reads_intro W (S n)); [|discriminate]. rewrite rd_S. unfold form_body.
  rewrite skip_ws_nonws by exact Hw. rewrite Hd. unfold cat. rewrite H. reflexivity.
Qed.

Lemma read_hash_seq k closer c ms rest :
  hash_lookup [c] = Some (HSeq k closer) -> non_ident c = true -> is_pyspace c = false -> closer_char closer = true ->
  Forall item ms ->
  reads W RdForm (c_hash :: c :: cat (map (mrepr W) ms) ++ closer :: rest) (RForm (Some (MNode k ms)) rest).
Proof.
  intros Hl Hni Hsp Hc HF.
  destruct (read_cat W (mrepr W) closer Hc ms [] rest HF) as [_ [n H]].
  apply (reads_intro W (S n)); [|discriminate]. rewrite rd_S. unfold form_body.
  rewrite skip_ws_nonws by reflexivity. change (dispatch c_hash) with DHash. cbv iota.
  unfold hash_body. rewrite Hsp. unfold span_ident.
  rewrite span_none by (unfold ends_ident; rewrite Hni, orb_true_r; reflexivity).
  rewrite Hl. unfold cat. rewrite H. reflexivity.
Qed.

(* ---------------------------------------------------------------- Dict spacing *)
Fixpoint dict_seps (i : nat) (ms : list model) : list (text * model) :=
  match ms with
  | [] => []
  | m :: r => ((if negb (Nat.eqb i 0) && Nat.even i then [ch_space; ch_space] else [ch_space]), m) :: dict_seps (S i) r
  end.

Lemma intersperse_flat (sep x : text) l : intersperse sep (x :: l) = x ++ flat_map (fun y => sep ++ y) l.
Proof.
  revert x. induction l as [|y l IH]; intros x; [simpl; rewrite app_nil_r; reflexivity|].
  change (intersperse sep (x :: y :: l)) with (x ++ sep ++ intersperse sep (y :: l)).
  rewrite IH. cbn [flat_map]. rewrite <- !app_assoc. reflexivity.
Qed.

Lemma dict_items_flat pr ms : forall i,
  flat_map (fun y => [ch_space] ++ y) (dict_items i (map pr ms)) = items_text pr (dict_seps i ms).
Proof.
  induction ms as [|m ms IH]; intros i; [reflexivity|].
  cbn [map dict_items dict_seps items_text flat_map fst snd]. fold (items_text pr (dict_seps (S i) ms)).
  rewrite IH. destruct (negb (Nat.eqb i 0) && Nat.even i); cbn [app]; reflexivity.
Qed.

Lemma dict_items_text pr ms : forall i, ms <> [] ->
  [ch_space] ++ intersperse [ch_space] (dict_items i (map pr ms)) = items_text pr (dict_seps i ms).
Proof.
  intros i Hne. destruct ms as [|m ms]; [congruence|]. rewrite <- dict_items_flat.
  cbn [map dict_items]. rewrite intersperse_flat. cbn [flat_map]. rewrite <- !app_assoc. reflexivity.
Qed.

Lemma dict_seps_ok i ms : Forall item ms ->
  Forall (fun p => forallb is_ws (fst p) = true /\ fst p <> [] /\ item (snd p)) (dict_seps i ms).
Proof.
  intros HF. revert i. induction HF as [|m ms Hm _ IH]; intros i; [constructor|].
  cbn [dict_seps]. constructor; [|apply IH]. cbn [fst snd].
  destruct (negb (Nat.eqb i 0) && Nat.even i); (split; [reflexivity|split; [discriminate|exact Hm]]).
Qed.

Lemma dict_seps_snd i ms : map snd (dict_seps i ms) = ms.
Proof. revert i. induction ms as [|m ms IH]; intros i; [reflexivity|]. cbn [dict_seps map snd]. rewrite IH. reflexivity. Qed.

Lemma read_dict ms rest : Forall item ms ->
  reads W RdForm (c_lc :: dict_body (map (mrepr W) ms) ++ c_rc :: rest) (RForm (Some (MNode KDict ms)) rest).
Proof.
  intros HF.
  assert (Hs : reads W (RdSeq (Some c_rc) []) (dict_body (map (mrepr W) ms) ++ c_rc :: rest) (RSeq ms rest)).
  { destruct ms as [|m ms].
    - apply (read_cat W (mrepr W) c_rc eq_refl [] [] rest). constructor.
    - pose proof (read_items W (mrepr W) c_rc eq_refl (dict_seps 0 (m :: ms)) [] rest (dict_seps_ok 0 _ HF)) as [HR [n H]].
      rewrite dict_seps_snd in H. rewrite <- dict_items_text in H by discriminate.
      split; [discriminate|]. exists n. rewrite <- app_assoc in H. rewrite rd_seq_ws in H by reflexivity. exact H. }
  destruct Hs as [_ [n H]].
  apply (reads_intro W (S n)); [|discriminate]. rewrite rd_S. unfold form_body.
  rewrite skip_ws_nonws by reflexivity. change (dispatch c_lc) with (DOpen KDict c_rc). cbv iota. rewrite H. reflexivity.
Qed.

(* ---------------------------------------------------------------- dotted identifiers *)
Lemma forallb_is_sym l : forallb is_sym (map MSym l) = true.
Proof. induction l; [reflexivity|exact IHl]. Qed.

Lemma map_mrepr_syms l : map (mrepr W) (map MSym l) = l.
Proof. induction l as [|x l IH]; [reflexivity|]. cbn [map mrepr]. rewrite IH. reflexivity. Qed.

Definition dotted_model (dots : text) (parts : list text) : list model :=
  match dots with
  | [] => MSym [ch_dot] :: map MSym parts
  | _ => MSym dots :: MSym s_None :: map MSym parts
  end.

Lemma dotted_repr dots parts :
  forallb (N.eqb ch_dot) dots = true -> parts <> [] ->
  (dots = [] -> (2 <= length parts)%nat /\ hd [] parts <> s_None) ->
  mrepr W (MNode KExpr (dotted_model dots parts)) = dots ++ join_dot parts.
Proof.
  intros Hd Hne H0. cbn [mrepr node_repr]. unfold expr_repr, dotted_model. destruct dots as [|d ds].
  - destruct (H0 eq_refl) as [Hlen Hp]. destruct parts as [|p1 [|p2 r]]; cbn [length] in Hlen; try lia.
    cbn [hd] in Hp.
    assert (Ed : expr_dotted (MSym [ch_dot] :: map MSym (p1 :: p2 :: r)) = true).
    { unfold expr_dotted. cbn [map length nth]. cbn [Nat.leb]. cbn [forallb is_sym]. rewrite forallb_is_sym. reflexivity. }
    rewrite Ed. cbn [map nth sym_is].
    replace (text_eqb p1 s_None) with false
      by (symmetry; apply not_true_iff_false; intros E; apply text_eqb_eq in E; contradiction).
    cbn [mrepr skipn app]. fold (map (mrepr W) (map MSym r)). rewrite map_mrepr_syms.
    change (p1 :: p2 :: r) with (p1 :: p2 :: r). rewrite <- join_dot_intersperse. reflexivity.
  - assert (Ed : expr_dotted (MSym (d :: ds) :: MSym s_None :: map MSym parts) = true).
    { unfold expr_dotted. destruct parts as [|p1 r]; [congruence|]. cbn [map length nth Nat.leb forallb is_sym].
      rewrite forallb_is_sym. cbn [sym_is sym_text andb]. change (text_eqb s_None s_None) with true.
      unfold all_dots_text. rewrite Hd. apply orb_true_r. }
    rewrite Ed. cbn [map nth sym_is sym_text]. change (text_eqb s_None s_None) with true. cbv iota.
    cbn [mrepr skipn]. rewrite map_mrepr_syms, <- join_dot_intersperse. reflexivity.
Qed.

Lemma join_dot_ident parts : Forall (dpart_ok W) parts -> forallb ident_char (join_dot parts) = true.
Proof.
  induction 1 as [|p parts (_ & Hp & _) _ IH]; [reflexivity|]. destruct parts as [|q parts]; [exact Hp|].
  change (join_dot (p :: q :: parts)) with (p ++ ch_dot :: join_dot (q :: parts)).
  rewrite forallb_app, Hp. cbn [forallb]. rewrite IH. reflexivity.
Qed.

Lemma dotted_token dots parts :
  forallb (N.eqb ch_dot) dots = true -> parts <> [] -> Forall (dpart_ok W) parts ->
  (dots = [] -> dispatch (hd 0 (hd [] parts)) = DDefault) ->
  token_ok (dots ++ join_dot parts).
Proof.
  intros Hd Hne HF H0.
  assert (Hid : forallb ident_char (dots ++ join_dot parts) = true).
  { rewrite forallb_app, join_dot_ident by exact HF. rewrite andb_true_r.
    clear - Hd. induction dots as [|c dots IH]; [reflexivity|]. cbn [forallb] in *. apply andb_prop in Hd as [Hc Hd].
    apply N.eqb_eq in Hc. subst c. rewrite IH by exact Hd. reflexivity. }
  destruct dots as [|d ds].
  - specialize (H0 eq_refl). destruct parts as [|p r]; [congruence|]. inversion HF as [|? ? (Hp & _) _]; subst.
    destruct p as [|c p]; [congruence|]. cbn [app hd] in *.
    destruct r; (split; [exact Hid|exact H0]).
  - cbn [app] in *. cbn [forallb] in Hd. apply andb_prop in Hd as [Hc _]. apply N.eqb_eq in Hc. subst d.
    split; [exact Hid|reflexivity].
Qed.

(* ---------------------------------------------------------------- the induction *)
(* ---------------------------------------------------------------- replacement fields of printed f-strings *)
(* what is shown of a replacement-field node: it denotes an f-string part that is well formed for the reader,
   is rendered as hy-repr prints the node, and is read back as the node *)
Definition field_facts (m : model) : Prop :=
  part_ok W (part_of W false m) /\ render (part_of W false m) = mrepr W m /\ part_comps (part_of W false m) = [clear_ts m].

Definition field_part (m : model) : Prop :=
  match m with
  | MNode (KFComp conv ts) (x0 :: spec) => fc_ok ts m -> field_facts m
  | _ => True
  end.

Definition both (m : model) : Prop := (ok m -> item m) /\ field_part m.

Lemma item_expr_reads x : item x -> expr_reads W x (mrepr W x).
Proof.
  intros [_ Hrd] tail Ht. apply reads_one_of_form, Hrd.
  destruct tail as [|c r]; [destruct Ht|]. cbn in *. destruct Ht as [H| ->]; [left; exact H|right; reflexivity].
Qed.

Definition comp_facts (c : model) : Prop :=
  match c with MNode (KFComp _ _) (_ :: _) => field_facts c | _ => True end.

Lemma plain_no_bsN K : forallb plain_char K = true -> ends_bsN K = false.
Proof.
  intros H. unfold ends_bsN. destruct (starts_with [c_N; c_bs] (rev K)) eqn:E; [|reflexivity]. exfalso.
  apply starts_with_spec in E as [r Er].
  assert (Hin : In c_bs K) by (apply in_rev; rewrite Er; right; left; reflexivity).
  rewrite forallb_forall in H. specialize (H c_bs Hin). discriminate.
Qed.

Lemma part_of_field_flag b conv ts x0 spec :
  part_of W b (MNode (KFComp conv ts) (x0 :: spec)) = part_of W false (MNode (KFComp conv ts) (x0 :: spec)).
Proof. reflexivity. Qed.

Lemma part_of_is_field b conv ts x0 spec :
  exists a c d e f g h i, part_of W b (MNode (KFComp conv ts) (x0 :: spec)) = PField a c d e f g h i.
Proof. cbn [part_of]. repeat eexists. Qed.

(* the parts of a format spec are well formed, are rendered as the printer prints the spec, and are read back as the spec *)
Lemma spec_parts spec : spec_ok spec -> Forall comp_facts spec ->
  parts_ok W true [] (map (part_of W true) spec)
  /\ render_all (map (part_of W true) spec) = spec_text spec (map (mrepr W) spec)
  /\ comps_from [] (map (part_of W true) spec) = spec.
Proof.
  induction 1 as [|sp rest Hne Hpl Hrest IH Hadj|conv x0 sp0 rest Hfc Hrest IH]; intros HF.
  - repeat split.
  - inversion HF as [|? ? _ HF']; subst. destruct (IH HF') as (P1 & P2 & P3).
    cbn [map part_of]. unfold render_all, spec_text in *. cbn [map combine concat fst snd]. rewrite P2.
    split; [|split; [reflexivity|]].
    + cbn [parts_ok lit_ok]. split; [repeat split; exact Hpl|]. cbn [app].
      destruct rest as [|d r']; [exact I|]. destruct d as [s|s|z|f|a b|s br|b|k ms]; try (inversion Hrest; fail).
      { destruct Hadj. }
      inversion Hrest as [| |cv y sp1 r0 Hf0 Hr0]; subst.
      cbn [map] in P1 |- *. destruct (part_of_is_field true cv false y sp1) as (a & c & d & e & f & g & h & i & Ep).
      rewrite Ep in P1 |- *. cbn [parts_ok] in P1 |- *. destruct P1 as (_ & Q1 & Q2).
      split; [apply plain_no_bsN; exact Hpl|split; assumption].
    + rewrite comps_from_lit. cbn [app].
      destruct rest as [|d r']; [rewrite comps_from_nil; unfold flush; destruct sp; [congruence|reflexivity]|].
      destruct d as [s|s|z|f|a b|s br|b|k ms]; try (inversion Hrest; fail).
      { destruct Hadj. }
      inversion Hrest as [| |cv y sp1 r0 Hf0 Hr0]; subst.
      cbn [map] in P3 |- *. destruct (part_of_is_field true cv false y sp1) as (a & c & d & e & f & g & h & i & Ep).
      rewrite Ep in P3 |- *. rewrite comps_from_field in P3 |- *. cbn [flush is_str_empty app] in P3.
      unfold flush at 1. destruct sp as [|c1 s1]; [congruence|]. cbn [is_str_empty app]. f_equal. exact P3.
  - inversion HF as [|? ? Hcf HF']; subst. destruct (IH HF') as (P1 & P2 & P3).
    cbn [comp_facts] in Hcf. destruct Hcf as (F1 & F2 & F3).
    cbn [map]. rewrite part_of_field_flag.
    destruct (part_of_is_field false conv false x0 sp0) as (a & c & d & e & f & g & h & i & Ep).
    unfold render_all, spec_text in *. cbn [map combine concat fst snd]. rewrite P2, <- F2.
    rewrite Ep in F1, F3 |- *. split; [|split; [reflexivity|]].
    + cbn [parts_ok]. split; [reflexivity|split; assumption].
    + rewrite comps_from_field, F3, P3. reflexivity.
Qed.

Lemma field_facts_intro ts conv x0 spec :
  item x0 -> spec_ok spec -> Forall comp_facts spec -> field_facts (MNode (KFComp conv ts) (x0 :: spec)).
Proof.
  intros Hx Hs HF. pose proof (item_expr_reads x0 Hx) as Her.
  destruct (spec_parts spec Hs HF) as (P1 & P2 & P3).
  destruct Hx as [(c & t & Ex & Hc1 & _) _].
  assert (Ht : match mrepr W x0 with c :: _ => is_ws c = false | [] => False end) by (rewrite Ex; exact Hc1).
  set (ws1 := if starts_with [c_lc] (mrepr W x0) then [ch_space] else []).
  assert (Hw1 : all_ws ws1) by (unfold ws1; destruct (starts_with [c_lc] (mrepr W x0)); reflexivity).
  assert (Hh : N.eqb (hd 0 (ws1 ++ mrepr W x0)) c_lc = false).
  { unfold ws1. rewrite Ex. cbn [starts_with]. destruct (N.eqb c_lc c) eqn:E; cbn [andb app hd]; [reflexivity|].
    rewrite N.eqb_sym. exact E. }
  unfold field_facts. cbn [part_of]. fold ws1. split; [|split].
  - apply part_ok_field.
    refine (conj Hw1 (conj _ (conj I (conj _ (conj Ht (conj Hh (conj Her (conj _ (conj _ P1))))))))).
    + destruct conv; [reflexivity|]. destruct spec; reflexivity.
    + destruct conv; [|exact I]. destruct spec; reflexivity.
    + destruct conv; [discriminate|]. destruct spec; [intros _; repeat split|discriminate].
    + destruct spec; [reflexivity|discriminate].
  - cbn [render]. fold (render_all (map (part_of W true) spec)). rewrite P2.
    cbn [mrepr node_repr map]. unfold fcomp_repr. cbn [nth tl]. fold ws1.
    destruct spec as [|c2 spec']; destruct conv; cbn [is_nil negb dbg_text conv_text app]; rewrite <- ?app_assoc; reflexivity.
  - rewrite part_comps_field. rewrite P3. unfold field_conv, dbg_comp.
    destruct spec as [|c2 spec']; destruct conv; reflexivity.
Qed.

Lemma spec_comp_facts spec : spec_ok spec -> Forall both spec -> Forall comp_facts spec.
Proof.
  induction 1 as [|sp rest _ _ _ IH _|conv x0 sp0 rest Hfc _ IH]; intros HB; [constructor| |];
    inversion HB as [|? ? [_ Hfp] HB']; subst; (constructor; [|apply IH; exact HB']).
  - exact I.
  - cbn [comp_facts]. cbn [field_part] in Hfp. apply Hfp. exact Hfc.
Qed.

(* ---------------------------------------------------------------- a whole printed f-string *)
Lemma fc_ok_shape ts c : fc_ok ts c ->
  (exists s, c = MStr s None /\ s <> [] /\ valid_text s /\ contains bsNlc (flat_map (hy_esc W (py_quote s)) s) = false)
  \/ (exists conv x0 spec, c = MNode (KFComp conv ts) (x0 :: spec)).
Proof. intros H. destruct H; [left; eauto 6|right; eauto]. Qed.

Lemma str_lit_ok s : valid_text s -> contains bsNlc (flat_map (hy_esc W (py_quote s)) s) = false ->
  lit_ok W false [] (flat_map (fesc W (py_quote s)) s) (flat_map (hy_esc W (py_quote s)) s) s.
Proof.
  intros Hv Hc. cbn [lit_ok]. destruct (quote_sides s) as [Hq Hd]. apply str_run; [exact Hq| |exact Hc].
  unfold valid_text in Hv. rewrite Forall_forall in *. intros c Hin. split; [apply Hv; exact Hin|apply Hd; exact Hin].
Qed.

Lemma fstr_parts ts comps : Forall (fc_ok ts) comps -> fseq_ok W comps -> Forall comp_facts comps ->
  parts_ok W false [] (map (part_of W false) comps) /\ comps_from [] (map (part_of W false) comps) = map clear_ts comps.
Proof.
  induction comps as [|c r IH]; intros HF Hs Hc; [split; [exact I|reflexivity]|].
  inversion HF as [|? ? Hfc HF']; subst. inversion Hc as [|? ? Hcf Hc']; subst.
  destruct (fc_ok_shape ts c Hfc) as [(s & -> & Hne & Hv & Hcont)|(conv & x0 & spec & ->)].
  - (* a string *)
    pose proof (str_lit_ok s Hv Hcont) as Hlit. cbn [fseq_ok] in Hs. destruct r as [|d r'].
    + cbn [map part_of]. unfold lit_part. cbn [parts_ok]. split; [split; [exact Hlit|exact I]|].
      rewrite comps_from_lit, comps_from_nil. unfold flush. destruct s; [congruence|reflexivity].
    + inversion HF' as [|? ? Hfd _]; subst.
      destruct (fc_ok_shape ts d Hfd) as [(s' & -> & _)|(conv & x0 & spec & ->)]; [destruct Hs|].
      destruct Hs as [Hends Hs]. destruct (IH HF' Hs Hc') as [Hp Hcm].
      cbn [map] in Hp, Hcm |- *. change (part_of W false (MStr s None)) with (lit_part W s). unfold lit_part.
      remember (part_of W false (MNode (KFComp conv ts) (x0 :: spec))) as pf eqn:Epf.
      assert (Hpf : exists a b c0 d0 e f g h, pf = PField a b c0 d0 e f g h).
      { subst pf. cbn [part_of]. repeat eexists. }
      destruct Hpf as (a & b & c0 & d0 & e & f & g & h & ->).
      cbn [parts_ok] in Hp |- *. destruct Hp as (_ & Hp1 & Hp2). split.
      * split; [exact Hlit|]. cbn [app]. split; [exact Hends|split; assumption].
      * rewrite comps_from_lit. cbn [app]. rewrite comps_from_field in Hcm |- *. cbn [flush is_str_empty app] in Hcm.
        unfold flush at 1. destruct s as [|c1 s1]; [congruence|]. cbn [is_str_empty app map clear_ts]. f_equal. exact Hcm.
  - (* a field *)
    cbn [comp_facts] in Hcf. destruct Hcf as (P1 & P2 & P3).
    assert (Hs' : fseq_ok W r) by exact Hs. destruct (IH HF' Hs' Hc') as [Hp Hcm].
    cbn [map]. remember (part_of W false (MNode (KFComp conv ts) (x0 :: spec))) as pf eqn:Epf.
    assert (Hpf : exists a b c0 d0 e f g h, pf = PField a b c0 d0 e f g h).
    { subst pf. cbn [part_of]. repeat eexists. }
    destruct Hpf as (a & b & c0 & d0 & e & f & g & h & ->).
    cbn [parts_ok]. split; [split; [reflexivity|split; assumption]|].
    rewrite comps_from_field, P3, Hcm. reflexivity.
Qed.

Lemma fstr_render ts comps : Forall (fc_ok ts) comps -> Forall comp_facts comps ->
  concat (map (fun mr => if is_mstr (fst mr) then double_braces (cut_1_m1 (snd mr)) else snd mr)
              (combine comps (map (mrepr W) comps)))
  = render_all (map (part_of W false) comps).
Proof.
  induction comps as [|c r IH]; intros HF Hc; [reflexivity|].
  inversion HF as [|? ? Hfc HF']; subst. inversion Hc as [|? ? Hcf Hc']; subst.
  cbn [map combine concat fst snd]. unfold render_all in *. cbn [map concat]. rewrite (IH HF' Hc'). f_equal.
  destruct (fc_ok_shape ts c Hfc) as [(s & -> & Hne & Hv & Hcont)|(conv & x0 & spec & ->)].
  - cbn [is_mstr mrepr part_of]. unfold lit_part. cbn [render]. apply fstr_literal_text. exact Hv.
  - cbn [is_mstr]. cbn [comp_facts] in Hcf. destruct Hcf as (_ & P2 & _). symmetry. exact P2.
Qed.

Lemma fstr_restore ts comps : Forall (fc_ok ts) comps ->
  (if ts then map set_tstring (map clear_ts comps) else map clear_ts comps) = comps
  /\ Forall (fun c => match c with MStr _ br => br = None | _ => True end) comps.
Proof.
  induction 1 as [|c r Hfc _ IH]; [destruct ts; split; constructor|]. destruct IH as [IH1 IH2].
  destruct (fc_ok_shape ts c Hfc) as [(s & -> & _)|(conv & x0 & spec & ->)].
  - split; [|constructor; [reflexivity|exact IH2]]. destruct ts; cbn [map clear_ts set_tstring]; f_equal; exact IH1.
  - split; [|constructor; [exact I|exact IH2]]. destruct ts; cbn [map clear_ts set_tstring]; f_equal; exact IH1.
Qed.

Lemma fstr_item ts comps : Forall (fc_ok ts) comps -> fseq_ok W comps -> Forall comp_facts comps ->
  item (MNode (KFStr None ts) comps).
Proof.
  intros HF Hs Hc. destruct (fstr_parts ts comps HF Hs Hc) as [Hp Hcm].
  pose proof (fstr_render ts comps HF Hc) as Hr. destruct (fstr_restore ts comps HF) as [Hrest Hbr].
  assert (Er : mrepr W (MNode (KFStr None ts) comps)
               = (if ts then 116 else 102) :: c_dq :: render_all (map (part_of W false) comps) ++ [c_dq]).
  { cbn [mrepr node_repr]. unfold fstr_repr. rewrite Hr. reflexivity. }
  split.
  { exists (if ts then 116 else 102), (c_dq :: render_all (map (part_of W false) comps) ++ [c_dq]).
    split; [exact Er|]. destruct ts; split; reflexivity. }
  intros rest Hrest0. rewrite Er.
  destruct (read_rendered W false (map (part_of W false) comps) [] rest Hp) as [_ [n Hn]].
  cbn [cl_of st_of closer_of rev app] in Hn. rewrite Hcm in Hn.
  apply (reads_intro W (S n)); [|discriminate]. rewrite rd_S. unfold form_body.
  cbn [app]. rewrite skip_ws_nonws by (destruct ts; reflexivity).
  assert (Hd : dispatch (if ts then 116 else 102) = DDefault) by (destruct ts; reflexivity). rewrite Hd.
  unfold default_body, span_ident. rewrite span_none by reflexivity.
  change (N.eqb c_dq c_dq) with true. cbv iota.
  assert (Hpf : prefix_flags [if ts then 116 else 102] = Some (false, false, if ts then FmT else FmF)) by (destruct ts; reflexivity).
  rewrite Hpf. cbv iota beta. unfold read_string_body. cbn [init_state]. rewrite <- app_assoc. cbn [app].
  destruct ts; rewrite Hn; unfold mk_fstring; rewrite Hrest, (join_strs_id W comps Hs Hbr); reflexivity.
Qed.

Lemma Forall_item ms : Forall ok ms -> Forall both ms -> Forall item ms.
Proof.
  intros H1 H2. induction H1 as [|m ms Hm _ IH]; [constructor|].
  inversion H2 as [|? ? [Hb _] H2']; subst. constructor; auto.
Qed.

Theorem ok_both : forall m, both m.
Proof.
  induction m as [s|s|z|f|a b|s br|b|k ms IH] using model_ind';
    (split; [intros Hok; inversion Hok; subst|try exact I]).
  - (* symbol *)
    match goal with H : sym_ok _ _ |- _ => rename H into Hs end.
    destruct (token_head s (proj1 Hs)) as (c & r & E & H1 & H2).
    apply (item_of_form _ c r); [exact E|exact H1|exact H2|].
    intros rec rest Hr. apply read_symbol; assumption.
  - (* keyword *)
    apply (item_of_form _ c_colon s); [reflexivity|reflexivity|reflexivity|].
    intros rec rest Hr. apply read_keyword; assumption.
  - (* integer *)
    apply (item_numeric (dec_Z z)); [apply dec_Z_token|rewrite (nf_int W NF); reflexivity|reflexivity].
  - (* float *)
    destruct (hy_float_token f) as [Ht Hn].
    apply (item_numeric (hy_float W f)); [exact Ht|rewrite Hn; reflexivity|reflexivity].
  - (* complex *)
    destruct (nf_complex W NF a b) as [Ht Hn].
    apply (item_numeric (hy_complex W a b)); [exact Ht|rewrite Hn; reflexivity|reflexivity].
  - (* string *)
    cbn [mrepr]. pose proof (hy_str_eq W s) as E.
    apply (item_of_form _ c_dq (flat_map (hy_esc W (py_quote s)) s ++ [c_dq])); try exact E; try reflexivity.
    intros rec rest Hr. apply read_hy_str; assumption.
  - (* bracket string *)
    apply (item_of_form _ c_hash (c_lb :: d ++ [c_lb] ++ lead_nl s ++ s ++ [c_rb] ++ d ++ [c_rb])); try reflexivity.
    intros rec rest Hr. apply read_bracket_string; assumption.
  - (* bytes *)
    pose proof (hy_bytes_eq b) as E.
    apply (item_of_form _ 98 (c_dq :: flat_map (hy_esc_b (py_quote b)) b ++ [c_dq])); try exact E; try reflexivity.
    intros rec rest Hr. apply read_hy_bytes; assumption.
  - (* list *)
    pose proof (Forall_item ms H0 IH) as HF.
    split; [exists c_lb, (cat (map (mrepr W) ms) ++ [c_rb]); repeat split; reflexivity|].
    intros rest Hr. cbn [mrepr node_repr]. rewrite fill_list. rewrite <- !app_assoc. cbn [app].
    apply (read_open_seq KList c_rb c_lb); [reflexivity|reflexivity|reflexivity|exact HF].
  - (* tuple *)
    pose proof (Forall_item ms H0 IH) as HF.
    split; [exists c_hash, (c_lp :: cat (map (mrepr W) ms) ++ [c_rp]); repeat split; reflexivity|].
    intros rest Hr. cbn [mrepr node_repr]. rewrite <- !app_assoc. cbn [app].
    apply (read_hash_seq KTuple c_rp c_lp); [reflexivity|reflexivity|reflexivity|reflexivity|exact HF].
  - (* set *)
    pose proof (Forall_item ms H0 IH) as HF.
    split; [exists c_hash, (c_lc :: cat (map (mrepr W) ms) ++ [c_rc]); repeat split; reflexivity|].
    intros rest Hr. cbn [mrepr node_repr]. rewrite fill_set. rewrite <- !app_assoc. cbn [app].
    apply (read_hash_seq KSet c_rc c_lc); [reflexivity|reflexivity|reflexivity|reflexivity|exact HF].
  - (* dict *)
    pose proof (Forall_item ms H0 IH) as HF.
    split; [exists c_lc, (dict_body (map (mrepr W) ms) ++ [c_rc]); repeat split; reflexivity|].
    intros rest Hr. cbn [mrepr node_repr]. rewrite <- !app_assoc. cbn [app].
    apply read_dict; exact HF.
  - (* parenthesised expression *)
    pose proof (Forall_item ms H2 IH) as HF.
    assert (E : mrepr W (MNode KExpr ms) = [c_lp] ++ cat (map (mrepr W) ms) ++ [c_rp]).
    { cbn [mrepr node_repr]. apply expr_plain_repr; assumption. }
    split; [exists c_lp, (cat (map (mrepr W) ms) ++ [c_rp]); repeat split; exact E|].
    intros rest Hr. rewrite E. rewrite <- !app_assoc. cbn [app].
    apply (read_open_seq KExpr c_rp c_lp); [reflexivity|reflexivity|reflexivity|exact HF].
  - (* reader sugar *)
    inversion IH as [|? ? IHn IH1]; subst. inversion IH1 as [|? ? [IHx _] _]; subst.
    match goal with H : ok x |- _ => pose proof (IHx H) as Hx end.
    destruct Hx as [(c & t & Ex & Hc1 & Hc2) Hrd].
    assert (Hone : forall rest, delim_start rest -> reads W RdOne (mrepr W x ++ rest) (ROne x rest)).
    { intros rest Hr. apply reads_one_of_form, Hrd, Hr. }
    assert (Erepr : mrepr W (MNode KExpr [MSym name; x])
                    = if sym_is (MSym name) s_unquote && is_sym x && starts_with [c_at] (sym_text x)
                      then [c_tilde; ch_space] ++ mrepr W x else p ++ mrepr W x).
    { cbn [mrepr node_repr map]. unfold expr_repr. change (expr_dotted [MSym name; x]) with false. cbv iota.
      unfold expr_sugar. cbn [length Nat.eqb nth is_sym sym_text andb].
      match goal with H : lookup_syntax name _ = _ |- _ => rewrite H end. reflexivity. }
    match goal with H : lookup_syntax name _ = _ |- _ => pose proof (lookup_syntax_cases _ _ H) as Hcases end.
    destruct Hcases as [[-> ->]|[[-> ->]|[[-> ->]|[[-> ->]|[[-> ->]|[-> ->]]]]]].
    + split; [exists c_sq, (mrepr W x); repeat split; exact Erepr|]. intros rest Hr. rewrite Erepr. cbn [app].
      apply (read_tag W c_sq s_quote); [reflexivity|reflexivity|apply Hone; exact Hr].
    + split; [exists c_bq, (mrepr W x); repeat split; exact Erepr|]. intros rest Hr. rewrite Erepr. cbn [app].
      apply (read_tag W c_bq s_quasiquote); [reflexivity|reflexivity|apply Hone; exact Hr].
    + (* unquote *)
      change (sym_is (MSym s_unquote) s_unquote) with true in Erepr. cbn [andb] in Erepr.
      destruct (is_sym x && starts_with [c_at] (sym_text x)) eqn:Eat.
      * split; [exists c_tilde, (ch_space :: mrepr W x); repeat split; exact Erepr|]. intros rest Hr. rewrite Erepr.
        cbn [app]. apply read_unquote; [reflexivity|].
        change (ch_space :: mrepr W x ++ rest) with ([ch_space] ++ mrepr W x ++ rest).
        apply reads_one_ws; [reflexivity|apply Hone; exact Hr].
      * split; [exists c_tilde, (mrepr W x); repeat split; exact Erepr|]. intros rest Hr. rewrite Erepr. cbn [app].
        apply read_unquote; [|apply Hone; exact Hr]. rewrite Ex. cbn [app].
        match goal with H : s_unquote = s_unquote -> _ |- _ => destruct (H eq_refl) as [Hs|Hh] end.
        { rewrite Hs in Eat. cbn [andb] in Eat. destruct x; try discriminate. cbn [sym_text mrepr] in *. subst s.
          cbn [starts_with] in Eat. rewrite N.eqb_sym. destruct (N.eqb c_at c); [discriminate|reflexivity]. }
        { rewrite Ex in Hh. exact Hh. }
    + split; [exists c_tilde, (c_at :: mrepr W x); repeat split; exact Erepr|]. intros rest Hr. rewrite Erepr. cbn [app].
      apply read_unquote_splice. apply Hone; exact Hr.
    + split; [exists c_hash, (c_star :: ch_space :: mrepr W x); repeat split; exact Erepr|]. intros rest Hr. rewrite Erepr.
      cbn [app]. apply (read_unpack W [c_star] s_unpack_iterable); [left; reflexivity|reflexivity|apply Hone; exact Hr].
    + split; [exists c_hash, (c_star :: c_star :: ch_space :: mrepr W x); repeat split; exact Erepr|]. intros rest Hr. rewrite Erepr.
      cbn [app]. apply (read_unpack W [c_star; c_star] s_unpack_mapping); [right; reflexivity|reflexivity|apply Hone; exact Hr].
  - (* dotted identifier *)
    match goal with H : dots = [] -> _ |- _ => rename H into H0 end.
    change (item (MNode KExpr (dotted_model dots parts))).
    assert (Er : mrepr W (MNode KExpr (dotted_model dots parts)) = dots ++ join_dot parts).
    { apply dotted_repr; try assumption. intros E. destruct (H0 E) as (A & B & _). split; assumption. }
    assert (Ht : token_ok (dots ++ join_dot parts)).
    { apply dotted_token; try assumption. intros E. destruct (H0 E) as (_ & _ & C). exact C. }
    destruct (token_head _ Ht) as (c & r & E & Hw1 & Hw2).
    apply (item_of_form _ c r); [congruence|exact Hw1|exact Hw2|].
    intros rec rest Hr. rewrite Er, read_token by assumption.
    rewrite dotted_read; try assumption; [reflexivity|]. intros E0. destruct (H0 E0) as (A & _). exact A.
  - (* f-string *)
    match goal with H : Forall (fc_ok ts) ms |- _ => rename H into Hfc end.
    apply fstr_item; try assumption.
    clear - IH Hfc. induction Hfc as [|c r Hc _ IHr]; [constructor|]. inversion IH as [|? ? [_ Hfp] IH']; subst.
    constructor; [|apply IHr; exact IH'].
    destruct Hc as [ts s|ts conv x0 spec Hx Hsp]; [exact I|]. cbn [comp_facts]. apply Hfp. constructor; assumption.
  - (* a replacement-field node: the facts used above *)
    destruct k as [| | | | |br ts|conv ts]; try exact I. destruct ms as [|x0 spec]; [exact I|].
    cbn [field_part]. intros Hfc. inversion Hfc as [|? ? ? ? Hx Hsp]; subst.
    inversion IH as [|? ? [Hxi _] IHspec]; subst.
    apply field_facts_intro; [apply Hxi; exact Hx|exact Hsp|apply spec_comp_facts; assumption].
Qed.

Theorem ok_item : forall m, ok m -> item m.
Proof. intros m. exact (proj1 (ok_both m)). Qed.

(* hy.read on the printed text *)
Corollary read_back m : ok m -> reads W RdOne (mrepr W m) (ROne m []).
Proof.
  intros Hok. destruct (ok_item m Hok) as [_ Hr]. specialize (Hr [] I). rewrite app_nil_r in Hr.
  apply reads_one_of_form; exact Hr.
Qed.

End RT.
