(* The printed text of a model is read back as that model: the fragment without
   reader sugar, dotted identifiers, bracket strings and f-strings (enough for every
   printed value of C27; ModelRoundTrip.v extends it for C25). *)
From HyV Require Import Print.Syntax Print.Names Print.Reader Print.ModelRepr Print.ReaderFacts
     Print.StringFacts Print.AtomFacts.
From Coq Require Import Lia.

(* what the theorems assume about the numeric oracles *)
Record num_facts (W : oracle) : Prop := {
  nf_int : forall z, num W (dec_Z z) = NInt z;
  nf_float : forall b, token_ok (float_repr W b) /\ num W (float_repr W b) = NFloat (FFin b);
  nf_nan : num W s_NaN = NFloat FNaN;
  nf_inf : num W s_Inf = NFloat (FInf false);
  nf_ninf : num W s_NegInf = NFloat (FInf true);
  nf_complex : forall a b, token_ok (hy_complex W a b) /\ num W (hy_complex W a b) = NComplex a b
}.

Definition expr_plain (ms : list model) : bool :=
  negb (expr_dotted ms) && match expr_sugar ms with None => true | Some _ => false end.

Lemma expr_plain_repr ms rs : expr_plain ms = true -> expr_repr ms rs = [c_lp] ++ cat rs ++ [c_rp].
Proof.
  unfold expr_plain, expr_repr. intros H. apply andb_prop in H as [H1 H2]. apply negb_true_iff in H1.
  rewrite H1. destruct (expr_sugar ms); [discriminate|reflexivity].
Qed.

Section RT.
Variable W : oracle.
Hypothesis NF : num_facts W.

Inductive ok : model -> Prop :=
| OkSym s : sym_ok W s -> ok (MSym s)
| OkKw s : kw_ok s -> ok (MKw s)
| OkInt z : ok (MInt z)
| OkFloat f : ok (MFloat f)
| OkComplex a b : ok (MComplex a b)
| OkStr s : valid_text s -> ok (MStr s None)
| OkBytes b : valid_bytes b -> ok (MBytes b)
| OkList ms : Forall ok ms -> ok (MNode KList ms)
| OkTuple ms : Forall ok ms -> ok (MNode KTuple ms)
| OkSet ms : Forall ok ms -> ok (MNode KSet ms)
| OkDict ms : Forall ok ms -> ok (MNode KDict ms)
| OkExpr ms : expr_plain ms = true -> Forall ok ms -> ok (MNode KExpr ms).

Notation item := (item_ok W (mrepr W)).

Lemma item_of_form m c t :
  mrepr W m = c :: t -> is_ws c = false -> closer_char c = false ->
  (forall rec rest, delim_start rest -> form_body W rec (mrepr W m ++ rest) = RForm (Some m) rest) ->
  item m.
Proof.
  intros Hp H1 H2 Hf. split; [exists c, t; auto|]. intros rest Hr.
  apply (reads_intro W 1); [|discriminate]. rewrite rd_S. apply Hf; exact Hr.
Qed.

Lemma token_head t : token_ok t -> exists c r, t = c :: r /\ is_ws c = false /\ closer_char c = false.
Proof.
  destruct t as [|c r]; [intros []|]. intros [H _]. cbn [forallb] in H. apply andb_prop in H as [Hc _].
  exists c, r. split; [reflexivity|]. split; [apply ident_char_not_ws|apply ident_char_not_closer]; exact Hc.
Qed.

Lemma hy_float_token f : token_ok (hy_float W f) /\ num W (hy_float W f) = NFloat f.
Proof.
  destruct f as [|[|]|b]; cbn [hy_float].
  - split; [split; reflexivity|apply (nf_nan W NF)].
  - split; [split; reflexivity|apply (nf_ninf W NF)].
  - split; [split; reflexivity|apply (nf_inf W NF)].
  - apply (nf_float W NF).
Qed.

Lemma item_numeric t m : token_ok t -> numeric_model (num W t) = Some m -> mrepr W m = t -> item m.
Proof.
  intros Ht Hn Hp. destruct (token_head t Ht) as (c & r & E & H1 & H2).
  apply (item_of_form m c r); [congruence|exact H1|exact H2|].
  intros rec rest Hr. rewrite Hp. apply read_numeric; assumption.
Qed.

(* ---------------------------------------------------------------- sequences *)
Lemma fill_list body : fill_first fmt_list body = [c_lb] ++ body ++ [c_rb].
Proof. reflexivity. Qed.
Lemma fill_set body : fill_first fmt_set body = [c_hash; c_lc] ++ body ++ [c_rc].
Proof. reflexivity. Qed.

(* an opening delimiter, items joined by spaces, the closer *)
Lemma read_open_seq k closer c ms rest :
  dispatch c = DOpen k closer -> is_ws c = false -> closer_char closer = true ->
  Forall item ms ->
  reads W RdForm (c :: cat (map (mrepr W) ms) ++ closer :: rest) (RForm (Some (MNode k ms)) rest).
Proof.
  intros Hd Hw Hc HF.
  destruct (read_cat W (mrepr W) closer Hc ms [] rest HF) as [_ [n H]].
  apply (reads_intro W (S n)); [|discriminate]. rewrite rd_S. unfold form_body.
  rewrite skip_ws_nonws by exact Hw. rewrite Hd. unfold cat. rewrite H. reflexivity.
Qed.

Lemma read_hash_seq k closer c ms rest :
  hash_lookup [c] = Some (HSeq k closer) -> non_ident c = true -> is_pyspace c = false -> closer_char closer = true ->
  Forall item ms ->
  reads W RdForm (c_hash :: c :: cat (map (mrepr W) ms) ++ closer :: rest) (RForm (Some (MNode k ms)) rest).
Proof.
  intros Hl Hni Hsp Hc HF.
  destruct (read_cat W (mrepr W) closer Hc ms [] rest HF) as [_ [n H]].
  apply (reads_intro W (S n)); [|discriminate]. rewrite rd_S. unfold form_body.
  rewrite skip_ws_nonws by reflexivity. change (dispatch c_hash) with DHash. cbv iota.
  unfold hash_body. rewrite Hsp. unfold span_ident.
  rewrite span_none by (unfold ends_ident; rewrite Hni, orb_true_r; reflexivity).
  rewrite Hl. unfold cat. rewrite H. reflexivity.
Qed.

(* ---------------------------------------------------------------- Dict spacing *)
Fixpoint dict_seps (i : nat) (ms : list model) : list (text * model) :=
  match ms with
  | [] => []
  | m :: r => ((if negb (Nat.eqb i 0) && Nat.even i then [ch_space; ch_space] else [ch_space]), m) :: dict_seps (S i) r
  end.

Lemma intersperse_flat (sep x : text) l : intersperse sep (x :: l) = x ++ flat_map (fun y => sep ++ y) l.
Proof.
  revert x. induction l as [|y l IH]; intros x; [simpl; rewrite app_nil_r; reflexivity|].
  change (intersperse sep (x :: y :: l)) with (x ++ sep ++ intersperse sep (y :: l)).
  rewrite IH. cbn [flat_map]. rewrite <- !app_assoc. reflexivity.
Qed.

Lemma dict_items_flat pr ms : forall i,
  flat_map (fun y => [ch_space] ++ y) (dict_items i (map pr ms)) = items_text pr (dict_seps i ms).
Proof.
  induction ms as [|m ms IH]; intros i; [reflexivity|].
  cbn [map dict_items dict_seps items_text flat_map fst snd]. fold (items_text pr (dict_seps (S i) ms)).
  rewrite IH. destruct (negb (Nat.eqb i 0) && Nat.even i); cbn [app]; reflexivity.
Qed.

Lemma dict_items_text pr ms : forall i, ms <> [] ->
  [ch_space] ++ intersperse [ch_space] (dict_items i (map pr ms)) = items_text pr (dict_seps i ms).
Proof.
  intros i Hne. destruct ms as [|m ms]; [congruence|]. rewrite <- dict_items_flat.
  cbn [map dict_items]. rewrite intersperse_flat. cbn [flat_map]. rewrite <- !app_assoc. reflexivity.
Qed.

Lemma dict_seps_ok i ms : Forall item ms ->
  Forall (fun p => forallb is_ws (fst p) = true /\ fst p <> [] /\ item (snd p)) (dict_seps i ms).
Proof.
  intros HF. revert i. induction HF as [|m ms Hm _ IH]; intros i; [constructor|].
  cbn [dict_seps]. constructor; [|apply IH]. cbn [fst snd].
  destruct (negb (Nat.eqb i 0) && Nat.even i); (split; [reflexivity|split; [discriminate|exact Hm]]).
Qed.

Lemma dict_seps_snd i ms : map snd (dict_seps i ms) = ms.
Proof. revert i. induction ms as [|m ms IH]; intros i; [reflexivity|]. cbn [dict_seps map snd]. rewrite IH. reflexivity. Qed.

Lemma read_dict ms rest : Forall item ms ->
  reads W RdForm (c_lc :: dict_body (map (mrepr W) ms) ++ c_rc :: rest) (RForm (Some (MNode KDict ms)) rest).
Proof.
  intros HF.
  assert (Hs : reads W (RdSeq (Some c_rc) []) (dict_body (map (mrepr W) ms) ++ c_rc :: rest) (RSeq ms rest)).
  { destruct ms as [|m ms].
    - apply (read_cat W (mrepr W) c_rc eq_refl [] [] rest). constructor.
    - pose proof (read_items W (mrepr W) c_rc eq_refl (dict_seps 0 (m :: ms)) [] rest (dict_seps_ok 0 _ HF)) as [HR [n H]].
      rewrite dict_seps_snd in H. rewrite <- dict_items_text in H by discriminate.
      split; [discriminate|]. exists n. rewrite <- app_assoc in H. rewrite rd_seq_ws in H by reflexivity. exact H. }
  destruct Hs as [_ [n H]].
  apply (reads_intro W (S n)); [|discriminate]. rewrite rd_S. unfold form_body.
  rewrite skip_ws_nonws by reflexivity. change (dispatch c_lc) with (DOpen KDict c_rc). cbv iota. rewrite H. reflexivity.
Qed.

(* ---------------------------------------------------------------- the induction *)
Lemma Forall_item ms : Forall ok ms -> Forall (fun m => ok m -> item m) ms -> Forall item ms.
Proof.
  intros H1 H2. induction H1 as [|m ms Hm _ IH]; [constructor|].
  inversion H2; subst. constructor; auto.
Qed.

Theorem ok_item : forall m, ok m -> item m.
Proof.
  induction m as [s|s|z|f|a b|s br|b|k ms IH] using model_ind'; intros Hok; inversion Hok; subst.
  - (* symbol *)
    match goal with H : sym_ok _ _ |- _ => rename H into Hs end.
    destruct (token_head s (proj1 Hs)) as (c & r & E & H1 & H2).
    apply (item_of_form _ c r); [exact E|exact H1|exact H2|].
    intros rec rest Hr. apply read_symbol; assumption.
  - (* keyword *)
    apply (item_of_form _ c_colon s); [reflexivity|reflexivity|reflexivity|].
    intros rec rest Hr. apply read_keyword; assumption.
  - (* integer *)
    apply (item_numeric (dec_Z z)); [apply dec_Z_token|rewrite (nf_int W NF); reflexivity|reflexivity].
  - (* float *)
    destruct (hy_float_token f) as [Ht Hn].
    apply (item_numeric (hy_float W f)); [exact Ht|rewrite Hn; reflexivity|reflexivity].
  - (* complex *)
    destruct (nf_complex W NF a b) as [Ht Hn].
    apply (item_numeric (hy_complex W a b)); [exact Ht|rewrite Hn; reflexivity|reflexivity].
  - (* string *)
    cbn [mrepr]. pose proof (hy_str_eq W s) as E.
    apply (item_of_form _ c_dq (flat_map (hy_esc W (py_quote s)) s ++ [c_dq])); try exact E; try reflexivity.
    intros rec rest Hr. apply read_hy_str; assumption.
  - (* bytes *)
    pose proof (hy_bytes_eq b) as E.
    apply (item_of_form _ 98 (c_dq :: flat_map (hy_esc_b (py_quote b)) b ++ [c_dq])); try exact E; try reflexivity.
    intros rec rest Hr. apply read_hy_bytes; assumption.
  - (* list *)
    pose proof (Forall_item ms H0 IH) as HF.
    split; [exists c_lb, (cat (map (mrepr W) ms) ++ [c_rb]); repeat split; reflexivity|].
    intros rest Hr. cbn [mrepr node_repr]. rewrite fill_list. rewrite <- !app_assoc. cbn [app].
    apply (read_open_seq KList c_rb c_lb); [reflexivity|reflexivity|reflexivity|exact HF].
  - (* tuple *)
    pose proof (Forall_item ms H0 IH) as HF.
    split; [exists c_hash, (c_lp :: cat (map (mrepr W) ms) ++ [c_rp]); repeat split; reflexivity|].
    intros rest Hr. cbn [mrepr node_repr]. rewrite <- !app_assoc. cbn [app].
    apply (read_hash_seq KTuple c_rp c_lp); [reflexivity|reflexivity|reflexivity|reflexivity|exact HF].
  - (* set *)
    pose proof (Forall_item ms H0 IH) as HF.
    split; [exists c_hash, (c_lc :: cat (map (mrepr W) ms) ++ [c_rc]); repeat split; reflexivity|].
    intros rest Hr. cbn [mrepr node_repr]. rewrite fill_set. rewrite <- !app_assoc. cbn [app].
    apply (read_hash_seq KSet c_rc c_lc); [reflexivity|reflexivity|reflexivity|reflexivity|exact HF].
  - (* dict *)
    pose proof (Forall_item ms H0 IH) as HF.
    split; [exists c_lc, (dict_body (map (mrepr W) ms) ++ [c_rc]); repeat split; reflexivity|].
    intros rest Hr. cbn [mrepr node_repr]. rewrite <- !app_assoc. cbn [app].
    apply read_dict; exact HF.
  - (* parenthesised expression *)
    pose proof (Forall_item ms H2 IH) as HF.
    assert (E : mrepr W (MNode KExpr ms) = [c_lp] ++ cat (map (mrepr W) ms) ++ [c_rp]).
    { cbn [mrepr node_repr]. apply expr_plain_repr; assumption. }
    split; [exists c_lp, (cat (map (mrepr W) ms) ++ [c_rp]); repeat split; exact E|].
    intros rest Hr. rewrite E. rewrite <- !app_assoc. cbn [app].
    apply (read_open_seq KExpr c_rp c_lp); [reflexivity|reflexivity|reflexivity|exact HF].
Qed.

(* hy.read on the printed text *)
Corollary read_back m : ok m -> reads W RdOne (mrepr W m) (ROne m []).
Proof.
  intros Hok. destruct (ok_item m Hok) as [_ Hr]. specialize (Hr [] I). rewrite app_nil_r in Hr.
  apply reads_one_of_form; exact Hr.
Qed.

End RT.
