(* Proofs about the macroexpand model: one step / fixpoint / compiler results /
   what happens to the input's objects. *)
From HyV Require Import Base.Text MacroNS.ExpandSyntax Gen.MacroExpand MacroNS.ExpandModel.

(* the generated constants the theorems are about *)
Lemma gen_constants :
  me_not_ok_returns_tree = true /\ util_result_ok = false
  /\ util_once_macroexpand = false /\ util_once_macroexpand_1 = true.
Proof. repeat split; reflexivity. Qed.

(* ---------- induction on forms *)
Section FormInd.
Variable P : form -> Prop.
Hypothesis Hatom : forall l a, P (FAtom l a).
Hypothesis Hseq : forall k p items, Forall P items -> P (FSeq k p items).
Fixpoint form_ind' (f : form) : P f :=
  match f with
  | FAtom l a => Hatom l a
  | FSeq k p items =>
      Hseq k p items ((fix go (l : list form) : Forall P l :=
                         match l with
                         | [] => Forall_nil P
                         | x :: r => Forall_cons x (form_ind' x) (go r)
                         end) items)
  end.
End FormInd.

Section Proofs.
Variable macro_of : name -> option mfun.

(* ---------- one trip through the loop *)

Lemma step_not_expression time t h :
  (forall p hd args, t <> FSeq KExpr p (hd :: args)) -> step macro_of time t h = SStop.
Proof.
  intros H. destruct t as [l a|k p items]; [reflexivity|].
  destruct k; [|reflexivity]. destruct items as [|hd args]; [reflexivity|].
  exfalso. exact (H p hd args eq_refl).
Qed.

Lemma step_head_not_a_name time p hd args h :
  head_name hd = None -> step macro_of time (FSeq KExpr p (hd :: args)) h = SStop.
Proof. intros H. simpl. rewrite H. reflexivity. Qed.

Lemma step_head_not_a_macro time p hd args h n :
  head_name hd = Some n -> macro_of n = None -> step macro_of time (FSeq KExpr p (hd :: args)) h = SStop.
Proof. intros H1 H2. simpl. rewrite H1, H2. reflexivity. Qed.

Lemma step_applies_once time p hd args h n f obj :
  head_name hd = Some n -> macro_of n = Some f -> f time args = MForm obj ->
  step macro_of time (FSeq KExpr p (hd :: args)) h =
  SNext (fst (replace_form p obj h)) (snd (replace_form p obj h)).
Proof. intros H1 H2 H3. simpl. rewrite H1, H2, H3. destruct (replace_form p obj h). reflexivity. Qed.

Lemma step_compiler_result time p hd args h n f :
  head_name hd = Some n -> macro_of n = Some f -> f time args = MResult ->
  step macro_of time (FSeq KExpr p (hd :: args)) h = SKeep.
Proof. intros H1 H2 H3. simpl. rewrite H1, H2, H3. reflexivity. Qed.

(* SNext only arises from exactly one application of the macro the head names *)
Lemma step_next_inv time t h t' h' :
  step macro_of time t h = SNext t' h' ->
  exists p hd args n f obj,
    t = FSeq KExpr p (hd :: args) /\ head_name hd = Some n /\ macro_of n = Some f
    /\ f time args = MForm obj /\ replace_form p obj h = (t', h').
Proof.
  destruct t as [l a|k p items]; [discriminate|]. destruct k; [|discriminate].
  destruct items as [|hd args]; [discriminate|]. simpl.
  destruct (head_name hd) as [n|] eqn:E1; [|discriminate].
  destruct (macro_of n) as [f|] eqn:E2; [|discriminate].
  destruct (f time args) as [obj| |] eqn:E3; try discriminate.
  destruct (replace_form p obj h) as [t1 h1] eqn:E4. intros H. inversion H; subst.
  exists p, hd, args, n, f, obj. repeat split; assumption.
Qed.

(* ---------- hy.macroexpand-1 *)

Theorem expand1_one_step n t h :
  hy_macroexpand_1 macro_of (S n) t h =
  match step macro_of n t h with
  | SNext t' h' => ODone t' h'      (* exactly one expansion *)
  | SStop => ODone t h              (* not a macro call: unchanged *)
  | SKeep => ODone t h              (* core macro returning a compiler result: unchanged *)
  | SRaise => ORaise
  end.
Proof. unfold hy_macroexpand_1. simpl. destruct (step macro_of n t h); reflexivity. Qed.

(* ---------- hy.macroexpand *)

(* fuel f, tree t  ~~>  fuel f', tree t' by successive single expansions *)
Inductive steps : nat -> form -> heap -> nat -> form -> heap -> Prop :=
| steps_refl f t h : steps f t h f t h
| steps_next n t h t1 h1 f' t2 h2 :
    step macro_of n t h = SNext t1 h1 -> steps n t1 h1 f' t2 h2 -> steps (S n) t h f' t2 h2.

Definition stops (time : nat) (t : form) (h : heap) : Prop :=
  step macro_of time t h = SStop \/ step macro_of time t h = SKeep.

Theorem expand_fixpoint : forall fuel t h t' h',
  hy_macroexpand macro_of fuel t h = ODone t' h' <->
  exists m, steps fuel t h (S m) t' h' /\ stops m t' h'.
Proof.
  unfold hy_macroexpand. induction fuel as [|n IH]; intros t h t' h'.
  - simpl. split; [discriminate|]. intros [m [Hs _]]. inversion Hs.
  - simpl. destruct (step macro_of n t h) as [t1 h1| | |] eqn:Es.
    + rewrite IH. split.
      * intros [m [Hs Hst]]. exists m. split; [eapply steps_next; eassumption | exact Hst].
      * intros [m [Hs Hst]]. inversion Hs; subst.
        -- destruct Hst as [H|H]; rewrite Es in H; discriminate.
        -- rewrite Es in H0. inversion H0; subst. exists m. split; assumption.
    + split.
      * intros H. inversion H; subst. exists n. split; [constructor | left; exact Es].
      * intros [m [Hs Hst]]. inversion Hs; subst; [reflexivity|]. rewrite Es in H0. discriminate.
    + split.
      * intros H. inversion H; subst. exists n. split; [constructor | right; exact Es].
      * intros [m [Hs Hst]]. inversion Hs; subst; [reflexivity|]. rewrite Es in H0. discriminate.
    + split; [discriminate|].
      intros [m [Hs Hst]]. inversion Hs; subst.
      * destruct Hst as [H|H]; rewrite Es in H; discriminate.
      * rewrite Es in H0. discriminate.
Qed.

(* macroexpand is macroexpand-1 iterated: each link of the chain is what
   hy.macroexpand-1 returns *)
Lemma steps_are_expand1 n t h t1 h1 :
  step macro_of n t h = SNext t1 h1 -> hy_macroexpand_1 macro_of (S n) t h = ODone t1 h1.
Proof. intros H. rewrite expand1_one_step, H. reflexivity. Qed.

(* a core macro returning compiler results leaves the form as it was *)
Theorem result_ok_false_keeps n t h :
  step macro_of n t h = SKeep ->
  hy_macroexpand_1 macro_of (S n) t h = ODone t h /\ hy_macroexpand macro_of (S n) t h = ODone t h.
Proof. intros H. unfold hy_macroexpand_1, hy_macroexpand. simpl. rewrite H. split; reflexivity. Qed.

(* neither entry point ever hands out the compiler result itself *)
Theorem never_a_compiler_result fuel t h :
  hy_macroexpand_1 macro_of fuel t h <> OResult /\ hy_macroexpand macro_of fuel t h <> OResult.
Proof.
  unfold hy_macroexpand_1, hy_macroexpand. split.
  - destruct fuel; simpl; [discriminate|]. destruct (step macro_of fuel t h); discriminate.
  - revert t h. induction fuel as [|n IH]; intros t h; simpl; [discriminate|].
    destruct (step macro_of n t h); try discriminate. apply IH.
Qed.

(* ---------- the input's objects *)

Definition heap_le (h h' : heap) : Prop :=
  forall l p, heap_get l h = Some p -> heap_get l h' = Some p.

Lemma heap_le_refl h : heap_le h h.
Proof. intros l p H. exact H. Qed.

Lemma heap_le_trans a b c : heap_le a b -> heap_le b c -> heap_le a c.
Proof. intros H1 H2 l p H. apply H2, H1, H. Qed.

Lemma replace_form_mono op : forall f h, heap_le h (snd (replace_form op f h)).
Proof.
  induction f using form_ind'; intros h.
  - simpl. destruct op as [p0|]; [|apply heap_le_refl].
    destruct (heap_get l h) eqn:E; [apply heap_le_refl|].
    intros l' p' H'. simpl. destruct (N.eqb l' l) eqn:E2; [|exact H'].
    apply N.eqb_eq in E2. subst. congruence.
  - rewrite replace_form_seq.
    assert (forall l h0, Forall (fun f => forall h, heap_le h (snd (replace_form op f h))) l ->
            heap_le h0 (snd (replace_forms op l h0))) as HL.
    { induction l as [|x r IHr]; intros h0 HF; [apply heap_le_refl|].
      rewrite replace_forms_cons. inversion HF; subst. specialize (H2 h0).
      destruct (replace_form op x h0) as [x' h1]. specialize (IHr h1 H3).
      destruct (replace_forms op r h1) as [r' h2]. simpl in *. eapply heap_le_trans; eassumption. }
    specialize (HL items h H). destruct (replace_forms op items h) as [items' h']. exact HL.
Qed.

(* without a position on the call form nothing is written at all *)
Lemma replace_form_none : forall f h, snd (replace_form None f h) = h.
Proof.
  induction f using form_ind'; intros h; [reflexivity|].
  rewrite replace_form_seq.
  assert (forall l h0, Forall (fun f => forall h, snd (replace_form None f h) = h) l ->
          snd (replace_forms None l h0) = h0) as HL.
  { induction l as [|x r IHr]; intros h0 HF; [reflexivity|].
    rewrite replace_forms_cons. inversion HF; subst. specialize (H2 h0).
    destruct (replace_form None x h0) as [x' h1]. specialize (IHr h1 H3).
    destruct (replace_forms None r h1) as [r' h2]. simpl in *. congruence. }
  specialize (HL items h H). destruct (replace_forms None items h) as [items' h']. exact HL.
Qed.

Lemma step_mono time t h t' h' : step macro_of time t h = SNext t' h' -> heap_le h h'.
Proof.
  intros H. apply step_next_inv in H. destruct H as [p [hd [args [n [f [obj [_ [_ [_ [_ Hr]]]]]]]]]].
  pose proof (replace_form_mono p obj h) as Hm. rewrite Hr in Hm. exact Hm.
Qed.

Lemma mexpand_mono : forall fuel once ok t h t' h',
  mexpand macro_of fuel once ok t h = ODone t' h' -> heap_le h h'.
Proof.
  induction fuel as [|n IH]; intros once ok t h t' h'; simpl; [discriminate|].
  destruct (step macro_of n t h) as [t1 h1| | |] eqn:Es.
  - destruct once.
    + intros H. inversion H; subst. eapply step_mono; eassumption.
    + intros H. eapply heap_le_trans; [eapply step_mono; eassumption | eapply IH; eassumption].
  - intros H. inversion H; subst. apply heap_le_refl.
  - destruct ok; [discriminate|].
    intros H. inversion H; subst. apply heap_le_refl.
  - discriminate.
Qed.

(* atoms of a form, by identity *)
Fixpoint labels (f : form) : list label :=
  match f with
  | FAtom l _ => [l]
  | FSeq _ _ items => (fix go (l : list form) : list label :=
                         match l with [] => [] | x :: r => labels x ++ go r end) items
  end.

(* Expansion never changes position attributes an object already has; so an
   input all of whose atoms carry positions (what the reader produces) is left
   exactly as it was. *)
Theorem input_positions_kept fuel t h t' h' l p :
  (hy_macroexpand_1 macro_of fuel t h = ODone t' h' \/ hy_macroexpand macro_of fuel t h = ODone t' h') ->
  heap_get l h = Some p -> heap_get l h' = Some p.
Proof. intros [H|H] Hg; eapply mexpand_mono in H; apply H; exact Hg. Qed.

Theorem input_unchanged_partial fuel t h t' h' :
  (hy_macroexpand_1 macro_of fuel t h = ODone t' h' \/ hy_macroexpand macro_of fuel t h = ODone t' h') ->
  (forall l, In l (labels t) -> heap_get l h <> None) ->
  forall l, In l (labels t) -> heap_get l h' = heap_get l h.
Proof.
  intros H Hall l Hin. specialize (Hall l Hin). destruct (heap_get l h) as [p|] eqn:E; [|contradiction].
  eapply input_positions_kept; eassumption.
Qed.

(* ... and a call form without position attributes (a quoted or constructed
   model) makes a single expansion write nothing *)
Theorem unpositioned_call_writes_nothing time k items h t' h' :
  step macro_of time (FSeq k None items) h = SNext t' h' -> h' = h.
Proof.
  intros H. apply step_next_inv in H. destruct H as [p [hd [args [n [f [obj [Ht [_ [_ [_ Hr]]]]]]]]]].
  inversion Ht; subst. pose proof (replace_form_none obj h) as Hn. rewrite Hr in Hn. exact Hn.
Qed.

End Proofs.

Lemma step_is_one_application : forall macro_of time t h t' h',
  step macro_of time t h = SNext t' h' <->
  exists p hd args n f obj,
    t = FSeq KExpr p (hd :: args) /\ head_name hd = Some n /\ macro_of n = Some f
    /\ f time args = MForm obj /\ replace_form p obj h = (t', h').
Proof.
  intros. split; [apply step_next_inv|].
  intros [p [hd [args [n [f [obj [-> [H1 [H2 [H3 H4]]]]]]]]]].
  rewrite (step_applies_once macro_of time p hd args h n f obj H1 H2 H3), H4. reflexivity.
Qed.

Lemma not_a_macro_call_unchanged : forall macro_of n t h,
  (forall p hd args, t <> FSeq KExpr p (hd :: args))
  \/ (exists p hd args, t = FSeq KExpr p (hd :: args) /\
        (head_name hd = None \/ exists nm, head_name hd = Some nm /\ macro_of nm = None)) ->
  hy_macroexpand_1 macro_of (S n) t h = ODone t h /\ hy_macroexpand macro_of (S n) t h = ODone t h.
Proof.
  intros macro_of n t h H.
  assert (step macro_of n t h = SStop) as Hs.
  { destruct H as [H|[p [hd [args [-> [H|[nm [H1 H2]]]]]]]].
    - apply step_not_expression. exact H.
    - apply step_head_not_a_name. exact H.
    - eapply step_head_not_a_macro; eassumption. }
  split; [rewrite expand1_one_step, Hs; reflexivity|].
  apply (expand_fixpoint macro_of). exists n. split; [constructor | left; exact Hs].
Qed.

(* ---------- but in general the input IS written to: witness.
   Input (idm b) whose expression object has position attributes while its
   atom b (label 2) has none; idm returns its argument.  After one expansion the
   atom object of the input has gained position attributes. *)
Definition w_idm : name -> option mfun :=
  fun n => if text_eqb n [105] then Some (fun _ args => match args with [a] => MForm a | _ => MRaise end) else None.
Definition w_input : form := FSeq KExpr (Some 7) [FAtom 1 (ASym [105]); FAtom 2 (ASym [98])].

Theorem input_unchanged_refuted :
  exists macro_of t h t' h' l,
    hy_macroexpand_1 macro_of 1 t h = ODone t' h' /\ In l (labels t) /\ heap_get l h' <> heap_get l h.
Proof.
  exists w_idm, w_input, [(1, 7)], (FAtom 2 (ASym [98])), [(2, 7); (1, 7)], 2.
  split; [vm_compute; reflexivity|]. split; [vm_compute; auto|]. vm_compute. discriminate.
Qed.
