(* Model of Hy's macro namespaces as the compiler sees them:
     compiler.extra_macros            (hy.eval's `macros` argument)
     compiler.local_state_stack       (one dict per function/class/comprehension scope)
     compiler.module._hy_macros       (module macros)
     builtins._hy_macros              (core macros)
   and of the operations that read or write them: the lookup chain of
   hy.macros.macroexpand (interpreting the generated table), defmacro
   (compile_macro_def), pragma :warn-on-core-shadow (compile_pragma),
   warn_on_core_shadow / get_local_option.  Names are mangled names. *)
From HyV Require Import Base.Text MacroNS.LookupSyntax Gen.MacroLookup.

Definition name := text.
Definition mid := N.                     (* identity of a macro function object *)
Definition ns := list (name * mid).      (* a dict, in insertion order, keys unique *)

Fixpoint ns_get (n : name) (d : ns) : option mid :=
  match d with
  | [] => None
  | (k, v) :: r => if text_eqb n k then Some v else ns_get n r
  end.

Definition ns_has (n : name) (d : ns) : bool :=
  match ns_get n d with Some _ => true | None => false end.

(* d[n] = m : replace in place, or append *)
Fixpoint ns_set (n : name) (m : mid) (d : ns) : ns :=
  match d with
  | [] => [(n, m)]
  | (k, v) :: r => if text_eqb n k then (k, m) :: r else (k, v) :: ns_set n m r
  end.

Definition ns_keys (d : ns) : list name := map fst d.

(* one element of local_state_stack: {'macros': ..., ['warn_on_core_shadow': ...]} *)
Record frame := mkFrame { f_macros : ns; f_warn : option bool }.
Definition empty_frame : frame := mkFrame [] None.       (* dict(macros = {}) *)

(* what one HyASTCompiler carries; the stack's head is the TOP of
   local_state_stack (Python keeps the top at the end of the list) *)
Record cstate := mkC {
  c_extra : ns;
  c_stack : list frame;
  c_module : ns
}.

Definition init_cstate (extra modns : ns) : cstate := mkC extra [empty_frame] modns.

(* ---- lookup: the generated chain, first namespace that has the name *)

Definition chain_ns (core : ns) (c : cstate) (r : nsref) : list ns :=
  match r with
  | NsExtra => [c_extra c]
  | NsLocals innermost_first =>
      if innermost_first then map f_macros (c_stack c) else rev (map f_macros (c_stack c))
  | NsModule => [c_module c]
  | NsCore => [core]
  end.

Fixpoint first_with (n : name) (l : list ns) : option mid :=
  match l with
  | [] => None
  | d :: r => match ns_get n d with Some m => Some m | None => first_with n r end
  end.

Definition lookup_in (chain : list nsref) (core : ns) (c : cstate) (n : name) : option mid :=
  first_with n (flat_map (chain_ns core c) chain).

Definition lookup := lookup_in lookup_chain.

(* ---- compiler options *)

(* is_in_local_state: len(self.local_state_stack) > threshold *)
Definition in_local (c : cstate) : bool := Nat.ltb in_local_threshold (length (c_stack c)).

(* get_local_option('warn_on_core_shadow', True): topmost frame that sets it *)
Fixpoint get_warn (st : list frame) : bool :=
  match st with
  | [] => true
  | fr :: r => match f_warn fr with Some b => b | None => get_warn r end
  end.

(* warn_on_core_shadow(name): the warnings it emits *)
Definition shadow_warning (core : ns) (c : cstate) (n : name) : list name :=
  if ns_has n core && get_warn (c_stack c) then [n] else [].

(* ---- writers *)

Definition set_top_macros (c : cstate) (n : name) (m : mid) : cstate :=
  match c_stack c with
  | [] => c     (* unreachable: the stack is never empty *)
  | fr :: r => mkC (c_extra c) (mkFrame (ns_set n m (f_macros fr)) (f_warn fr) :: r) (c_module c)
  end.

Definition set_module_macro (c : cstate) (n : name) (m : mid) : cstate :=
  mkC (c_extra c) (c_stack c) (ns_set n m (c_module c)).

(* compile_macro_def: local dict when in a local state, module dict otherwise *)
Definition do_defmacro (c : cstate) (n : name) (m : mid) : cstate :=
  if in_local c then set_top_macros c n m else set_module_macro c n m.

(* compile_pragma :warn-on-core-shadow b *)
Definition do_pragma (c : cstate) (b : bool) : cstate :=
  match c_stack c with
  | [] => c
  | fr :: r => mkC (c_extra c) (mkFrame (f_macros fr) (Some b) :: r) (c_module c)
  end.

(* new_local_state / local_state_stack.pop() *)
Definition push_frame (c : cstate) : cstate := mkC (c_extra c) (empty_frame :: c_stack c) (c_module c).
Definition pop_frame (c : cstate) : option cstate :=
  match c_stack c with
  | [] => None
  | _ :: r => Some (mkC (c_extra c) r (c_module c))
  end.
