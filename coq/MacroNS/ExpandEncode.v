(* The macroexpand model instantiated with the C35 lookup chain (as
   hy.macroexpand does: a fresh HyASTCompiler(module, extra_macros=macros)) and
   with template-defined macros; flat numeric encoding for the correspondence
   run. *)
From HyV Require Import Base.Text MacroNS.ExpandSyntax Gen.MacroExpand MacroNS.ExpandModel
  MacroNS.LookupSyntax Gen.MacroLookup MacroNS.LookupModel.

Definition menv := list (mid * (nat * mbody)).

Fixpoint find_def (m : mid) (d : menv) : option (nat * mbody) :=
  match d with
  | [] => None
  | (k, v) :: r => if N.eqb m k then Some v else find_def m r
  end.

(* the macro a head name denotes for hy.macroexpand(model, module, macros) *)
Definition macro_of_env (core extra modns : ns) (defs : menv) (base : label) : ExpandModel.name -> option mfun :=
  fun n =>
    match lookup core (init_cstate extra modns) n with
    | None => None
    | Some m => match find_def m defs with
                | Some (ar, b) => Some (template_macro base ar b)
                | None => Some (fun _ _ => MRaise)
                end
    end.

Definition enc_o (o : option N) : N := match o with None => 0 | Some p => p + 1 end.

Fixpoint enc_form (h : heap) (f : form) : list N :=
  match f with
  | FAtom l a =>
      match a with
      | ASym s => [1; 0; enc_o (heap_get l h); N.of_nat (length s)] ++ s
      | AInt z => [1; 1; enc_o (heap_get l h); z]
      | AStr s => [1; 2; enc_o (heap_get l h); N.of_nat (length s)] ++ s
      | AKw s => [1; 3; enc_o (heap_get l h); N.of_nat (length s)] ++ s
      end
  | FSeq k p items =>
      [2; match k with KExpr => 0 | KList => 1 end; enc_o p; N.of_nat (length items)]
      ++ (fix go (l : list form) : list N := match l with [] => [] | x :: r => enc_form h x ++ go r end) items
  end.

Definition enc_outcome (inputs : list label) (o : outcome) : list N :=
  match o with
  | ODone t h => [1] ++ enc_form h t ++ [9; N.of_nat (length inputs)] ++ map (fun l => enc_o (heap_get l h)) inputs
  | OResult => [2]
  | ORaise => [3]
  | OFuel => [4]
  end.

(* both entry points on one input *)
Definition observe_expand (core extra modns : ns) (defs : menv) (base : label)
                          (t : form) (h : heap) (inputs : list label) : list N :=
  let mo := macro_of_env core extra modns defs base in
  enc_outcome inputs (hy_macroexpand_1 mo 60 t h) ++ [8] ++ enc_outcome inputs (hy_macroexpand mo 60 t h).
