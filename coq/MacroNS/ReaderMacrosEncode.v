(* Flat numeric encoding of the stream machine's events and final tables, for
   the correspondence run. *)
From HyV Require Import Base.Text MacroNS.ReaderMacrosSyntax Gen.MacroReaders MacroNS.ReaderMacrosModel.

Definition enc_ev (e : event) : list N :=
  match e with
  | EvForm s => [1; N.of_nat s]
  | EvEnd s => [2; N.of_nat s]
  | EvLex s => [3; N.of_nat s]
  | EvOut s vs => [4; N.of_nat s; N.of_nat (length vs)] ++ vs
  | EvReqErr s => [5; N.of_nat s]
  | EvIdle s => [6; N.of_nat s]
  end.

Definition enc_table (t : rtable) : list N :=
  N.of_nat (length t) :: flat_map (fun kv => N.of_nat (length (fst kv)) :: fst kv ++ [snd kv]) t.

Definition bodies_of (nones : list rmid) : rmid -> rmac :=
  fun m => if existsb (N.eqb m) nones then RNone else RVal m.

(* run a schedule from the state where no reader is current, every stream has
   an empty reader table and an empty module; [static] are the source modules *)
Definition observe_streams (nones : list rmid) (cfg : list (N * N)) (static : tables)
                           (streams : list (list chunk)) (sched : list action) : list N :=
  let m0 : mstate := (None, (mkW [] static, map (fun cs => mkS cs [] false) streams)) in
  let '((g, (w, ss)), evs) := run (bodies_of nones) cfg sched m0 in
  flat_map enc_ev evs ++ [9; match g with None => 0 | Some r => r + 1 end]
  ++ flat_map (fun c => [7] ++ enc_table (tb_get (fst c) (w_readers w)) ++ [8] ++ enc_table (tb_get (snd c) (w_modules w))) cfg.
