(* Model of hy.macros.macroexpand's loop and of hy.macroexpand /
   hy.macroexpand-1 (hy/core/util.hy), parameterised by the booleans
   regenerated from the two sources (Gen/MacroExpand.v).

   A macro is any function of (time, argument forms) to a model, a compiler
   result or an exception; `time` makes the statement cover macros whose result
   depends on state.  Looking a name up is a parameter here; ExpandEncode.v
   instantiates it with the C35 lookup chain. *)
From HyV Require Import Base.Text MacroNS.ExpandSyntax Gen.MacroExpand.

Definition name := text.
Definition mfun := nat -> list form -> mres.

(* ---- replace_hy_obj(obj, other) = as_model(obj).replace(other), where
   other's position attributes are [op].  Atoms: the same object, attributes
   written in place when the atom has none.  Sequences: a new sequence, own
   position kept, else other's. *)
Fixpoint replace_form (op : option pos) (f : form) (h : heap) : form * heap :=
  match f with
  | FAtom l a =>
      (f, match op, heap_get l h with
          | Some p, None => (l, p) :: h
          | _, _ => h
          end)
  | FSeq k p items =>
      let go := fix go (l : list form) (h : heap) : list form * heap :=
        match l with
        | [] => ([], h)
        | x :: r => let '(x', h1) := replace_form op x h in
                    let '(r', h2) := go r h1 in (x' :: r', h2)
        end in
      let '(items', h') := go items h in
      (FSeq k (match p with Some _ => p | None => op end) items', h')
  end.

Definition replace_forms (op : option pos) : list form -> heap -> list form * heap :=
  fix go (l : list form) (h : heap) : list form * heap :=
    match l with
    | [] => ([], h)
    | x :: r => let '(x', h1) := replace_form op x h in
                let '(r', h2) := go r h1 in (x' :: r', h2)
    end.

Lemma replace_forms_cons op x r h :
  replace_forms op (x :: r) h =
  let '(x', h1) := replace_form op x h in
  let '(r', h2) := replace_forms op r h1 in (x' :: r', h2).
Proof. reflexivity. Qed.

Lemma replace_form_seq op k p items h :
  replace_form op (FSeq k p items) h =
  let '(items', h') := replace_forms op items h in
  (FSeq k (match p with Some _ => p | None => op end) items', h').
Proof. reflexivity. Qed.

(* ---- the name a head form is looked up under *)
Fixpoint all_syms (l : list form) : option (list text) :=
  match l with
  | [] => Some []
  | FAtom _ (ASym s) :: r => match all_syms r with Some ns => Some (s :: ns) | None => None end
  | _ => None
  end.

Fixpoint join_dots (l : list text) : text :=
  match l with
  | [] => []
  | [a] => a
  | a :: r => a ++ ch_dot :: join_dots r
  end.

Definition head_name (hd : form) : option name :=
  match hd with
  | FAtom _ (ASym s) => Some s
  | FSeq KExpr _ (FAtom _ (ASym d) :: rest) =>
      if text_eqb d [ch_dot] then
        match all_syms rest with Some ns => Some (join_dots ns) | None => None end
      else None
  | _ => None
  end.

Section Expand.
Variable macro_of : name -> option mfun.

Inductive stepres :=
| SNext (t : form) (h : heap)     (* one expansion happened *)
| SStop                           (* not a macro call *)
| SKeep                           (* the macro returned a compiler result *)
| SRaise.

(* one trip through the loop body *)
Definition step (time : nat) (tree : form) (h : heap) : stepres :=
  match tree with
  | FSeq KExpr p (hd :: args) =>
      match head_name hd with
      | None => SStop
      | Some n =>
          match macro_of n with
          | None => SStop
          | Some f =>
              match f time args with
              | MRaise => SRaise
              | MResult => SKeep
              | MForm obj => let '(t', h') := replace_form p obj h in SNext t' h'
              end
          end
      end
  | _ => SStop
  end.

Inductive outcome :=
| ODone (t : form) (h : heap)
| OResult              (* the compiler result itself is returned *)
| ORaise
| OFuel.

(* hy.macros.macroexpand(tree, module, compiler, once, result_ok) *)
Fixpoint mexpand (fuel : nat) (once result_ok : bool) (tree : form) (h : heap) : outcome :=
  match fuel with
  | O => OFuel
  | S n =>
      match step n tree h with
      | SStop => ODone tree h
      | SRaise => ORaise
      | SKeep => if result_ok then OResult
                 else if me_not_ok_returns_tree then ODone tree h else OResult
      | SNext t' h' => if once then ODone t' h' else mexpand n once result_ok t' h'
      end
  end.

(* hy.macroexpand-1 / hy.macroexpand: _macroexpand's guard is the loop's own
   guard, so a model that is not a non-empty expression comes back unchanged
   either way *)
Definition hy_macroexpand_1 (fuel : nat) := mexpand fuel util_once_macroexpand_1 util_result_ok.
Definition hy_macroexpand (fuel : nat) := mexpand fuel util_once_macroexpand util_result_ok.

End Expand.

(* ---- macros given by quasiquote templates (for the correspondence run) *)

Fixpoint inst (args : list form) (t : tmpl) (next : label) : option (form * label) :=
  match t with
  | TArg i => match nth_error args i with Some a => Some (a, next) | None => None end
  | TSym s => Some (FAtom next (ASym s), next + 1)
  | TInt z => Some (FAtom next (AInt z), next + 1)
  | TStr s => Some (FAtom next (AStr s), next + 1)
  | TSeq k l =>
      let go := fix go (l : list tmpl) (next : label) : option (list form * label) :=
        match l with
        | [] => Some ([], next)
        | x :: r => match inst args x next with
                    | None => None
                    | Some (x', n1) => match go r n1 with
                                       | None => None
                                       | Some (r', n2) => Some (x' :: r', n2)
                                       end
                    end
        end in
      match go l next with
      | None => None
      | Some (l', n') => Some (FSeq k None l', n')
      end
  end.

(* a defmacro with [arity] positional parameters and the given body; fresh
   atoms get labels base + 64 * time + i, distinct from every earlier object *)
Definition template_macro (base : label) (arity : nat) (b : mbody) : mfun :=
  fun time args =>
    if negb (Nat.eqb (length args) arity) then MRaise
    else match b with
         | BResult => MResult
         | BRaise => MRaise
         | BTemplate t => match inst args t (base + 64 * N.of_nat time) with
                          | Some (f, _) => MForm f
                          | None => MRaise
                          end
         end.
