(* Model of hy.macros.require and of compile_require's use of it, following
   the code: source_exports, the empty-_hy_macros package path, the prefix,
   the per-name loop that warns, then assigns or raises HyRequireError in the
   middle (earlier names stay assigned).  The (prefix, assignments) pair of
   each require shape is read from the generated assignment_shape table and
   the generated override of compile_require. *)
From HyV Require Import Base.Text MacroNS.LookupSyntax Gen.MacroLookup MacroNS.LookupModel.

(* a source module: its _hy_macros and its _hy_export_macros attribute, if any *)
Record srcmod := mkSrc { s_macros : ns; s_exports : option (list name) }.
Definition srcenv := list (name * srcmod).     (* importable modules by dotted name *)

Fixpoint find_src (n : name) (e : srcenv) : option srcmod :=
  match e with
  | [] => None
  | (k, s) :: r => if text_eqb n k then Some s else find_src n r
  end.

Definition name_in (n : name) (l : list name) : bool := existsb (text_eqb n) l.

(* getattr(source_module, "_hy_export_macros", [k for k in source_macros if not k.startswith("_")]) *)
Definition exports_of (s : srcmod) : list name :=
  match s_exports s with
  | Some l => l
  | None => filter (fun k => negb (starts_with [ch_us] k)) (ns_keys (s_macros s))
  end.

Inductive assignments := AAll | AExports | AList (l : list (name * name)).

Definition dup (k : name) : name * name := (k, k).

(* the (name, alias) pairs the main loop iterates over *)
Definition pairs_of (s : srcmod) (a : assignments) : list (name * name) :=
  match a with
  | AList l => l
  | AAll => map dup (ns_keys (s_macros s))
  | AExports => map dup (filter (fun k => name_in k (exports_of s)) (ns_keys (s_macros s)))
  end.

(* result of a require: the target dict, the warnings in order, and whether
   HyRequireError was raised *)
Definition rres := (ns * list name * bool)%type.

(* for name, alias in ...: warn; assign or raise *)
Fixpoint req_loop (core : ns) (warn : bool) (src : ns) (prefix : text)
                  (l : list (name * name)) (tgt : ns) (w : list name) : rres :=
  match l with
  | [] => (tgt, w, false)
  | (nm, al) :: rest =>
      let full := prefix ++ al in
      let w' := if warn && ns_has full core then w ++ [full] else w in
      match ns_get nm src with
      | Some m => req_loop core warn src prefix rest (ns_set full m tgt) w'
      | None => (tgt, w', true)
      end
  end.

Definition dotted (p : text) : text := match p with [] => [] | _ => p ++ [ch_dot] end.

(* the `if not source_module._hy_macros:` path with a name list: each name is
   a submodule, required with "ALL" under prefix = alias and without compiler *)
Fixpoint pkg_loop (core : ns) (env : srcenv) (srcname : name)
                  (l : list (name * name)) (tgt : ns) : rres :=
  match l with
  | [] => (tgt, [], false)
  | (nm, al) :: rest =>
      match find_src (srcname ++ [ch_dot] ++ nm) env with
      | None => (tgt, [], true)
      | Some sub =>
          match s_macros sub with
          | [] => pkg_loop core env srcname rest tgt
          | _ => let '(tgt1, _, err) := req_loop core false (s_macros sub) (dotted al)
                                                 (pairs_of sub AAll) tgt [] in
                 if err then (tgt1, [], true) else pkg_loop core env srcname rest tgt1
          end
      end
  end.

(* hy.macros.require(source, target, assignments, prefix, compiler) with
   warn = "a compiler was passed and its option is on" *)
Definition require_model (core : ns) (env : srcenv) (warn : bool) (srcname : name)
                         (a : assignments) (prefix : text) (tgt : ns) : rres :=
  match find_src srcname env with
  | None => (tgt, [], true)
  | Some s =>
      match s_macros s with
      | [] => match a with
              | AList l => pkg_loop core env srcname l tgt
              | _ => (tgt, [], false)
              end
      | _ => req_loop core warn (s_macros s) (dotted prefix) (pairs_of s a) tgt []
      end
  end.

(* ---- the surface shapes of one require entry *)
Inductive rshape :=
| RBare                                        (* (require m)          *)
| RStar                                        (* (require m STAR)     *)
| RAs (alias : name)                           (* (require m :as A)    *)
| RList (l : list (name * option name)).       (* (require m [a b :as c]) *)

Definition tag_of (sh : rshape) : shape_tag :=
  match sh with RBare => TgBare | RStar => TgStar | RAs _ => TgAs | RList _ => TgList end.

Fixpoint table_row (t : shape_tag) (tb : list (shape_tag * (prefix_kind * assign_kind)))
  : option (prefix_kind * assign_kind) :=
  match tb with
  | [] => None
  | (t', row) :: r => if shape_tag_eqb t t' then Some row else table_row t r
  end.

(* assignment_shape(module, rest), then compile_require's
   `if prefix: assignments = <override>` when the source has that statement *)
Definition shape_params_in (tb : list (shape_tag * (prefix_kind * assign_kind))) (ov : option assign_kind)
                           (modname : name) (sh : rshape) : option (text * assignments) :=
  match table_row (tag_of sh) tb with
  | None => None
  | Some (pk, ak) =>
      let prefix := match pk with
                    | PfEmpty => []
                    | PfModuleName => modname
                    | PfAlias => match sh with RAs a => a | _ => [] end
                    end in
      let ak' := match prefix, ov with
                 | _ :: _, Some k => k          (* `if prefix:` -- a non-empty string *)
                 | _, _ => ak
                 end in
      let asg := match ak' with
                 | AkExports => AExports
                 | AkAll => AAll
                 | AkList => match sh with
                             | RList l => AList (map (fun kv => (fst kv, match snd kv with Some v => v | None => fst kv end)) l)
                             | _ => AList []
                             end
                 end in
      Some (prefix, asg)
  end.

Definition shape_params := shape_params_in shape_table prefixed_override.

(* compile_require for one entry without :readers: the local dict when in a
   local state, the module's _hy_macros otherwise; compiler = compiler *)
Definition do_require (core : ns) (env : srcenv) (c : cstate) (srcname : name) (sh : rshape)
  : cstate * list name * bool :=
  match shape_params srcname sh with
  | None => (c, [], true)
  | Some (prefix, asg) =>
      let warn := get_warn (c_stack c) in
      if in_local c then
        match c_stack c with
        | [] => (c, [], true)
        | fr :: r =>
            let '(tgt, w, err) := require_model core env warn srcname asg prefix (f_macros fr) in
            (mkC (c_extra c) (mkFrame tgt (f_warn fr) :: r) (c_module c), w, err)
        end
      else
        let '(tgt, w, err) := require_model core env warn srcname asg prefix (c_module c) in
        (mkC (c_extra c) (c_stack c) tgt, w, err)
  end.
