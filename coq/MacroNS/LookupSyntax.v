(* Syntax shared by the generated tables (Gen/MacroLookup.v) and the macro
   namespace model: which namespaces macroexpand consults, the body of the
   local_state context manager as a small statement language, and the row type
   of assignment_shape's table.  Types and the statement interpreter only. *)
From HyV Require Import Base.Text.

(* One element of the lookup chain of hy.macros.macroexpand.  [NsLocals true]
   stands for `*(s['macros'] for s in reversed(compiler.local_state_stack))`
   (innermost scope first), [NsLocals false] for the same without `reversed`. *)
Inductive nsref := NsExtra | NsLocals (innermost_first : bool) | NsModule | NsCore.

(* Body of a generator-based context manager that manipulates one stack.
   CYield is the point where the with-body runs; an exception raised by the
   with-body is thrown at the CYield, as contextlib does. *)
Inductive cstmt :=
| CPush                                     (* self.new_local_state() *)
| CPop                                      (* self.local_state_stack.pop() *)
| CYield
| CTry (body : list cstmt) (fin : list cstmt). (* try: body  finally: fin *)

(* require shapes, as distinguished by assignment_shape *)
Inductive shape_tag := TgBare | TgStar | TgAs | TgList.
Inductive prefix_kind := PfEmpty | PfModuleName | PfAlias.
Inductive assign_kind := AkExports | AkAll | AkList.

Definition shape_tag_eqb (a b : shape_tag) : bool :=
  match a, b with
  | TgBare, TgBare | TgStar, TgStar | TgAs, TgAs | TgList, TgList => true
  | _, _ => false
  end.

(* Interpreter of a context-manager body over an abstract state [A].
   [push]/[pop] are the two stack operations, [f] is the with-body; the
   boolean says whether an exception is propagating. *)
Section Exec.
Context {A : Type}.
Variable push : A -> A.
Variable pop : A -> option A.     (* None: IndexError, pop from empty list *)
Variable f : A -> A * bool.

Fixpoint exec1 (s : cstmt) (a : A) : A * bool :=
  match s with
  | CPush => (push a, false)
  | CPop => match pop a with Some a' => (a', false) | None => (a, true) end
  | CYield => f a
  | CTry body fin =>
      let execs := fix execs (ss : list cstmt) (a : A) : A * bool :=
        match ss with
        | [] => (a, false)
        | s :: rest => let '(a1, r) := exec1 s a in if r then (a1, true) else execs rest a1
        end in
      let '(a1, r1) := execs body a in
      let '(a2, r2) := execs fin a1 in
      (a2, r1 || r2)
  end.

Fixpoint execs (ss : list cstmt) (a : A) : A * bool :=
  match ss with
  | [] => (a, false)
  | s :: rest => let '(a1, r) := exec1 s a in if r then (a1, true) else execs rest a1
  end.

Lemma exec1_try body fin a :
  exec1 (CTry body fin) a =
  let '(a1, r1) := execs body a in let '(a2, r2) := execs fin a1 in (a2, r1 || r2).
Proof. reflexivity. Qed.

End Exec.

