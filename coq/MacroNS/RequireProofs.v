(* What a require brings in, per shape, over the model of hy.macros.require
   and the generated assignment_shape table. *)
From HyV Require Import Base.Text MacroNS.LookupSyntax Gen.MacroLookup MacroNS.LookupModel
  MacroNS.RequireModel MacroNS.LookupMachine MacroNS.LookupProofs.

(* the generated table is the one the theorems below are about *)
Lemma shape_table_is :
  shape_table = [(TgBare, (PfModuleName, AkExports)); (TgStar, (PfEmpty, AkExports));
                 (TgAs, (PfAlias, AkExports)); (TgList, (PfEmpty, AkList))].
Proof. reflexivity. Qed.

Definition alias_of (kv : name * option name) : name * name :=
  (fst kv, match snd kv with Some v => v | None => fst kv end).

Lemma prefixed_override_is : prefixed_override = Some AkAll.
Proof. reflexivity. Qed.

Lemma shape_params_bare m : m <> [] -> shape_params m RBare = Some (m, AAll).
Proof. destruct m; [contradiction | reflexivity]. Qed.
Lemma shape_params_star m : shape_params m RStar = Some ([], AExports).
Proof. reflexivity. Qed.
Lemma shape_params_as m a : a <> [] -> shape_params m (RAs a) = Some (a, AAll).
Proof. destruct a; [contradiction | reflexivity]. Qed.
Lemma shape_params_list m l : shape_params m (RList l) = Some ([], AList (map alias_of l)).
Proof. reflexivity. Qed.

(* ---------- the assignment loop *)

(* the macro the loop leaves under key k: the LAST pair whose full alias is k *)
Fixpoint assigned (src : ns) (prefix : text) (l : list (name * name)) (k : name) : option mid :=
  match l with
  | [] => None
  | (nm, al) :: rest =>
      match assigned src prefix rest k with
      | Some m => Some m
      | None => if text_eqb k (prefix ++ al) then ns_get nm src else None
      end
  end.

Definition all_present (src : ns) (l : list (name * name)) : Prop :=
  Forall (fun p => ns_has (fst p) src = true) l.

Lemma req_loop_ok core warn src prefix : forall l tgt w,
  all_present src l ->
  exists tgt' w', req_loop core warn src prefix l tgt w = (tgt', w', false)
    /\ (forall k, ns_get k tgt' = match assigned src prefix l k with Some m => Some m | None => ns_get k tgt end)
    /\ w' = w ++ (if warn then filter (fun full => ns_has full core) (map (fun p => prefix ++ snd p) l) else []).
Proof.
  induction l as [|[nm al] rest IH]; intros tgt w Hp; simpl.
  - exists tgt, w. repeat split. destruct warn; rewrite app_nil_r; reflexivity.
  - inversion Hp; subst. simpl in H1. unfold ns_has in H1. destruct (ns_get nm src) as [m|] eqn:Em; [|discriminate].
    destruct (IH (ns_set (prefix ++ al) m tgt)
                 (if warn && ns_has (prefix ++ al) core then w ++ [prefix ++ al] else w) H2)
      as [tgt' [w' [Hr [Hk Hw]]]].
    exists tgt', w'. split; [exact Hr|]. split.
    + intros k. rewrite Hk. destruct (assigned src prefix rest k); [reflexivity|].
      destruct (text_eqb k (prefix ++ al)) eqn:E.
      * apply text_eqb_eq in E. subst k. apply ns_get_set_same.
      * apply ns_get_set_other. intros ->. rewrite text_eqb_refl in E. discriminate.
    + rewrite Hw. destruct warn; simpl; [|reflexivity].
      destruct (ns_has (prefix ++ al) core); simpl; [rewrite <- app_assoc|]; reflexivity.
Qed.

(* a missing name: HyRequireError, raised in the middle of the loop *)
Lemma req_loop_missing core warn src prefix : forall l tgt w,
  ~ all_present src l -> snd (req_loop core warn src prefix l tgt w) = true.
Proof.
  induction l as [|[nm al] rest IH]; intros tgt w Hn; simpl.
  - exfalso. apply Hn. constructor.
  - destruct (ns_get nm src) as [m|] eqn:Em; [|reflexivity].
    apply IH. intros Hr. apply Hn. constructor; [|exact Hr]. simpl. unfold ns_has. rewrite Em. reflexivity.
Qed.

(* ---------- "ALL"/"EXPORTS": every key keeps its own name under the prefix *)

Fixpoint strip_prefix (p k : text) : option text :=
  match p, k with
  | [], _ => Some k
  | x :: p', y :: k' => if N.eqb x y then strip_prefix p' k' else None
  | _ :: _, [] => None
  end.

Lemma strip_prefix_app p k : strip_prefix p (p ++ k) = Some k.
Proof. induction p as [|x p IH]; simpl; [reflexivity|]. rewrite N.eqb_refl. exact IH. Qed.

Lemma strip_prefix_some p k r : strip_prefix p k = Some r -> k = p ++ r.
Proof.
  revert k. induction p as [|x p IH]; intros k; simpl.
  - intros H; inversion H; reflexivity.
  - destruct k as [|y k]; [discriminate|]. destruct (N.eqb x y) eqn:E; [|discriminate].
    apply N.eqb_eq in E. subst y. intros H. rewrite (IH k H). reflexivity.
Qed.

Lemma name_in_In k l : name_in k l = true <-> In k l.
Proof.
  unfold name_in. rewrite existsb_exists. split.
  - intros [x [Hx He]]. apply text_eqb_eq in He. subst. exact Hx.
  - intros H. exists k. split; [exact H | apply text_eqb_refl].
Qed.

Lemma assigned_dup src prefix ks k :
  assigned src prefix (map dup ks) k =
  match strip_prefix prefix k with
  | Some k0 => if name_in k0 ks then ns_get k0 src else None
  | None => None
  end.
Proof.
  induction ks as [|a ks IH]; simpl.
  - destruct (strip_prefix prefix k); reflexivity.
  - rewrite IH. destruct (strip_prefix prefix k) as [k0|] eqn:Es.
    + apply strip_prefix_some in Es. subst k.
      destruct (name_in k0 ks) eqn:Ein.
      * destruct (ns_get k0 src) eqn:Eg.
        -- rewrite orb_true_r. reflexivity.
        -- rewrite orb_true_r. destruct (text_eqb (prefix ++ k0) (prefix ++ a)) eqn:E; [|reflexivity].
           apply text_eqb_eq in E. apply app_inv_head in E. subst a. exact Eg.
      * rewrite orb_false_r. destruct (text_eqb (prefix ++ k0) (prefix ++ a)) eqn:E.
        -- apply text_eqb_eq in E. apply app_inv_head in E. subst a. rewrite text_eqb_refl. reflexivity.
        -- destruct (text_eqb k0 a) eqn:E2; [|reflexivity]. apply text_eqb_eq in E2. subst a.
           rewrite text_eqb_refl in E. discriminate.
    + destruct (text_eqb k (prefix ++ a)) eqn:E; [|reflexivity].
      apply text_eqb_eq in E. subst k. rewrite strip_prefix_app in Es. discriminate.
Qed.

Lemma all_present_dup src ks : (forall k0, In k0 ks -> ns_has k0 src = true) -> all_present src (map dup ks).
Proof. intros H. apply Forall_map. apply Forall_forall. intros x Hx. simpl. apply H. exact Hx. Qed.

Lemma keys_present (src : ns) k0 : In k0 (ns_keys src) -> ns_has k0 src = true.
Proof.
  unfold ns_has. induction src as [|[k v] r IH]; simpl; [contradiction|].
  intros [->|H]; [rewrite text_eqb_refl; reflexivity|]. destruct (text_eqb k0 k); [reflexivity | apply IH; exact H].
Qed.

(* names a require with "EXPORTS" transfers: macros of the module that are exported *)
Definition exported_macros (s : srcmod) : list name :=
  filter (fun k => name_in k (exports_of s)) (ns_keys (s_macros s)).

Lemma exported_present s k0 : In k0 (exported_macros s) -> ns_has k0 (s_macros s) = true.
Proof. unfold exported_macros. rewrite filter_In. intros [H _]. apply keys_present. exact H. Qed.

Lemma name_in_exported s k0 :
  name_in k0 (exported_macros s) = name_in k0 (exports_of s) && ns_has k0 (s_macros s).
Proof.
  destruct (name_in k0 (exported_macros s)) eqn:E.
  - apply name_in_In in E. pose proof (exported_present _ _ E) as Hp. unfold exported_macros in E.
    apply filter_In in E. destruct E as [_ E]. rewrite E, Hp. reflexivity.
  - destruct (name_in k0 (exports_of s)) eqn:E1; [|reflexivity]. simpl.
    destruct (ns_has k0 (s_macros s)) eqn:E2; [|reflexivity].
    assert (In k0 (exported_macros s)) as Hin.
    { unfold exported_macros. apply filter_In. split; [|exact E1].
      unfold ns_has in E2. destruct (ns_get k0 (s_macros s)) eqn:Eg; [|discriminate].
      apply ns_get_In in Eg. unfold ns_keys. apply in_map_iff. exists (k0, m). split; [reflexivity | exact Eg]. }
    apply name_in_In in Hin. congruence.
Qed.

(* ---------- per shape *)

Section Shapes.
Variable core : ns.
Variable env : srcenv.
Variable modname : name.
Variable s : srcmod.
Hypothesis Hfind : find_src modname env = Some s.
Hypothesis Hmacros : s_macros s <> [].       (* otherwise: the package path *)

Lemma require_exports_general warn prefix tgt :
  exists tgt' w, require_model core env warn modname AExports prefix tgt = (tgt', w, false)
  /\ (forall k, ns_get k tgt' =
        match strip_prefix (dotted prefix) k with
        | Some k0 => if name_in k0 (exports_of s) && ns_has k0 (s_macros s)
                     then ns_get k0 (s_macros s) else ns_get k tgt
        | None => ns_get k tgt
        end)
  /\ w = if warn then filter (fun full => ns_has full core) (map (fun k0 => dotted prefix ++ k0) (exported_macros s)) else [].
Proof.
  unfold require_model. rewrite Hfind. destruct (s_macros s) as [|p0 r0] eqn:Em; [contradiction|].
  rewrite <- Em. change (pairs_of s AExports) with (map dup (exported_macros s)).
  destruct (req_loop_ok core warn (s_macros s) (dotted prefix) (map dup (exported_macros s)) tgt []
              (all_present_dup _ _ (exported_present s))) as [tgt' [w' [Hr [Hk Hw]]]].
  exists tgt', w'. split; [exact Hr|]. split.
  - intros k. rewrite Hk, assigned_dup. destruct (strip_prefix (dotted prefix) k) as [k0|]; [|reflexivity].
    rewrite name_in_exported. destruct (name_in k0 (exports_of s) && ns_has k0 (s_macros s)) eqn:E; [|reflexivity].
    apply andb_true_iff in E. destruct E as [_ E]. unfold ns_has in E.
    destruct (ns_get k0 (s_macros s)); [reflexivity | discriminate].
  - rewrite Hw. simpl. rewrite map_map. reflexivity.
Qed.

(* (require m STAR): exactly the exported macros, under their own names;
   _hy_export_macros if the module defines it, otherwise the names that do not
   begin with an underscore *)
Theorem require_star_exact warn tgt :
  exists prefix asg tgt' w,
    shape_params modname RStar = Some (prefix, asg)
    /\ require_model core env warn modname asg prefix tgt = (tgt', w, false)
    /\ (forall k, ns_get k tgt' =
          if name_in k (exports_of s) && ns_has k (s_macros s) then ns_get k (s_macros s) else ns_get k tgt)
    /\ (forall n, In n w <-> warn = true /\ In n (exported_macros s) /\ ns_has n core = true).
Proof.
  destruct (require_exports_general warn [] tgt) as [tgt' [w [Hr [Hk Hw]]]].
  exists [], AExports, tgt', w. split; [reflexivity|]. split; [exact Hr|]. split.
  - intros k. rewrite Hk. reflexivity.
  - intros n. rewrite Hw. destruct warn.
    + simpl. rewrite map_id. rewrite filter_In. split; [intros [A B]; auto | intros [_ [A B]]; auto].
    + simpl. split; [contradiction | intros [H _]; discriminate].
Qed.

Lemma require_all_general warn prefix tgt :
  exists tgt' w, require_model core env warn modname AAll prefix tgt = (tgt', w, false)
  /\ (forall k, ns_get k tgt' =
        match strip_prefix (dotted prefix) k with
        | Some k0 => if ns_has k0 (s_macros s) then ns_get k0 (s_macros s) else ns_get k tgt
        | None => ns_get k tgt
        end).
Proof.
  unfold require_model. rewrite Hfind. destruct (s_macros s) as [|p0 r0] eqn:Em; [contradiction|].
  rewrite <- Em. change (pairs_of s AAll) with (map dup (ns_keys (s_macros s))).
  destruct (req_loop_ok core warn (s_macros s) (dotted prefix) (map dup (ns_keys (s_macros s))) tgt []
              (all_present_dup _ _ (keys_present (s_macros s)))) as [tgt' [w' [Hr [Hk Hw]]]].
  exists tgt', w'. split; [exact Hr|].
  intros k. rewrite Hk, assigned_dup. destruct (strip_prefix (dotted prefix) k) as [k0|]; [|reflexivity].
  destruct (name_in k0 (ns_keys (s_macros s))) eqn:E.
  - apply name_in_In in E. rewrite (keys_present _ _ E). pose proof (keys_present _ _ E) as Hp. unfold ns_has in Hp.
    destruct (ns_get k0 (s_macros s)); [reflexivity | discriminate].
  - destruct (ns_has k0 (s_macros s)) eqn:E2; [|reflexivity]. exfalso.
    unfold ns_has in E2. destruct (ns_get k0 (s_macros s)) eqn:Eg; [|discriminate].
    apply ns_get_In in Eg. assert (In k0 (ns_keys (s_macros s))) as Hin.
    { unfold ns_keys. apply in_map_iff. exists (k0, m). split; [reflexivity | exact Eg]. }
    apply name_in_In in Hin. congruence.
Qed.

(* (require m) and (require m :as A): EVERY macro k of m becomes <prefix>.k,
   whatever _hy_export_macros says and whether or not k starts with an
   underscore; nothing else changes *)
Theorem require_prefixed_all warn tgt sh p :
  (sh = RBare /\ p = modname) \/ (sh = RAs p) -> p <> [] ->
  exists asg tgt' w,
    shape_params modname sh = Some (p, asg)
    /\ require_model core env warn modname asg p tgt = (tgt', w, false)
    /\ (forall k0 m, ns_get k0 (s_macros s) = Some m -> ns_get (p ++ [ch_dot] ++ k0) tgt' = Some m)
    /\ (forall k0, ns_get k0 (s_macros s) = None -> ns_get (p ++ [ch_dot] ++ k0) tgt' = ns_get (p ++ [ch_dot] ++ k0) tgt)
    /\ (forall k, strip_prefix (p ++ [ch_dot]) k = None -> ns_get k tgt' = ns_get k tgt).
Proof.
  intros Hsh Hp. destruct (require_all_general warn p tgt) as [tgt' [w [Hr Hk]]].
  exists AAll, tgt', w. split.
  { destruct Hsh as [[-> ->]| ->]; [apply shape_params_bare | apply shape_params_as]; exact Hp. }
  split; [exact Hr|].
  assert (Hd : dotted p = p ++ [ch_dot]) by (destruct p; [contradiction | reflexivity]).
  split; [|split].
  - intros k0 m Hg. rewrite Hk, Hd, app_assoc, strip_prefix_app. unfold ns_has. rewrite Hg. reflexivity.
  - intros k0 Hg. rewrite Hk, Hd, app_assoc, strip_prefix_app. unfold ns_has. rewrite Hg. reflexivity.
  - intros k Hn. rewrite Hk, Hd, Hn. reflexivity.
Qed.

(* (require m [a b :as c ...]): exactly the listed names, each under its alias
   (its own name without :as); the last entry wins if two entries use one alias *)
Theorem require_list_exact warn tgt l :
  Forall (fun kv => ns_has (fst kv) (s_macros s) = true) l ->
  exists prefix asg tgt' w,
    shape_params modname (RList l) = Some (prefix, asg)
    /\ require_model core env warn modname asg prefix tgt = (tgt', w, false)
    /\ (forall k, ns_get k tgt' =
          match assigned (s_macros s) [] (map alias_of l) k with Some m => Some m | None => ns_get k tgt end)
    /\ (forall k, ~ In k (map (fun kv => snd (alias_of kv)) l) -> ns_get k tgt' = ns_get k tgt)
    /\ (forall n, In n w <-> warn = true /\ In n (map (fun kv => snd (alias_of kv)) l) /\ ns_has n core = true).
Proof.
  intros Hall. unfold require_model. rewrite Hfind. destruct (s_macros s) as [|p0 r0] eqn:Em; [contradiction|].
  rewrite <- Em in *. change (dotted []) with (@nil N). change (pairs_of s (AList (map alias_of l))) with (map alias_of l).
  assert (Hp : all_present (s_macros s) (map alias_of l)).
  { apply Forall_map. eapply Forall_impl; [|exact Hall]. intros a Ha. exact Ha. }
  destruct (req_loop_ok core warn (s_macros s) [] (map alias_of l) tgt [] Hp) as [tgt' [w' [Hr [Hk Hw]]]].
  exists [], (AList (map alias_of l)), tgt', w'. split; [reflexivity|]. split; [exact Hr|]. split; [exact Hk|]. split.
  - intros k Hnot. rewrite Hk.
    assert (forall l0, ~ In k (map (fun kv => snd (alias_of kv)) l0) -> assigned (s_macros s) [] (map alias_of l0) k = None) as HA.
    { induction l0 as [|a l0 IH]; intros Hn; [reflexivity|]. cbn [assigned map].
      cbn [map] in Hn. destruct (alias_of a) as [nm al] eqn:Ea. rewrite IH.
      - destruct (text_eqb k ([] ++ al)) eqn:E; [|reflexivity]. apply text_eqb_eq in E. cbn [app] in E.
        exfalso. apply Hn. left. cbn [snd]. congruence.
      - intros Hin. apply Hn. right. exact Hin. }
    rewrite (HA l Hnot). reflexivity.
  - intros n. rewrite Hw. simpl. destruct warn.
    + rewrite filter_In, map_map. simpl. split; [intros [A B]; auto | intros [_ [A B]]; auto].
    + simpl. split; [contradiction | intros [H _]; discriminate].
Qed.

Theorem require_list_missing warn tgt l :
  ~ Forall (fun kv => ns_has (fst kv) (s_macros s) = true) l ->
  snd (require_model core env warn modname (AList (map alias_of l)) [] tgt) = true.
Proof.
  intros Hn. unfold require_model. rewrite Hfind. destruct (s_macros s) as [|p0 r0] eqn:Em; [contradiction|].
  rewrite <- Em in *. apply req_loop_missing. intros Hp. apply Hn.
  unfold all_present in Hp. apply Forall_map in Hp. eapply Forall_impl; [|exact Hp]. intros a Ha. exact Ha.
Qed.

End Shapes.

(* ---------- the prefixed shapes bring in every macro: instance with a
   module that has an underscore macro and an export list omitting a macro *)

Definition w_ma : name := [109; 97].               (* "ma" *)
Definition w_priv : name := [95; 112].             (* "_p" *)
Definition w_mod : name := [115].                  (* "s"  *)
Definition w_src : srcmod := mkSrc [(w_ma, 1); (w_priv, 2)] (Some []).
Definition w_env : srcenv := [(w_mod, w_src)].

Example require_prefixed_example :
  let c := fst (fst (do_require [] w_env (init_cstate [] []) w_mod RBare)) in
  lookup [] c (w_mod ++ [ch_dot] ++ w_priv) = Some 2 /\ lookup [] c (w_mod ++ [ch_dot] ++ w_ma) = Some 1
  /\ lookup [] c w_ma = None
  /\ lookup [] (fst (fst (do_require [] w_env (init_cstate [] []) w_mod RStar))) w_ma = None.
Proof. vm_compute. repeat split. Qed.
