(* Flat numeric encoding of the machine's observable output, for the
   correspondence run (the harness reads the printed list of numbers). *)
From HyV Require Import Base.Text MacroNS.LookupSyntax Gen.MacroLookup MacroNS.LookupModel
  MacroNS.RequireModel MacroNS.LookupMachine.

Definition enc_opt (o : option mid) : N := match o with None => 0 | Some m => m + 1 end.

Definition enc_event (e : event) : list N :=
  match e with
  | EWarn n => [1; N.of_nat (length n)] ++ n
  | ECall id r => [2; id; enc_opt r]
  | EReqErr => [3]
  | EAbort => [4]
  end.

(* run the top-level forms with one compiler, then look the probe names up
   with a FRESH compiler on the same module (what a later hy.eval sees) *)
Definition observe (core : ns) (env : srcenv) (extra modns : ns) (forms : list item) (probes : list name) : list N :=
  let final := run_top core env forms (init_cstate extra modns, []) in
  flat_map enc_event (snd final) ++ [9]
  ++ map (fun n => enc_opt (lookup core (init_cstate [] (c_module (fst final))) n)) probes
  ++ [9; N.of_nat (length (c_stack (fst final)))].
