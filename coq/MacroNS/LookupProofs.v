(* Proofs about the macro-namespace model: lookup order, scope discipline of
   the generated local_state context manager under arbitrary (failing, nested)
   bodies, refinement of the lexical semantics by the stack machine for every
   history, shadow-warning characterisation. *)
From HyV Require Import Base.Text MacroNS.LookupSyntax Gen.MacroLookup MacroNS.LookupModel
  MacroNS.RequireModel MacroNS.LookupMachine.

(* ---------- finite maps *)

Lemma text_eqb_refl a : text_eqb a a = true.
Proof. apply text_eqb_eq. reflexivity. Qed.

Lemma text_eqb_neq a b : a <> b -> text_eqb a b = false.
Proof. intros H. destruct (text_eqb a b) eqn:E; [|reflexivity]. apply text_eqb_eq in E. contradiction. Qed.

Lemma ns_get_set_same n m d : ns_get n (ns_set n m d) = Some m.
Proof.
  induction d as [|[k v] r IH]; simpl.
  - rewrite text_eqb_refl. reflexivity.
  - destruct (text_eqb n k) eqn:E; simpl; rewrite E; [reflexivity | exact IH].
Qed.

Lemma ns_get_set_other n n' m d : n' <> n -> ns_get n' (ns_set n m d) = ns_get n' d.
Proof.
  intros Hne. induction d as [|[k v] r IH]; simpl.
  - rewrite (text_eqb_neq _ _ Hne). reflexivity.
  - destruct (text_eqb n k) eqn:E; simpl.
    + apply text_eqb_eq in E. subst k. rewrite (text_eqb_neq _ _ Hne). reflexivity.
    + destruct (text_eqb n' k); [reflexivity | exact IH].
Qed.

Lemma ns_get_In n m d : ns_get n d = Some m -> In (n, m) d.
Proof.
  induction d as [|[k v] r IH]; simpl; [discriminate|].
  destruct (text_eqb n k) eqn:E.
  - apply text_eqb_eq in E. subst. intros H. inversion H. left. reflexivity.
  - intros H. right. exact (IH H).
Qed.

(* ---------- the generated chain is the documented order *)

Lemma lookup_chain_is : lookup_chain = [NsExtra; NsLocals true; NsModule; NsCore].
Proof. reflexivity. Qed.

(* hy.eval's macros, local macros innermost to outermost, module macros, core macros *)
Definition documented_order (core : ns) (c : cstate) : list ns :=
  c_extra c :: map f_macros (c_stack c) ++ [c_module c; core].

Lemma lookup_documented core c n : lookup core c n = first_with n (documented_order core c).
Proof.
  unfold lookup, lookup_in. rewrite lookup_chain_is. unfold documented_order. simpl.
  rewrite ?app_nil_r. reflexivity.
Qed.

Lemma first_with_spec n l m :
  first_with n l = Some m <->
  exists pre d post, l = pre ++ d :: post /\ Forall (fun d' => ns_get n d' = None) pre /\ ns_get n d = Some m.
Proof.
  induction l as [|d r IH]; simpl.
  - split; [discriminate|]. intros [pre [d [post [H _]]]]. destruct pre; discriminate.
  - destruct (ns_get n d) eqn:E.
    + split.
      * intros H. inversion H; subst. exists [], d, r. repeat split; [constructor | exact E].
      * intros [pre [d' [post [Hl [Hpre Hd]]]]]. destruct pre as [|p pre]; simpl in Hl; inversion Hl; subst.
        -- congruence.
        -- inversion Hpre; subst. congruence.
    + rewrite IH. split.
      * intros [pre [d' [post [Hl [Hpre Hd]]]]]. exists (d :: pre), d', post. subst r.
        repeat split; [constructor; assumption | exact Hd].
      * intros [pre [d' [post [Hl [Hpre Hd]]]]]. destruct pre as [|p pre]; simpl in Hl; inversion Hl; subst.
        -- congruence.
        -- inversion Hpre; subst. exists pre, d', post. repeat split; assumption.
Qed.

(* a call resolves to the first definition found in the documented order *)
Theorem lookup_order core c n m :
  lookup core c n = Some m <->
  exists pre d post, documented_order core c = pre ++ d :: post
                     /\ Forall (fun d' => ns_get n d' = None) pre /\ ns_get n d = Some m.
Proof. rewrite lookup_documented. apply first_with_spec. Qed.

Theorem lookup_none core c n :
  lookup core c n = None <-> Forall (fun d => ns_get n d = None) (documented_order core c).
Proof.
  rewrite lookup_documented. induction (documented_order core c) as [|d r IH]; simpl.
  - split; [constructor | reflexivity].
  - destruct (ns_get n d) eqn:E.
    + split; [discriminate|]. intros H. inversion H; subst. congruence.
    + rewrite IH. split; [intros H; constructor; assumption | intros H; inversion H; assumption].
Qed.

(* the precedence, spelled out *)
Corollary extra_wins core c n m : ns_get n (c_extra c) = Some m -> lookup core c n = Some m.
Proof. intros H. rewrite lookup_documented. unfold documented_order. simpl. rewrite H. reflexivity. Qed.

Corollary innermost_local_wins core c n m inner fr outer :
  ns_get n (c_extra c) = None -> c_stack c = inner ++ fr :: outer ->
  Forall (fun f => ns_get n (f_macros f) = None) inner -> ns_get n (f_macros fr) = Some m ->
  lookup core c n = Some m.
Proof.
  intros He Hs Hin Hfr. apply lookup_order.
  exists (c_extra c :: map f_macros inner), (f_macros fr), (map f_macros outer ++ [c_module c; core]).
  split; [|split].
  - unfold documented_order. rewrite Hs, map_app. simpl. rewrite <- app_assoc. reflexivity.
  - constructor; [exact He|]. apply Forall_map. exact Hin.
  - exact Hfr.
Qed.

Corollary module_before_core core c n m :
  ns_get n (c_extra c) = None -> Forall (fun f => ns_get n (f_macros f) = None) (c_stack c) ->
  ns_get n (c_module c) = Some m -> lookup core c n = Some m.
Proof.
  intros He Hs Hm. apply lookup_order.
  exists (c_extra c :: map f_macros (c_stack c)), (c_module c), [core].
  split; [|split].
  - unfold documented_order. reflexivity.
  - constructor; [exact He|]. apply Forall_map. exact Hs.
  - exact Hm.
Qed.

Corollary core_last core c n :
  ns_get n (c_extra c) = None -> Forall (fun f => ns_get n (f_macros f) = None) (c_stack c) ->
  ns_get n (c_module c) = None -> lookup core c n = ns_get n core.
Proof.
  intros He Hs Hm. rewrite lookup_documented. unfold documented_order. simpl. rewrite He.
  assert (forall l rest, Forall (fun f => ns_get n (f_macros f) = None) l ->
          first_with n (map f_macros l ++ rest) = first_with n rest) as H.
  { induction l as [|f l IH]; intros rest HF; simpl; [reflexivity|]. inversion HF; subst.
    rewrite H1. apply IH. assumption. }
  rewrite H by exact Hs. simpl. rewrite Hm. destruct (ns_get n core); reflexivity.
Qed.

(* ---------- induction principle for items (scopes nest lists of items) *)

Section ItemInd.
Variable P : item -> Prop.
Hypothesis Hdef : forall n m, P (IDef n m).
Hypothesis Hreq : forall s sh, P (IReq s sh).
Hypothesis Hpragma : forall b, P (IPragma b).
Hypothesis Hcall : forall id n, P (ICall id n).
Hypothesis Hfail : P IFail.
Hypothesis Hscope : forall body, Forall P body -> P (IScope body).

Fixpoint item_ind' (i : item) : P i :=
  match i with
  | IDef n m => Hdef n m
  | IReq s sh => Hreq s sh
  | IPragma b => Hpragma b
  | ICall id n => Hcall id n
  | IFail => Hfail
  | IScope body =>
      Hscope body ((fix go (l : list item) : Forall P l :=
                      match l with
                      | [] => Forall_nil P
                      | x :: r => Forall_cons x (item_ind' x) (go r)
                      end) body)
  end.
End ItemInd.

(* ---------- the generated local_state term, run around any body *)

Lemma local_state_term_is : local_state_term = [CPush; CTry [CYield] [CPop]].
Proof. reflexivity. Qed.

Section Scope.
Variable core : ns.
Variable env : srcenv.

Lemma scope_unfold (f : mstate -> mstate * bool) (a : mstate) :
  execs m_push m_pop f local_state_term a =
  let '(a1, r1) := f (m_push a) in
  match m_pop a1 with
  | Some a2 => (a2, r1)
  | None => (a1, true)
  end.
Proof.
  rewrite local_state_term_is. cbn [execs exec1]. destruct (f (m_push a)) as [a1 r1].
  destruct r1; cbn; destruct (m_pop a1); cbn; try reflexivity.
Qed.

(* a state transformer that only touches its own (top) frame *)
Definition keeps_below (a a' : mstate) : Prop :=
  c_extra (fst a') = c_extra (fst a) /\
  match c_stack (fst a) with
  | [] => True
  | _ :: st => exists fr', c_stack (fst a') = fr' :: st
  end.

Lemma keeps_below_refl a : c_stack (fst a) <> [] -> keeps_below a a.
Proof. intros H. split; [reflexivity|]. destruct (c_stack (fst a)) as [|fr st]; [exact I | exists fr; reflexivity]. Qed.

Lemma keeps_below_trans a b c : c_stack (fst a) <> [] ->
  keeps_below a b -> keeps_below b c -> keeps_below a c.
Proof.
  intros Hne [E1 S1] [E2 S2]. split; [congruence|].
  destruct (c_stack (fst a)) as [|fr st]; [exact I|]. destruct S1 as [fr1 S1]. rewrite S1 in S2. exact S2.
Qed.

Lemma do_require_below c src sh c' w err :
  do_require core env c src sh = (c', w, err) ->
  c_extra c' = c_extra c /\
  match c_stack c with [] => c_stack c' = [] | _ :: st => exists fr', c_stack c' = fr' :: st end.
Proof.
  unfold do_require. destruct (shape_params src sh) as [[prefix asg]|].
  2:{ intros H; inversion H; subst. split; [reflexivity|]. destruct (c_stack c') as [|fr st]; [reflexivity | exists fr; reflexivity]. }
  destruct (in_local c).
  - destruct (c_stack c) as [|fr r] eqn:Es.
    + intros H; inversion H; subst. split; [reflexivity | exact Es].
    + destruct (require_model core env (get_warn (fr :: r)) src asg prefix (f_macros fr)) as [[tgt w0] e0].
      intros H; inversion H; subst. simpl. split; [reflexivity | eexists; reflexivity].
  - destruct (require_model core env (get_warn (c_stack c)) src asg prefix (c_module c)) as [[tgt w0] e0].
    intros H; inversion H; subst. simpl. split; [reflexivity|].
    destruct (c_stack c) as [|fr st]; [reflexivity | exists fr; reflexivity].
Qed.

Lemma run_simple_below i a : (forall b, i <> IScope b) -> c_stack (fst a) <> [] ->
  keeps_below a (fst (run_simple core env i a)).
Proof.
  intros Hns Hne. destruct a as [c out]. simpl in Hne.
  destruct i; simpl.
  - (* IDef *) unfold do_defmacro. destruct (in_local c).
    + unfold set_top_macros. destruct (c_stack c) as [|fr st] eqn:Es; [contradiction|].
      split; simpl; [reflexivity|]. rewrite Es. eexists; reflexivity.
    + split; simpl; [reflexivity|]. destruct (c_stack c) as [|fr st]; [exact I | exists fr; reflexivity].
  - (* IReq *) destruct (do_require core env c src sh) as [[c' w] err] eqn:Er. simpl.
    apply do_require_below in Er. destruct Er as [E S]. split; simpl; [exact E|].
    destruct (c_stack c) as [|fr st]; [exact I | exact S].
  - (* IPragma *) unfold do_pragma. destruct (c_stack c) as [|fr st] eqn:Es; [contradiction|].
    split; simpl; [reflexivity|]. rewrite Es. eexists; reflexivity.
  - (* ICall *) split; simpl; [reflexivity|]. destruct (c_stack c) as [|fr st]; [exact I | exists fr; reflexivity].
  - (* IFail *) split; simpl; [reflexivity|]. destruct (c_stack c) as [|fr st]; [exact I | exists fr; reflexivity].
  - exfalso. exact (Hns body eq_refl).
Qed.

Lemma keeps_below_nonempty a a' : c_stack (fst a) <> [] -> keeps_below a a' -> c_stack (fst a') <> [].
Proof.
  intros Hne [_ S]. destruct (c_stack (fst a)) as [|fr st]; [contradiction|]. destruct S as [fr' S]. rewrite S. discriminate.
Qed.

(* what a scope does to the compiler state, given a body that keeps below *)
Lemma scope_exact (f : mstate -> mstate * bool) a :
  c_stack (fst a) <> [] ->
  keeps_below (m_push a) (fst (f (m_push a))) ->
  let r := execs m_push m_pop f local_state_term a in
  c_stack (fst (fst r)) = c_stack (fst a) /\ c_extra (fst (fst r)) = c_extra (fst a)
  /\ c_module (fst (fst r)) = c_module (fst (fst (f (m_push a))))
  /\ snd (fst r) = snd (fst (f (m_push a))) /\ snd r = snd (f (m_push a)).
Proof.
  intros Hne [E S]. rewrite scope_unfold. destruct (f (m_push a)) as [[c1 out1] r1]. simpl in *.
  destruct S as [fr' S]. unfold m_pop, pop_frame. simpl. rewrite S. simpl. repeat split. exact E.
Qed.

Lemma run_item_below : forall i a, c_stack (fst a) <> [] -> keeps_below a (fst (run_item core env i a)).
Proof.
  induction i using item_ind'; intros a Hne;
    try (apply (run_simple_below _ a); [intros b0 Hb; discriminate | exact Hne]).
  rewrite run_item_scope.
  assert (Hbody : forall l, Forall (fun i => forall a, c_stack (fst a) <> [] ->
                     keeps_below a (fst (run_item core env i a))) l ->
                   forall a, c_stack (fst a) <> [] -> keeps_below a (fst (run_items core env l a))).
  { induction l as [|x l IHl]; intros HF a0 Hne0; simpl.
    - apply keeps_below_refl. exact Hne0.
    - inversion HF; subst. specialize (H2 a0 Hne0). destruct (run_item core env x a0) as [a1 raised] eqn:Ex.
      simpl in H2. destruct raised; simpl; [exact H2|].
      apply (keeps_below_trans a0 a1); [exact Hne0 | exact H2|].
      apply IHl; [assumption|]. apply (keeps_below_nonempty a0); assumption. }
  assert (Hp : c_stack (fst (m_push a)) <> []) by (simpl; discriminate).
  pose proof (Hbody body H (m_push a) Hp) as Hk.
  pose proof (scope_exact (run_items core env body) a Hne Hk) as [S [E _]].
  split; [exact E|]. rewrite S. destruct (c_stack (fst a)) as [|fr st]; [exact I | exists fr; reflexivity].
Qed.

Lemma run_items_below : forall l a, c_stack (fst a) <> [] -> keeps_below a (fst (run_items core env l a)).
Proof.
  induction l as [|x l IHl]; intros a Hne; simpl.
  - apply keeps_below_refl. exact Hne.
  - pose proof (run_item_below x a Hne) as Hx. destruct (run_item core env x a) as [a1 raised].
    simpl in Hx. destruct raised; simpl; [exact Hx|].
    apply (keeps_below_trans a a1); [exact Hne | exact Hx|].
    apply IHl. apply (keeps_below_nonempty a); assumption.
Qed.

(* Local macros stop applying when their scope ends: whatever the body does,
   and whether or not it raises, after the scope the stack of local states and
   hy.eval's macros are exactly what they were, so every name resolves as it
   would have before the scope unless the body changed the MODULE's macros. *)
Theorem local_scope_popped body a :
  c_stack (fst a) <> [] ->
  let a' := fst (run_item core env (IScope body) a) in
  c_stack (fst a') = c_stack (fst a) /\ c_extra (fst a') = c_extra (fst a).
Proof.
  intros Hne. rewrite run_item_scope.
  assert (Hp : c_stack (fst (m_push a)) <> []) by (simpl; discriminate).
  pose proof (scope_exact (run_items core env body) a Hne (run_items_below body (m_push a) Hp)) as [S [E _]].
  split; assumption.
Qed.

Corollary scope_end_lookup body a n :
  c_stack (fst a) <> [] ->
  let a' := fst (run_item core env (IScope body) a) in
  c_module (fst a') = c_module (fst a) ->
  lookup core (fst a') n = lookup core (fst a) n.
Proof.
  intros Hne a' Hm. destruct (local_scope_popped body a Hne) as [S E]. fold a' in S, E.
  rewrite !lookup_documented. unfold documented_order. rewrite S, E, Hm. reflexivity.
Qed.

(* ---------- the stack machine computes the lexical semantics *)

Lemma run_lex_item : forall i c out, c_stack c <> [] ->
  run_item core env i (c, out) =
  let '(c1, out1, raised) := lex_item core env i c out in ((c1, out1), raised).
Proof.
  induction i using item_ind'; intros c out Hne;
    try (simpl; match goal with |- ?x = _ => destruct x as [[c1 out1] r] end; reflexivity).
  assert (Hbody : forall l, Forall (fun i => forall c out, c_stack c <> [] ->
                     run_item core env i (c, out) =
                     let '(c1, out1, raised) := lex_item core env i c out in ((c1, out1), raised)) l ->
                   forall c out, c_stack c <> [] ->
                   run_items core env l (c, out) =
                   let '(c1, out1, raised) := lex_items core env l c out in ((c1, out1), raised)).
  { induction l as [|x l IHl]; intros HF c0 out0 Hne0; simpl; [reflexivity|].
    inversion HF; subst. rewrite (H2 c0 out0 Hne0).
    pose proof (run_item_below x (c0, out0) Hne0) as Hk. rewrite (H2 c0 out0 Hne0) in Hk.
    destruct (lex_item core env x c0 out0) as [[c1 out1] raised]. simpl in Hk.
    destruct raised; [reflexivity|]. apply IHl; [assumption|].
    apply (keeps_below_nonempty (c0, out0) (c1, out1)); assumption. }
  rewrite run_item_scope, lex_item_scope.
  assert (Hp : c_stack (fst (m_push (c, out))) <> []) by (simpl; discriminate).
  pose proof (scope_exact (run_items core env body) (c, out) Hne (run_items_below body _ Hp)) as HX.
  cbv zeta in HX.
  remember (execs m_push m_pop (run_items core env body) local_state_term (c, out)) as X eqn:EX. clear EX.
  unfold m_push in HX. simpl fst in HX. simpl snd in HX.
  rewrite (Hbody body H (push_frame c) out) in HX by (simpl; discriminate).
  destruct (lex_items core env body (push_frame c) out) as [[c1 out1] raised].
  destruct X as [[c2 out2] r2]. simpl in HX. destruct HX as [S [E [M [O R]]]].
  destruct c2; simpl in *; subst; reflexivity.
Qed.

Lemma lex_item_nonempty i c out : c_stack c <> [] ->
  c_stack (fst (fst (lex_item core env i c out))) <> [].
Proof.
  intros Hne. pose proof (run_item_below i (c, out) Hne) as Hk. rewrite run_lex_item in Hk by exact Hne.
  destruct (lex_item core env i c out) as [[c1 out1] r]. simpl in *.
  apply (keeps_below_nonempty (c, out) (c1, out1)); assumption.
Qed.

(* for every history of top-level forms, with one compiler for all of them *)
Theorem run_top_lexical : forall forms c out, c_stack c <> [] ->
  run_top core env forms (c, out) = lex_top core env forms c out.
Proof.
  induction forms as [|i r IH]; intros c out Hne; simpl; [reflexivity|].
  rewrite run_lex_item by exact Hne. pose proof (lex_item_nonempty i c out Hne) as Hn.
  destruct (lex_item core env i c out) as [[c1 out1] raised]. simpl in Hn.
  destruct raised; simpl; apply IH; exact Hn.
Qed.

(* the module-level frame never receives macros: at top level (depth 1) a
   defmacro or require goes to the module, so module-level definitions are
   never hidden by the bottom frame *)
Definition bottom_clean (c : cstate) : Prop :=
  exists fr, c_stack c = [fr] /\ f_macros fr = [].

Lemma req_bottom c src sh c' w err : bottom_clean c -> do_require core env c src sh = (c', w, err) -> bottom_clean c'.
Proof.
  intros [fr [Hs Hm]]. unfold do_require. destruct (shape_params src sh) as [[prefix asg]|].
  2:{ intros H; inversion H; subst. exists fr. split; assumption. }
  unfold in_local. rewrite Hs. change (Nat.ltb in_local_threshold (length [fr])) with false. cbn iota.
  destruct (require_model core env (get_warn [fr]) src asg prefix (c_module c)) as [[tgt w0] e0].
  intros H; inversion H; subst. exists fr. simpl. split; [first [reflexivity | assumption] | assumption].
Qed.

Theorem bottom_frame_stays_clean : forall forms c out,
  bottom_clean c -> bottom_clean (fst (run_top core env forms (c, out))).
Proof.
  induction forms as [|i r IH]; intros c out Hb; simpl; [exact Hb|].
  assert (Hne : c_stack c <> []) by (destruct Hb as [fr [Hs _]]; rewrite Hs; discriminate).
  assert (Hb1 : bottom_clean (fst (fst (run_item core env i (c, out))))).
  { destruct i.
    - simpl. unfold do_defmacro, in_local. destruct Hb as [fr [Hs Hm]]. rewrite Hs.
      change (Nat.ltb in_local_threshold (length [fr])) with false. cbn iota. exists fr. simpl. split; assumption.
    - simpl. destruct (do_require core env c src sh) as [[c' w] err] eqn:Er. simpl. eapply req_bottom; eassumption.
    - simpl. destruct Hb as [fr [Hs Hm]]. unfold do_pragma. rewrite Hs. eexists. simpl. split; [reflexivity | exact Hm].
    - simpl. exact Hb.
    - simpl. exact Hb.
    - pose proof (local_scope_popped body (c, out) Hne) as HS. cbv zeta in HS. destruct HS as [S _].
      change (fst (c, out)) with c in S.
      destruct Hb as [fr [Hs Hm]]. exists fr. rewrite S. split; assumption. }
  destruct (run_item core env i (c, out)) as [[c1 out1] raised]. simpl in Hb1.
  destruct raised; simpl; apply IH; exact Hb1.
Qed.

End Scope.

(* ---------- shadow warnings *)

(* "no enclosing pragma disabled it": the innermost scope that has a
   :warn-on-core-shadow pragma decides; none means enabled *)
Lemma get_warn_false st :
  get_warn st = false <->
  exists inner fr outer, st = inner ++ fr :: outer
                         /\ Forall (fun f => f_warn f = None) inner /\ f_warn fr = Some false.
Proof.
  induction st as [|f r IH]; simpl.
  - split; [discriminate|]. intros [i [fr [o [H _]]]]. destruct i; discriminate.
  - destruct (f_warn f) as [b|] eqn:E.
    + split.
      * intros ->. exists [], f, r. repeat split; [constructor | exact E].
      * intros [i [fr [o [Hl [Hi Hf]]]]]. destruct i as [|x i]; simpl in Hl; inversion Hl; subst.
        -- congruence.
        -- inversion Hi; subst. congruence.
    + rewrite IH. split.
      * intros [i [fr [o [Hl [Hi Hf]]]]]. exists (f :: i), fr, o. subst r. repeat split; [constructor; assumption | exact Hf].
      * intros [i [fr [o [Hl [Hi Hf]]]]]. destruct i as [|x i]; simpl in Hl; inversion Hl; subst.
        -- congruence.
        -- inversion Hi; subst. exists i, fr, o. repeat split; assumption.
Qed.

(* defmacro warns iff the name is a core macro's and the option is on *)
Theorem defmacro_warns_iff core env c out n m :
  let out' := snd (fst (run_item core env (IDef n m) (c, out))) in
  (out' = out ++ [EWarn n] /\ ns_has n core = true /\ get_warn (c_stack c) = true)
  \/ (out' = out /\ (ns_has n core = false \/ get_warn (c_stack c) = false)).
Proof.
  simpl. unfold shadow_warning. destruct (ns_has n core); destruct (get_warn (c_stack c)); simpl;
    rewrite ?app_nil_r; auto.
Qed.

(* what a defmacro does to lookups: the new macro is found at its own scope
   level, under hy.eval's macros *)
Theorem defmacro_then_lookup core c n m :
  c_stack c <> [] ->
  lookup core (do_defmacro c n m) n =
  match ns_get n (c_extra c) with
  | Some e => Some e
  | None => if in_local c then Some m
            else match first_with n (map f_macros (c_stack c)) with Some l => Some l | None => Some m end
  end.
Proof.
  intros Hne. rewrite lookup_documented. unfold documented_order, do_defmacro.
  destruct (in_local c).
  - unfold set_top_macros. destruct (c_stack c) as [|fr st]; [contradiction|]. simpl.
    destruct (ns_get n (c_extra c)); [reflexivity|]. rewrite ns_get_set_same. reflexivity.
  - simpl. destruct (ns_get n (c_extra c)); [reflexivity|].
    induction (map f_macros (c_stack c)) as [|d r IH]; simpl.
    + rewrite ns_get_set_same. reflexivity.
    + destruct (ns_get n d); [reflexivity | exact IH].
Qed.

Theorem defmacro_other_names core c n m n' :
  n' <> n -> lookup core (do_defmacro c n m) n' = lookup core c n'.
Proof.
  intros Hne. rewrite !lookup_documented. unfold documented_order, do_defmacro.
  destruct (in_local c).
  - unfold set_top_macros. destruct (c_stack c) as [|fr st] eqn:Es; [rewrite Es; reflexivity|]. simpl.
    destruct (ns_get n' (c_extra c)); [reflexivity|]. rewrite ns_get_set_other by exact Hne. reflexivity.
  - simpl. destruct (ns_get n' (c_extra c)); [reflexivity|].
    induction (map f_macros (c_stack c)) as [|d r IH]; simpl.
    + rewrite ns_get_set_other by exact Hne. reflexivity.
    + destruct (ns_get n' d); [reflexivity | exact IH].
Qed.
