(* Forms as hy.macros.macroexpand sees them.  Atoms are OBJECTS: they carry a
   label (identity), because as_model and replace return the very same atom
   object and replace writes position attributes into it in place.  Sequences
   are rebuilt by as_model and by Sequence.replace, so a sequence is a value
   that carries its own optional position.  The four position attributes are
   treated as one unit. *)
From HyV Require Import Base.Text.
From Coq Require Import ZArith.

Definition label := N.
Definition pos := N.                   (* an abstract position record *)

Inductive atomv :=
| ASym (s : text)                      (* Symbol, by mangled name *)
| AInt (z : N)
| AStr (s : text)
| AKw (s : text).

Inductive skind := KExpr | KList.

Inductive form :=
| FAtom (l : label) (a : atomv)
| FSeq (k : skind) (p : option pos) (items : list form).

(* position attributes of the atom objects: label -> pos, absent = no attributes *)
Definition heap := list (label * pos).

Fixpoint heap_get (l : label) (h : heap) : option pos :=
  match h with
  | [] => None
  | (k, p) :: r => if N.eqb l k then Some p else heap_get l r
  end.

(* what a macro function returns *)
Inductive mres :=
| MForm (f : form)       (* a model (after as_model) *)
| MResult                (* a compiler Result / ast.AST object *)
| MRaise.                (* an exception *)

(* macro bodies for the correspondence run: quasiquote templates *)
Inductive tmpl :=
| TArg (i : nat)                         (* ~arg_i *)
| TSym (s : text) | TInt (z : N) | TStr (s : text)
| TSeq (k : skind) (l : list tmpl).

Inductive mbody := BTemplate (t : tmpl) | BResult | BRaise.
