(* Stream machine for reader macros.

   A source stream is a list of top-level chunks.  It belongs to one reader
   object (its own reader_macros table) and one module (_hy_reader_macros).
   Reading a chunk uses the reader's table AT THAT MOMENT; evaluating a form
   (compiling it, which runs defreader's eval-and-compile / eval-when-compile
   and require's compile-time part) updates the module's and the reader's
   tables.  A schedule interleaves reads and evaluations of several streams.
   HyReader._current_reader is a single global, set around every read and
   every evaluation by the generated as_current_reader term. *)
From HyV Require Import Base.Text MacroNS.ReaderMacrosSyntax Gen.MacroReaders.

Definition rname := text.
Definition rmid := N.                              (* identity of a reader-macro function *)
Inductive rmac := RVal (v : N) | RNone.            (* it returns a model (tagged v) or None *)
Definition rtable := list (rname * rmid).

Fixpoint rt_get (n : rname) (t : rtable) : option rmid :=
  match t with
  | [] => None
  | (k, v) :: r => if text_eqb n k then Some v else rt_get n r
  end.
Fixpoint rt_set (n : rname) (m : rmid) (t : rtable) : rtable :=
  match t with
  | [] => [(n, m)]
  | (k, v) :: r => if text_eqb n k then (k, m) :: r else (k, v) :: rt_set n m r
  end.

(* tables of reader objects / of modules, by id *)
Definition tables := list (N * rtable).
Fixpoint tb_get (i : N) (t : tables) : rtable :=
  match t with
  | [] => []
  | (k, v) :: r => if N.eqb i k then v else tb_get i r
  end.
Fixpoint tb_put (i : N) (v : rtable) (t : tables) : tables :=
  match t with
  | [] => [(i, v)]
  | (k, w) :: r => if N.eqb i k then (k, v) :: r else (k, w) :: tb_put i v r
  end.

Record world := mkW { w_readers : tables; w_modules : tables }.

Inductive chunk :=
| CDef (n : rname) (m : rmid)                       (* (defreader n ...) *)
| CList (us : list rname)                           (* [#u1 #u2 ...]     *)
| CBare (u : rname)                                 (* #u at top level   *)
| CReq (src : N) (names : option (list rname))      (* (require src :readers [..]) ; None = :readers STAR *)
| CPlain (v : N).

Inductive form :=
| FDef (n : rname) (m : rmid)
| FVals (vs : list N)
| FReq (src : N) (names : option (list rname))
| FPlain (v : N).

Section Machine.
Variable bodies : rmid -> rmac.

(* ---- reading one chunk with a reader's table *)
Inductive rres := RForm (f : form) | RNoForm | RLexErr.

Fixpoint read_uses (t : rtable) (us : list rname) (acc : list N) : option (list N) :=
  match us with
  | [] => Some acc
  | u :: r =>
      match rt_get u t with
      | None => None                                  (* reader macro '#u' is not defined *)
      | Some m => match bodies m with
                  | RVal v => read_uses t r (acc ++ [v])
                  | RNone => read_uses t r acc        (* None: no form *)
                  end
      end
  end.

Definition read_chunk (t : rtable) (c : chunk) : rres :=
  match c with
  | CDef n m => RForm (FDef n m)
  | CList us => match read_uses t us [] with Some vs => RForm (FVals vs) | None => RLexErr end
  | CBare u => match rt_get u t with
               | None => RLexErr
               | Some m => match bodies m with RVal v => RForm (FVals [v]) | RNone => RNoForm end
               end
  | CReq s ns => RForm (FReq s ns)
  | CPlain v => RForm (FPlain v)
  end.

(* next(lazy): read chunks until one yields a form; (form, rest) / end / error *)
Inductive nres := NForm (f : form) (rest : list chunk) | NEnd | NLex.
Fixpoint next_form (t : rtable) (cs : list chunk) : nres :=
  match cs with
  | [] => NEnd
  | c :: r => match read_chunk t c with
              | RForm f => NForm f r
              | RNoForm => next_form t r
              | RLexErr => NLex
              end
  end.

(* ---- evaluating (compiling) one form in module md, the reader in effect being rd *)
Inductive eres := EOk (out : list N) | EReqErr.

Fixpoint req_names (src : rtable) (ns : list rname) (tgt : rtable) : rtable * bool :=
  match ns with
  | [] => (tgt, false)
  | n :: r => match rt_get n src with
              | Some m => req_names src r (rt_set n m tgt)
              | None => (tgt, true)             (* HyRequireError, earlier names stay *)
              end
  end.

Fixpoint enable (mt : rtable) (ns : list rname) (rt : rtable) : rtable :=
  match ns with
  | [] => rt
  | n :: r => match rt_get n mt with
              | Some m => enable mt r (rt_set n m rt)
              | None => rt
              end
  end.

Definition upd_reader (rd : option N) (f : rtable -> rtable) (w : world) : world :=
  match rd with
  | None => w                                   (* a reader created on the spot and dropped *)
  | Some r => mkW (tb_put r (f (tb_get r (w_readers w))) (w_readers w)) (w_modules w)
  end.

Definition eval_form (md : N) (rd : option N) (f : form) (w : world) : world * eres :=
  match f with
  | FDef n m =>
      let w1 := mkW (w_readers w) (tb_put md (rt_set n m (tb_get md (w_modules w))) (w_modules w)) in
      (upd_reader rd (rt_set n m) w1, EOk [])
  | FReq s ns =>
      let src := tb_get s (w_modules w) in
      let names := match ns with Some l => l | None => map fst src end in
      let '(mt, err) := req_names src names (tb_get md (w_modules w)) in
      let w1 := mkW (w_readers w) (tb_put md mt (w_modules w)) in
      if err then (w1, EReqErr)
      else
        (* enable_readers(None, current_reader(), names or ALL of the module's table) *)
        let en := match ns with Some l => l | None => map fst mt end in
        (upd_reader rd (enable mt en) w1, EOk [])
  | FVals vs => (w, EOk vs)
  | FPlain v => (w, EOk [v])
  end.

(* ---- streams and schedules *)
(* stream i is read by reader object fst cfg_i into module snd cfg_i (fixed);
   its mutable part: chunks not read yet, forms read but not evaluated, dead *)
Variable cfg : list (N * N).
Record stream := mkS { s_todo : list chunk; s_pending : list form; s_dead : bool }.

Inductive action :=
| ARead (s : nat)                     (* next(lazy_s) *)
| AEval (s : nat)                     (* hy.eval(oldest unevaluated form of s, module of s) *)
| ADetached (s : nat) (f : form).     (* hy.eval(a constructed model without .reader, module of s) *)

Definition stream_of (a : action) : nat :=
  match a with ARead s => s | AEval s => s | ADetached s _ => s end.

Inductive event :=
| EvForm (s : nat)                    (* a form was read *)
| EvEnd (s : nat)                     (* StopIteration *)
| EvLex (s : nat)                     (* LexException: reader macro not defined *)
| EvOut (s : nat) (vs : list N)       (* evaluation result *)
| EvReqErr (s : nat)
| EvIdle (s : nat).

Definition ev_stream (e : event) : nat :=
  match e with EvForm s | EvEnd s | EvLex s | EvOut s _ | EvReqErr s | EvIdle s => s end.

Definition inner := (world * list stream)%type.
Definition mstate := (option N * inner)%type.    (* _current_reader, world, streams *)

Fixpoint set_nth {A} (i : nat) (x : A) (l : list A) : list A :=
  match i, l with
  | O, _ :: r => x :: r
  | S j, y :: r => y :: set_nth j x r
  | _, [] => []
  end.

(* bodies of the two `with` blocks: they see the global current reader *)
Definition do_read (i : nat) (rid : N) (st : stream) (ga : option N * inner)
  : (option N * inner) * (bool * list event) :=
  let '(g, (w, ss)) := ga in
  if s_dead st then (ga, (false, [EvEnd i]))
  else match next_form (tb_get rid (w_readers w)) (s_todo st) with
       | NForm f rest => ((g, (w, set_nth i (mkS rest (s_pending st ++ [f]) false) ss)), (false, [EvForm i]))
       | NEnd => ((g, (w, set_nth i (mkS [] (s_pending st) true) ss)), (false, [EvEnd i]))
       | NLex => ((g, (w, set_nth i (mkS [] (s_pending st) true) ss)), (true, [EvLex i]))
       end.

Definition do_eval (i : nat) (md : N) (f : form) (ga : option N * inner)
  : (option N * inner) * (bool * list event) :=
  let '(g, (w, ss)) := ga in
  let '(w', r) := eval_form md g f w in          (* current_reader() = the global at this point *)
  ((g, (w', ss)), match r with EOk vs => (false, [EvOut i vs]) | EReqErr => (true, [EvReqErr i]) end).

(* run a with-body under `with <reader rid>.as_current_reader():` using the generated term *)
Definition under_reader {X} (rid : N) (body : option N * inner -> (option N * inner) * (bool * X))
                        (dflt : X) (m : mstate) : mstate * X :=
  let f := fun ga : option N * (inner * X) =>
             let '((g', a'), (r, x)) := body (fst ga, fst (snd ga)) in ((g', (a', x)), r) in
  let '((g', (a', x)), _) := with_current rid f as_current_reader_term (fst m, (snd m, dflt)) in
  ((g', a'), x).

Definition step (a : action) (m : mstate) : mstate * list event :=
  let '(g, (w, ss)) := m in
  match nth_error cfg (stream_of a), nth_error ss (stream_of a) with
  | Some (rid, md), Some st =>
      match a with
      | ARead i => under_reader rid (do_read i rid st) [] m      (* try_parse_one_form: with self.as_current_reader() *)
      | AEval i =>
          match s_pending st with
          | [] => (m, [EvIdle i])
          | f :: rest =>
              let m1 : mstate := (g, (w, set_nth i (mkS (s_todo st) rest (s_dead st)) ss)) in
              (* hy_compile: with HyReader.using_reader(form.reader) *)
              under_reader rid (do_eval i md f) [] m1
          end
      | ADetached i f =>
          (* no .reader: using_reader(None, create=False) keeps whatever the global is *)
          let '(ga, (_, evs)) := do_eval i md f (g, (w, ss)) in (ga, evs)
      end
  | _, _ => (m, [])
  end.

Fixpoint run (sched : list action) (m : mstate) : mstate * list event :=
  match sched with
  | [] => (m, [])
  | a :: r => let '(m1, e1) := step a m in let '(m2, e2) := run r m1 in (m2, e1 ++ e2)
  end.

(* the schedule hy itself follows for one stream: read a form, evaluate it, repeat *)
Fixpoint pipeline (i : nat) (n : nat) : list action :=
  match n with O => [] | S k => ARead i :: AEval i :: pipeline i k end.

End Machine.
