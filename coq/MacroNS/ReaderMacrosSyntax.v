(* Syntax of the generated term for HyReader.as_current_reader (a generator
   context manager over the class attribute HyReader._current_reader) and its
   interpreter. *)
From HyV Require Import Base.Text.

Inductive rstmt :=
| RSave                                  (* old_reader = HyReader._current_reader *)
| RSetSelf                               (* HyReader._current_reader = self *)
| RRestore                               (* HyReader._current_reader = old_reader *)
| RYield
| RTry (body fin : list rstmt).

Section Exec.
Context {A : Type}.                      (* the rest of the world *)
Variable self : N.
Variable f : option N * A -> (option N * A) * bool.   (* the with-body: sees and may change the global *)

(* state: (global _current_reader, local old_reader, world) ; bool = an exception is propagating.
   Using old_reader before it is assigned is an UnboundLocalError. *)
Definition rstate := (option N * option (option N) * A)%type.

Fixpoint rexec1 (s : rstmt) (st : rstate) : rstate * bool :=
  let '(g, old, a) := st in
  match s with
  | RSave => ((g, Some g, a), false)
  | RSetSelf => ((Some self, old, a), false)
  | RRestore => match old with Some o => ((o, old, a), false) | None => (st, true) end
  | RYield => let '((g', a'), r) := f (g, a) in ((g', old, a'), r)
  | RTry body fin =>
      let rexecs := fix rexecs (ss : list rstmt) (st : rstate) : rstate * bool :=
        match ss with
        | [] => (st, false)
        | s :: rest => let '(st1, r) := rexec1 s st in if r then (st1, true) else rexecs rest st1
        end in
      let '(st1, r1) := rexecs body st in
      let '(st2, r2) := rexecs fin st1 in
      (st2, r1 || r2)
  end.

Fixpoint rexecs (ss : list rstmt) (st : rstate) : rstate * bool :=
  match ss with
  | [] => (st, false)
  | s :: rest => let '(st1, r) := rexec1 s st in if r then (st1, true) else rexecs rest st1
  end.

(* `with reader.as_current_reader(): body` *)
Definition with_current (term : list rstmt) (ga : option N * A) : (option N * A) * bool :=
  let '((g', _, a'), r) := rexecs term (fst ga, None, snd ga) in ((g', a'), r).
End Exec.
