(* Proofs about the reader-macro stream machine. *)
From HyV Require Import Base.Text MacroNS.ReaderMacrosSyntax Gen.MacroReaders MacroNS.ReaderMacrosModel.

Lemma as_current_reader_term_is : as_current_reader_term = [RSave; RSetSelf; RTry [RYield] [RRestore]].
Proof. reflexivity. Qed.

(* ---------- tables *)
Lemma teqb_refl a : text_eqb a a = true.
Proof. apply text_eqb_eq. reflexivity. Qed.

Lemma rt_get_set_same n m t : rt_get n (rt_set n m t) = Some m.
Proof.
  induction t as [|[k v] r IH]; simpl.
  - rewrite teqb_refl. reflexivity.
  - destruct (text_eqb n k) eqn:E; simpl; rewrite E; [reflexivity | exact IH].
Qed.

Lemma rt_get_set_other n n' m t : n' <> n -> rt_get n' (rt_set n m t) = rt_get n' t.
Proof.
  intros Hne. induction t as [|[k v] r IH]; simpl.
  - destruct (text_eqb n' n) eqn:E; [apply text_eqb_eq in E; contradiction | reflexivity].
  - destruct (text_eqb n k) eqn:E; simpl.
    + apply text_eqb_eq in E. subst k.
      destruct (text_eqb n' n) eqn:E2; [apply text_eqb_eq in E2; contradiction | reflexivity].
    + destruct (text_eqb n' k); [reflexivity | exact IH].
Qed.

Lemma rt_set_keeps n m t n' : rt_get n' t <> None -> rt_get n' (rt_set n m t) <> None.
Proof.
  intros H. destruct (text_eqb n' n) eqn:E.
  - apply text_eqb_eq in E. subst. rewrite rt_get_set_same. discriminate.
  - rewrite rt_get_set_other; [exact H|]. intros ->. rewrite teqb_refl in E. discriminate.
Qed.

Lemma tb_get_put_same i v t : tb_get i (tb_put i v t) = v.
Proof.
  induction t as [|[k w] r IH]; simpl.
  - rewrite N.eqb_refl. reflexivity.
  - destruct (N.eqb i k) eqn:E; simpl; rewrite E; [reflexivity | exact IH].
Qed.

Lemma tb_get_put_other i j v t : j <> i -> tb_get j (tb_put i v t) = tb_get j t.
Proof.
  intros Hne. induction t as [|[k w] r IH]; simpl.
  - destruct (N.eqb j i) eqn:E; [apply N.eqb_eq in E; contradiction | reflexivity].
  - destruct (N.eqb i k) eqn:E; simpl.
    + apply N.eqb_eq in E. subst k. destruct (N.eqb j i) eqn:E2; [apply N.eqb_eq in E2; contradiction | reflexivity].
    + destruct (N.eqb j k); [reflexivity | exact IH].
Qed.

Lemma nth_set_same {A} i (x : A) l y : nth_error l i = Some y -> nth_error (set_nth i x l) i = Some x.
Proof. revert l. induction i as [|i IH]; intros [|z l]; simpl; try discriminate; [reflexivity | apply IH]. Qed.

Lemma nth_set_other {A} i j (x : A) l : j <> i -> nth_error (set_nth i x l) j = nth_error l j.
Proof.
  revert j l. induction i as [|i IH]; intros j [|z l] Hne; simpl.
  - destruct j; reflexivity.
  - destruct j; [contradiction | reflexivity].
  - destruct j; reflexivity.
  - destruct j; [reflexivity|]. simpl. apply IH. intros ->. contradiction.
Qed.

Section Proofs.
Variable bodies : rmid -> rmac.
Variable cfg : list (N * N).

Notation step := (step bodies cfg).
Notation run := (run bodies cfg).

(* ---------- the generated as_current_reader term around any body *)
Lemma under_reader_unfold {X} rid (body : option N * inner -> (option N * inner) * (bool * X)) dflt (m : mstate) :
  under_reader rid body dflt m =
  let '((_, a'), (_, x)) := body (Some rid, snd m) in ((fst m, a'), x).
Proof.
  unfold under_reader, with_current. rewrite as_current_reader_term_is. destruct m as [g a]. cbn.
  destruct (body (Some rid, a)) as [[g' a'] [r x]]. cbn. destruct r; reflexivity.
Qed.

Lemma proj_let {X} (p : (option N * inner) * (bool * X)) (g : option N) :
  fst (fst (let '((_, a'), (_, x)) := p in ((g, a'), x))) = g.
Proof. destruct p as [[g' a'] [r x]]. reflexivity. Qed.

(* the global current reader is what it was, after every action, whatever happens *)
Lemma step_global a m : fst (fst (step a m)) = fst m.
Proof.
  destruct m as [g [w ss]]. unfold ReaderMacrosModel.step.
  destruct (nth_error cfg (stream_of a)) as [[rid md]|]; [|reflexivity].
  destruct (nth_error ss (stream_of a)) as [st|]; [|reflexivity].
  destruct a as [i|i|i f].
  - rewrite under_reader_unfold. apply proj_let.
  - destruct (s_pending st) as [|f rest]; [reflexivity|]. rewrite under_reader_unfold. apply proj_let.
  - unfold do_eval. destruct (eval_form md g f w) as [w' r]. destruct r; reflexivity.
Qed.

Theorem current_reader_restored : forall sched m, fst (fst (run sched m)) = fst m.
Proof.
  induction sched as [|a r IH]; intros m; simpl; [reflexivity|].
  pose proof (step_global a m) as H. destruct (step a m) as [m1 e1]. simpl in H.
  specialize (IH m1). destruct (run r m1) as [m2 e2]. simpl in *. congruence.
Qed.

(* step, with the context manager resolved *)
Lemma step_read i g w ss rid md st :
  nth_error cfg i = Some (rid, md) -> nth_error ss i = Some st ->
  step (ARead i) (g, (w, ss)) =
  let '((_, a'), (_, x)) := do_read bodies i rid st (Some rid, (w, ss)) in ((g, a'), x).
Proof. intros H1 H2. unfold ReaderMacrosModel.step. simpl. rewrite H1, H2. rewrite under_reader_unfold. reflexivity. Qed.

Lemma step_eval i g w ss rid md st f rest :
  nth_error cfg i = Some (rid, md) -> nth_error ss i = Some st -> s_pending st = f :: rest ->
  step (AEval i) (g, (w, ss)) =
  let '(w', r) := eval_form md (Some rid) f w in
  ((g, (w', set_nth i (mkS (s_todo st) rest (s_dead st)) ss)),
   match r with EOk vs => [EvOut i vs] | EReqErr => [EvReqErr i] end).
Proof.
  intros H1 H2 H3. unfold ReaderMacrosModel.step. simpl. rewrite H1, H2, H3. rewrite under_reader_unfold.
  unfold do_eval. simpl. destruct (eval_form md (Some rid) f w) as [w' r]. destruct r; reflexivity.
Qed.

Lemma step_detached i f g w ss rid md st :
  nth_error cfg i = Some (rid, md) -> nth_error ss i = Some st ->
  step (ADetached i f) (g, (w, ss)) =
  let '(w', r) := eval_form md g f w in
  ((g, (w', ss)), match r with EOk vs => [EvOut i vs] | EReqErr => [EvReqErr i] end).
Proof.
  intros H1 H2. unfold ReaderMacrosModel.step. simpl. rewrite H1, H2. unfold do_eval.
  destruct (eval_form md g f w) as [w' r]. destruct r; reflexivity.
Qed.

(* ---------- None yields no form *)
Theorem none_yields_no_form t u m rest :
  rt_get u t = Some m -> bodies m = RNone ->
  read_chunk bodies t (CBare u) = RNoForm /\ next_form bodies t (CBare u :: rest) = next_form bodies t rest.
Proof. intros H1 H2. simpl. rewrite H1, H2. split; reflexivity. Qed.

(* inside a sequence a reader macro returning None contributes no element *)
Theorem none_in_list_contributes_nothing t u m rest acc :
  rt_get u t = Some m -> bodies m = RNone ->
  read_uses bodies t (u :: rest) acc = read_uses bodies t rest acc.
Proof. intros H1 H2. simpl. rewrite H1, H2. reflexivity. Qed.

(* ---------- a use before the definition is a syntax error, and kills the stream *)
Theorem use_before_def_is_error i g w ss rid md st u rest :
  nth_error cfg i = Some (rid, md) -> nth_error ss i = Some st -> s_dead st = false ->
  s_todo st = CBare u :: rest -> rt_get u (tb_get rid (w_readers w)) = None ->
  exists ss', step (ARead i) (g, (w, ss)) = ((g, (w, ss')), [EvLex i])
              /\ nth_error ss' i = Some (mkS [] (s_pending st) true).
Proof.
  intros H1 H2 Hd Ht Hn. rewrite (step_read i g w ss rid md st H1 H2). unfold do_read. rewrite Hd, Ht. simpl. rewrite Hn.
  eexists. split; [reflexivity|]. eapply nth_set_same. exact H2.
Qed.

Theorem use_in_list_before_def_is_error i g w ss rid md st us1 u us2 rest :
  nth_error cfg i = Some (rid, md) -> nth_error ss i = Some st -> s_dead st = false ->
  s_todo st = CList (us1 ++ u :: us2) :: rest ->
  Forall (fun x => rt_get x (tb_get rid (w_readers w)) <> None) us1 ->
  rt_get u (tb_get rid (w_readers w)) = None ->
  exists ss', step (ARead i) (g, (w, ss)) = ((g, (w, ss')), [EvLex i]).
Proof.
  intros H1 H2 Hd Ht Hok Hn. rewrite (step_read i g w ss rid md st H1 H2). unfold do_read. rewrite Hd, Ht. simpl. clear Ht.
  assert (forall acc, read_uses bodies (tb_get rid (w_readers w)) (us1 ++ u :: us2) acc = None) as HR.
  { induction us1 as [|x r IH]; intros acc; simpl.
    - rewrite Hn. reflexivity.
    - inversion Hok; subst. destruct (rt_get x (tb_get rid (w_readers w))) as [m|]; [|contradiction].
      destruct (bodies m); apply IH; assumption. }
  rewrite HR. eexists. reflexivity.
Qed.

(* a dead stream never yields another form *)
Theorem dead_stream_stays_dead i g w ss rid md st :
  nth_error cfg i = Some (rid, md) -> nth_error ss i = Some st -> s_dead st = true ->
  step (ARead i) (g, (w, ss)) = ((g, (w, ss)), [EvEnd i]).
Proof. intros H1 H2 Hd. rewrite (step_read i g w ss rid md st H1 H2). unfold do_read. rewrite Hd. reflexivity. Qed.

(* ---------- a definition is usable in every later top-level form *)

(* evaluating (defreader n ...) read by stream i puts n in i's reader and module *)
Theorem defreader_defines i g w ss rid md st n m rest :
  nth_error cfg i = Some (rid, md) -> nth_error ss i = Some st -> s_pending st = FDef n m :: rest ->
  exists w' ss', step (AEval i) (g, (w, ss)) = ((g, (w', ss')), [EvOut i []])
    /\ rt_get n (tb_get rid (w_readers w')) = Some m /\ rt_get n (tb_get md (w_modules w')) = Some m.
Proof.
  intros H1 H2 H3. rewrite (step_eval i g w ss rid md st _ _ H1 H2 H3). simpl.
  eexists. eexists. split; [reflexivity|]. simpl. rewrite !tb_get_put_same, !rt_get_set_same. split; reflexivity.
Qed.

Lemma req_names_keeps src n' : forall ns tgt, rt_get n' tgt <> None -> rt_get n' (fst (req_names src ns tgt)) <> None.
Proof.
  induction ns as [|x r IH]; intros tgt H; simpl; [exact H|].
  destruct (rt_get x src); [|exact H]. apply IH. apply rt_set_keeps. exact H.
Qed.

Lemma enable_keeps mt n' : forall ns rt, rt_get n' rt <> None -> rt_get n' (enable mt ns rt) <> None.
Proof.
  induction ns as [|x r IH]; intros rt H; simpl; [exact H|].
  destruct (rt_get x mt); [|exact H]. apply IH. apply rt_set_keeps. exact H.
Qed.

Lemma upd_reader_keeps rd f w r n' :
  (forall t, rt_get n' t <> None -> rt_get n' (f t) <> None) ->
  rt_get n' (tb_get r (w_readers w)) <> None ->
  rt_get n' (tb_get r (w_readers (upd_reader rd f w))) <> None.
Proof.
  intros Hf H. destruct rd as [r0|]; simpl; [|exact H].
  destruct (N.eq_dec r r0) as [->|Hne]; [rewrite tb_get_put_same; apply Hf; exact H | rewrite tb_get_put_other by exact Hne; exact H].
Qed.

Lemma eval_form_keeps md rd f w r n' :
  rt_get n' (tb_get r (w_readers w)) <> None ->
  rt_get n' (tb_get r (w_readers (fst (eval_form md rd f w)))) <> None.
Proof.
  intros H. destruct f as [n m|vs|s ns|v]; simpl; try exact H.
  - apply upd_reader_keeps; [intros t; apply rt_set_keeps | exact H].
  - destruct (req_names (tb_get s (w_modules w)) match ns with Some l => l | None => map fst (tb_get s (w_modules w)) end
                (tb_get md (w_modules w))) as [mt err].
    destruct err; simpl; [exact H|]. apply upd_reader_keeps; [intros t; apply enable_keeps | exact H].
Qed.

Lemma step_keeps a m r n' :
  rt_get n' (tb_get r (w_readers (fst (snd m)))) <> None ->
  rt_get n' (tb_get r (w_readers (fst (snd (fst (step a m)))))) <> None.
Proof.
  destruct m as [g [w ss]]. intros H. simpl in H.
  destruct (nth_error cfg (stream_of a)) as [[rid md]|] eqn:E1.
  2:{ unfold ReaderMacrosModel.step. rewrite E1. exact H. }
  destruct (nth_error ss (stream_of a)) as [st|] eqn:E2.
  2:{ unfold ReaderMacrosModel.step. rewrite E1, E2. exact H. }
  destruct a as [i|i|i f]; simpl in E1, E2.
  - rewrite (step_read i g w ss rid md st E1 E2). unfold do_read. destruct (s_dead st); [exact H|].
    destruct (next_form bodies (tb_get rid (w_readers w)) (s_todo st)); exact H.
  - destruct (s_pending st) as [|f rest] eqn:E3.
    + unfold ReaderMacrosModel.step. simpl. rewrite E1, E2, E3. exact H.
    + rewrite (step_eval i g w ss rid md st f rest E1 E2 E3).
      pose proof (eval_form_keeps md (Some rid) f w r n' H) as K.
      destruct (eval_form md (Some rid) f w) as [w' res]. exact K.
  - rewrite (step_detached i f g w ss rid md st E1 E2).
    pose proof (eval_form_keeps md g f w r n' H) as K. destruct (eval_form md g f w) as [w' res]. exact K.
Qed.

(* once a reader knows a name it knows it after any further actions of any streams *)
Theorem defined_stays_usable : forall sched m r n',
  rt_get n' (tb_get r (w_readers (fst (snd m)))) <> None ->
  rt_get n' (tb_get r (w_readers (fst (snd (fst (run sched m)))))) <> None.
Proof.
  induction sched as [|a rest IH]; intros m r n' H; simpl; [exact H|].
  pose proof (step_keeps a m r n' H) as K. destruct (step a m) as [m1 e1]. simpl in K.
  specialize (IH m1 r n' K). destruct (run rest m1) as [m2 e2]. exact IH.
Qed.

(* ... so a later top-level use reads without error *)
Theorem later_use_reads i g w ss rid md st u rest :
  nth_error cfg i = Some (rid, md) -> nth_error ss i = Some st -> s_dead st = false ->
  s_todo st = CBare u :: rest -> rt_get u (tb_get rid (w_readers w)) <> None ->
  forall ev, In ev (snd (step (ARead i) (g, (w, ss)))) -> ev <> EvLex i \/ exists c r', rest = c :: r'.
Proof.
  intros H1 H2 Hd Ht Hn ev Hin. rewrite (step_read i g w ss rid md st H1 H2) in Hin. unfold do_read in Hin.
  rewrite Hd, Ht in Hin. simpl in Hin. destruct (rt_get u (tb_get rid (w_readers w))) as [m|]; [|contradiction].
  destruct (bodies m).
  - simpl in Hin. destruct Hin as [<-|[]]. left. discriminate.
  - destruct rest as [|c r']; [|right; eauto]. simpl in Hin. destruct Hin as [<-|[]]. left. discriminate.
Qed.

(* ---------- isolation: what other streams do is invisible *)

Definition view (i : nat) (m : mstate) :=
  match nth_error cfg i with
  | Some (rid, md) => Some (tb_get rid (w_readers (fst (snd m))), tb_get md (w_modules (fst (snd m))), nth_error (snd (snd m)) i)
  | None => None
  end.

Hypothesis readers_distinct : NoDup (map fst cfg).
Hypothesis modules_distinct : NoDup (map snd cfg).

Lemma cfg_distinct i j ri mi rj mj :
  i <> j -> nth_error cfg i = Some (ri, mi) -> nth_error cfg j = Some (rj, mj) -> ri <> rj /\ mi <> mj.
Proof.
  intros Hne Hi Hj. split; intros ->.
  - apply Hne. eapply (proj1 (NoDup_nth_error (map fst cfg))); [exact readers_distinct| |].
    + apply nth_error_Some. rewrite nth_error_map, Hi. discriminate.
    + rewrite !nth_error_map, Hi, Hj. reflexivity.
  - apply Hne. eapply (proj1 (NoDup_nth_error (map snd cfg))); [exact modules_distinct| |].
    + apply nth_error_Some. rewrite nth_error_map, Hi. discriminate.
    + rewrite !nth_error_map, Hi, Hj. reflexivity.
Qed.

Lemma eval_form_other md rd f w r' md' :
  (forall r0, rd = Some r0 -> r0 <> r') -> md <> md' ->
  tb_get r' (w_readers (fst (eval_form md rd f w))) = tb_get r' (w_readers w)
  /\ tb_get md' (w_modules (fst (eval_form md rd f w))) = tb_get md' (w_modules w).
Proof.
  intros Hr Hm.
  assert (forall fn w0, tb_get r' (w_readers (upd_reader rd fn w0)) = tb_get r' (w_readers w0)
                        /\ w_modules (upd_reader rd fn w0) = w_modules w0) as HU.
  { intros fn w0. destruct rd as [r0|]; simpl; [|split; reflexivity].
    split; [|reflexivity]. apply tb_get_put_other. intros ->. exact (Hr r0 eq_refl eq_refl). }
  destruct f as [n m|vs|s ns|v]; simpl; try (split; reflexivity).
  - destruct (HU (rt_set n m) (mkW (w_readers w) (tb_put md (rt_set n m (tb_get md (w_modules w))) (w_modules w)))) as [A B].
    rewrite A, B. simpl. split; [reflexivity|]. apply tb_get_put_other. intros ->. contradiction.
  - destruct (req_names (tb_get s (w_modules w)) match ns with Some l => l | None => map fst (tb_get s (w_modules w)) end
                (tb_get md (w_modules w))) as [mt err].
    destruct err; simpl.
    + split; [reflexivity|]. apply tb_get_put_other. intros ->. contradiction.
    + match goal with |- context [upd_reader rd ?fn ?w0] => destruct (HU fn w0) as [A B] end.
      rewrite A, B. simpl. split; [reflexivity|]. apply tb_get_put_other. intros ->. contradiction.
Qed.

(* one action of another stream, taken while no reader is current, leaves
   stream i's reader table, module table and stream state exactly as they were *)
Theorem other_stream_invisible a i w ss :
  stream_of a <> i -> view i (fst (step a (None, (w, ss)))) = view i (None, (w, ss)).
Proof.
  intros Hne. unfold view. destruct (nth_error cfg i) as [[ri mi]|] eqn:Ei; [|reflexivity].
  destruct (nth_error cfg (stream_of a)) as [[rid md]|] eqn:E1.
  2:{ unfold ReaderMacrosModel.step. rewrite E1. reflexivity. }
  destruct (nth_error ss (stream_of a)) as [st|] eqn:E2.
  2:{ unfold ReaderMacrosModel.step. rewrite E1, E2. reflexivity. }
  destruct (cfg_distinct _ _ _ _ _ _ Hne E1 Ei) as [Dr Dm].
  destruct a as [j|j|j f]; simpl in E1, E2, Hne.
  - rewrite (step_read j None w ss rid md st E1 E2). unfold do_read. destruct (s_dead st); [reflexivity|].
    destruct (next_form bodies (tb_get rid (w_readers w)) (s_todo st)); simpl;
      rewrite nth_set_other by (intros ->; contradiction); reflexivity.
  - destruct (s_pending st) as [|f rest] eqn:E3.
    + unfold ReaderMacrosModel.step. simpl. rewrite E1, E2, E3. reflexivity.
    + rewrite (step_eval j None w ss rid md st f rest E1 E2 E3).
      destruct (eval_form_other md (Some rid) f w ri mi) as [A B].
      { intros r0 H. inversion H; subst. exact Dr. } { exact Dm. }
      destruct (eval_form md (Some rid) f w) as [w' res]. simpl in *. rewrite A, B.
      rewrite nth_set_other by (intros ->; contradiction). reflexivity.
  - rewrite (step_detached j f None w ss rid md st E1 E2).
    destruct (eval_form_other md None f w ri mi) as [A B]. { intros r0 H. discriminate. } { exact Dm. }
    destruct (eval_form md None f w) as [w' res]. simpl in *. rewrite A, B. reflexivity.
Qed.

Lemma run_cons_fst a r m : fst (run (a :: r) m) = fst (run r (fst (step a m))).
Proof. simpl. destruct (step a m) as [m1 e1]. simpl. destruct (run r m1); reflexivity. Qed.

Lemma other_stream_invisible' a i m :
  fst m = None -> stream_of a <> i -> view i (fst (step a m)) = view i m.
Proof. destruct m as [g [w ss]]. simpl. intros -> H. apply other_stream_invisible. exact H. Qed.

Lemma readers_isolated' : forall sched i m,
  fst m = None -> Forall (fun a => stream_of a <> i) sched -> view i (fst (run sched m)) = view i m.
Proof.
  induction sched as [|a r IH]; intros i m Hg HF; [reflexivity|].
  inversion HF; subst. rewrite run_cons_fst.
  rewrite IH; [apply other_stream_invisible'; assumption | rewrite step_global; exact Hg | exact H2].
Qed.

(* for every interleaving: a schedule made only of other streams' actions,
   however long, never changes anything stream i can see *)
Theorem readers_isolated : forall sched i w ss,
  Forall (fun a => stream_of a <> i) sched ->
  view i (fst (run sched (None, (w, ss)))) = view i (None, (w, ss)).
Proof. intros. apply readers_isolated'; [reflexivity | assumption]. Qed.

End Proofs.
