(* Histories of macro-namespace operations and the two semantics the
   theorems relate:

   run_*  the compiler as it is: one mutable cstate; a scope is the generated
          local_state context manager (push, try: body finally: pop) wrapped
          around the body; an exception aborts the top-level form but every
          enclosing finally still runs; the compiler object survives and the
          next top-level form is compiled with it (as in the REPL).
   lex_*  the documented meaning: lexical scoping.  A scope's body is
          evaluated in an environment extended by a fresh frame; when the body
          is over (normally or not) the evaluation continues with the
          environment value it had before -- nothing is popped, nothing can
          leak. *)
From HyV Require Import Base.Text MacroNS.LookupSyntax Gen.MacroLookup MacroNS.LookupModel MacroNS.RequireModel.

Inductive item :=
| IDef (n : name) (m : mid)               (* (defmacro n ...) whose function object is m *)
| IReq (src : name) (sh : rshape)         (* (require src <shape>) *)
| IPragma (b : bool)                      (* (pragma :warn-on-core-shadow b) *)
| ICall (id : N) (n : name)               (* a call (n ...): which macro does it expand with? *)
| IFail                                   (* compilation of this form raises *)
| IScope (body : list item).              (* fn / defn / defclass / lfor...: a macro scope *)

Inductive event :=
| EWarn (n : name)                        (* RuntimeWarning: New macro `n` will shadow the core macro *)
| ECall (id : N) (r : option mid)         (* call id resolved to macro r (None: not a macro call) *)
| EReqErr                                 (* HyRequireError *)
| EAbort.                                 (* the top-level form was abandoned *)

Section Machine.
Variable core : ns.
Variable env : srcenv.

Definition mstate := (cstate * list event)%type.

Definition m_push (a : mstate) : mstate := (push_frame (fst a), snd a).
Definition m_pop (a : mstate) : option mstate :=
  match pop_frame (fst a) with Some c => Some (c, snd a) | None => None end.

(* one non-scope item *)
Definition run_simple (i : item) (a : mstate) : mstate * bool :=
  let '(c, out) := a in
  match i with
  | IDef n m => ((do_defmacro c n m, out ++ map EWarn (shadow_warning core c n)), false)
  | IReq src sh =>
      let '(c', w, err) := do_require core env c src sh in
      ((c', out ++ map EWarn w ++ (if err then [EReqErr] else [])), err)
  | IPragma b => ((do_pragma c b, out), false)
  | ICall id n => ((c, out ++ [ECall id (lookup core c n)]), false)
  | IFail => ((c, out), true)
  | IScope _ => ((c, out), false)
  end.

Fixpoint run_item (i : item) (a : mstate) : mstate * bool :=
  match i with
  | IScope body =>
      let run_items := fix run_items (l : list item) (a : mstate) : mstate * bool :=
        match l with
        | [] => (a, false)
        | i :: r => let '(a1, raised) := run_item i a in
                    if raised then (a1, true) else run_items r a1
        end in
      execs m_push m_pop (run_items body) local_state_term a
  | _ => run_simple i a
  end.

Fixpoint run_items (l : list item) (a : mstate) : mstate * bool :=
  match l with
  | [] => (a, false)
  | i :: r => let '(a1, raised) := run_item i a in
              if raised then (a1, true) else run_items r a1
  end.

Lemma run_item_scope body a :
  run_item (IScope body) a = execs m_push m_pop (run_items body) local_state_term a.
Proof. reflexivity. Qed.

(* top-level forms, one compiler for all of them *)
Fixpoint run_top (forms : list item) (a : mstate) : mstate :=
  match forms with
  | [] => a
  | i :: r => let '(a1, raised) := run_item i a in
              run_top r (if raised then (fst a1, snd a1 ++ [EAbort]) else a1)
  end.

(* ---- the lexical reading *)

(* the compiler-independent part: module macros; the environment is a
   cstate VALUE that is passed down and never restored *)
Fixpoint lex_item (i : item) (c : cstate) (out : list event) : cstate * list event * bool :=
  match i with
  | IScope body =>
      let lex_items := fix lex_items (l : list item) (c : cstate) (out : list event) : cstate * list event * bool :=
        match l with
        | [] => (c, out, false)
        | i :: r => let '(c1, out1, raised) := lex_item i c out in
                    if raised then (c1, out1, true) else lex_items r c1 out1
        end in
      let '(c1, out1, raised) := lex_items body (push_frame c) out in
      (* the scope is over: continue in the environment we had, keeping only
         what is not scoped (the module's macro table) *)
      (mkC (c_extra c) (c_stack c) (c_module c1), out1, raised)
  | _ => let '((c1, out1), raised) := run_simple i (c, out) in (c1, out1, raised)
  end.

Fixpoint lex_items (l : list item) (c : cstate) (out : list event) : cstate * list event * bool :=
  match l with
  | [] => (c, out, false)
  | i :: r => let '(c1, out1, raised) := lex_item i c out in
              if raised then (c1, out1, true) else lex_items r c1 out1
  end.

Lemma lex_item_scope body c out :
  lex_item (IScope body) c out =
  let '(c1, out1, raised) := lex_items body (push_frame c) out in
  (mkC (c_extra c) (c_stack c) (c_module c1), out1, raised).
Proof. reflexivity. Qed.

Fixpoint lex_top (forms : list item) (c : cstate) (out : list event) : cstate * list event :=
  match forms with
  | [] => (c, out)
  | i :: r => let '(c1, out1, raised) := lex_item i c out in
              lex_top r c1 (if raised then out1 ++ [EAbort] else out1)
  end.

End Machine.
