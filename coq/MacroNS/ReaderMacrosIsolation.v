(* Isolation as a projection: for every interleaving, what stream i observes
   is what it observes when only its own actions are run. *)
From HyV Require Import Base.Text MacroNS.ReaderMacrosSyntax Gen.MacroReaders
  MacroNS.ReaderMacrosModel MacroNS.ReaderMacrosProofs.

Section Isolation.
Variable bodies : rmid -> rmac.
Variable cfg : list (N * N).
Hypothesis readers_distinct : NoDup (map fst cfg).
Hypothesis modules_distinct : NoDup (map snd cfg).
Variable i : nat.
Variable rid md : N.
Hypothesis Hcfg : nth_error cfg i = Some (rid, md).

Notation step := (step bodies cfg).
Notation run := (run bodies cfg).

(* the stream only requires from modules that no stream writes to *)
Definition static_form (f : form) : Prop :=
  match f with FReq s _ => ~ In s (map snd cfg) | _ => True end.
Definition static_chunk (c : chunk) : Prop :=
  match c with CReq s _ => ~ In s (map snd cfg) | _ => True end.
Definition wf_stream (st : stream) : Prop :=
  Forall static_chunk (s_todo st) /\ Forall static_form (s_pending st).
Definition own_static (a : action) : Prop :=
  match a with ADetached j f => j = i -> static_form f | _ => True end.

Definition agree (m m' : mstate) : Prop :=
  fst m = None /\ fst m' = None
  /\ tb_get rid (w_readers (fst (snd m))) = tb_get rid (w_readers (fst (snd m')))
  /\ tb_get md (w_modules (fst (snd m))) = tb_get md (w_modules (fst (snd m')))
  /\ nth_error (snd (snd m)) i = nth_error (snd (snd m')) i
  /\ (forall s, ~ In s (map snd cfg) -> tb_get s (w_modules (fst (snd m))) = tb_get s (w_modules (fst (snd m'))))
  /\ (forall st, nth_error (snd (snd m)) i = Some st -> wf_stream st).

Lemma md_is_stream_module : In md (map snd cfg).
Proof. apply in_map_iff. exists (rid, md). split; [reflexivity | eapply nth_error_In; exact Hcfg]. Qed.

Lemma static_neq s : ~ In s (map snd cfg) -> s <> md.
Proof. intros H ->. apply H. exact md_is_stream_module. Qed.

(* ---- evaluation depends only on what the stream can see *)
Lemma eval_form_static md0 rd f w s :
  s <> md0 -> tb_get s (w_modules (fst (eval_form md0 rd f w))) = tb_get s (w_modules w).
Proof.
  intros Hne.
  assert (forall fn w0, w_modules (upd_reader rd fn w0) = w_modules w0) as HU.
  { intros fn w0. destruct rd; reflexivity. }
  destruct f as [n m|vs|s0 ns|v]; simpl; try reflexivity.
  - rewrite HU. simpl. apply tb_get_put_other. exact Hne.
  - destruct (req_names (tb_get s0 (w_modules w)) match ns with Some l => l | None => map fst (tb_get s0 (w_modules w)) end
                (tb_get md0 (w_modules w))) as [mt err].
    destruct err; simpl; [|rewrite HU; simpl]; apply tb_get_put_other; exact Hne.
Qed.

Lemma eval_form_det rd f w w' :
  (rd = Some rid \/ rd = None) -> static_form f ->
  tb_get rid (w_readers w) = tb_get rid (w_readers w') ->
  tb_get md (w_modules w) = tb_get md (w_modules w') ->
  (forall s, ~ In s (map snd cfg) -> tb_get s (w_modules w) = tb_get s (w_modules w')) ->
  snd (eval_form md rd f w) = snd (eval_form md rd f w')
  /\ tb_get rid (w_readers (fst (eval_form md rd f w))) = tb_get rid (w_readers (fst (eval_form md rd f w')))
  /\ tb_get md (w_modules (fst (eval_form md rd f w))) = tb_get md (w_modules (fst (eval_form md rd f w'))).
Proof.
  intros Hrd Hst HR HM HS.
  assert (forall fn w0 w0', tb_get rid (w_readers w0) = tb_get rid (w_readers w0') ->
            tb_get rid (w_readers (upd_reader rd fn w0)) = tb_get rid (w_readers (upd_reader rd fn w0'))
            /\ w_modules (upd_reader rd fn w0) = w_modules w0 /\ w_modules (upd_reader rd fn w0') = w_modules w0') as HU.
  { intros fn w0 w0' H0. destruct Hrd as [-> | ->]; simpl.
    - rewrite !tb_get_put_same, H0. repeat split.
    - repeat split. exact H0. }
  destruct f as [n m|vs|s0 ns|v]; simpl; try (repeat split; assumption).
  - match goal with |- context [upd_reader rd ?fn ?a] =>
      match goal with |- context [upd_reader rd fn ?b] =>
        tryif constr_eq a b then fail else destruct (HU fn a b) as [A [B C]] end end; [simpl; exact HR|].
    rewrite A, B, C. simpl. rewrite !tb_get_put_same, HM. repeat split.
  - simpl in Hst. rewrite (HS s0 Hst), HM.
    destruct (req_names (tb_get s0 (w_modules w')) match ns with Some l => l | None => map fst (tb_get s0 (w_modules w')) end
                (tb_get md (w_modules w'))) as [mt err].
    destruct err; simpl.
    + rewrite !tb_get_put_same. repeat split. exact HR.
    + match goal with |- context [upd_reader rd ?fn ?a] =>
        match goal with |- context [upd_reader rd fn ?b] =>
          tryif constr_eq a b then fail else destruct (HU fn a b) as [A [B C]] end end; [simpl; exact HR|].
      rewrite A, B, C. simpl. rewrite !tb_get_put_same. repeat split.
Qed.

Lemma read_chunk_static t c f : static_chunk c -> read_chunk bodies t c = RForm f -> static_form f.
Proof.
  destruct c as [n m|us|u|s ns|v]; simpl; intros Hs H.
  - inversion H; subst. exact I.
  - destruct (read_uses bodies t us []); inversion H; subst. exact I.
  - destruct (rt_get u t) as [m|]; [|discriminate]. destruct (bodies m); inversion H; subst. exact I.
  - inversion H; subst. exact Hs.
  - inversion H; subst. exact I.
Qed.

Lemma next_form_static t : forall cs f rest, Forall static_chunk cs -> next_form bodies t cs = NForm f rest ->
  static_form f /\ Forall static_chunk rest.
Proof.
  induction cs as [|c r IH]; intros f rest HF H; simpl in H; [discriminate|].
  inversion HF; subst. destruct (read_chunk bodies t c) as [f0| |] eqn:E.
  - inversion H; subst. split; [eapply read_chunk_static; eassumption | assumption].
  - apply IH; assumption.
  - discriminate.
Qed.

(* ---- every event of an action belongs to the action's stream *)
Lemma step_events a m : Forall (fun e => ev_stream e = stream_of a) (snd (step a m)).
Proof.
  unfold mstate, inner in *. destruct m as [g [w ss]].
  destruct (nth_error cfg (stream_of a)) as [[r0 m0]|] eqn:E1.
  2:{ unfold ReaderMacrosModel.step. rewrite E1. constructor. }
  destruct (nth_error ss (stream_of a)) as [st|] eqn:E2.
  2:{ unfold ReaderMacrosModel.step. rewrite E1, E2. constructor. }
  destruct a as [j|j|j f]; simpl in E1, E2.
  - rewrite (step_read bodies cfg j g w ss r0 m0 st E1 E2). unfold do_read. destruct (s_dead st); [repeat constructor|].
    destruct (next_form bodies (tb_get r0 (w_readers w)) (s_todo st)); repeat constructor.
  - destruct (s_pending st) as [|f rest] eqn:E3.
    + unfold ReaderMacrosModel.step. simpl. rewrite E1, E2, E3. repeat constructor.
    + rewrite (step_eval bodies cfg j g w ss r0 m0 st f rest E1 E2 E3).
      destruct (eval_form m0 (Some r0) f w) as [w' res]. destruct res; repeat constructor.
  - rewrite (step_detached bodies cfg j f g w ss r0 m0 st E1 E2).
    destruct (eval_form m0 g f w) as [w' res]. destruct res; repeat constructor.
Qed.

(* ---- static modules are never written *)
Lemma step_static a m s : ~ In s (map snd cfg) ->
  tb_get s (w_modules (fst (snd (fst (step a m))))) = tb_get s (w_modules (fst (snd m))).
Proof.
  intros Hs. unfold mstate, inner in *. destruct m as [g [w ss]].
  destruct (nth_error cfg (stream_of a)) as [[r0 m0]|] eqn:E1.
  2:{ unfold ReaderMacrosModel.step. rewrite E1. reflexivity. }
  destruct (nth_error ss (stream_of a)) as [st|] eqn:E2.
  2:{ unfold ReaderMacrosModel.step. rewrite E1, E2. reflexivity. }
  assert (Hne : s <> m0).
  { intros ->. apply Hs. apply in_map_iff. exists (r0, m0). split; [reflexivity | eapply nth_error_In; exact E1]. }
  destruct a as [j|j|j f]; simpl in E1, E2.
  - rewrite (step_read bodies cfg j g w ss r0 m0 st E1 E2). unfold do_read. destruct (s_dead st); [reflexivity|].
    destruct (next_form bodies (tb_get r0 (w_readers w)) (s_todo st)); reflexivity.
  - destruct (s_pending st) as [|f rest] eqn:E3.
    + unfold ReaderMacrosModel.step. simpl. rewrite E1, E2, E3. reflexivity.
    + rewrite (step_eval bodies cfg j g w ss r0 m0 st f rest E1 E2 E3).
      pose proof (eval_form_static m0 (Some r0) f w s Hne) as K.
      destruct (eval_form m0 (Some r0) f w) as [w' res]. exact K.
  - rewrite (step_detached bodies cfg j f g w ss r0 m0 st E1 E2).
    pose proof (eval_form_static m0 g f w s Hne) as K. destruct (eval_form m0 g f w) as [w' res]. exact K.
Qed.

Lemma mk_agree (m m' : mstate) :
  fst m = None -> fst m' = None ->
  tb_get rid (w_readers (fst (snd m))) = tb_get rid (w_readers (fst (snd m'))) ->
  tb_get md (w_modules (fst (snd m))) = tb_get md (w_modules (fst (snd m'))) ->
  nth_error (snd (snd m)) i = nth_error (snd (snd m')) i ->
  (forall s, ~ In s (map snd cfg) -> tb_get s (w_modules (fst (snd m))) = tb_get s (w_modules (fst (snd m')))) ->
  (forall st, nth_error (snd (snd m)) i = Some st -> wf_stream st) ->
  agree m m'.
Proof. intros. unfold agree. tauto. Qed.

(* ---- an action of another stream, on the left only, keeps the agreement *)
Lemma agree_other a m m' : stream_of a <> i -> agree m m' -> agree (fst (step a m)) m'.
Proof.
  intros Hne [G [G' [R [M [S [St W]]]]]].
  pose proof (other_stream_invisible' bodies cfg readers_distinct modules_distinct a i m G Hne) as V.
  unfold view in V. rewrite Hcfg in V. inversion V as [[V1 V2 V3]].
  apply mk_agree.
  - rewrite step_global. exact G.
  - exact G'.
  - rewrite V1. exact R.
  - rewrite V2. exact M.
  - rewrite V3. exact S.
  - intros s Hs. rewrite step_static by exact Hs. apply St. exact Hs.
  - intros st9 Hst. rewrite V3 in Hst. apply W. exact Hst.
Qed.

(* ---- an action of stream i, on both sides: same events, agreement kept *)
Lemma agree_own a m m' : stream_of a = i -> own_static a -> agree m m' ->
  snd (step a m) = snd (step a m') /\ agree (fst (step a m)) (fst (step a m')).
Proof.
  intros Hi Hown [G [G' [R [M [S [St W]]]]]].
  unfold mstate, inner in *. destruct m as [g [w ss]]. destruct m' as [g' [w' ss']]. cbn [fst snd] in *. subst g g'.
  destruct (nth_error ss i) as [st|] eqn:E2.
  2:{ unfold ReaderMacrosModel.step. rewrite Hi, Hcfg, E2, <- S. split; [reflexivity|].
      apply mk_agree; simpl; first [assumption | reflexivity | congruence | (intros st0 H0; congruence)]. }
  symmetry in S. destruct (W st eq_refl) as [Wt Wp].
  destruct a as [j|j|j f]; simpl in Hi; subst j.
  - rewrite (step_read bodies cfg i None w ss rid md st Hcfg E2), (step_read bodies cfg i None w' ss' rid md st Hcfg S).
    unfold do_read. rewrite <- R. destruct (s_dead st).
    + split; [reflexivity|]. apply mk_agree; simpl; try assumption; try reflexivity.
      * rewrite E2, S. reflexivity.
      * rewrite E2. intros st0 H0. inversion H0; subst. split; assumption.
    + destruct (next_form bodies (tb_get rid (w_readers w)) (s_todo st)) as [f rest| |] eqn:En; simpl.
      * destruct (next_form_static _ _ _ _ Wt En) as [Hf Hrest].
        split; [reflexivity|]. apply mk_agree; simpl; try assumption; try reflexivity.
        -- rewrite (nth_set_same i _ ss st E2), (nth_set_same i _ ss' st S). reflexivity.
        -- rewrite (nth_set_same i _ ss st E2). intros st0 H0. inversion H0; subst. split; simpl; [exact Hrest|].
           apply Forall_app. split; [exact Wp | constructor; [exact Hf | constructor]].
      * split; [reflexivity|]. apply mk_agree; simpl; try assumption; try reflexivity.
        -- rewrite (nth_set_same i _ ss st E2), (nth_set_same i _ ss' st S). reflexivity.
        -- rewrite (nth_set_same i _ ss st E2). intros st0 H0. inversion H0; subst. split; simpl; [constructor | exact Wp].
      * split; [reflexivity|]. apply mk_agree; simpl; try assumption; try reflexivity.
        -- rewrite (nth_set_same i _ ss st E2), (nth_set_same i _ ss' st S). reflexivity.
        -- rewrite (nth_set_same i _ ss st E2). intros st0 H0. inversion H0; subst. split; simpl; [constructor | exact Wp].
  - destruct (s_pending st) as [|f rest] eqn:E3.
    + unfold ReaderMacrosModel.step. simpl. rewrite Hcfg, E2, S, E3. split; [reflexivity|].
      apply mk_agree; simpl; try assumption; try reflexivity.
      * rewrite E2, S. reflexivity.
      * rewrite E2. intros st0 H0. inversion H0; subst. split; [exact Wt | rewrite E3; exact Wp].
    + rewrite (step_eval bodies cfg i None w ss rid md st f rest Hcfg E2 E3),
              (step_eval bodies cfg i None w' ss' rid md st f rest Hcfg S E3).
      inversion Wp; subst.
      destruct (eval_form_det (Some rid) f w w' (or_introl eq_refl) H1 R M St) as [D1 [D2 D3]].
      pose proof (fun s Hs => eval_form_static md (Some rid) f w s (static_neq s Hs)) as K1.
      pose proof (fun s Hs => eval_form_static md (Some rid) f w' s (static_neq s Hs)) as K2.
      destruct (eval_form md (Some rid) f w) as [w1 r1]. destruct (eval_form md (Some rid) f w') as [w1' r1'].
      simpl in *. subst r1'. split; [reflexivity|]. apply mk_agree; simpl; try assumption; try reflexivity.
      * rewrite (nth_set_same i _ ss st E2), (nth_set_same i _ ss' st S). reflexivity.
      * intros s Hs. rewrite K1, K2 by exact Hs. apply St. exact Hs.
      * rewrite (nth_set_same i _ ss st E2). intros st0 H0. inversion H0; subst. split; simpl; assumption.
  - rewrite (step_detached bodies cfg i f None w ss rid md st Hcfg E2), (step_detached bodies cfg i f None w' ss' rid md st Hcfg S).
    simpl in Hown. specialize (Hown eq_refl).
    destruct (eval_form_det None f w w' (or_intror eq_refl) Hown R M St) as [D1 [D2 D3]].
    pose proof (fun s Hs => eval_form_static md None f w s (static_neq s Hs)) as K1.
    pose proof (fun s Hs => eval_form_static md None f w' s (static_neq s Hs)) as K2.
    destruct (eval_form md None f w) as [w1 r1]. destruct (eval_form md None f w') as [w1' r1'].
    simpl in *. subst r1'. split; [reflexivity|]. apply mk_agree; simpl; try assumption; try reflexivity.
    + rewrite E2, S. reflexivity.
    + intros s Hs. rewrite K1, K2 by exact Hs. apply St. exact Hs.
    + rewrite E2. intros st0 H0. inversion H0; subst. split; assumption.
Qed.

Definition mine (a : action) : bool := Nat.eqb (stream_of a) i.
Definition my_event (e : event) : bool := Nat.eqb (ev_stream e) i.

Lemma filter_all_mine a m : stream_of a = i -> filter my_event (snd (step a m)) = snd (step a m).
Proof.
  intros H. pose proof (step_events a m) as F. induction (snd (step a m)) as [|e r IH]; [reflexivity|].
  inversion F; subst. simpl. unfold my_event at 1. rewrite H2, H, Nat.eqb_refl. f_equal. apply IH. exact H3.
Qed.

Lemma filter_none_mine a m : stream_of a <> i -> filter my_event (snd (step a m)) = [].
Proof.
  intros H. pose proof (step_events a m) as F. induction (snd (step a m)) as [|e r IH]; [reflexivity|].
  inversion F; subst. simpl. unfold my_event at 1. rewrite H2.
  destruct (Nat.eqb (stream_of a) i) eqn:E; [apply Nat.eqb_eq in E; contradiction|]. apply IH. exact H3.
Qed.

(* For EVERY interleaving: the events stream i observes are exactly the events
   of running its own actions alone (in the same relative order). *)
Theorem interleaving_projection : forall sched m m',
  agree m m' -> Forall own_static sched ->
  filter my_event (snd (run sched m)) = snd (run (filter mine sched) m').
Proof.
  induction sched as [|a r IH]; intros m m' Ha Hs; [reflexivity|].
  inversion Hs; subst. cbn [ReaderMacrosModel.run filter]. unfold mine at 1.
  destruct (Nat.eqb (stream_of a) i) eqn:E.
  - apply Nat.eqb_eq in E. destruct (agree_own a m m' E H1 Ha) as [Ev Ag].
    cbn [ReaderMacrosModel.run]. pose proof (filter_all_mine a m E) as Fm.
    destruct (step a m) as [m1 e1]. destruct (step a m') as [m1' e1']. simpl in Ev, Ag, Fm. subst e1'.
    specialize (IH m1 m1' Ag H2). destruct (run r m1) as [m2 e2]. destruct (run (filter mine r) m1') as [m2' e2'].
    simpl in *. rewrite filter_app, Fm, IH. reflexivity.
  - assert (Hne : stream_of a <> i) by (intros H; rewrite H, Nat.eqb_refl in E; discriminate).
    pose proof (agree_other a m m' Hne Ha) as Ag. pose proof (filter_none_mine a m Hne) as Fm.
    destruct (step a m) as [m1 e1]. simpl in Ag, Fm.
    specialize (IH m1 m' Ag H2). destruct (run r m1) as [m2 e2]. simpl in *. rewrite filter_app, Fm, IH. reflexivity.
Qed.

End Isolation.

Definition example_state : mstate :=
  (None, (mkW [] [(100, [([97], 5)])], [mkS [CReq 100 None; CBare [97]] [] false; mkS [CDef [97] 6] [] false])).

Example agree_example : agree [(1, 1); (2, 2)] 0 1 1 example_state example_state.
Proof.
  unfold agree.
  refine (conj eq_refl (conj eq_refl (conj eq_refl (conj eq_refl (conj eq_refl (conj (fun _ _ => eq_refl) _)))))).
  intros st9 H. cbn in H. injection H as <-. split; cbn.
  - constructor.
    + cbn. intros [H1|[H1|[]]]; discriminate.
    + constructor; [exact I | constructor].
  - constructor.
Qed.
