(* C15: obligations on the generated constants and worked examples. *)
From Coq Require Import String Ascii.
From HyV Require Import Base.Text Gen.CmdSuffixes Gen.CmdRequire Cmd.CmdlineModel Cmd.CmdlineProofs
  Cmd.ImporterModel Cmd.ImporterProofs.

(* the literals the model relies on occur in the source functions they were read from *)
Lemma g_require_literals :
  forallb (fun s => in_texts s require_literals)
    [txt "ALL"; txt "EXPORTS"; txt "_hy_macros"; txt "_hy_export_macros"; txt "_"; txt "."] = true.
Proof. vm_compute. reflexivity. Qed.
Lemma g_shape_literals :
  forallb (fun s => in_texts s assignment_shape_literals) [txt "EXPORTS"; txt "*"; txt "as"; []] = true.
Proof. vm_compute. reflexivity. Qed.
Lemma g_emitted_keywords : emitted_keywords = [txt "target_module_name"; txt "assignments"; txt "prefix"].
Proof. vm_compute. reflexivity. Qed.
Lemma g_path_conventions : os_sep = 47 /\ os_extsep = 46.
Proof. split; reflexivity. Qed.

(* files that are / are not Hy source *)
Example ex_hy_file : could_be_hy (txt "pkg/mod.hy") = true. Proof. vm_compute. reflexivity. Qed.
Example ex_py_file : could_be_hy (txt "pkg/mod.py") = false. Proof. vm_compute. reflexivity. Qed.
Example ex_no_ext : could_be_hy (txt "bin/script") = true. Proof. vm_compute. reflexivity. Qed.
Example ex_txt : could_be_hy (txt "notes.txt") = true. Proof. vm_compute. reflexivity. Qed.
Example ex_dotfile : could_be_hy (txt "dir.d/.py") = true. Proof. vm_compute. reflexivity. Qed.
Example ex_double : could_be_hy (txt "a.hy.py") = false. Proof. vm_compute. reflexivity. Qed.

(* every name `stem.py` (stem not starting with a dot) in any directory is Python,
   every `stem.hy` is Hy *)
Theorem py_extension_is_python dir c stem :
  (dir = [] \/ exists d, dir = d ++ [os_sep]) -> N.eqb c os_extsep = false -> mem os_sep (c :: stem) = false ->
  could_be_hy (dir ++ c :: stem ++ txt ".py") = false.
Proof.
  intros Hd Hc Hs. unfold could_be_hy.
  change (txt ".py") with (os_extsep :: txt "py").
  rewrite (ext_of_component c stem (txt "py") Hc eq_refl); [reflexivity | | exact Hd].
  cbn [mem existsb] in *. fold (mem os_sep stem) in Hs. fold (mem os_sep (stem ++ os_extsep :: txt "py")).
  apply orb_false_iff in Hs. destruct Hs as [H1 H2]. rewrite H1. cbn [orb].
  unfold mem in *. rewrite existsb_app, H2. reflexivity.
Qed.

Theorem hy_extension_is_hy dir c stem :
  (dir = [] \/ exists d, dir = d ++ [os_sep]) -> N.eqb c os_extsep = false -> mem os_sep (c :: stem) = false ->
  could_be_hy (dir ++ c :: stem ++ txt ".hy") = true.
Proof.
  intros Hd Hc Hs. unfold could_be_hy.
  change (txt ".hy") with (os_extsep :: txt "hy").
  rewrite (ext_of_component c stem (txt "hy") Hc eq_refl); [reflexivity | | exact Hd].
  cbn [mem existsb] in *. fold (mem os_sep stem) in Hs. fold (mem os_sep (stem ++ os_extsep :: txt "hy")).
  apply orb_false_iff in Hs. destruct Hs as [H1 H2]. rewrite H1. cbn [orb].
  unfold mem in *. rewrite existsb_app, H2. reflexivity.
Qed.

Theorem no_extension_is_hy dir b :
  (dir = [] \/ exists d, dir = d ++ [os_sep]) -> mem os_sep b = false -> mem os_extsep b = false ->
  could_be_hy (dir ++ b) = true.
Proof. intros Hd Hs He. unfold could_be_hy. rewrite (ext_of_no_dot b Hs He dir Hd). reflexivity. Qed.

(* ---- a worked require example: (require src [m-a :as al] pk [sub]) + (require src) + defmacro ---- *)
Definition ex_env : menv :=
  [ (txt "src", {| hm_macros := [(txt "m_a", 1); (txt "_hid", 2); (txt "zed", 3)]; hm_exports := None |});
    (txt "pk", {| hm_macros := []; hm_exports := None |});
    (txt "pk.sub", {| hm_macros := [(txt "s1", 4)]; hm_exports := Some [] |});
    (txt "empty", {| hm_macros := [(txt "_only", 5)]; hm_exports := None |}) ].
Definition ex_ops : list mop :=
  [ OpRequire (compile_time_args mangle_simple (MPlain [txt "src"]) (Some (INames [(txt "m-a", Some (txt "al")); (txt "zed", None)])));
    OpRequire (compile_time_args mangle_simple (MPlain [txt "pk"]) (Some (INames [(txt "sub", None)])));
    OpRequire (compile_time_args mangle_simple (MPlain [txt "src"]) None);
    OpRequire (compile_time_args mangle_simple (MPlain [txt "empty"]) (Some IStar));
    OpDefmacro (txt "own-mac") 9 ].
Example ex_compiles : compile_pass mangle_simple ex_env ex_ops []
  = inr [(txt "al", 1); (txt "zed", 3); (txt "sub.s1", 4); (txt "src.m_a", 1); (txt "src._hid", 2); (txt "src.zed", 3); (txt "own_mac", 9)].
Proof. vm_compute. reflexivity. Qed.
(* the star-require of module "empty" transfers nothing, so no run-time call is emitted for it *)
Example ex_emits : map (emits mangle_simple ex_env) ex_ops = [true; true; true; false; true].
Proof. vm_compute. reflexivity. Qed.
Example ex_mirror :
  run_time_args (emitted_call mangle_simple (MRel 2 [txt "a-b"; txt "c"]) (Some (IAs (txt "my-al"))) (txt "pkg.mod"))
  = Some ({| ca_module := txt "..a_b.c"; ca_assignments := AAll; ca_prefix := txt "my_al" |}, txt "pkg.mod").
Proof. vm_compute. reflexivity. Qed.
