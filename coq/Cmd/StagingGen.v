(* C16: the dispatch of compile_eval_foo_compile as regenerated from the source is the
   one Cmd/StagingModel.v implements constructor by constructor. *)
From Coq Require Import String Ascii.
From HyV Require Import Base.Text Gen.CmdTables Gen.CmdStaging Cmd.CmdlineModel Cmd.StagingModel.

Definition leaves (name : text) : N :=
  match find (fun x => text_eqb (fst x) name) staging_dispatch with
  | Some x => snd x
  | None => staging_default
  end.

(* 2 = the body is compiled again and left in the program (FEvalAndCompile),
   0 = nothing is left (FEvalWhenCompile), 1 = the value is compiled as code (FDoMac);
   no other name is served *)
Lemma g_staging_dispatch :
  leaves (txt "eval-and-compile") = 2 /\ leaves (txt "eval-when-compile") = 0 /\ leaves (txt "do-mac") = 1
  /\ length staging_names = 3%nat
  /\ forallb (fun n => existsb (text_eqb n) staging_names)
       [txt "eval-and-compile"; txt "eval-when-compile"; txt "do-mac"] = true.
Proof. vm_compute. repeat split; reflexivity. Qed.
